/-
  Soundness of `chk`: a hook program that passes the checker, run on a JSON value that has a typed
  reading in the abstract state, returns a typed reading of the same value at the hooked annotation.
-/
import LspVerif.Props.Dispatch
namespace LspVerif

variable (E : Env) (bad : List PyTy)

/-! ### size of a JSON value (the induction measure of the totality theorem) -/

mutual
def Json.size : Json → Nat
  | .arr xs => 1 + sizeL xs
  | .obj kvs => 1 + sizeK kvs
  | _ => 1
def sizeL : List Json → Nat
  | [] => 0
  | x :: xs => x.size + sizeL xs
def sizeK : List (Name × Json) → Nat
  | [] => 0
  | (_, x) :: rest => x.size + sizeK rest
end

theorem Json.size_pos (j : Json) : 0 < j.size := by
  cases j <;> simp [Json.size] <;> omega

theorem size_mem_arr : ∀ (xs : List Json) (x : Json), x ∈ xs → x.size < (Json.arr xs).size
  | [], _, h => by simp at h
  | y :: ys, x, h => by
    rcases List.mem_cons.mp h with rfl | hm
    · simp [Json.size, sizeL]; omega
    · have := size_mem_arr ys x hm
      simp [Json.size, sizeL] at this ⊢; omega

theorem size_mem_obj : ∀ (kvs : List (Name × Json)) (kv : Name × Json), kv ∈ kvs → kv.2.size < (Json.obj kvs).size
  | [], _, h => by simp at h
  | (k, y) :: rest, kv, h => by
    rcases List.mem_cons.mp h with rfl | hm
    · simp [Json.size, sizeK]; omega
    · have := size_mem_obj rest kv hm
      simp [Json.size, sizeK] at this ⊢; omega

theorem lookup_mem : ∀ (kvs : List (Name × Json)) (k : Name) (x : Json), Json.lookup kvs k = some x → ∃ k', (k', x) ∈ kvs
  | [], _, _, h => by simp [Json.lookup] at h
  | (k', y) :: rest, k, x, h => by
    by_cases hk : (k' == k) = true
    · simp [Json.lookup, hk] at h
      subst h
      exact ⟨k', by simp⟩
    · have hk'' : (k' == k) = false := by simpa using hk
      simp only [Json.lookup, hk'', Bool.false_eq_true, if_false] at h
      obtain ⟨k2, hm⟩ := lookup_mem rest k x h
      exact ⟨k2, by simp [hm]⟩

theorem size_lookup {kvs : List (Name × Json)} {k : Name} {x : Json} (h : Json.lookup kvs k = some x) :
    x.size < (Json.obj kvs).size := by
  obtain ⟨k', hm⟩ := lookup_mem kvs k x h
  exact size_mem_obj kvs (k', x) hm

/-! ### goals -/

/-- structuring `j` at `ty` succeeds and the result is a typed reading of `j` -/
def Goal (ty : PyTy) (j : Json) : Prop := ∃ v', Str E ty j v' ∧ Rep E bad ty v' j

/-- `j` has a typed reading at `ty` -/
def Valid (ty : PyTy) (j : Json) : Prop := ∃ w n, rep E bad n ty w j = true

theorem inTy_sound {T0 B : PyTy} (h : inTy bad T0 B = true) {v : PyVal} {j : Json} (hr : Rep E bad B v j) : Rep E bad T0 v j := by
  simp only [inTy, Bool.or_eq_true, Bool.and_eq_true, Bool.not_eq_true'] at h
  rcases h with he | ⟨hb, hm⟩
  · rw [PyTy.eqb_sound he]; exact hr
  · cases T0 <;> try (simp at hm; done)
    case union ts =>
      obtain ⟨n, hn⟩ := hr
      refine ⟨n + 1, ?_⟩
      unfold rep
      simp only [Bool.and_eq_true, Bool.not_eq_true', Bool.or_eq_true, List.any_eq_true]
      exact ⟨hb, Or.inl ⟨B, any_eqb_sound hm, hn⟩⟩

theorem le_structTy {m m' : Nat} (h : m ≤ m') : SLe (structTy E m) (structTy E m') :=
  fun _ _ _ hv => structTy_mono E h hv

/-- results for the elements of an array, at one common fuel -/
theorem collect_elems (e : HExpr) (t' : PyTy) : ∀ xs : List Json,
    (∀ x ∈ xs, ∃ v', (∃ m, e.run (structTy E m) x = .ok v') ∧ Rep E bad t' v' x) →
    ∃ ws, (∃ m, mapE (e.run (structTy E m)) xs = .ok ws) ∧ (∃ n, all2 (rep E bad n t') ws xs = true)
  | [], _ => ⟨[], ⟨0, rfl⟩, ⟨0, rfl⟩⟩
  | x :: xs, h => by
    obtain ⟨v', ⟨m1, hm1⟩, ⟨n1, hn1⟩⟩ := h x (by simp)
    obtain ⟨ws, ⟨m2, hm2⟩, ⟨n2, hn2⟩⟩ := collect_elems e t' xs (fun y hy => h y (by simp [hy]))
    refine ⟨v' :: ws, ⟨max m1 m2, ?_⟩, ⟨max n1 n2, ?_⟩⟩
    · rw [mapE_cons_ok]
      exact ⟨v', ws, run_mono (le_structTy E (Nat.le_max_left _ _)) e x v' hm1,
        mapE_mono xs ws (fun a _ b hab => run_mono (le_structTy E (Nat.le_max_right _ _)) e a b hab) hm2, rfl⟩
    · simp only [all2, Bool.and_eq_true]
      exact ⟨rep_mono E bad (Nat.le_max_left _ _) hn1,
        all2_mono (fun a b hab => rep_mono E bad (Nat.le_max_right _ _) hab) ws xs hn2⟩

theorem all2_exists_left {α β} {f : α → β → Bool} : ∀ (vs : List α) (xs : List β), all2 f vs xs = true →
    ∀ x ∈ xs, ∃ w, f w x = true
  | [], [], _, _, hx => by simp at hx
  | [], _ :: _, h, _, _ => by simp [all2] at h
  | _ :: _, [], h, _, _ => by simp [all2] at h
  | v :: vs, y :: ys, h, x, hx => by
    simp only [all2, Bool.and_eq_true] at h
    rcases List.mem_cons.mp hx with rfl | hm
    · exact ⟨v, h.1⟩
    · exact all2_exists_left vs ys h.2 x hm

/-- a value readable at `t` is readable at one of `altsOf t` -/
theorem alts_of_rep {n : Nat} {t : PyTy} {w : PyVal} {x : Json} (h : rep E bad n t w x = true) :
    ∃ a ∈ altsOf t, ∃ w' n', rep E bad n' a w' x = true := by
  by_cases hu : ∃ ts, t = .union ts
  · obtain ⟨ts, rfl⟩ := hu
    obtain ⟨a, ha, w', hw'⟩ := rep_union_alt E bad h
    exact ⟨a, by simpa [altsOf] using ha, w', n, hw'⟩
  · have : altsOf t = [t] := by
      cases t <;> first | rfl | exact absurd ⟨_, rfl⟩ hu
    exact ⟨t, by simp [this], w, n, h⟩

theorem tupleInts_ok : ∀ (ts : List PyTy) (vs : List PyVal) (xs : List Json) (k : Nat),
    all3 (rep E bad k) ts vs xs = true → ts.all PyTy.isIntTy = true → mapE coerceIntJ xs = .ok vs ∧ xs.length = ts.length
  | [], [], [], _, _, _ => ⟨rfl, rfl⟩
  | t :: ts, v :: vs, x :: xs, k, h, hi => by
    simp only [all3, Bool.and_eq_true] at h
    simp only [List.all_cons, Bool.and_eq_true] at hi
    obtain ⟨ih1, ih2⟩ := tupleInts_ok ts vs xs k h.2 hi.2
    have h1 := h.1
    cases t <;> try (simp [PyTy.isIntTy] at hi; done)
    cases k with
    | zero => simp [rep] at h1
    | succ k =>
      unfold rep at h1
      simp only [Bool.and_eq_true] at h1
      have h12 := h1.2
      cases v <;> cases x <;> try (simp at h12; done)
      rename_i a b
      have hab : a = b := by simpa using h12
      subst hab
      refine ⟨?_, by simp [ih2]⟩
      rw [mapE_cons_ok]
      exact ⟨.int a, vs, rfl, ih1, rfl⟩
  | [], [], _ :: _, _, h, _ => by simp [all3] at h
  | [], _ :: _, _, _, h, _ => by simp [all3] at h
  | _ :: _, [], _, _, h, _ => by simp [all3] at h
  | _ :: _, _ :: _, [], _, h, _ => by simp [all3] at h

theorem chk_sound (ok : PyTy → Bool) (P : PyTy → Prop) (hokP : ∀ B, ok B = true → P B) :
    ∀ (h : HExpr) (top : Bool) (T0 : PyTy) (st : St) (j : Json),
      (∀ B, P B → (top = true → B.isUnionTy = false) → Valid E bad B j → Goal E bad B j) →
      (∀ x, x.size < j.size → ∀ B, P B → Valid E bad B x → Goal E bad B x) →
      chk E bad ok top h T0 st = true → St.Holds E bad st j →
      ∃ v', (∃ m, h.run (structTy E m) j = .ok v') ∧ Rep E bad T0 v' j
  | .ite c a b, top, T0, st, j, HL, HS, hc, hst => by
    simp only [chk] at hc
    cases hsp : split E c st with
    | none => simp [hsp] at hc
    | some tf =>
      obtain ⟨T, F⟩ := tf
      simp only [hsp, Bool.and_eq_true, List.all_eq_true] at hc
      rcases split_sound E bad c st j T F hst hsp with ⟨he, t, ht, hh⟩ | ⟨he, f, hf, hh⟩
      · obtain ⟨v', ⟨m, hm⟩, hr⟩ := chk_sound ok P hokP a top T0 t j HL HS (hc.1 t ht) hh
        exact ⟨v', ⟨m, by simp [HExpr.run, he, bind, Except.bind, hm]⟩, hr⟩
      · obtain ⟨v', ⟨m, hm⟩, hr⟩ := chk_sound ok P hokP b top T0 f j HL HS (hc.2 f hf) hh
        exact ⟨v', ⟨m, by simp [HExpr.run, he, bind, Except.bind, hm]⟩, hr⟩
  | .retNone, top, T0, st, j, HL, HS, hc, hst => by
    simp only [chk, Bool.and_eq_true] at hc
    obtain ⟨v, n, hr⟩ := hst.rd
    cases hty : st.ty <;> simp only [hty] at hc <;> try (simp at hc; done)
    rw [hty] at hr
    have hj := rep_noneTy E bad hr
    subst hj
    have hv := rep_null E bad hr
    subst hv
    exact ⟨.none, ⟨0, rfl⟩, inTy_sound E bad hc.2 ⟨n, hr⟩⟩
  | .retSelf, top, T0, st, j, HL, HS, hc, hst => by
    simp only [chk, Bool.or_eq_true, Bool.and_eq_true] at hc
    obtain ⟨v, n, hr⟩ := hst.rd
    refine ⟨PyVal.ofJson j, ⟨0, rfl⟩, ?_⟩
    rcases hc with ⟨hs, hin⟩ | hc
    · exact inTy_sound E bad hin ⟨n, selfRep_sound E bad 8 n st.ty v j hs hr⟩
    · cases hty : st.ty <;> simp only [hty] at hc <;> try (simp at hc; done)
      case enum e =>
        rw [hty] at hr
        simp only [inUnion, Bool.and_eq_true, Bool.not_eq_true'] at hc
        obtain ⟨hb, hm⟩ := hc
        cases T0 <;> try (simp at hm; done)
        case union ts =>
          simp only [Bool.and_eq_true] at hm
          have hmem := any_eqb_sound hm.1
          refine ⟨n + 1, ?_⟩
          unfold rep
          simp only [Bool.and_eq_true, Bool.not_eq_true', Bool.or_eq_true]
          refine ⟨hb, Or.inr ⟨hm.2, ?_⟩⟩
          simp only [rawEnum, List.any_eq_true]
          refine ⟨.enum e, hmem, ?_⟩
          -- the reading is the member whose value is `j`
          cases n with
          | zero => simp [rep] at hr
          | succ n =>
            have hr0 := hr
            unfold rep at hr
            simp only [Bool.and_eq_true] at hr
            have h2 := hr.2
            cases hf : E.pkg.findEnum e with
            | none => simp [hf] at h2
            | some pe =>
              cases v <;> try (simp [hf] at h2; done)
              case enum e' val =>
                simp only [hf, Bool.and_eq_true, beq_iff_eq] at h2
                obtain ⟨⟨he', _⟩, hj⟩ := h2
                subst he'
                cases val <;> cases j <;> try (simp at hj; done)
                all_goals
                  have hab := hj
                  simp only [beq_iff_eq] at hab
                  subst hab
                  simp only [PyVal.ofJson, beq_self_eq_true, Bool.true_and]
                  exact hr0
      case float =>
        rw [hty] at hr
        simp only [Bool.and_eq_true, Bool.not_eq_true'] at hc
        obtain ⟨⟨hif, hii⟩, hbi⟩ := hc
        cases n with
        | zero => simp [rep] at hr
        | succ n =>
          have hr0 := hr
          unfold rep at hr
          simp only [Bool.and_eq_true] at hr
          have h2 := hr.2
          cases v <;> cases j <;> try (simp at h2; done)
          case float.int d b =>
            refine inTy_sound E bad hii ⟨1, ?_⟩
            unfold rep
            simp [hbi, PyVal.ofJson]
          case float.dec d b =>
            cases d <;> try (simp at h2; done)
            rename_i a
            have hab : a = b := by simpa using h2
            subst hab
            exact inTy_sound E bad hif ⟨n + 1, hr0⟩
  | .retEmptyList, top, T0, st, j, HL, HS, hc, hst => by
    simp only [chk] at hc
    obtain ⟨v, n, hr⟩ := hst.rd
    cases hty : st.ty <;> simp only [hty] at hc <;> try (simp at hc; done)
    case seq t =>
      simp only [Bool.and_eq_true, beq_iff_eq] at hc
      have hl := hst.len
      simp only [hc.1] at hl
      subst hl
      rw [hty] at hr
      obtain ⟨n', vs, xs, rfl, rfl, hj, ha⟩ := rep_seq_inv E bad hr
      cases hj
      cases vs with
      | cons w ws => simp [all2] at ha
      | nil => exact ⟨.list [], ⟨0, rfl⟩, inTy_sound E bad (hty ▸ hc.2) ⟨_, hr⟩⟩
  | .strOf, top, T0, st, j, HL, HS, hc, hst => by
    simp only [chk, Bool.and_eq_true] at hc
    obtain ⟨v, n, hr⟩ := hst.rd
    cases hty : st.ty <;> simp only [hty] at hc <;> try (simp at hc; done)
    rw [hty] at hr
    cases n with
    | zero => simp [rep] at hr
    | succ n =>
      have hr0 := hr
      unfold rep at hr
      simp only [Bool.and_eq_true] at hr
      have h2 := hr.2
      cases v <;> cases j <;> try (simp at h2; done)
      rename_i a b
      have hab : a = b := by simpa using h2
      subst hab
      exact ⟨.str a, ⟨0, rfl⟩, inTy_sound E bad hc.2 ⟨_, hr0⟩⟩
  | .structAs B, top, T0, st, j, HL, HS, hc, hst => by
    simp only [chk, Bool.and_eq_true, Bool.not_eq_true'] at hc
    obtain ⟨⟨⟨hu, hsub⟩, hin⟩, htop⟩ := hc
    have hv : Valid E bad B j := subOK_sound E bad hst hsub
    have hnu : top = true → B.isUnionTy = false := by
      intro ht
      simpa [ht] using htop
    obtain ⟨v', ⟨m, hm⟩, hr⟩ := HL B (hokP B hu) hnu hv
    exact ⟨v', ⟨m, by simpa [HExpr.run] using hm⟩, inTy_sound E bad hin hr⟩
  | .mapEach e, top, T0, st, j, HL, HS, hc, hst => by
    simp only [chk] at hc
    obtain ⟨v, n, hr⟩ := hst.rd
    cases hty : st.ty <;> simp only [hty] at hc <;> try (simp at hc; done)
    case seq t =>
      simp only [List.any_eq_true, Bool.and_eq_true, Bool.not_eq_true', List.all_eq_true] at hc
      obtain ⟨t', _, ⟨⟨hin, hnb⟩, hall⟩⟩ := hc
      rw [hty] at hr
      obtain ⟨n', vs, xs, rfl, rfl, rfl, ha⟩ := rep_seq_inv E bad hr
      have helems : ∀ x ∈ xs, ∃ v', (∃ m, e.run (structTy E m) x = .ok v') ∧ Rep E bad t' v' x := by
        intro x hx
        obtain ⟨w, hw⟩ := all2_exists_left vs xs ha x hx
        obtain ⟨a, haa, w', n2, hw'⟩ := alts_of_rep E bad hw
        have hlt := size_mem_arr xs x hx
        exact chk_sound ok P hokP e false t' { ty := a } x
          (fun B hB _ hvB => HS x hlt B hB hvB)
          (fun y hy B hB hvB => HS y (Nat.lt_trans hy hlt) B hB hvB)
          (hall a haa) (St.Holds.of_rep E bad hw')
      obtain ⟨ws, ⟨m, hm⟩, ⟨k, hk⟩⟩ := collect_elems E bad e t' xs helems
      refine ⟨.list ws, ⟨m, by simp [HExpr.run, hm, bind, Except.bind]⟩, inTy_sound E bad hin ⟨k + 1, ?_⟩⟩
      unfold rep
      simp only [Bool.and_eq_true, Bool.not_eq_true']
      exact ⟨hnb, hk⟩
  | .tupleInts k, top, T0, st, j, HL, HS, hc, hst => by
    simp only [chk] at hc
    obtain ⟨v, n, hr⟩ := hst.rd
    cases hty : st.ty <;> simp only [hty] at hc <;> try (simp at hc; done)
    case tuple ts =>
      simp only [Bool.and_eq_true, beq_iff_eq] at hc
      obtain ⟨⟨hlen, hints⟩, hin⟩ := hc
      rw [hty] at hr
      cases n with
      | zero => simp [rep] at hr
      | succ n =>
        have hr0 := hr
        unfold rep at hr
        simp only [Bool.and_eq_true] at hr
        have h2 := hr.2
        cases v <;> cases j <;> try (simp at h2; done)
        case tuple.arr vs xs =>
          obtain ⟨hmap, hl⟩ := tupleInts_ok E bad ts vs xs n h2 hints
          refine ⟨.tuple vs, ⟨0, ?_⟩, inTy_sound E bad (hty ▸ hin) ⟨_, hr0⟩⟩
          have hxk : xs.length = k := by omega
          have htake : xs.take k = xs := by rw [← hxk]; exact List.take_length
          simp [HExpr.run, hxk, htake, hmap, bind, Except.bind]
  | .raise _, _, _, _, _, _, _, hc, _ => by simp [chk] at hc

end LspVerif
