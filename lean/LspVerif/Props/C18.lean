/-
  C18 — equality of loaded models: total (never raises) and reflexive on well-formed values, for
  every loader table whose __eq__ methods read existing attributes only.
-/
import LspVerif.Core.Loader
namespace LspVerif.Loader
open LspVerif

theorem getAttr_of_mem_all {as : List (Name × Val)} {fs : List Name} {a : Name}
    (h : fs.all (fun f => (getAttr as f).isSome) = true) (ha : a ∈ fs) : ∃ v, getAttr as a = some v := by
  have := List.all_eq_true.mp h a ha
  exact Option.isSome_iff_exists.mp this

theorem getAttr_mem {as : List (Name × Val)} {a : Name} {v : Val} (h : getAttr as a = some v) : (a, v) ∈ as ∨ ∃ k, (k, v) ∈ as := by
  induction as with
  | nil => simp [getAttr] at h
  | cons kv rest ih =>
    obtain ⟨k, w⟩ := kv
    simp only [getAttr] at h
    by_cases hk : (k == a) = true
    · simp [hk] at h
      subst h
      exact Or.inr ⟨k, by simp⟩
    · simp [hk] at h
      rcases ih h with h1 | ⟨k', h2⟩
      · exact Or.inl (by simp [h1])
      · exact Or.inr ⟨k', by simp [h2]⟩

theorem wf_of_getAttr {S : LoaderSpec} {n : Nat} {as : List (Name × Val)} {a : Name} {v : Val}
    (hall : as.all (fun kv => wfVal S n kv.2) = true) (h : getAttr as a = some v) : wfVal S n v = true := by
  rcases getAttr_mem h with h1 | ⟨k, h2⟩
  · exact List.all_eq_true.mp hall _ h1
  · exact List.all_eq_true.mp hall _ h2

/-- Reflexivity: a well-formed value equals itself (two loads of one document yield the same
    value: ids are not part of it), provided every __eq__ reads existing attributes only. -/
theorem eqVal_refl (S : LoaderSpec) (hr : readsExist S = true) :
    ∀ (n : Nat) (v : Val), wfVal S n v = true → eqVal S n v v = .t := by
  intro n
  induction n with
  | zero => intro v h; simp [wfVal] at h
  | succ n ih =>
    intro v h
    cases v with
    | atom a => simp [eqVal]
    | list vs =>
      simp only [wfVal] at h
      simp only [eqVal, beq_self_eq_true, if_true]
      have : ∀ (l : List Val), l.all (wfVal S n) = true → eqLists (eqVal S n) l l = .t := by
        intro l
        induction l with
        | nil => intro _; rfl
        | cons x xs ihl =>
          intro hl
          simp only [List.all_cons, Bool.and_eq_true] at hl
          simp only [eqLists, ih x hl.1]
          exact ihl hl.2
      exact this vs h
    | node c as =>
      simp only [wfVal] at h
      cases hf : S.find c with
      | none => simp [hf] at h
      | some cs =>
        simp only [hf, Bool.and_eq_true] at h
        obtain ⟨hfields, hall⟩ := h
        simp only [eqVal, beq_self_eq_true, if_true, hf]
        have hmem : cs ∈ S.classes := List.mem_of_find?_eq_some hf
        have hsub : ∀ a ∈ cs.eqReads, a ∈ cs.fields := by
          intro a ha
          have := List.all_eq_true.mp (List.all_eq_true.mp hr cs hmem) a ha
          simpa using this
        have : ∀ (l : List Name), (∀ a ∈ l, a ∈ cs.fields) → eqAttrs (eqVal S n) as as l = .t := by
          intro l
          induction l with
          | nil => intro _; rfl
          | cons a rest ihl =>
            intro hl
            obtain ⟨v, hv⟩ := getAttr_of_mem_all hfields (hl a (by simp))
            simp only [eqAttrs, hv, ih v (wf_of_getAttr hall hv)]
            exact ihl (fun b hb => hl b (by simp [hb]))
        exact this cs.eqReads hsub

/-- **Equality distinguishes structure.**  If two loaded values compare equal they have the same structure (`strip`): every
    attribute an `__eq__` reads agrees, at every depth.  Contrapositive: loads of structurally different documents compare
    unequal (or the comparison is not `True`). -/
theorem eqVal_strip (S : LoaderSpec) : ∀ (n : Nat) (a b : Val), eqVal S n a b = .t → strip S n a = strip S n b := by
  intro n
  induction n with
  | zero => intro a b h; simp [eqVal] at h
  | succ n ih =>
    intro a b h
    cases a with
    | atom x =>
      cases b <;> simp only [eqVal] at h <;> try (cases h; done)
      rename_i y
      by_cases hxy : (x == y) = true
      · have : x = y := by simpa using hxy
        subst this; rfl
      · simp [hxy] at h
    | list xs =>
      cases b <;> simp only [eqVal] at h <;> try (cases h; done)
      rename_i ys
      by_cases hl : (xs.length == ys.length) = true
      · simp only [hl, if_true] at h
        have : ∀ (l m : List Val), eqLists (eqVal S n) l m = .t → l.map (strip S n) = m.map (strip S n) := by
          intro l
          induction l with
          | nil => intro m hm; cases m <;> simp [eqLists] at hm ⊢
          | cons x xs' ihl =>
            intro m hm
            cases m with
            | nil => simp [eqLists] at hm
            | cons y ys' =>
              simp only [eqLists] at hm
              cases hxy : eqVal S n x y <;> simp only [hxy] at hm <;> try (cases hm; done)
              simp only [List.map_cons, ih x y hxy, ihl ys' hm]
        simp only [strip, this xs ys h]
      · simp [hl] at h
    | node c as =>
      cases b <;> simp only [eqVal] at h <;> try (cases h; done)
      rename_i d bs
      by_cases hcd : (c == d) = true
      · have hcd' : c = d := by simpa using hcd
        subst hcd'
        simp only [beq_self_eq_true, if_true] at h
        cases hf : S.find c with
        | none => simp [hf] at h
        | some cs =>
          simp only [hf] at h
          simp only [strip, hf]
          congr 1
          have : ∀ (l : List Name), eqAttrs (eqVal S n) as bs l = .t →
              l.filterMap (fun a => (getAttr as a).map (fun x => (a, strip S n x))) =
              l.filterMap (fun a => (getAttr bs a).map (fun x => (a, strip S n x))) := by
            intro l
            induction l with
            | nil => intro _; rfl
            | cons a rest ihl =>
              intro hl
              simp only [eqAttrs] at hl
              cases hx : getAttr as a with
              | none => simp [hx] at hl
              | some x =>
                cases hy : getAttr bs a with
                | none => simp [hx, hy] at hl
                | some y =>
                  simp only [hx, hy] at hl
                  cases hxy : eqVal S n x y <;> simp only [hxy] at hl <;> try (cases hl; done)
                  simp only [List.filterMap_cons, hx, hy, Option.map_some, ih x y hxy, ihl hl]
          exact this cs.eqReads h
      · simp [hcd] at h

/-- Totality: comparing two well-formed values never raises. -/
theorem eqVal_total (S : LoaderSpec) (hr : readsExist S = true) :
    ∀ (n : Nat) (v w : Val), wfVal S n v = true → wfVal S n w = true → eqVal S n v w ≠ .raise := by
  intro n
  induction n with
  | zero => intro v w h; simp [wfVal] at h
  | succ n ih =>
    intro v w hv hw
    cases v with
    | atom a => cases w <;> simp [eqVal] <;> split <;> simp
    | list vs =>
      cases w with
      | atom _ => simp [eqVal]
      | node _ _ => simp [eqVal]
      | list ws =>
        simp only [wfVal] at hv hw
        simp only [eqVal]
        split
        · have : ∀ (l m : List Val), l.all (wfVal S n) = true → m.all (wfVal S n) = true → eqLists (eqVal S n) l m ≠ .raise := by
            intro l
            induction l with
            | nil => intro m _ _; cases m <;> simp [eqLists]
            | cons x xs ihl =>
              intro m hl hm
              cases m with
              | nil => simp [eqLists]
              | cons y ys =>
                simp only [List.all_cons, Bool.and_eq_true] at hl hm
                simp only [eqLists]
                have := ih x y hl.1 hm.1
                cases hxy : eqVal S n x y with
                | t => simpa [hxy] using ihl ys hl.2 hm.2
                | f => simp
                | raise => exact absurd hxy this
          exact this vs ws hv hw
        · simp
    | node c as =>
      cases w with
      | atom _ => simp [eqVal]
      | list _ => simp [eqVal]
      | node d bs =>
        simp only [eqVal]
        by_cases hcd : (c == d) = true
        · have hcd' : c = d := by simpa using hcd
          subst hcd'
          simp only [wfVal] at hv hw
          cases hf : S.find c with
          | none => simp [hf] at hv
          | some cs =>
            simp only [hf, Bool.and_eq_true] at hv hw
            simp only [beq_self_eq_true, if_true, hf]
            have hmem : cs ∈ S.classes := List.mem_of_find?_eq_some hf
            have hsub : ∀ a ∈ cs.eqReads, a ∈ cs.fields := by
              intro a ha
              have := List.all_eq_true.mp (List.all_eq_true.mp hr cs hmem) a ha
              simpa using this
            have : ∀ (l : List Name), (∀ a ∈ l, a ∈ cs.fields) → eqAttrs (eqVal S n) as bs l ≠ .raise := by
              intro l
              induction l with
              | nil => intro _; simp [eqAttrs]
              | cons a rest ihl =>
                intro hl
                obtain ⟨x, hx⟩ := getAttr_of_mem_all hv.1 (hl a (by simp))
                obtain ⟨y, hy⟩ := getAttr_of_mem_all hw.1 (hl a (by simp))
                simp only [eqAttrs, hx, hy]
                have := ih x y (wf_of_getAttr hv.2 hx) (wf_of_getAttr hw.2 hy)
                cases hxy : eqVal S n x y with
                | t => simpa [hxy] using ihl (fun b hb => hl b (by simp [hb]))
                | f => simp
                | raise => exact absurd hxy this
            exact this cs.eqReads hsub
        · simp [hcd]

end LspVerif.Loader

namespace LspVerif.Loader
open LspVerif

/-- Schema constructs the loader has no counterpart for: (schema definition, what is missing). -/
def schemaGaps (S : LoaderSpec) (defs : List (Name × Name × List Name × List Name)) (kinds : List Name) :
    List (Name × Name) :=
  (kinds.filter (fun k => !(S.kinds.any (·.1 == k)))).map (fun k => (n!"kind", k)) ++
  defs.flatMap (fun d =>
    let (sn, cn, props, req) := d
    match S.find cn with
    | none => [(sn, n!"<no class>")]
    | some c =>
      -- a schema property the class cannot hold, or a field the class requires but the schema does not
      (props.filter (fun p => !c.fields.contains p)).map (fun p => (sn, p)) ++
      (c.required.filter (fun r => !req.contains r)).map (fun r => (sn, r)))

def gapsWithin (gaps known : List (Name × Name)) : Bool := gaps.all (fun g => known.contains g)

def mergeOK (S : LoaderSpec) : Bool :=
  S.mergeLists == [n!"requests", n!"notifications", n!"structures", n!"enumerations", n!"typeAliases"]

/-- the gate as a trace property: every model file is validated (inside the loop over the files)
    before the model is created, and the plugin runs after both -/
def gateOK (S : LoaderSpec) : Bool :=
  S.mainOrder == [n!"validate-each-file", n!"create", n!"generate"]

/-- The CLI as a state machine over the extracted event order: running the events in order, a
    validation failure aborts before `generate`. -/
inductive Ev | validateAll | create | generate
def evOf (n : Name) : Option Ev :=
  if n == n!"validate-each-file" then some .validateAll else if n == n!"create" then some .create
  else if n == n!"generate" then some .generate else none

/-- returns (exit ok?, did a plugin run?) -/
def runMain (allValid : Bool) : List Name → Bool × Bool
  | [] => (true, false)
  | e :: rest =>
    match evOf e with
    | some .validateAll => if allValid then runMain allValid rest else (false, false)
    | some .generate => (let r := runMain allValid rest; (r.1, true))
    | _ => runMain allValid rest

theorem gate_blocks (S : LoaderSpec) (h : gateOK S = true) : runMain false S.mainOrder = (false, false) := by
  have : S.mainOrder = [n!"validate-each-file", n!"create", n!"generate"] := by simpa [gateOK] using h
  rw [this]
  decide

end LspVerif.Loader
