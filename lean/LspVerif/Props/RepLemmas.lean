/-
  Lemmas about `rep`, `structTy` and the checker's helper functions: soundness of the structural
  equality test, fuel monotonicity, JSON size.
-/
import LspVerif.Core.Dispatch
namespace LspVerif

/-! ### structural equality is equality -/

theorem eqL_sound {α} (f : α → α → Bool) : ∀ (xs ys : List α), (∀ a ∈ xs, ∀ b, f a b = true → a = b) →
    eqL f xs ys = true → xs = ys
  | [], [], _, _ => rfl
  | [], _ :: _, _, h => by simp [eqL] at h
  | _ :: _, [], _, h => by simp [eqL] at h
  | a :: as, b :: bs, hf, h => by
    simp only [eqL, Bool.and_eq_true] at h
    have h1 := hf a (by simp) b h.1
    have h2 := eqL_sound f as bs (fun x hx => hf x (by simp [hx])) h.2
    rw [h1, h2]

theorem PyTy.eqF_sound : ∀ (n : Nat) (a b : PyTy), PyTy.eqF n a b = true → a = b
  | 0, _, _, h => by simp [PyTy.eqF] at h
  | n + 1, a, b, h => by
    have ih := PyTy.eqF_sound n
    cases a <;> cases b <;> simp only [PyTy.eqF, Bool.false_eq_true, Bool.and_eq_true, beq_iff_eq] at h <;> try rfl
    case cls.cls => rw [h]
    case enum.enum => rw [h]
    case seq.seq => rw [ih _ _ h]
    case dict.dict => rw [ih _ _ h.1, ih _ _ h.2]
    case tuple.tuple a b => rw [eqL_sound _ a b (fun x _ y hxy => ih x y hxy) h]
    case union.union a b => rw [eqL_sound _ a b (fun x _ y hxy => ih x y hxy) h]
    case literal.literal => rw [h]
    case unknown.unknown => rw [h]

theorem PyTy.eqb_sound {a b : PyTy} (h : PyTy.eqb a b = true) : a = b := by
  have ih := PyTy.eqF_sound 16
  cases a <;> cases b <;> simp only [PyTy.eqb, Bool.false_eq_true, Bool.and_eq_true, beq_iff_eq] at h <;> try rfl
  case cls.cls => rw [h]
  case enum.enum => rw [h]
  case seq.seq => rw [ih _ _ h]
  case dict.dict => rw [ih _ _ h.1, ih _ _ h.2]
  case tuple.tuple a b => rw [eqL_sound _ a b (fun x _ y hxy => ih x y hxy) h]
  case union.union a b => rw [eqL_sound _ a b (fun x _ y hxy => ih x y hxy) h]
  case literal.literal => rw [h]
  case unknown.unknown => rw [h]

theorem inU_sound {U : List PyTy} {t : PyTy} (h : inU U t = true) : t ∈ U := by
  simp only [inU, List.any_eq_true] at h
  obtain ⟨u, hu, he⟩ := h
  rw [PyTy.eqb_sound he]
  exact hu

theorem any_eqb_sound {ts : List PyTy} {t : PyTy} (h : ts.any (PyTy.eqb t) = true) : t ∈ ts := inU_sound h

/-! ### fuel monotonicity of `rep` -/

theorem all2_mono {α β} {f g : α → β → Bool} (h : ∀ a b, f a b = true → g a b = true) :
    ∀ (xs : List α) (ys : List β), all2 f xs ys = true → all2 g xs ys = true
  | [], [], _ => rfl
  | [], _ :: _, h' => by simp [all2] at h'
  | _ :: _, [], h' => by simp [all2] at h'
  | a :: as, b :: bs, h' => by
    simp only [all2, Bool.and_eq_true] at h' ⊢
    exact ⟨h a b h'.1, all2_mono h as bs h'.2⟩

theorem all3_mono {α β γ} {f g : α → β → γ → Bool} (h : ∀ a b c, f a b c = true → g a b c = true) :
    ∀ (xs : List α) (ys : List β) (zs : List γ), all3 f xs ys zs = true → all3 g xs ys zs = true
  | [], [], [], _ => rfl
  | a :: as, b :: bs, c :: cs, h' => by
    simp only [all3, Bool.and_eq_true] at h' ⊢
    exact ⟨h a b c h'.1, all3_mono h as bs cs h'.2⟩
  | [], [], _ :: _, h' => by simp [all3] at h'
  | [], _ :: _, _, h' => by simp [all3] at h'
  | _ :: _, [], _, h' => by simp [all3] at h'
  | _ :: _, _ :: _, [], h' => by simp [all3] at h'

def RLe (r r' : PyTy → PyVal → Json → Bool) : Prop := ∀ t v x, r t v x = true → r' t v x = true

theorem repFields_mono {r r' : PyTy → PyVal → Json → Bool} (h : RLe r r') (kvs : List (Name × Json)) :
    ∀ (fs : List Field) (vs : List (Name × PyVal)), repFields r kvs fs vs = true → repFields r' kvs fs vs = true
  | [], [], _ => rfl
  | [], _ :: _, h' => by simp [repFields] at h'
  | _ :: _, [], h' => by simp [repFields] at h'
  | f :: fs, (a, v) :: vs, h' => by
    simp only [repFields, Bool.and_eq_true] at h' ⊢
    refine ⟨⟨h'.1.1, ?_⟩, repFields_mono h kvs fs vs h'.2⟩
    have h2 := h'.1.2
    cases hl : Json.lookup kvs f.wireS with
    | none =>
      simp only [hl, Bool.and_eq_true] at h2 ⊢
      exact ⟨h2.1, h _ _ _ h2.2⟩
    | some x =>
      simp only [hl, Bool.and_eq_true] at h2 ⊢
      exact ⟨h _ _ _ h2.1, h2.2⟩

theorem repEntry_mono {r r' : PyTy → PyVal → Json → Bool} (h : RLe r r') (k t : PyTy) (p : PyVal × PyVal) (kv : Name × Json)
    (h' : repEntry r k t p kv = true) : repEntry r' k t p kv = true := by
  simp only [repEntry, Bool.and_eq_true] at h' ⊢
  refine ⟨?_, h _ _ _ h'.2⟩
  have h1 := h'.1
  cases k <;> first | exact h1 | exact h _ _ _ h1

theorem rawEnum_mono {r r' : PyTy → PyVal → Json → Bool} (h : RLe r r') (ts : List PyTy) (v : PyVal) (j : Json)
    (h' : rawEnum r ts v j = true) : rawEnum r' ts v j = true := by
  simp only [rawEnum, List.any_eq_true] at h' ⊢
  obtain ⟨t, ht, hh⟩ := h'
  refine ⟨t, ht, ?_⟩
  cases t <;> try exact hh
  case enum e =>
    cases v <;> cases j <;> try exact hh
    all_goals
      simp only [Bool.and_eq_true] at hh ⊢
      exact ⟨hh.1, h _ _ _ hh.2⟩

theorem rep_succ (E : Env) (bad : List PyTy) : ∀ (n : Nat) (ty : PyTy) (v : PyVal) (j : Json),
    rep E bad n ty v j = true → rep E bad (n + 1) ty v j = true
  | 0, _, _, _, h => by simp [rep] at h
  | n + 1, ty, v, j, h => by
    have ih : RLe (rep E bad n) (rep E bad (n + 1)) := fun t w x hh => rep_succ E bad n t w x hh
    unfold rep at h ⊢
    simp only [Bool.and_eq_true] at h ⊢
    refine ⟨h.1, ?_⟩
    have h2 := h.2
    cases ty with
    | cls c =>
      simp only at h2 ⊢
      cases hf : E.pkg.findCls c with
      | none => simp [hf] at h2
      | some cl =>
        cases v <;> try (simp [hf] at h2; done)
        case inst c' vals =>
          cases j <;> try (simp [hf] at h2; done)
          case obj kvs =>
            simp only [hf, Bool.and_eq_true] at h2 ⊢
            exact ⟨⟨h2.1.1, repFields_mono ih kvs _ _ h2.1.2⟩, h2.2⟩
    | seq t =>
      cases v <;> cases j <;> try (simp at h2; done)
      case list.arr vs xs => exact all2_mono (fun a b hab => ih t a b hab) vs xs h2
    | dict k t =>
      cases v <;> cases j <;> try (simp at h2; done)
      case dict.obj ps kvs =>
        simp only [Bool.and_eq_true] at h2 ⊢
        exact ⟨h2.1, all2_mono (fun a b hab => repEntry_mono ih k t a b hab) ps kvs h2.2⟩
    | tuple ts =>
      cases v <;> cases j <;> try (simp at h2; done)
      case tuple.arr vs xs => exact all3_mono (fun a b c habc => ih a b c habc) ts vs xs h2
    | union ts =>
      simp only [Bool.or_eq_true, List.any_eq_true] at h2 ⊢
      rcases h2 with ⟨t, ht, hh⟩ | hh
      · exact Or.inl ⟨t, ht, ih _ _ _ hh⟩
      · simp only [Bool.and_eq_true] at hh ⊢
        exact Or.inr ⟨hh.1, rawEnum_mono ih ts v j hh.2⟩
    | _ => exact h2

theorem rep_mono (E : Env) (bad : List PyTy) {n m : Nat} (hnm : n ≤ m) {ty : PyTy} {v : PyVal} {j : Json}
    (h : rep E bad n ty v j = true) : rep E bad m ty v j = true := by
  induction hnm with
  | refl => exact h
  | step _ ih => exact rep_succ E bad _ ty v j ih

/-! ### fuel monotonicity of `structTy` (a success stays the same success with more fuel) -/

theorem mapE_cons_ok {α β} (f : α → Except Err β) (x : α) (xs : List α) (ys : List β) :
    mapE f (x :: xs) = .ok ys ↔ ∃ y ys', f x = .ok y ∧ mapE f xs = .ok ys' ∧ ys = y :: ys' := by
  simp only [mapE, bind, Except.bind]
  cases hx : f x with
  | error e => simp
  | ok y =>
    cases hr : mapE f xs with
    | error e => simp
    | ok r =>
      simp only [Except.ok.injEq]
      constructor
      · intro h; exact ⟨y, r, rfl, rfl, h.symm⟩
      · rintro ⟨y', r', hy, hr', rfl⟩
        cases hy; cases hr'; rfl

theorem mapE_mono {α β} {f g : α → Except Err β} :
    ∀ (xs : List α) (ys : List β), (∀ a ∈ xs, ∀ b, f a = .ok b → g a = .ok b) → mapE f xs = .ok ys → mapE g xs = .ok ys
  | [], ys, _, h' => by simpa [mapE] using h'
  | x :: xs, ys, h, h' => by
    obtain ⟨y, r, hy, hr, rfl⟩ := (mapE_cons_ok f x xs ys).mp h'
    exact (mapE_cons_ok g x xs _).mpr ⟨y, r, h x (by simp) y hy, mapE_mono xs r (fun a ha => h a (by simp [ha])) hr, rfl⟩

def SLe (f g : PyTy → Json → Except Err PyVal) : Prop := ∀ t x v, f t x = .ok v → g t x = .ok v

theorem run_mono {f g : PyTy → Json → Except Err PyVal} (h : SLe f g) :
    ∀ (e : HExpr) (j : Json) (v : PyVal), e.run f j = .ok v → e.run g j = .ok v
  | .retNone, _, _, h' => h'
  | .retSelf, _, _, h' => h'
  | .retEmptyList, _, _, h' => h'
  | .strOf, _, _, h' => h'
  | .tupleInts _, _, _, h' => h'
  | .raise _, _, _, h' => h'
  | .structAs t, j, v, h' => h t j v h'
  | .mapEach e, j, v, h' => by
    cases j <;> try exact h'
    case arr xs =>
      simp only [HExpr.run, bind, Except.bind] at h' ⊢
      cases hm : mapE (e.run f) xs with
      | error er => simp [hm] at h'
      | ok ys =>
        rw [mapE_mono xs ys (fun a _ b hab => run_mono h e a b hab) hm]
        simpa [hm] using h'
  | .ite c a b, j, v, h' => by
    simp only [HExpr.run, bind, Except.bind] at h' ⊢
    cases hc : c.eval j with
    | error er => simp [hc] at h'
    | ok bv =>
      simp only [hc] at h' ⊢
      cases bv
      · simp only [Bool.false_eq_true, if_false] at h' ⊢
        exact run_mono h b j v h'
      · simp only [if_true] at h' ⊢
        exact run_mono h a j v h'

theorem fieldVal_mono {f g : PyTy → Json → Except Err PyVal} (h : SLe f g) (cls : Name) (kvs : List (Name × Json))
    (fl : Field) (v : PyVal) (h' : fieldVal f cls kvs fl = .ok v) : fieldVal g cls kvs fl = .ok v := by
  simp only [fieldVal] at h' ⊢
  cases hl : Json.lookup kvs fl.wireS with
  | none => simpa [hl] using h'
  | some x =>
    simp only [hl] at h' ⊢
    exact h _ _ _ h'

theorem structFields_cons_ok (f : PyTy → Json → Except Err PyVal) (cls : Name) (kvs : List (Name × Json))
    (fl : Field) (fs : List Field) (vals : List (Name × PyVal)) :
    structFields f cls kvs (fl :: fs) = .ok vals ↔
      ∃ v rest, fieldVal f cls kvs fl = .ok v ∧ structFields f cls kvs fs = .ok rest ∧ vals = (fl.name, v) :: rest := by
  simp only [structFields]
  cases hv : fieldVal f cls kvs fl with
  | error e => simp
  | ok v =>
    cases hr : structFields f cls kvs fs with
    | error e => simp
    | ok rest =>
      simp only [Except.ok.injEq]
      constructor
      · intro h; exact ⟨v, rest, rfl, rfl, h.symm⟩
      · rintro ⟨v', r', hv', hr', rfl⟩
        cases hv'; cases hr'; rfl

theorem structFields_mono {f g : PyTy → Json → Except Err PyVal} (h : SLe f g) (cls : Name) (kvs : List (Name × Json)) :
    ∀ (fs : List Field) (vals : List (Name × PyVal)), structFields f cls kvs fs = .ok vals → structFields g cls kvs fs = .ok vals
  | [], vals, h' => by simpa [structFields] using h'
  | fl :: fs, vals, h' => by
    obtain ⟨v, rest, hv, hr, rfl⟩ := (structFields_cons_ok f cls kvs fl fs vals).mp h'
    exact (structFields_cons_ok g cls kvs fl fs _).mpr ⟨v, rest, fieldVal_mono h cls kvs fl v hv, structFields_mono h cls kvs fs rest hr, rfl⟩

theorem structCls_mono (E : Env) {f g : PyTy → Json → Except Err PyVal} (h : SLe f g) (c : Cls) (j : Json) (v : PyVal)
    (h' : structCls E f c j = .ok v) : structCls E g c j = .ok v := by
  cases j <;> try exact h'
  case obj kvs =>
    simp only [structCls, structObj] at h' ⊢
    split at h'
    · simp at h'
    · rename_i hfe
      simp only [hfe]
      cases hs : structFields f c.name kvs c.fields with
      | error e => simp [hs] at h'
      | ok vals =>
        rw [structFields_mono h c.name kvs c.fields vals hs]
        simpa [hs] using h'

theorem dictEntry_mono {f g : PyTy → Json → Except Err PyVal} (h : SLe f g) (k v : PyTy) (kv : Name × Json) (r : PyVal × PyVal)
    (h' : dictEntry f k v kv = .ok r) : dictEntry g k v kv = .ok r := by
  cases k
  case str =>
    simp only [dictEntry, bind, Except.bind] at h' ⊢
    cases hv : f v kv.2 with
    | error e => simp [hv] at h'
    | ok vv => rw [h _ _ _ hv]; simpa [hv] using h'
  all_goals
    simp only [dictEntry, bind, Except.bind] at h' ⊢
    generalize hkf : f _ (Json.str kv.1) = rk at h'
    cases rk with
    | error e => simp at h'
    | ok kk =>
      rw [h _ _ _ hkf]
      cases hv : f v kv.2 with
      | error e => simp [hv] at h'
      | ok vv => rw [h _ _ _ hv]; simpa [hv] using h'

theorem structTy_succ (E : Env) : ∀ (n : Nat) (ty : PyTy) (j : Json) (v : PyVal),
    structTy E n ty j = .ok v → structTy E (n + 1) ty j = .ok v
  | 0, _, _, _, h => by simp [structTy] at h
  | n + 1, ty, j, v, h => by
    have ih : SLe (structTy E n) (structTy E (n + 1)) := fun t x w hh => structTy_succ E n t x w hh
    unfold structTy at h ⊢
    cases hh : E.hookFor ty with
    | some hk =>
      simp only [hh] at h ⊢
      exact run_mono ih hk j v h
    | none =>
      simp only [hh] at h ⊢
      cases ty with
      | cls c =>
        simp only at h ⊢
        cases hf : E.pkg.findCls c with
        | none => simp [hf] at h
        | some cl =>
          simp only [hf] at h ⊢
          exact structCls_mono E ih cl j v h
      | seq t =>
        cases j <;> try exact h
        case arr xs =>
          simp only [bind, Except.bind] at h ⊢
          cases hm : mapE (structTy E n t) xs with
          | error e => simp [hm] at h
          | ok ys =>
            rw [mapE_mono xs ys (fun a _ b hab => ih t a b hab) hm]
            simpa [hm] using h
      | dict k t =>
        cases j <;> try exact h
        case obj kvs =>
          simp only [bind, Except.bind] at h ⊢
          cases hm : mapE (dictEntry (structTy E n) k t) kvs with
          | error e => simp [hm] at h
          | ok ys =>
            rw [mapE_mono kvs ys (fun a _ b hab => dictEntry_mono ih k t a b hab) hm]
            simpa [hm] using h
      | tuple ts =>
        cases j <;> try exact h
        case arr xs =>
          simp only at h ⊢
          split at h
          · simp at h
          · rename_i hl
            simp only [hl, bind, Except.bind] at h ⊢
            cases hm : mapE (fun (p : PyTy × Json) => structTy E n p.1 p.2) (ts.zip xs) with
            | error e => simp [hm] at h
            | ok ys =>
              rw [mapE_mono (ts.zip xs) ys (fun a _ b hab => ih a.1 a.2 b hab) hm]
              simpa [hm] using h
      | union ts =>
        simp only at h ⊢
        cases ho : PyTy.optionalOf ts with
        | some x =>
          simp only [ho] at h ⊢
          cases j <;> first | exact h | exact ih _ _ _ h
        | none =>
          simp only [ho] at h ⊢
          split at h
          · rename_i hall
            simp only [hall, if_true]
            cases hd : E.disambFor (.union ts) with
            | none => simp [hd] at h
            | some hk =>
              simp only [hd] at h ⊢
              exact run_mono ih hk j v h
          · simp at h
      | _ => exact h

theorem structTy_mono (E : Env) {n m : Nat} (hnm : n ≤ m) {ty : PyTy} {j : Json} {v : PyVal}
    (h : structTy E n ty j = .ok v) : structTy E m ty j = .ok v := by
  induction hnm with
  | refl => exact h
  | step _ ih => exact structTy_succ E _ ty j v ih

end LspVerif
