import LspVerif.Props.C17Gen2
namespace LspVerif.TestGen
open LspVerif

theorem strLit_valid (M : Model) (n : Nat) (s : Name) : validTy M (n + 1) (.strLit s) (.str s) = true := by
  simp [validTy]

theorem id_valid_int (M : Model) (n : Nat) (i : Int) (h : inInt32 i = true) : validTy M (n + 2) idTyJ (.int i) = true := by
  simp only [idTyJ]
  rw [validTy_or]
  simp [validTy_base, validBase, h]

theorem id_valid_str (M : Model) (n : Nat) (s : Name) : validTy M (n + 2) idTyJ (.str s) = true := by
  simp only [idTyJ]
  rw [validTy_or]
  simp [validTy_base, validBase]

/-- what a row of `withParams` is made of -/
theorem withParams_spec (envs : List (Bool × List (Name × Json))) (ps : Vs) (out : List (Bool × Json)) (h : withParams envs ps = some out) :
    ∀ m ∈ out, ∃ e ∈ envs, ∃ x ∈ ps, m.1 = (e.1 && x.1) ∧
      m.2 = (match x.2 with | .val p => Json.obj (dictUpdate e.2 [(n!"params", p)]) | .ignore => Json.obj e.2) := by
  unfold withParams at h
  obtain ⟨rs, hrs, h⟩ := Option.bind_eq_some_iff.mp h
  intro m hm
  obtain ⟨row, hrow, hrm⟩ := forall2_mem_right (mapM_spec _ _ out h) m hm
  have h2 := rows_spec _ rs hrs row hrow
  cases h2 with
  | cons ha t =>
    cases t with
    | cons hb t2 =>
      cases t2
      obtain ⟨e, he, rfl⟩ := List.mem_map.mp ha
      obtain ⟨x, hx, rfl⟩ := List.mem_map.mp hb
      refine ⟨e, he, x, hx, ?_⟩
      cases hx2 : x.2 with
      | ignore => simp only [hx2, Option.some.injEq] at hrm; subst hrm; exact ⟨rfl, rfl⟩
      | val p => simp only [hx2, Option.some.injEq] at hrm; subst hrm; exact ⟨rfl, rfl⟩

theorem genOpt_none (M : Model) (g : Vs) (h : genOpt M none = some g) : ∀ x ∈ g, x.2 = GV.ignore := by
  intro x hx
  simp only [genOpt, Option.some.injEq] at h; subst h; simp at hx; subst hx; rfl

theorem genOpt_some (M : Model) (hM : modelOK M = true) (t : Ty) (hok : tyOK t = true) (g : Vs) (h : genOpt M (some t) = some g) :
    Sound M genFuel t g := gen_sound M hM genFuel [] t g hok h

/-- True-labelled request vectors are valid request messages of the metamodel -/
theorem request_sound (M : Model) (hM : modelOK M = true) (r : Request) (hok : ∀ t, r.params = some t → tyOK t = true)
    (out : List (Bool × Json)) (h : genRequest M r = some out) : ∀ m ∈ out, m.1 = true → validRequest M r m.2 = true := by
  unfold genRequest at h
  obtain ⟨g, hg, h⟩ := Option.bind_eq_some_iff.mp h
  intro m hm hlabel
  obtain ⟨e, he, x, hx, hm1, hm2⟩ := withParams_spec _ _ _ h m hm
  rw [hm1, Bool.and_eq_true] at hlabel
  have hid : ∃ idv, e.2 = [jsonrpc, (n!"id", idv), (n!"method", .str r.method)] ∧ validTy M 59 idTyJ idv = true := by
    simp only [requestVariants, idVariants, List.map_cons, List.map_nil, List.cons_append, List.nil_append, List.mem_cons, List.not_mem_nil, or_false] at he
    rcases he with rfl | rfl | rfl | rfl | rfl | rfl | rfl | rfl | rfl | rfl | rfl | rfl
    · exact ⟨_, rfl, id_valid_int M 57 _ (by decide)⟩
    · exact ⟨_, rfl, id_valid_int M 57 _ (by decide)⟩
    · exact ⟨_, rfl, id_valid_int M 57 _ (by decide)⟩
    · exact ⟨_, rfl, id_valid_str M 57 _⟩
    all_goals (simp at hlabel)
  obtain ⟨idv, he2, hidv⟩ := hid
  unfold validRequest
  rw [hm2, he2]
  cases hp : r.params with
  | none =>
    rw [hp] at hg
    have hgo := genOpt_none M g hg x hx
    simp only [hgo]
    show validTy M (59 + 1) _ _ = true
    rw [validTy_lit]
    simp [validProps, Json.lookup, jsonrpc, strLit_valid M 58, hidv]
  | some t =>
    rw [hp] at hg
    obtain ⟨p, hxp, hval⟩ := genOpt_some M hM t (hok t hp) g hg x hx
    simp only [hxp]
    show validTy M (59 + 1) _ _ = true
    rw [validTy_lit]
    have hv : validTy M 59 t p = true := hval hlabel.2
    simp [validProps, Json.lookup, jsonrpc, dictUpdate, dictSet, strLit_valid M 58, hidv, hv]

/-- True-labelled notification vectors are valid notification messages of the metamodel -/
theorem notification_sound (M : Model) (hM : modelOK M = true) (r : Notification) (hok : ∀ t, r.params = some t → tyOK t = true)
    (out : List (Bool × Json)) (h : genNotification M r = some out) : ∀ m ∈ out, m.1 = true → validNotification M r m.2 = true := by
  unfold genNotification at h
  obtain ⟨g, hg, h⟩ := Option.bind_eq_some_iff.mp h
  intro m hm hlabel
  obtain ⟨e, he, x, hx, hm1, hm2⟩ := withParams_spec _ _ _ h m hm
  rw [hm1, Bool.and_eq_true] at hlabel
  have he2 : e.2 = [jsonrpc, (n!"method", .str r.method)] := by
    simp only [notifyVariants, List.mem_cons, List.not_mem_nil, or_false] at he
    rcases he with rfl | rfl
    · rfl
    · simp at hlabel
  unfold validNotification
  rw [hm2, he2]
  cases hp : r.params with
  | none =>
    rw [hp] at hg
    have hgo := genOpt_none M g hg x hx
    simp only [hgo]
    show validTy M (59 + 1) _ _ = true
    rw [validTy_lit]
    simp [validProps, Json.lookup, jsonrpc, strLit_valid M 58]
  | some t =>
    rw [hp] at hg
    obtain ⟨p, hxp, hval⟩ := genOpt_some M hM t (hok t hp) g hg x hx
    simp only [hxp]
    show validTy M (59 + 1) _ _ = true
    rw [validTy_lit]
    have hv : validTy M 59 t p = true := hval hlabel.2
    simp [validProps, Json.lookup, jsonrpc, dictUpdate, dictSet, strLit_valid M 58, hv]

/-- the `result` member generated for a response (the vector also carries an `error` member: recorded finding F1) -/
theorem response_result_sound (M : Model) (hM : modelOK M = true) (r : Request) (hok : tyOK r.result = true) (g : Vs)
    (h : genTy M genFuel [] r.result = some g) : ∀ x ∈ g, ∃ p, x.2 = GV.val p ∧ (x.1 = true → validTy M (genFuel + 1) r.result p = true) :=
  gen_sound M hM genFuel [] r.result g hok h

/-- True-labelled response vectors: the envelope with the `result` member is a valid response message, and the `error` member the
    generator puts next to it (recorded finding F1: a response carries result *or* error) is a valid ResponseError -/
theorem response_sound_partial (M : Model) (hM : modelOK M = true) (r : Request) (hok : tyOK r.result = true)
    (out : List (Bool × Json)) (h : genResponse M r = some out) : ∀ m ∈ out, m.1 = true →
    ∃ base x e, m.2 = Json.obj (base ++ [(n!"result", x), (n!"error", e)]) ∧ validResponse M r (.obj (base ++ [(n!"result", x)])) = true ∧
      validTy M 59 (.ref n!"ResponseError") e = true := by
  unfold genResponse at h
  obtain ⟨res, hres, h⟩ := Option.bind_eq_some_iff.mp h
  obtain ⟨err, herr, h⟩ := Option.bind_eq_some_iff.mp h
  obtain ⟨rs, hrs, h⟩ := Option.bind_eq_some_iff.mp h
  intro m hm hlabel
  obtain ⟨row, hrow, hrm⟩ := forall2_mem_right (mapM_spec _ _ out h) m hm
  have h2 := rows_spec _ rs hrs row hrow
  cases h2 with
  | cons ha t =>
    cases t with
    | cons hb t2 =>
      cases t2 with
      | cons hc t3 =>
        cases t3
        obtain ⟨e0, he0, rfl⟩ := List.mem_map.mp ha
        obtain ⟨x0, hx0, rfl⟩ := List.mem_map.mp hb
        obtain ⟨y0, hy0, rfl⟩ := List.mem_map.mp hc
        obtain ⟨x, hxv, hxval⟩ := gen_sound M hM genFuel [] r.result res hok hres x0 hx0
        obtain ⟨e, hev, heval⟩ := gen_sound M hM genFuel [] (.ref n!"ResponseError") err (by simp [tyOK]) herr y0 hy0
        simp only [hxv, hev, Option.some.injEq] at hrm
        subst hrm
        simp only [Bool.and_eq_true] at hlabel
        have hid : ∃ idv, e0.2 = [jsonrpc, (n!"id", idv)] ∧ validTy M 59 idTyJ idv = true := by
          simp only [responseVariants, idVariants, List.map_cons, List.map_nil, List.cons_append, List.nil_append, List.mem_cons, List.not_mem_nil, or_false] at he0
          rcases he0 with rfl | rfl | rfl | rfl | rfl | rfl | rfl | rfl | rfl | rfl | rfl
          · exact ⟨_, rfl, id_valid_int M 57 _ (by decide)⟩
          · exact ⟨_, rfl, id_valid_int M 57 _ (by decide)⟩
          · exact ⟨_, rfl, id_valid_int M 57 _ (by decide)⟩
          · exact ⟨_, rfl, id_valid_str M 57 _⟩
          all_goals (simp at hlabel)
        obtain ⟨idv, he2, hidv⟩ := hid
        refine ⟨e0.2, x, e, ?_, ?_, heval hlabel.2⟩
        · rw [he2]; simp [dictUpdate, dictSet, jsonrpc]
        · rw [he2]
          unfold validResponse
          show validTy M (59 + 1) _ _ = true
          rw [validTy_lit]
          have hv : validTy M 59 r.result x = true := hxval hlabel.1.2
          simp [validProps, Json.lookup, jsonrpc, strLit_valid M 58, hidv, hv]

/-- non-vacuity: a model and a type on which the hypotheses hold and something is generated and labelled True -/
example : (genTy ⟨"t", [], [], [], [], []⟩ 3 [] (.array (.base .integer))).isSome = true ∧ modelOK ⟨"t", [], [], [], [], []⟩ = true ∧
    tyOK (.array (.base .integer)) = true := by decide +kernel

end LspVerif.TestGen
