import LspVerif.Props.C17Gen3
namespace LspVerif.TestGen
open LspVerif

/-! ### the first vector is labelled True: every message class for which generation succeeds receives a True vector -/

theorem foldl_max_ge {α} : ∀ (lists : List (List α)) (init : Nat), init ≤ lists.foldl (fun m l => max m l.length) init ∧
    ∀ l ∈ lists, l.length ≤ lists.foldl (fun m l => max m l.length) init
  | [], init => ⟨Nat.le_refl _, fun _ h => by cases h⟩
  | x :: xs, init => by
    have ih := foldl_max_ge xs (max init x.length)
    simp only [List.foldl_cons]
    refine ⟨Nat.le_trans (Nat.le_max_left _ _) ih.1, fun l hl => ?_⟩
    rcases List.mem_cons.mp hl with rfl | hl
    · exact Nat.le_trans (Nat.le_max_right _ _) ih.1
    · exact ih.2 l hl

theorem heads_row {α} : ∀ (lists : List (List α)), (∀ l ∈ lists, l ≠ []) →
    F2 (fun l x => l.head? = some x) lists (lists.filterMap (fun l => l[0 % l.length]?))
  | [], _ => by simpa using F2.nil
  | l :: ls, h => by
    have hl : l ≠ [] := h l List.mem_cons_self
    cases l with
    | nil => exact absurd rfl hl
    | cons a as =>
      rw [List.filterMap_cons]
      simp only [Nat.zero_mod, List.getElem?_cons_zero]
      exact .cons rfl (heads_row ls (fun x hx => h x (List.mem_cons_of_mem _ hx)))

theorem rows_head {α} (lists rs : List (List α)) (h : rows lists = some rs) :
    ∃ row, rs.head? = some row ∧ F2 (fun l x => l.head? = some x) lists row := by
  unfold rows at h
  split at h
  · cases h
  · rename_i hc
    simp only [Bool.or_eq_true, not_or, Bool.not_eq_true] at hc
    injection h with h
    subst h
    have hne : ∀ l ∈ lists, l ≠ [] := by
      intro l hl hnil
      have := hc.2
      rw [List.any_eq_false] at this
      have := this l hl
      simp [hnil] at this
    have hpos : 0 < min 1000 (lists.foldl (fun m l => max m l.length) 0) := by
      cases lists with
      | nil => simp at hc
      | cons l ls =>
        have h1 := (foldl_max_ge (l :: ls) 0).2 l List.mem_cons_self
        have h2 : 0 < l.length := List.length_pos_iff.mpr (hne l List.mem_cons_self)
        omega
    obtain ⟨n, hn⟩ : ∃ n, min 1000 (lists.foldl (fun m l => max m l.length) 0) = n + 1 := ⟨_, (Nat.succ_pred_eq_of_pos hpos).symm⟩
    rw [hn, List.range_succ_eq_map]
    exact ⟨_, by simp, heads_row lists hne⟩

/-- the first thing yielded, if anything is yielded, is labelled True -/
def HeadTrue (g : Vs) : Prop := ∀ p, g.head? = some p → p.1 = true

theorem row_heads_valid : ∀ (gs : List Vs) (row : List (Bool × GV)), F2 (fun l x => l.head? = some x) gs row →
    (∀ g ∈ gs, HeadTrue g) → rowValid row = true
  | _, _, .nil, _ => rfl
  | g :: gs, x :: xs, .cons h t, hall => by
    have h1 : x.1 = true := hall g List.mem_cons_self x h
    have ih := row_heads_valid gs xs t (fun g' hg' => hall g' (List.mem_cons_of_mem _ hg'))
    simp only [rowValid, List.all_cons, Bool.and_eq_true] at ih ⊢
    exact ⟨h1, ih⟩

theorem mapM_mem {α β} (F : α → Option β) (l : List α) (r : List β) (h : l.mapM F = some r) : ∀ b ∈ r, ∃ a ∈ l, F a = some b :=
  fun b hb => forall2_mem_right (mapM_spec F l r h) b hb

theorem head_map {α β} (fn : α → β) (l : List α) (b : β) (h : (l.map fn).head? = some b) : ∃ a, l.head? = some a ∧ fn a = b := by
  cases l with
  | nil => simp at h
  | cons a as => simp at h; exact ⟨a, rfl, h⟩

theorem flatMap_const_nil {α β} : ∀ (l : List α), l.flatMap (fun _ => ([] : List β)) = []
  | [] => rfl
  | _ :: l => by simp [flatMap_const_nil l]

theorem head_flatten {α} : ∀ (gs : List (List α)) (p : α), gs.flatten.head? = some p → ∃ gi ∈ gs, gi.head? = some p
  | [], p, h => by simp at h
  | [] :: gs, p, h => by
    simp only [List.flatten_cons, List.nil_append] at h
    obtain ⟨gi, hgi, hp⟩ := head_flatten gs p h
    exact ⟨gi, List.mem_cons_of_mem _ hgi, hp⟩
  | (a :: as) :: gs, p, h => by
    simp only [List.flatten_cons, List.cons_append, List.head?_cons, Option.some.injEq] at h
    exact ⟨a :: as, List.mem_cons_self, by simp [h]⟩

theorem head_of_mapM {α β} (F : α → Option β) : ∀ (l : List α) (r : List β), l.mapM F = some r → ∀ b, r.head? = some b → ∃ a, l.head? = some a ∧ F a = some b := by
  intro l r h b hb
  have := mapM_spec F l r h
  cases this with
  | nil => simp at hb
  | cons h1 _ => simp at hb; subst hb; exact ⟨_, rfl, h1⟩

theorem gen_head_true (M : Model) (hM : modelOK M = true) : ∀ (f : Nat) (vis : List Name) (t : Ty) (g : Vs),
    tyOK t = true → genTy M f vis t = some g → HeadTrue g
  | 0, _, _, _, _, h => by simp [genTy] at h
  | f + 1, vis, t, g, hok, h => by
    cases t with
    | base b =>
      simp only [genTy, Option.some.injEq] at h
      subst h
      intro p hp
      cases b <;> simp [genBase, v] at hp <;> subst hp <;> rfl
    | strLit s =>
      simp only [genTy, Option.some.injEq] at h
      subst h
      intro p hp; simp [v] at hp; subst hp; rfl
    | intLit i =>
      simp only [genTy, Option.some.injEq] at h
      subst h
      intro p hp; simp at hp
    | boolLit i =>
      simp only [genTy, Option.some.injEq] at h
      subst h
      intro p hp; simp at hp
    | and ts => simp [tyOK] at hok
    | array e =>
      simp only [genTy] at h
      obtain ⟨ge, hg, heq⟩ := Option.bind_eq_some_iff.mp h
      simp only [Option.pure_def, Option.some.injEq] at heq
      subst heq
      intro p hp; simp [v] at hp; subst hp; rfl
    | tuple ts =>
      simp only [genTy] at h
      obtain ⟨gs, hgs, h⟩ := Option.bind_eq_some_iff.mp h
      obtain ⟨rs, hrs, heq⟩ := Option.bind_eq_some_iff.mp h
      simp only [Option.pure_def, Option.some.injEq] at heq
      subst heq
      have hts : ∀ t ∈ ts, tyOK t = true := tyOKL_mem (by simpa [tyOK] using hok)
      intro p hp
      obtain ⟨row, hrow, rfl⟩ := head_map _ _ _ hp
      obtain ⟨row', hrow', hf2⟩ := rows_head gs rs hrs
      rw [hrow] at hrow'; cases hrow'
      exact row_heads_valid gs row hf2 (fun gi hgi => by
        obtain ⟨t, ht, hgen⟩ := mapM_mem _ ts gs hgs gi hgi
        exact gen_head_true M hM f vis t gi (hts t ht) hgen)
    | map k x =>
      simp only [genTy] at h
      obtain ⟨ks, hks, h⟩ := Option.bind_eq_some_iff.mp h
      obtain ⟨xs, hxs, h⟩ := Option.bind_eq_some_iff.mp h
      have hok' : tyOK k = true ∧ tyOK x = true := by simpa [tyOK] using hok
      have sk := gen_sound M hM f vis k ks hok'.1 hks
      have sx := gen_sound M hM f vis x xs hok'.2 hxs
      have hk := gen_head_true M hM f vis k ks hok'.1 hks
      have hx := gen_head_true M hM f vis x xs hok'.2 hxs
      intro p hp
      obtain ⟨q, hq, hqp⟩ := head_of_mapM _ _ g h p hp
      cases ks with
      | nil => simp at hq
      | cons a ks' =>
        cases xs with
        | nil => simp [flatMap_const_nil] at hq
        | cons b xs' =>
          obtain ⟨ja, hja, _⟩ := sk a List.mem_cons_self
          obtain ⟨jb, hjb, _⟩ := sx b List.mem_cons_self
          simp only [List.flatMap_cons, List.filterMap_cons, hja, hjb, List.cons_append, List.head?_cons, Option.some.injEq] at hq
          subst hq
          have ha1 : a.1 = true := hk a rfl
          have hb1 : b.1 = true := hx b rfl
          cases hkey : keyOf ja with
          | none => simp [hkey] at hqp
          | some key =>
            simp only [hkey, Option.map_some, Option.some.injEq] at hqp
            subst hqp
            simp [v, ha1, hb1]
    | or ts =>
      simp only [genTy] at h
      obtain ⟨gs, hgs, heq⟩ := Option.bind_eq_some_iff.mp h
      simp only [Option.pure_def, Option.some.injEq] at heq
      subst heq
      have hts : ∀ t ∈ ts, tyOK t = true := tyOKL_mem (by simpa [tyOK] using hok)
      intro p hp
      split at hp
      · simp [v] at hp; subst hp; rfl
      · simp only [List.nil_append] at hp
        obtain ⟨gi, hgi, hpg⟩ := head_flatten gs p hp
        obtain ⟨t, ht, hgen⟩ := mapM_mem _ _ gs hgs gi hgi
        exact gen_head_true M hM f vis t gi (hts t (List.mem_filter.mp ht).1) hgen p hpg
    | lit props =>
      simp only [genTy] at h
      have hok' : namesNodup (props.map (·.1)) = true ∧ tyOKP props = true := by simpa [tyOK] using hok
      split at h
      · simp only [Option.some.injEq] at h
        subst h
        intro p hp; simp [v] at hp; subst hp; rfl
      · obtain ⟨gs, hgs, h⟩ := Option.bind_eq_some_iff.mp h
        obtain ⟨rs, hrs, heq⟩ := Option.bind_eq_some_iff.mp h
        simp only [Option.pure_def, Option.some.injEq] at heq
        subst heq
        intro p hp
        obtain ⟨row, hrow, rfl⟩ := head_map _ _ _ hp
        obtain ⟨row', hrow', hf2⟩ := rows_head gs rs hrs
        rw [hrow] at hrow'; cases hrow'
        exact row_heads_valid gs row hf2 (fun gi hgi => by
          obtain ⟨q, hq, hgen⟩ := mapM_mem _ props gs hgs gi hgi
          exact gen_head_true M hM f vis q.2.2 gi (tyOKP_mem hok'.2 q hq) hgen)
    | ref r =>
      have hS : ∀ s ∈ M.structures, structOK M s = true ∧ special s.name = false := by
        intro s hs
        have := List.all_eq_true.mp (by simp only [modelOK, Bool.and_eq_true] at hM; exact hM.1.1) s hs
        simpa using this
      have hA : ∀ a ∈ M.aliases, aliasOK M a = true := by
        intro a ha
        exact List.all_eq_true.mp (by simp only [modelOK, Bool.and_eq_true] at hM; exact hM.2) a ha
      simp only [genTy] at h
      split at h
      · simp only [Option.some.injEq] at h
        subst h
        intro p hp; simp at hp
      · split at h
        · rename_i s hfs
          obtain ⟨hsm, hsn⟩ := find?_name (fun (x : Struct) => x.name) M.structures r s hfs
          obtain ⟨hsok, _⟩ := hS s hsm
          obtain ⟨ps, hps, h⟩ := Option.bind_eq_some_iff.mp h
          unfold structOK at hsok
          rw [hps] at hsok
          simp only [Bool.and_eq_true] at hsok
          obtain ⟨⟨⟨_, _⟩, htys⟩, _⟩ := hsok
          split at h
          · simp only [Option.pure_def, Option.some.injEq] at h
            subst h
            intro p hp; simp [v] at hp; subst hp; rfl
          · obtain ⟨gs, hgs, h⟩ := Option.bind_eq_some_iff.mp h
            obtain ⟨rs, hrs, heq⟩ := Option.bind_eq_some_iff.mp h
            simp only [Option.pure_def, Option.some.injEq] at heq
            subst heq
            intro p hp
            obtain ⟨row, hrow, rfl⟩ := head_map _ _ _ hp
            obtain ⟨row', hrow', hf2⟩ := rows_head gs rs hrs
            rw [hrow] at hrow'; cases hrow'
            exact row_heads_valid gs row hf2 (fun gi hgi => by
              obtain ⟨q, hq, hgen⟩ := mapM_mem _ ps gs hgs gi hgi
              obtain ⟨g0, hg0, hgi'⟩ := Option.bind_eq_some_iff.mp hgen
              simp only [Option.pure_def, Option.some.injEq] at hgi'
              have hty : tyOK q.ty = true := tyOKP_mem htys (q.name, q.optional, q.ty) (by
                simp only [propsOf]; exact List.mem_map_of_mem hq)
              have ih := gen_head_true M hM f (vis ++ [r]) q.ty g0 hty hg0
              subst hgi'
              intro x hx
              by_cases hopt : q.optional = true
              · simp [hopt] at hx; subst hx; rfl
              · simp only [hopt, Bool.false_eq_true, if_false] at hx
                exact ih x hx)
        · split at h
          · rename_i a hfa
            obtain ⟨ham, _⟩ := find?_name (fun (x : Alias) => x.name) M.aliases r a hfa
            have haok := hA a ham
            simp only [aliasOK, Bool.and_eq_true] at haok
            obtain ⟨g0, hg0, h⟩ := Option.bind_eq_some_iff.mp h
            have ih := gen_head_true M hM f (vis ++ [r]) a.ty g0 haok.1.1.1 hg0
            split at h
            · simp only [Option.pure_def, Option.some.injEq] at h
              subst h
              intro p hp
              obtain ⟨q, _, rfl⟩ := head_map _ _ _ hp
              rfl
            · simp only [Option.pure_def, Option.some.injEq] at h
              subst h
              exact ih
          · split at h
            · split at h
              · cases h
              · split at h <;> (simp only [Option.some.injEq] at h; subst h; intro p hp; simp [v] at hp; subst hp; rfl)
            · cases h

theorem rows_nonempty {α} (lists rs : List (List α)) (h : rows lists = some rs) : rs ≠ [] := by
  obtain ⟨row, hrow, _⟩ := rows_head lists rs h
  intro hnil; rw [hnil] at hrow; simp at hrow

theorem withParams_first_true (envs : List (Bool × List (Name × Json))) (ps : Vs) (out : List (Bool × Json))
    (h : withParams envs ps = some out) (he : ∀ e, envs.head? = some e → e.1 = true) (hp : HeadTrue ps) : ∃ m ∈ out, m.1 = true := by
  unfold withParams at h
  obtain ⟨rs, hrs, h⟩ := Option.bind_eq_some_iff.mp h
  obtain ⟨row, hrow, hf2⟩ := rows_head _ rs hrs
  have hspec := mapM_spec _ rs out h
  cases hspec with
  | nil => simp at hrow
  | @cons r0 m rs' out' hm _ =>
    simp only [List.head?_cons, Option.some.injEq] at hrow
    subst hrow
    refine ⟨m, List.mem_cons_self, ?_⟩
    cases hf2 with
    | cons ha t =>
      cases t with
      | cons hb t2 =>
        cases t2
        obtain ⟨e, he0, rfl⟩ := head_map _ _ _ ha
        obtain ⟨x, hx0, rfl⟩ := head_map _ _ _ hb
        have h1 := he e he0
        have h2 := hp x hx0
        cases hx2 : x.2 with
        | ignore => simp only [hx2, Option.some.injEq] at hm; subst hm; simp [h1, h2]
        | val p => simp only [hx2, Option.some.injEq] at hm; subst hm; simp [h1, h2]

theorem genOpt_head_true (M : Model) (hM : modelOK M = true) (o : Option Ty) (hok : ∀ t, o = some t → tyOK t = true) (g : Vs)
    (h : genOpt M o = some g) : HeadTrue g := by
  cases o with
  | none => simp only [genOpt, Option.some.injEq] at h; subst h; intro p hp; simp at hp; subst hp; rfl
  | some t => exact gen_head_true M hM genFuel [] t g (hok t rfl) h

/-- whenever generation for a request succeeds, its first vector is labelled True — and it is a valid request message -/
theorem request_has_true_vector (M : Model) (hM : modelOK M = true) (r : Request) (hok : ∀ t, r.params = some t → tyOK t = true)
    (out : List (Bool × Json)) (h : genRequest M r = some out) : ∃ m ∈ out, m.1 = true ∧ validRequest M r m.2 = true := by
  have h' := h
  unfold genRequest at h'
  obtain ⟨g, hg, h'⟩ := Option.bind_eq_some_iff.mp h'
  obtain ⟨m, hm, hl⟩ := withParams_first_true _ g out h' (by intro e he; simp [requestVariants, idVariants] at he; subst he; rfl)
    (genOpt_head_true M hM r.params hok g hg)
  exact ⟨m, hm, hl, request_sound M hM r hok out h m hm hl⟩

theorem notification_has_true_vector (M : Model) (hM : modelOK M = true) (r : Notification) (hok : ∀ t, r.params = some t → tyOK t = true)
    (out : List (Bool × Json)) (h : genNotification M r = some out) : ∃ m ∈ out, m.1 = true ∧ validNotification M r m.2 = true := by
  have h' := h
  unfold genNotification at h'
  obtain ⟨g, hg, h'⟩ := Option.bind_eq_some_iff.mp h'
  obtain ⟨m, hm, hl⟩ := withParams_first_true _ g out h' (by intro e he; simp [notifyVariants] at he; subst he; rfl)
    (genOpt_head_true M hM r.params hok g hg)
  exact ⟨m, hm, hl, notification_sound M hM r hok out h m hm hl⟩

/-- whenever generation for a response succeeds, its first vector is labelled True -/
theorem response_has_true_vector (M : Model) (hM : modelOK M = true) (r : Request) (hok : tyOK r.result = true)
    (out : List (Bool × Json)) (h : genResponse M r = some out) : ∃ m ∈ out, m.1 = true := by
  unfold genResponse at h
  obtain ⟨res, hres, h⟩ := Option.bind_eq_some_iff.mp h
  obtain ⟨err, herr, h⟩ := Option.bind_eq_some_iff.mp h
  obtain ⟨rs, hrs, h⟩ := Option.bind_eq_some_iff.mp h
  obtain ⟨row, hrow, hf2⟩ := rows_head _ rs hrs
  have hspec := mapM_spec _ rs out h
  have hr := gen_head_true M hM genFuel [] r.result res hok hres
  have hev := gen_head_true M hM genFuel [] (.ref n!"ResponseError") err (by simp [tyOK]) herr
  have sr := gen_sound M hM genFuel [] r.result res hok hres
  have se := gen_sound M hM genFuel [] (.ref n!"ResponseError") err (by simp [tyOK]) herr
  cases hspec with
  | nil => simp at hrow
  | @cons r0 m rs' out' hm _ =>
    simp only [List.head?_cons, Option.some.injEq] at hrow
    subst hrow
    refine ⟨m, List.mem_cons_self, ?_⟩
    cases hf2 with
    | cons ha t =>
      cases t with
      | cons hb t2 =>
        cases t2 with
        | cons hc t3 =>
          cases t3
          obtain ⟨e, he0, rfl⟩ := head_map _ _ _ ha
          obtain ⟨x, hx0, rfl⟩ := head_map _ _ _ hb
          obtain ⟨y, hy0, rfl⟩ := head_map _ _ _ hc
          have h1 : e.1 = true := by simp [responseVariants, idVariants] at he0; subst he0; rfl
          have h2 := hr x hx0
          have h3 := hev y hy0
          obtain ⟨jx, hjx, _⟩ := sr x (List.mem_of_mem_head? hx0)
          obtain ⟨jy, hjy, _⟩ := se y (List.mem_of_mem_head? hy0)
          simp only [hjx, hjy, Option.some.injEq] at hm
          subst hm
          simp [h1, h2, h3]

end LspVerif.TestGen
