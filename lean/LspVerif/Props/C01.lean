/-
  C01 / C02 — the round trip, composed from T1 (Props/Total.lean) and T2 (Props/Unstruct.lean).

  `roundtrip` (C01, C03): in an environment whose dispatch programs, class table (T1) and unstructure
  table (T2) pass their kernel-evaluated checks, for every annotation in the checked universe and
  every JSON value with a typed reading at it — any size, any nesting, every union alternative —

      structure(j, T) = ok v'      (succeeds)
      v' is a typed reading of j   (C03: well-typed; at a union an alternative j is valid for)
      unstructure(v') = ok j'      (succeeds, both calling conventions)
      nrel T j j'                  (j' is j up to the documented null rule: nothing j declares with a
                                    non-null value disappears or changes)

  `constructor_path` (C02): the object built from the values of `j` with the intended alternatives
  *is* a typed reading `v` of `j`; it unstructures to a `j'` with `nrel T j j'`; `j'` is again valid
  (`v` reads it), so structuring `j'` succeeds with a typed reading `v''`, and serialising `v''`
  gives `j''` with `nrel T j' j''`.
-/
import LspVerif.Props.Total
import LspVerif.Props.Unstruct
namespace LspVerif

variable (E : Env) (bad : List PyTy)

theorem roundtrip (H : List PyTy) (hP : progsOK E bad H = true) (hC : clsesOK E bad H = true) (hU : clsesOKU E = true)
    (ty : PyTy) (k : Nat) (hty : lightOK E bad H k ty = true) (j : Json) (v : PyVal) (n : Nat)
    (h : rep E bad n ty v j = true) :
    ∃ v', (∃ m, structTy E m ty j = .ok v') ∧ (∃ k', rep E bad k' ty v' j = true) ∧
      (∃ j' m, unstruct E m (some ty) v' = .ok j' ∧ ∃ k, nrel E k ty j j' = true) ∧
      (∃ j' m, unstruct E m Option.none v' = .ok j' ∧ ∃ k, nrel E k ty j j' = true) := by
  obtain ⟨v', m, hm, k', hk'⟩ := T1 E bad H hP hC ty k hty j v n h
  obtain ⟨⟨j1, m1, h1, hn1, _⟩, ⟨j2, m2, h2, hn2, _⟩⟩ := T2 E bad hU hk'
  exact ⟨v', ⟨m, hm⟩, ⟨k', hk'⟩, ⟨j1, m1, h1, hn1⟩, ⟨j2, m2, h2, hn2⟩⟩

theorem constructor_path (H : List PyTy) (hP : progsOK E bad H = true) (hC : clsesOK E bad H = true) (hU : clsesOKU E = true)
    (ty : PyTy) (k : Nat) (hty : lightOK E bad H k ty = true) (j : Json) (v : PyVal) (n : Nat)
    (h : rep E bad n ty v j = true) :
    ∃ j' m, unstruct E m Option.none v = .ok j' ∧ (∃ k, nrel E k ty j j' = true) ∧
      ∃ v'' m', structTy E m' ty j' = .ok v'' ∧ (∃ k, rep E bad k ty v'' j' = true) ∧
        ∃ j'' m'', unstruct E m'' Option.none v'' = .ok j'' ∧ ∃ k, nrel E k ty j' j'' = true := by
  obtain ⟨_, ⟨j', m, hm, hn, ⟨r, hr⟩⟩⟩ := T2 E bad hU h
  obtain ⟨v'', m', hm', k', hk'⟩ := T1 E bad H hP hC ty k hty j' v r hr
  obtain ⟨_, ⟨j'', m'', hm'', hn'', _⟩⟩ := T2 E bad hU hk'
  exact ⟨j', m, hm, hn, v'', m', hm', ⟨k', hk'⟩, j'', m'', hm'', hn''⟩

end LspVerif
