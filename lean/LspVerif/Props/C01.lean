/-
  C01 / C02 — the round trip, composed from T1 (Props/Total.lean) and T2 (Props/Unstruct.lean).

  `roundtrip` (C01, C03): in an environment whose dispatch programs, class table (T1) and unstructure
  table (T2) pass their kernel-evaluated checks, for every annotation in the checked universe and
  every JSON value with a typed reading at it — any size, any nesting, every union alternative —

      structure(j, T) = ok v'      (succeeds)
      v' is a typed reading of j   (C03: well-typed; at a union an alternative j is valid for)
      unstructure(v') = ok j'      (succeeds, both calling conventions)
      nrel T j j'                  (j' is j up to the documented null rule: nothing j declares with a
                                    non-null value disappears or changes)

  `constructor_path` (C02): the object built from the values of `j` with the intended alternatives
  *is* a typed reading `v` of `j`; it unstructures to a `j'` with `nrel T j j'`; `j'` is again valid
  (`v` reads it), so structuring `j'` succeeds with a typed reading `v''`, and serialising `v''`
  gives `j''` with `nrel T j' j''`.
-/
import LspVerif.Props.Total
import LspVerif.Props.Unstruct
import LspVerif.Props.Link
namespace LspVerif

variable (E : Env) (bad : List PyTy)

theorem roundtrip (H : List PyTy) (hP : progsOK E bad H = true) (hC : clsesOK E bad H = true) (hU : clsesOKU E = true)
    (ty : PyTy) (k : Nat) (hty : lightOK E bad H k ty = true) (j : Json) (v : PyVal) (n : Nat)
    (h : rep E bad n ty v j = true) :
    ∃ v', (∃ m, structTy E m ty j = .ok v') ∧ (∃ k', rep E bad k' ty v' j = true) ∧
      (∃ j' m, unstruct E m (some ty) v' = .ok j' ∧ ∃ k, nrel E k ty j j' = true) ∧
      (∃ j' m, unstruct E m Option.none v' = .ok j' ∧ ∃ k, nrel E k ty j j' = true) := by
  obtain ⟨v', m, hm, k', hk'⟩ := T1 E bad H hP hC ty k hty j v n h
  obtain ⟨⟨j1, m1, h1, hn1, _⟩, ⟨j2, m2, h2, hn2, _⟩⟩ := T2 E bad hU hk'
  exact ⟨v', ⟨m, hm⟩, ⟨k', hk'⟩, ⟨j1, m1, h1, hn1⟩, ⟨j2, m2, h2, hn2⟩⟩

theorem constructor_path (H : List PyTy) (hP : progsOK E bad H = true) (hC : clsesOK E bad H = true) (hU : clsesOKU E = true)
    (ty : PyTy) (k : Nat) (hty : lightOK E bad H k ty = true) (j : Json) (v : PyVal) (n : Nat)
    (h : rep E bad n ty v j = true) :
    ∃ j' m, unstruct E m Option.none v = .ok j' ∧ (∃ k, nrel E k ty j j' = true) ∧
      ∃ v'' m', structTy E m' ty j' = .ok v'' ∧ (∃ k, rep E bad k ty v'' j' = true) ∧
        ∃ j'' m'', unstruct E m'' Option.none v'' = .ok j'' ∧ ∃ k, nrel E k ty j' j'' = true := by
  obtain ⟨_, ⟨j', m, hm, hn, ⟨r, hr⟩⟩⟩ := T2 E bad hU h
  obtain ⟨v'', m', hm', k', hk'⟩ := T1 E bad H hP hC ty k hty j' v r hr
  obtain ⟨_, ⟨j'', m'', hm'', hn'', _⟩⟩ := T2 E bad hU hk'
  exact ⟨j', m, hm, hn, v'', m', hm', ⟨k', hk'⟩, j'', m'', hm'', hn''⟩

end LspVerif

/-! ### what `nrel` means for a reader: nothing the input declares with a non-null value disappears -/

namespace LspVerif

theorem relFields_mem {r : PyTy → Json → Json → Bool} {a b : List (Name × Json)} :
    ∀ (fs : List Field), relFields r a b fs = true → ∀ f ∈ fs,
      (match Json.lookup a f.wireS, Json.lookup b f.wireS with
       | some x, some y => r f.ty x y
       | Option.none, some y => y.isNull && !f.omitU
       | some x, Option.none => x.isNull && f.omitU
       | Option.none, Option.none => true) = true
  | [], _, _, hf => by simp at hf
  | g :: gs, h, f, hf => by
    simp only [relFields, Bool.and_eq_true] at h
    rcases List.mem_cons.mp hf with rfl | hm
    · exact h.1
    · exact relFields_mem gs h.2 f hm

/-- **No loss.**  If `j'` is related to `j` at a class by the null rule, every member of `j` whose value is not `null` is a declared
    property of the class, is present in `j'`, and its value there is related to the original one (equal, for scalars). -/
theorem nrel_keeps (E : Env) (k : Nat) (c : Name) (a b : List (Name × Json)) (h : nrel E k (.cls c) (.obj a) (.obj b) = true)
    (key : Name) (x : Json) (hl : Json.lookup a key = some x) (hx : x.isNull = false) :
    ∃ cl f y, E.pkg.findCls c = some cl ∧ f ∈ cl.fields ∧ f.wireS = key ∧ Json.lookup b key = some y ∧ ∃ k', nrel E k' f.ty x y = true := by
  cases k with
  | zero => simp [nrel] at h
  | succ k =>
    unfold nrel at h
    simp only at h
    cases hc : E.pkg.findCls c with
    | none => simp [hc] at h
    | some cl =>
      simp only [hc, Bool.and_eq_true] at h
      obtain ⟨⟨⟨⟨_, hdecl⟩, _⟩, _⟩, hrel⟩ := h
      obtain ⟨k0, hm, hk0⟩ := lookup_mem' a key x hl
      have hd := List.all_eq_true.mp hdecl (k0, x) hm
      simp only [List.any_eq_true, beq_iff_eq] at hd
      obtain ⟨f, hf, hfw⟩ := hd
      have hfk : f.wireS = key := by rw [hfw]; exact hk0
      have hcl := relFields_mem cl.fields hrel f hf
      rw [hfk, hl] at hcl
      cases hy : Json.lookup b key with
      | none =>
        simp only [hy, Bool.and_eq_true] at hcl
        rw [hx] at hcl
        exact absurd hcl.1 (by simp)
      | some y =>
        simp only [hy] at hcl
        exact ⟨cl, f, y, rfl, hf, hfk, rfl, k, hcl⟩

/-- scalars, enums, literals and uninterpreted JSON come back exactly -/
theorem nrel_scalar_eq (E : Env) (k : Nat) (ty : PyTy) (j j' : Json)
    (hty : (match ty with | .cls _ | .seq _ | .dict _ _ | .tuple _ | .union _ => false | _ => true) = true)
    (h : nrel E k ty j j' = true) : j' = j := by
  cases k with
  | zero => simp [nrel] at h
  | succ k =>
    unfold nrel at h
    cases ty <;> simp at hty <;> exact (Json.beq_eq _ _ h).symm

end LspVerif

/-! ### the same, over metamodel-valid values (Props/Link.lean) -/

namespace LspVerif

variable (M : Model) (E : Env) (bad : List PyTy)

/-- what C01 / C03 / C14 conclude about a JSON value at an annotation -/
def RoundTrips (A : PyTy) (j : Json) : Prop :=
  ∃ v', (∃ m, structTy E m A j = .ok v') ∧ (∃ k', rep E bad k' A v' j = true) ∧
    (∃ j' m, unstruct E m (some A) v' = .ok j' ∧ ∃ k, nrel E k A j j' = true) ∧
    (∃ j' m, unstruct E m Option.none v' = .ok j' ∧ ∃ k, nrel E k A j j' = true)

def rootsLight (H : List PyTy) : Bool := E.pkg.classes.all (fun c => lightOK E bad H 1 (.cls c.name))

/-- the kernel-checked facts about the regenerated metamodel, package and hook programs (one bundle per run) -/
structure Checked (H : List PyTy) : Prop where
  progs : progsOK E bad H = true
  classes : clsesOK E bad H = true
  classesU : clsesOKU E = true
  roots : rootsLight E bad H = true
  structs : structsCover M E bad = true
  int32 : ∀ i, inInt32 i = true → (E.vld.int32 (.int i)).accepted = true
  uint31 : ∀ i, inUInt31 i = true → (E.vld.uint31 (.int i)).accepted = true

variable {M E bad}

theorem Checked.light_of_findCls {H : List PyTy} (c : Checked M E bad H) {n : Name} {cl : Cls} (hf : E.pkg.findCls n = some cl) :
    lightOK E bad H 1 (.cls n) = true := by
  have hm : cl ∈ E.pkg.classes := List.mem_of_find?_eq_some hf
  have := List.all_eq_true.mp c.roots cl hm
  rwa [findCls_name' E hf] at this

theorem Checked.of_reading {H : List PyTy} (c : Checked M E bad H) {A : PyTy} {k : Nat} (hty : lightOK E bad H k A = true)
    {j : Json} (h : ∃ v n, rep E bad n A v j = true) : RoundTrips E bad A j := by
  obtain ⟨v, n, hr⟩ := h
  exact roundtrip E bad H c.progs c.classes c.classesU A k hty j v n hr

/-- **C01 / C03 / C14 for metamodel-valid values.**  `T` a metamodel type, `A` an annotation of the package that covers it. -/
theorem Checked.roundtrip_ty {H : List PyTy} (c : Checked M E bad H) {T : Ty} {A : PyTy} {n k m : Nat}
    (hann : annOK M E bad n T A = true) (hty : lightOK E bad H k A = true) {j : Json}
    (hv : validTyC M m T j = true) (hw : Wf j) : RoundTrips E bad A j := by
  obtain ⟨v, kk, hr, _⟩ := valid_rep M E bad c.structs c.int32 c.uint31 m n T A j hann hv hw
  exact c.of_reading hty ⟨v, kk, hr⟩

/-- **C02 for metamodel-valid values**: there is a typed reading `v` of `j` (an object built by the constructors: class instances
    at protocol-object nodes, the class of an alternative `j` is valid for at each union) — and *every* such reading serialises to
    `j'` with `nrel A j j'`, `j'` structures again, and the second serialisation `j''` satisfies `nrel A j' j''`. -/
theorem Checked.constructor_ty {H : List PyTy} (c : Checked M E bad H) {T : Ty} {A : PyTy} {n k m : Nat}
    (hann : annOK M E bad n T A = true) (hty : lightOK E bad H k A = true) {j : Json}
    (hv : validTyC M m T j = true) (hw : Wf j) :
    (∃ v r, rep E bad r A v j = true) ∧
    ∀ v r, rep E bad r A v j = true →
      ∃ j' m', unstruct E m' Option.none v = .ok j' ∧ (∃ k, nrel E k A j j' = true) ∧
        ∃ v'' m'', structTy E m'' A j' = .ok v'' ∧ (∃ k, rep E bad k A v'' j' = true) ∧
          ∃ j'' m3, unstruct E m3 Option.none v'' = .ok j'' ∧ ∃ k, nrel E k A j' j'' = true := by
  obtain ⟨v, kk, hr, _⟩ := valid_rep M E bad c.structs c.int32 c.uint31 m n T A j hann hv hw
  exact ⟨⟨v, kk, hr⟩, fun v' r hr' => constructor_path E bad H c.progs c.classes c.classesU A k hty j v' r hr'⟩

theorem Checked.roundtrip_struct {H : List PyTy} (c : Checked M E bad H) {s : Struct} (hs : s ∈ M.structures) {j : Json}
    (hv : validStructC M s j = true) (hw : Wf j) : RoundTrips E bad (.cls s.name) j := by
  obtain ⟨v, k, hr⟩ := valid_struct_rep M E bad c.structs c.int32 c.uint31 s hs vFuel j hv hw
  have hsc := List.all_eq_true.mp c.structs s hs
  simp only [structCovers] at hsc
  cases hcl : E.pkg.findCls s.name with
  | none => simp [hcl] at hsc
  | some cl => exact c.of_reading (c.light_of_findCls hcl) ⟨v, k, hr⟩

/-- every type alias of the metamodel as a root type (`converter.structure(j, Alias)`) -/
theorem Checked.roundtrip_alias {H : List PyTy} (c : Checked M E bad H) {a : Alias} (hc : aliasCovered M E bad H a = true) {m : Nat} {j : Json}
    (hv : validTyC M m (.ref a.name) j = true) (hw : Wf j) :
    ∃ A, E.pkg.aliases.find? (·.1 == a.name) = some (a.name, A) ∧ RoundTrips E bad A j := by
  simp only [aliasCovered] at hc
  cases hf : E.pkg.aliases.find? (·.1 == a.name) with
  | none => simp [hf] at hc
  | some p =>
    simp only [hf, Bool.and_eq_true] at hc
    have hn : p.1 = a.name := by
      have := List.find?_some hf
      simpa using this
    refine ⟨p.2, ?_, c.roundtrip_ty hc.1 hc.2 hv hw⟩
    rw [← hn]

theorem Checked.roundtrip_request {H : List PyTy} (c : Checked M E bad H) {r : Request} (hc : requestCovered M E bad r = true) {j : Json}
    (hv : validRequestC M r j = true) (hw : Wf j) : ∃ e, entryOf E r.method = some e ∧ RoundTrips E bad (.cls e.req) j := by
  obtain ⟨e, he, v, k, hr⟩ := valid_request_rep M E bad c.structs c.int32 c.uint31 r hc j hv hw
  refine ⟨e, he, ?_⟩
  simp only [requestCovered, he] at hc
  cases hcl : E.pkg.findCls e.req with
  | none => simp [hcl] at hc
  | some cl => exact c.of_reading (c.light_of_findCls hcl) ⟨v, k, hr⟩

theorem Checked.roundtrip_response {H : List PyTy} (c : Checked M E bad H) {r : Request} (hc : responseCovered M E bad r = true) {j : Json}
    (hv : validResponseC M r j = true) (hw : Wf j) :
    ∃ e rn, entryOf E r.method = some e ∧ e.resp = some rn ∧ RoundTrips E bad (.cls rn) j := by
  obtain ⟨e, rn, he, hrn, v, k, hr⟩ := valid_response_rep M E bad c.structs c.int32 c.uint31 r hc j hv hw
  refine ⟨e, rn, he, hrn, ?_⟩
  simp only [responseCovered, he, hrn] at hc
  cases hcl : E.pkg.findCls rn with
  | none => simp [hcl] at hc
  | some cl => exact c.of_reading (c.light_of_findCls hcl) ⟨v, k, hr⟩

theorem Checked.roundtrip_notification {H : List PyTy} (c : Checked M E bad H) {nt : Notification} (hc : notificationCovered M E bad nt = true) {j : Json}
    (hv : validNotificationC M nt j = true) (hw : Wf j) : ∃ e, entryOf E nt.method = some e ∧ RoundTrips E bad (.cls e.req) j := by
  obtain ⟨e, he, v, k, hr⟩ := valid_notification_rep M E bad c.structs c.int32 c.uint31 nt hc j hv hw
  refine ⟨e, he, ?_⟩
  simp only [notificationCovered, he] at hc
  cases hcl : E.pkg.findCls e.req with
  | none => simp [hcl] at hc
  | some cl => exact c.of_reading (c.light_of_findCls hcl) ⟨v, k, hr⟩

/-- **C01's last sentence as a corollary**: for a value that round-trips at a class, the re-serialised object contains every
    member of the input whose value is not `null`, under the same key, with a value related to the original (equal for scalars). -/
theorem RoundTrips.no_loss {E : Env} {bad : List PyTy} {c : Name} {kvs : List (Name × Json)} (h : RoundTrips E bad (.cls c) (.obj kvs)) :
    ∃ v' out, (∃ m, structTy E m (.cls c) (.obj kvs) = .ok v') ∧ (∃ m, unstruct E m Option.none v' = .ok (.obj out)) ∧
      ∀ key x, Json.lookup kvs key = some x → x.isNull = false →
        ∃ y, Json.lookup out key = some y ∧ ∃ (f : Field) (k' : Nat), f.wireS = key ∧ nrel E k' f.ty x y = true := by
  obtain ⟨v', hs, _, _, ⟨j', m, hu, k, hk⟩⟩ := h
  cases k with
  | zero => simp [nrel] at hk
  | succ k =>
    have hk0 := hk
    unfold nrel at hk
    simp only at hk
    cases hc : E.pkg.findCls c with
    | none => simp [hc] at hk
    | some cl =>
      cases j' <;> try (simp [hc] at hk; done)
      rename_i out
      refine ⟨v', out, hs, ⟨m, hu⟩, ?_⟩
      intro key x hl hx
      obtain ⟨_, f, y, _, _, hfk, hy, k', hr⟩ := nrel_keeps E (k + 1) c kvs out hk0 key x hl hx
      exact ⟨y, hy, f, k', hfk, hr⟩

end LspVerif
