/-
  The link theorem: a JSON value that is valid under the metamodel (strictly, closed: Spec/Link.lean)
  has a typed reading at the annotation the generated package gives it —

      structsCover M E bad  →  annOK M E bad n T A  →  validTyC M m T j  →  keys distinct in j  →
          ∃ v k, rep E bad k A v j

  for every metamodel type `T`, every annotation `A` covering it and every JSON value `j` (any size,
  any nesting), by induction on the validity derivation.  With T1/T2 this makes the round-trip
  theorem speak about metamodel-valid values: the quantifier of C01, C02, C03, C14.

  `structsCover` (and `requestCovered` … for the message classes) are kernel-evaluated per run on the
  regenerated metamodel and package; `hI`/`hU` (the two range validators accept their range) are the
  per-run C12 theorems about the validator bodies translated from validators.py.
-/
import LspVerif.Spec.Link
import LspVerif.Props.Dispatch
namespace LspVerif

variable (M : Model) (E : Env) (bad : List PyTy)

/-! ### well-formed JSON (distinct keys) -/

def Wf (j : Json) : Prop := ∃ w, Json.wfF w j = true

theorem Wf.arr {xs : List Json} (h : Wf (.arr xs)) : ∀ x ∈ xs, Wf x := by
  obtain ⟨w, hw⟩ := h
  cases w with
  | zero => simp [Json.wfF] at hw
  | succ w =>
    simp only [Json.wfF, List.all_eq_true] at hw
    exact fun x hx => ⟨w, hw x hx⟩

theorem Wf.obj {kvs : List (Name × Json)} (h : Wf (.obj kvs)) : keysNodup kvs = true ∧ ∀ kv ∈ kvs, Wf kv.2 := by
  obtain ⟨w, hw⟩ := h
  cases w with
  | zero => simp [Json.wfF] at hw
  | succ w =>
    simp only [Json.wfF, Bool.and_eq_true, List.all_eq_true] at hw
    exact ⟨hw.1, fun kv hkv => ⟨w, hw.2 kv hkv⟩⟩

theorem lookup_mem' : ∀ (kvs : List (Name × Json)) (k : Name) (x : Json), Json.lookup kvs k = some x → ∃ k', (k', x) ∈ kvs ∧ k' = k
  | [], _, _, h => by simp [Json.lookup] at h
  | (k', y) :: rest, k, x, h => by
    by_cases hk : (k' == k) = true
    · simp [Json.lookup, hk] at h
      subst h
      exact ⟨k', by simp, by simpa using hk⟩
    · have hk' : (k' == k) = false := by simpa using hk
      simp only [Json.lookup, hk', Bool.false_eq_true, if_false] at h
      obtain ⟨k'', hm, he⟩ := lookup_mem' rest k x h
      exact ⟨k'', by simp [hm], he⟩

theorem Wf.lookup {kvs : List (Name × Json)} (h : Wf (.obj kvs)) {k : Name} {x : Json} (hl : Json.lookup kvs k = some x) : Wf x := by
  obtain ⟨k', hm, _⟩ := lookup_mem' kvs k x hl
  exact h.obj.2 (k', x) hm

theorem lookup_some_of_mem : ∀ (kvs : List (Name × Json)) (kv : Name × Json), kv ∈ kvs → ∃ x, Json.lookup kvs kv.1 = some x
  | [], _, h => by simp at h
  | (k, y) :: rest, kv, h => by
    by_cases hk : (k == kv.1) = true
    · exact ⟨y, by simp [Json.lookup, hk]⟩
    · have hk' : (k == kv.1) = false := by simpa using hk
      rcases List.mem_cons.mp h with rfl | hm
      · simp at hk
      · obtain ⟨x, hx⟩ := lookup_some_of_mem rest kv hm
        exact ⟨x, by simp [Json.lookup, hk', hx]⟩

/-! ### alternatives of an annotation -/

theorem hasAlt_sound {A t : PyTy} (h : hasAlt bad A t = true) : isBad bad t = false ∧ t ∈ alts A := by
  simp only [hasAlt, Bool.and_eq_true, Bool.not_eq_true', List.any_eq_true] at h
  obtain ⟨hb, u, hu, he⟩ := h
  rw [PyTy.eqb_sound he]
  exact ⟨by rw [← PyTy.eqb_sound he]; exact hb, hu⟩

theorem rep_of_alt {A u : PyTy} {k : Nat} {v : PyVal} {j : Json} (hb : isBad bad A = false) (hu : u ∈ alts A)
    (h : rep E bad k u v j = true) : rep E bad (k + 1) A v j = true := by
  cases A with
  | union us =>
    simp only [alts] at hu
    unfold rep
    simp only [hb, Bool.not_false, Bool.true_and, Bool.or_eq_true, List.any_eq_true]
    exact Or.inl ⟨u, hu, h⟩
  | _ =>
    simp only [alts, List.mem_singleton] at hu
    subst hu
    exact rep_succ E bad _ _ _ _ h

/-! ### the canonical reading of a scalar -/

def vshape : Ty → Json → PyVal → Prop
  | .base .integer, j, v => ∃ i, j = .int i ∧ v = .int i
  | .base .uinteger, j, v => ∃ i, j = .int i ∧ v = .int i
  | .base .string, _, v => ∃ s, v = .str s
  | .base .documentUri, _, v => ∃ s, v = .str s
  | .base .uri, _, v => ∃ s, v = .str s
  | .base .boolean, _, v => ∃ b, v = .bool b
  | .base .decimal, _, v => ∃ d, v = .float d
  | .strLit s, _, v => v = .str s
  | _, _, _ => True

theorem base_rep {b : Base} {j : Json} (hv : validBase b j = true) (hm : b.mapped = true) (hb : isBad bad (basePy b) = false) :
    ∃ v, rep E bad 1 (basePy b) v j = true ∧ vshape (.base b) j v := by
  cases b <;> cases j <;> simp [validBase, Base.mapped] at hv hm
  case uri.str s => exact ⟨.str s, by simpa [rep, basePy] using hb, ⟨s, rfl⟩⟩
  case documentUri.str s => exact ⟨.str s, by simpa [rep, basePy] using hb, ⟨s, rfl⟩⟩
  case string.str s => exact ⟨.str s, by simpa [rep, basePy] using hb, ⟨s, rfl⟩⟩
  case integer.int i => exact ⟨.int i, by simpa [rep, basePy] using hb, ⟨i, rfl, rfl⟩⟩
  case uinteger.int i => exact ⟨.int i, by simpa [rep, basePy] using hb, ⟨i, rfl, rfl⟩⟩
  case decimal.int i => exact ⟨.float (.int i), by simpa [rep, basePy] using hb, ⟨_, rfl⟩⟩
  case decimal.dec d => exact ⟨.float (.dec d), by simpa [rep, basePy] using hb, ⟨_, rfl⟩⟩
  case boolean.bool x => exact ⟨.bool x, by simpa [rep, basePy] using hb, ⟨x, rfl⟩⟩
  case null.null => exact ⟨.none, by simpa [rep, basePy] using hb, trivial⟩

/-! ### validators -/

theorem vld_accepts (hI : ∀ i, inInt32 i = true → (E.vld.int32 (.int i)).accepted = true)
    (hU : ∀ i, inUInt31 i = true → (E.vld.uint31 (.int i)).accepted = true)
    (cls : Name) (f : Field) (T : Ty) (opt : Bool) (m : Nat) (j : Json) (v : PyVal)
    (hok : vldOKFor T opt f.vld = true) (hv : validTyC M m T j = true) (hs : vshape T j v) :
    runFieldVld E cls f v = .ok () := by
  rw [runFieldVld_iff]
  have hok0 := hok
  simp only [vldOKFor, Bool.and_eq_true] at hok
  have hcore := hok.1.2
  -- acceptance by the core validator
  have core : ∀ w, f.vld.core = w → w ≠ Vld.none → ∃ pv, v.toPV = some pv ∧ pv ≠ PV.none ∧ (runVld E.vld w pv).accepted = true := by
    intro w hw hne
    rw [hw] at hcore
    cases m with
    | zero => simp [validTyC] at hv
    | succ m =>
    unfold validTyC at hv
    cases w <;> try (first | exact absurd rfl hne | (simp [vldCoreOK] at hcore; done))
    case int32 =>
      simp only [vldCoreOK] at hcore
      cases T <;> try (simp [Ty.isInt32] at hcore; done)
      rename_i b
      cases b <;> try (simp [Ty.isInt32] at hcore; done)
      all_goals
        obtain ⟨i, rfl, rfl⟩ := hs
        simp only [validBase] at hv
        refine ⟨.int i, rfl, by simp, ?_⟩
        simp only [runVld]
        first
          | exact hI i hv
          | (apply hI; simp only [inUInt31, inInt32, Bool.and_eq_true, decide_eq_true_eq] at hv ⊢; omega)
    case uint31 =>
      simp only [vldCoreOK] at hcore
      cases T <;> try (simp [Ty.isUInt31] at hcore; done)
      rename_i b
      cases b <;> try (simp [Ty.isUInt31] at hcore; done)
      obtain ⟨i, rfl, rfl⟩ := hs
      simp only [validBase] at hv
      exact ⟨.int i, rfl, by simp, by simpa [runVld] using hU i hv⟩
    case instStr =>
      simp only [vldCoreOK] at hcore
      cases T <;> try (simp [Ty.isStrLike] at hcore; done)
      case base b =>
        cases b <;> try (simp [Ty.isStrLike] at hcore; done)
        all_goals
          obtain ⟨s, rfl⟩ := hs
          exact ⟨.str s, rfl, by simp, by simp [runVld, VR.accepted]⟩
      case strLit s =>
        simp only [vshape] at hs
        subst hs
        exact ⟨.str s, rfl, by simp, by simp [runVld, VR.accepted]⟩
    case instBool =>
      simp only [vldCoreOK] at hcore
      cases T <;> try (simp [Ty.isBoolean] at hcore; done)
      rename_i b
      cases b <;> try (simp [Ty.isBoolean] at hcore; done)
      obtain ⟨x, rfl⟩ := hs
      exact ⟨.bool x, rfl, by simp, by simp [runVld, VR.accepted]⟩
    case instFloat =>
      simp only [vldCoreOK] at hcore
      cases T <;> try (simp [Ty.isDecimal] at hcore; done)
      rename_i b
      cases b <;> try (simp [Ty.isDecimal] at hcore; done)
      obtain ⟨d, rfl⟩ := hs
      exact ⟨.float 0, rfl, by simp, by simp [runVld, VR.accepted]⟩
    case inLit vs =>
      simp only [vldCoreOK] at hcore
      cases T <;> try (simp [Ty.litIn] at hcore; done)
      rename_i s
      simp only [vshape] at hs
      subst hs
      have hc : s ∈ vs := by simpa [Ty.litIn] using hcore
      exact ⟨.str s, rfl, by simp, by simp [runVld, VR.accepted, hc]⟩
  unfold vldAccepts
  cases hvl : f.vld with
  | none => rfl
  | opt w =>
    by_cases hwn : w = Vld.none
    · subst hwn
      simp [vldOKFor, hvl] at hok0
    · obtain ⟨pv, hpv, hne, hacc⟩ := core w (by simp [hvl, Vld.core]) hwn
      simp only [hpv]
      cases pv <;> first | exact absurd rfl hne | simpa [runVld] using hacc
  | int32 => obtain ⟨pv, hpv, _, hacc⟩ := core .int32 (by simp [hvl, Vld.core]) (by simp); simpa [hpv] using hacc
  | uint31 => obtain ⟨pv, hpv, _, hacc⟩ := core .uint31 (by simp [hvl, Vld.core]) (by simp); simpa [hpv] using hacc
  | instStr => obtain ⟨pv, hpv, _, hacc⟩ := core .instStr (by simp [hvl, Vld.core]) (by simp); simpa [hpv] using hacc
  | instBool => obtain ⟨pv, hpv, _, hacc⟩ := core .instBool (by simp [hvl, Vld.core]) (by simp); simpa [hpv] using hacc
  | instFloat => obtain ⟨pv, hpv, _, hacc⟩ := core .instFloat (by simp [hvl, Vld.core]) (by simp); simpa [hpv] using hacc
  | inLit vs => obtain ⟨pv, hpv, _, hacc⟩ := core (.inLit vs) (by simp [hvl, Vld.core]) (by simp); simpa [hpv] using hacc
  | other s => simp [hvl, Vld.core, vldCoreOK] at hcore

theorem vld_accepts_none (cls : Name) (f : Field) (h : f.vld.acceptsNone = true) : runFieldVld E cls f .none = .ok () := by
  rw [runFieldVld_iff]
  unfold vldAccepts
  cases hvl : f.vld <;> simp [hvl, Vld.acceptsNone] at h ⊢
  simp [PyVal.toPV, runVld, VR.accepted]

/-! ### `null` -/

theorem nullish_of_valid : ∀ (n m : Nat) (T : Ty), validTyC M m T .null = true → nullish M n T = true
  | 0, _, _, _ => rfl
  | _ + 1, 0, _, h => by simp [validTyC] at h
  | n + 1, m + 1, T, h => by
    unfold validTyC at h
    unfold nullish
    cases T with
    | base b => cases b <;> simp [validBase] at h ⊢
    | ref r =>
      simp only at h ⊢
      by_cases h1 : (r == n!"LSPAny") = true
      · simp [h1]
      · simp only [h1, Bool.false_eq_true, if_false] at h ⊢
        by_cases h2 : (r == n!"LSPObject") = true
        · simp [h2] at h
        · simp only [h2, Bool.false_eq_true, if_false] at h ⊢
          by_cases h3 : (r == n!"LSPArray") = true
          · simp [h3] at h
          · simp only [h3, Bool.false_eq_true, if_false] at h ⊢
            cases he : M.findEnum r with
            | some e =>
              simp only [he] at h ⊢
              by_cases hc : e.custom = true
              · simp only [hc, if_true] at h
                cases hb : e.base <;> simp [hb, validBase] at h ⊢
                exact hc
              · simp only [hc, Bool.false_eq_true, if_false] at h
                simp [enumHas] at h
            | none =>
              simp only [he] at h ⊢
              cases hs : M.findStruct r with
              | some s => simp [hs] at h
              | none =>
                simp only [hs] at h ⊢
                cases ha : M.findAlias r with
                | some a =>
                  simp only [ha] at h ⊢
                  exact nullish_of_valid n m a.ty h
                | none => simp [ha] at h
    | or ts =>
      simp only [List.any_eq_true] at h ⊢
      obtain ⟨a, ha, hva⟩ := h
      exact ⟨a, ha, nullish_of_valid n m a hva⟩
    | strLit s => simp at h
    | intLit i => simp at h
    | boolLit b => simp at h
    | array e => simp at h
    | map k v => simp at h
    | tuple ts => simp at h
    | and ts => simp at h
    | lit ps => simp at h

/-! ### assembling attribute values -/

theorem fields_exist (cname : Name) (kvs : List (Name × Json)) : ∀ fs : List Field,
    (∀ f ∈ fs, ∃ v k, FieldReads (rep E bad k) kvs f v ∧ runFieldVld E cname f v = .ok ()) →
    ∃ vals k, repFields (rep E bad k) kvs fs vals = true ∧ runVlds E cname fs vals = .ok ()
  | [], _ => ⟨[], 0, rfl, rfl⟩
  | f :: fs, h => by
    obtain ⟨vals, k2, hr2, hv2⟩ := fields_exist cname kvs fs (fun g hg => h g (by simp [hg]))
    obtain ⟨v, k1, hfr, hvl⟩ := h f (by simp)
    refine ⟨(f.name, v) :: vals, max k1 k2, ?_, ?_⟩
    · simp only [repFields, beq_self_eq_true, Bool.true_and, Bool.and_eq_true]
      refine ⟨?_, repFields_mono (fun t w x hh => rep_mono E bad (Nat.le_max_right _ _) hh) kvs fs vals hr2⟩
      unfold FieldReads at hfr
      cases hl : Json.lookup kvs f.wireS with
      | none =>
        simp only [hl] at hfr ⊢
        simp only [Bool.and_eq_true, beq_iff_eq]
        exact ⟨⟨hfr.1, by rw [hfr.2.1]; rfl⟩, rep_mono E bad (Nat.le_max_left _ _) hfr.2.2⟩
      | some x =>
        simp only [hl] at hfr ⊢
        simp only [Bool.and_eq_true]
        exact ⟨rep_mono E bad (Nat.le_max_left _ _) hfr.1, hfr.2⟩
    · simp only [runVlds, hvl]
      exact hv2

/-! ### collecting element readings at one fuel -/

theorem collect_all (t : PyTy) : ∀ xs : List Json, (∀ x ∈ xs, ∃ v k, rep E bad k t v x = true) →
    ∃ vs k, all2 (rep E bad k t) vs xs = true
  | [], _ => ⟨[], 0, rfl⟩
  | x :: xs, h => by
    obtain ⟨vs, k2, h2⟩ := collect_all t xs (fun y hy => h y (by simp [hy]))
    obtain ⟨v, k1, h1⟩ := h x (by simp)
    refine ⟨v :: vs, max k1 k2, ?_⟩
    simp only [all2, Bool.and_eq_true]
    exact ⟨rep_mono E bad (Nat.le_max_left _ _) h1, all2_mono (fun a b hab => rep_mono E bad (Nat.le_max_right _ _) hab) vs xs h2⟩

theorem collect_map (t : PyTy) : ∀ kvs : List (Name × Json), (∀ kv ∈ kvs, ∃ v k, rep E bad k t v kv.2 = true) →
    ∃ ps k, all2 (repEntry (rep E bad k) .str t) ps kvs = true
  | [], _ => ⟨[], 0, rfl⟩
  | kv :: kvs, h => by
    obtain ⟨ps, k2, h2⟩ := collect_map t kvs (fun y hy => h y (by simp [hy]))
    obtain ⟨v, k1, h1⟩ := h kv (by simp)
    refine ⟨(.str kv.1, v) :: ps, max k1 k2, ?_⟩
    simp only [all2, Bool.and_eq_true]
    refine ⟨?_, all2_mono (fun a b hab => repEntry_mono (fun t' w x hh => rep_mono E bad (Nat.le_max_right _ _) hh) .str t a b hab) ps kvs h2⟩
    simp only [repEntry, beq_self_eq_true, Bool.true_and]
    exact rep_mono E bad (Nat.le_max_left _ _) h1

theorem all2_ofJson {f : PyVal → Json → Bool} : ∀ xs : List Json, (∀ x ∈ xs, f (PyVal.ofJson x) x = true) →
    all2 f (PyVal.ofJsonList xs) xs = true
  | [], _ => rfl
  | x :: xs, h => by
    simp only [PyVal.ofJsonList, all2, Bool.and_eq_true]
    exact ⟨h x (by simp), all2_ofJson xs (fun y hy => h y (by simp [hy]))⟩

def Reads (T : Ty) (A : PyTy) (j : Json) : Prop := ∃ v k, rep E bad k A v j = true ∧ vshape T j v

theorem collect_tuple_l (n m : Nat)
    (IH : ∀ T A j, annOK M E bad n T A = true → validTyC M m T j = true → Wf j → Reads E bad T A j) :
    ∀ (ts : List Ty) (us : List PyTy) (xs : List Json), all2 (annOK M E bad n) ts us = true →
      (ts.zip xs).all (fun p => validTyC M m p.1 p.2) = true → xs.length = ts.length → (∀ x ∈ xs, Wf x) →
      ∃ vs k, all3 (rep E bad k) us vs xs = true
  | [], [], [], _, _, _, _ => ⟨[], 0, rfl⟩
  | [], [], _ :: _, _, _, hl, _ => by simp at hl
  | [], _ :: _, _, h, _, _, _ => by simp [all2] at h
  | _ :: _, [], _, h, _, _, _ => by simp [all2] at h
  | _ :: _, _ :: _, [], _, _, hl, _ => by simp at hl
  | t :: ts, u :: us, x :: xs, ha, hv, hl, hw => by
    simp only [all2, Bool.and_eq_true] at ha
    simp only [List.zip_cons_cons, List.all_cons, Bool.and_eq_true] at hv
    obtain ⟨vs, k2, h2⟩ := collect_tuple_l n m IH ts us xs ha.2 hv.2 (by simpa using hl) (fun y hy => hw y (by simp [hy]))
    obtain ⟨v, k1, h1, _⟩ := IH t u x ha.1 hv.1 (hw x (by simp))
    refine ⟨v :: vs, max k1 k2, ?_⟩
    simp only [all3, Bool.and_eq_true]
    exact ⟨rep_mono E bad (Nat.le_max_left _ _) h1, all3_mono (fun a b c habc => rep_mono E bad (Nat.le_max_right _ _) habc) us vs xs h2⟩

/-! ### an object read as a generated class -/

theorem props_rep (hI : ∀ i, inInt32 i = true → (E.vld.int32 (.int i)).accepted = true)
    (hU : ∀ i, inUInt31 i = true → (E.vld.uint31 (.int i)).accepted = true) (m : Nat)
    (IH : ∀ n T A j, annOK M E bad n T A = true → validTyC M m T j = true → Wf j → Reads E bad T A j)
    (n0 : Nat) (props : List (Name × Bool × Ty)) (cl : Cls) (hc : clsCoversW (annOK M E bad n0) M E bad n0 props cl = true)
    (hf : E.pkg.findCls cl.name = some cl) (kvs : List (Name × Json))
    (hv : validPropsC (validTyC M m) props kvs = true) (hw : Wf (.obj kvs)) :
    ∃ v k, rep E bad k (.cls cl.name) v (.obj kvs) = true := by
  simp only [clsCoversW, Bool.and_eq_true, Bool.not_eq_true', List.all_eq_true, List.any_eq_true, beq_iff_eq] at hc
  obtain ⟨⟨hnb, hpf⟩, hff⟩ := hc
  simp only [validPropsC, Bool.and_eq_true, List.all_eq_true, List.any_eq_true, beq_iff_eq] at hv
  obtain ⟨hkeys, hprops⟩ := hv
  -- one value per attribute
  have hfield : ∀ f ∈ cl.fields, ∃ v k, FieldReads (rep E bad k) kvs f v ∧ runFieldVld E cl.name f v = .ok () := by
    intro f hfm
    have hfc := hff f hfm
    cases hfind : props.find? (fun p => p.1 == f.wireS) with
    | none =>
      simp only [hfind, Bool.and_eq_true, beq_iff_eq] at hfc
      obtain ⟨⟨hd, hnr⟩, han⟩ := hfc
      have hl : Json.lookup kvs f.wireS = Option.none := by
        cases hl : Json.lookup kvs f.wireS with
        | none => rfl
        | some x =>
          obtain ⟨k', hm, hk'⟩ := lookup_mem' kvs f.wireS x hl
          obtain ⟨p, hp, hpn⟩ := hkeys (k', x) hm
          have : props.find? (fun p => p.1 == f.wireS) ≠ Option.none := by
            intro hnone
            have := List.find?_eq_none.mp hnone p hp
            simp only [beq_iff_eq] at this
            exact this (by rw [hpn]; exact hk')
          exact absurd hfind this
      refine ⟨.none, 4, ?_, vld_accepts_none E cl.name f han⟩
      unfold FieldReads
      simp only [hl]
      exact ⟨hd, by trivial, hnr⟩
    | some p =>
      simp only [hfind] at hfc
      have hpm : p ∈ props := List.mem_of_find?_eq_some hfind
      have hpn : p.1 = f.wireS := by
        have := List.find?_some hfind
        simpa using this
      simp only [fieldCoversW, Bool.and_eq_true, Bool.or_eq_true, Bool.not_eq_true', beq_iff_eq] at hfc
      obtain ⟨⟨⟨hann, hopt⟩, hfaith⟩, hvld⟩ := hfc
      have hp := hprops p hpm
      rw [hpn] at hp
      cases hl : Json.lookup kvs f.wireS with
      | some x =>
        simp only [hl] at hp
        obtain ⟨v, k, hr, hs⟩ := IH n0 p.2.2 f.ty x hann hp (hw.lookup hl)
        refine ⟨v, k, ?_, vld_accepts M E hI hU cl.name f p.2.2 p.2.1 m x v hvld hp hs⟩
        unfold FieldReads
        simp only [hl]
        refine ⟨hr, ?_⟩
        unfold Field.faithfulJ
        cases hd : f.dflt with
        | nothing => rfl
        | other s => rfl
        | str s =>
          simp only [hd, Bool.not_eq_true'] at hfaith
          simp [hfaith]
        | none =>
          simp only [hd, Bool.or_eq_true, Bool.not_eq_true'] at hfaith
          cases hxn : x.isNull with
          | false => simp
          | true =>
            have hx : x = .null := by cases x <;> simp [Json.isNull] at hxn ⊢
            subst hx
            have hnl := nullish_of_valid M n0 m p.2.2 hp
            rcases hfaith with (hh | hh) | hh
            · rw [hnl] at hh; cases hh
            · simp [hh]
            · simp [hh]
      | none =>
        simp only [hl] at hp
        rcases hopt with hno | ⟨hd, hnr⟩
        · rw [hp] at hno; cases hno
        · refine ⟨.none, 4, ?_, ?_⟩
          · unfold FieldReads
            simp only [hl]
            exact ⟨hd, by trivial, hnr⟩
          · apply vld_accepts_none
            simp only [vldOKFor, Bool.and_eq_true, Bool.or_eq_true, Bool.not_eq_true'] at hvld
            rcases hvld.1.1 with h' | h'
            · rw [hp] at h'; cases h'
            · exact h'
  obtain ⟨vals, k, hrf, hrv⟩ := fields_exist E bad cl.name kvs cl.fields hfield
  refine ⟨.inst cl.name vals, k + 1, ?_⟩
  unfold rep
  simp only [hnb, Bool.not_false, Bool.true_and, hf, beq_self_eq_true, hw.obj.1, hrf, hrv, Bool.and_true]
  simp only [List.all_eq_true, List.any_eq_true, beq_iff_eq]
  intro kv hkv
  obtain ⟨p, hp, hpn⟩ := hkeys kv hkv
  obtain ⟨f, hfm, hfw⟩ := hpf p hp
  exact ⟨f, hfm, by rw [hfw, hpn]⟩

/-! ### the theorem -/

theorem findStruct_name {r : Name} {s : Struct} (h : M.findStruct r = some s) : s.name = r ∧ s ∈ M.structures := by
  have h1 := List.find?_some h
  exact ⟨by simpa using h1, List.mem_of_find?_eq_some h⟩

theorem valid_rep (hS : structsCover M E bad = true)
    (hI : ∀ i, inInt32 i = true → (E.vld.int32 (.int i)).accepted = true)
    (hU : ∀ i, inUInt31 i = true → (E.vld.uint31 (.int i)).accepted = true) :
    ∀ (m n : Nat) (T : Ty) (A : PyTy) (j : Json), annOK M E bad n T A = true → validTyC M m T j = true → Wf j →
      Reads E bad T A j
  | 0, _, _, _, _, _, hv, _ => by simp [validTyC] at hv
  | _ + 1, 0, _, _, _, ha, _, _ => by simp [annOK] at ha
  | m + 1, n + 1, T, A, j, ha, hv, hw => by
    have IH := valid_rep hS hI hU m
    unfold annOK at ha
    unfold validTyC at hv
    simp only [Bool.and_eq_true, Bool.not_eq_true'] at ha
    obtain ⟨hnb, ha⟩ := ha
    -- an object with an explicit property list, read as the generated class that covers the list
    have obj_rep : ∀ (props : List (Name × Bool × Ty)) (kvs : List (Name × Json)),
        objCovered (annOK M E bad n) M E bad n props A = true → j = .obj kvs → validPropsC (validTyC M m) props kvs = true →
        ∃ u, u ∈ alts A ∧ ∃ v k, rep E bad k u v (.obj kvs) = true := by
      intro props kvs hoc hj hvp
      simp only [objCovered, List.any_eq_true] at hoc
      obtain ⟨u, hu, h2⟩ := hoc
      cases u <;> try (simp at h2; done)
      rename_i c
      simp only [Bool.and_eq_true, Bool.not_eq_true'] at h2
      cases hcl : E.pkg.findCls c with
      | none => simp [hcl] at h2
      | some cl =>
        simp only [hcl] at h2
        have hcn : cl.name = c := by
          have := List.find?_some hcl
          simpa using this
        obtain ⟨v, k, hr⟩ := props_rep M E bad hI hU m IH n props cl h2.2 (by rw [hcn]; exact hcl) kvs hvp (hj ▸ hw)
        exact ⟨.cls c, hu, v, k, by rw [← hcn]; exact hr⟩
    -- a reading at one alternative of A is a reading at A
    have viaAlt : ∀ {u : PyTy} {v : PyVal} {k : Nat}, u ∈ alts A → rep E bad k u v j = true → vshape T j v → Reads E bad T A j :=
      fun hu hr hs => ⟨_, _, rep_of_alt E bad hnb hu hr, hs⟩
    cases T with
    | base b =>
      simp only [Bool.and_eq_true] at ha
      obtain ⟨hbm, hu⟩ := hasAlt_sound bad ha.2
      obtain ⟨v, hr, hs⟩ := base_rep E bad hv ha.1 hbm
      exact viaAlt hu hr hs
    | strLit s =>
      cases j <;> try (simp at hv; done)
      rename_i x
      have hx : x = s := by simpa using hv
      subst hx
      simp only [Bool.or_eq_true, List.any_eq_true] at ha
      rcases ha with h1 | ⟨u, hu, h2⟩
      · obtain ⟨hbm, hu⟩ := hasAlt_sound bad h1
        exact viaAlt hu (show rep E bad 1 .str (.str x) (.str x) = true by simp [rep, hbm]) rfl
      · cases u <;> try (simp at h2; done)
        rename_i vs
        simp only [Bool.and_eq_true, Bool.not_eq_true'] at h2
        have hmem : x ∈ vs := by simpa using h2.2
        exact viaAlt hu (show rep E bad 1 (.literal vs) (.str x) (.str x) = true by simp [rep, h2.1, hmem]) rfl
    | intLit i => simp at ha
    | boolLit b => simp at ha
    | and ts =>
      simp only [Bool.and_eq_true, Bool.not_eq_true'] at ha
      cases j <;> try (simp at hv; done)
      rename_i kvs
      obtain ⟨u, hu, v, k, hr⟩ := obj_rep (andProps M ts) kvs ha.2 rfl hv
      exact viaAlt hu hr trivial
    | lit props =>
      cases j <;> try (simp at hv; done)
      rename_i kvs
      by_cases hpe : props.isEmpty = true
      · simp only [hpe, if_true] at ha
        obtain ⟨hbm, hu⟩ := hasAlt_sound bad ha
        exact viaAlt hu (show rep E bad 1 .any (PyVal.ofJson (.obj kvs)) (.obj kvs) = true by
          simp [rep, hbm, isOfJson_ofJson]) trivial
      · simp only [hpe, Bool.false_eq_true, if_false] at ha hv
        obtain ⟨u, hu, v, k, hr⟩ := obj_rep props kvs ha rfl hv
        exact viaAlt hu hr trivial
    | or ts =>
      simp only [List.any_eq_true] at hv
      simp only [List.all_eq_true] at ha
      obtain ⟨a, ham, hva⟩ := hv
      obtain ⟨v, k, hr, _⟩ := IH n a A j (ha a ham) hva hw
      exact ⟨v, k, hr, trivial⟩
    | array e =>
      cases j <;> try (simp at hv; done)
      rename_i xs
      simp only [List.all_eq_true] at hv
      simp only [List.any_eq_true] at ha
      obtain ⟨u, hu, h2⟩ := ha
      cases u <;> try (simp at h2; done)
      rename_i x
      simp only [Bool.and_eq_true, Bool.not_eq_true'] at h2
      obtain ⟨vs, k, hk⟩ := collect_all E bad x xs (fun y hy => by
        obtain ⟨v, k, hr, _⟩ := IH n e x y h2.2 (hv y hy) (hw.arr y hy)
        exact ⟨v, k, hr⟩)
      exact viaAlt hu (show rep E bad (k + 1) (.seq x) (.list vs) (.arr xs) = true by simp [rep, h2.1, hk]) trivial
    | map kt vt =>
      cases j <;> try (simp at hv; done)
      rename_i kvs
      simp only [List.all_eq_true] at hv
      simp only [List.any_eq_true] at ha
      obtain ⟨u, hu, h2⟩ := ha
      cases u <;> try (simp at h2; done)
      rename_i kk x
      cases kk <;> try (simp at h2; done)
      simp only [Bool.and_eq_true, Bool.not_eq_true'] at h2
      obtain ⟨ps, k, hk⟩ := collect_map E bad x kvs (fun kv hkv => by
        obtain ⟨v, k, hr, _⟩ := IH n vt x kv.2 h2.2 (hv kv hkv) (hw.obj.2 kv hkv)
        exact ⟨v, k, hr⟩)
      exact viaAlt hu (show rep E bad (k + 1) (.dict .str x) (.dict ps) (.obj kvs) = true by
        simp [rep, h2.1, hw.obj.1, hk]) trivial
    | tuple ts =>
      cases j <;> try (simp at hv; done)
      rename_i xs
      simp only [Bool.and_eq_true, beq_iff_eq] at hv
      simp only [List.any_eq_true] at ha
      obtain ⟨u, hu, h2⟩ := ha
      cases u <;> try (simp at h2; done)
      rename_i us
      simp only [Bool.and_eq_true, Bool.not_eq_true'] at h2
      obtain ⟨vs, k, hk⟩ := collect_tuple_l M E bad n m (IH n) ts us xs h2.2 hv.2 hv.1 (fun y hy => hw.arr y hy)
      exact viaAlt hu (show rep E bad (k + 1) (.tuple us) (.tuple vs) (.arr xs) = true by simp [rep, h2.1, hk]) trivial
    | ref r =>
      simp only at ha hv
      by_cases h1 : (r == n!"LSPAny") = true
      · simp only [h1, if_true] at ha
        obtain ⟨hbm, hu⟩ := hasAlt_sound bad ha
        exact viaAlt hu (show rep E bad 1 .any (PyVal.ofJson j) j = true by simp [rep, hbm, isOfJson_ofJson]) trivial
      · simp only [h1, Bool.false_eq_true, if_false] at ha hv
        by_cases h2 : (r == n!"LSPObject") = true
        · simp only [h2, if_true] at ha hv
          cases j <;> try (simp at hv; done)
          rename_i kvs
          obtain ⟨hbm, hu⟩ := hasAlt_sound bad ha
          exact viaAlt hu (show rep E bad 1 .obj (PyVal.ofJson (.obj kvs)) (.obj kvs) = true by
            simp [rep, hbm, isOfJson_ofJson]) trivial
        · simp only [h2, Bool.false_eq_true, if_false] at ha hv
          by_cases h3 : (r == n!"LSPArray") = true
          · simp only [h3, if_true] at ha hv
            cases j <;> try (simp at hv; done)
            rename_i xs
            simp only [List.any_eq_true] at ha
            obtain ⟨u, hu, h4⟩ := ha
            cases u <;> try (simp at h4; done)
            rename_i x
            simp only [Bool.and_eq_true, Bool.not_eq_true'] at h4
            obtain ⟨⟨hbu, hbx⟩, hany⟩ := h4
            obtain ⟨hba, hua⟩ := hasAlt_sound bad hany
            have hel : ∀ y ∈ xs, rep E bad 2 x (PyVal.ofJson y) y = true := fun y _ =>
              rep_of_alt E bad hbx hua (show rep E bad 1 .any (PyVal.ofJson y) y = true by simp [rep, hba, isOfJson_ofJson])
            exact viaAlt hu (show rep E bad 3 (.seq x) (.list (PyVal.ofJsonList xs)) (.arr xs) = true by
              simp only [rep, hbu, Bool.not_false, Bool.true_and]
              exact all2_ofJson xs hel) trivial
          · simp only [h3, Bool.false_eq_true, if_false] at ha hv
            cases he : M.findEnum r with
            | some e =>
              simp only [he] at ha hv
              by_cases hc : e.custom = true
              · simp only [hc, if_true, Bool.and_eq_true] at ha hv
                obtain ⟨hbm, hu⟩ := hasAlt_sound bad ha.2
                obtain ⟨v, hr, _⟩ := base_rep E bad hv ha.1 hbm
                exact viaAlt hu hr trivial
              · simp only [hc, Bool.false_eq_true, if_false, Bool.and_eq_true] at ha hv
                obtain ⟨hbm, hu⟩ := hasAlt_sound bad ha.1
                have hcov := ha.2
                simp only [enumCovered, he] at hcov
                cases hpe : E.pkg.findEnum r with
                | none => simp [hpe] at hcov
                | some pe =>
                  simp only [hpe, List.all_eq_true] at hcov
                  simp only [enumHas] at hv
                  cases j <;> try (simp at hv; done)
                  case str s =>
                    simp only [List.any_eq_true, beq_iff_eq] at hv
                    obtain ⟨ev, hev, hval⟩ := hv
                    have hmem := hcov ev hev
                    rw [hval] at hmem
                    exact viaAlt hu (show rep E bad 1 (.enum r) (.enum r (.s s)) (.str s) = true by
                      simp [rep, hbm, hpe, hmem]) trivial
                  case int i =>
                    simp only [List.any_eq_true, beq_iff_eq] at hv
                    obtain ⟨ev, hev, hval⟩ := hv
                    have hmem := hcov ev hev
                    rw [hval] at hmem
                    exact viaAlt hu (show rep E bad 1 (.enum r) (.enum r (.i i)) (.int i) = true by
                      simp [rep, hbm, hpe, hmem]) trivial
            | none =>
              simp only [he] at ha hv
              cases hs : M.findStruct r with
              | some s =>
                simp only [hs] at ha hv
                cases j <;> try (simp at hv; done)
                rename_i kvs
                obtain ⟨hbm, hu⟩ := hasAlt_sound bad ha
                obtain ⟨hsn, hsm⟩ := findStruct_name M hs
                have hsc := List.all_eq_true.mp hS s hsm
                simp only [structCovers] at hsc
                cases hcl : E.pkg.findCls s.name with
                | none => simp [hcl] at hsc
                | some cl =>
                  simp only [hcl] at hsc
                  have hcn : cl.name = s.name := by
                    have := List.find?_some hcl
                    simpa using this
                  have hcl' : E.pkg.findCls cl.name = some cl := by rw [hcn]; exact hcl
                  obtain ⟨v, k, hr⟩ := props_rep M E bad hI hU m IH linkFuel (propsOf (flatten M s)) cl hsc hcl' kvs hv hw
                  rw [hcn, hsn] at hr
                  exact viaAlt hu hr trivial
              | none =>
                simp only [hs] at ha hv
                cases hal : M.findAlias r with
                | some a =>
                  simp only [hal] at ha hv
                  obtain ⟨v, k, hr, _⟩ := IH n a.ty A j ha hv hw
                  exact ⟨v, k, hr, trivial⟩
                | none => simp [hal] at ha

/-! ### message classes -/

/-- an object valid for a non-empty property list (the JSON-RPC envelope of a message) is read by the class that covers the list -/
theorem valid_object_rep (hS : structsCover M E bad = true)
    (hI : ∀ i, inInt32 i = true → (E.vld.int32 (.int i)).accepted = true)
    (hU : ∀ i, inUInt31 i = true → (E.vld.uint31 (.int i)).accepted = true)
    (props : List (Name × Bool × Ty)) (hne : props.isEmpty = false) (cl : Cls) (hc : clsCovers M E bad props cl = true)
    (hf : E.pkg.findCls cl.name = some cl) (m : Nat) (j : Json) (hv : validTyC M m (.lit props) j = true) (hw : Wf j) :
    ∃ v k, rep E bad k (.cls cl.name) v j = true := by
  cases m with
  | zero => simp [validTyC] at hv
  | succ m =>
    unfold validTyC at hv
    cases j <;> try (simp at hv; done)
    rename_i kvs
    simp only [hne, Bool.false_eq_true, if_false] at hv
    exact props_rep M E bad hI hU m (valid_rep M E bad hS hI hU m) linkFuel props cl hc hf kvs hv hw


theorem findCls_name' {c : Name} {cl : Cls} (h : E.pkg.findCls c = some cl) : cl.name = c := by
  have := List.find?_some h
  simpa using this

theorem valid_request_rep (hS : structsCover M E bad = true)
    (hI : ∀ i, inInt32 i = true → (E.vld.int32 (.int i)).accepted = true)
    (hU : ∀ i, inUInt31 i = true → (E.vld.uint31 (.int i)).accepted = true)
    (r : Request) (hc : requestCovered M E bad r = true) (j : Json) (hv : validRequestC M r j = true) (hw : Wf j) :
    ∃ e, entryOf E r.method = some e ∧ ∃ v k, rep E bad k (.cls e.req) v j = true := by
  simp only [requestCovered] at hc
  cases he : entryOf E r.method with
  | none => simp [he] at hc
  | some e =>
    simp only [he] at hc
    cases hcl : E.pkg.findCls e.req with
    | none => simp [hcl] at hc
    | some cl =>
      simp only [hcl] at hc
      have hn := findCls_name' E hcl
      obtain ⟨v, k, hr⟩ := valid_object_rep M E bad hS hI hU (requestProps r) (by simp [requestProps]) cl hc (by rw [hn]; exact hcl) vFuel j hv hw
      exact ⟨e, rfl, v, k, by rw [← hn]; exact hr⟩

theorem valid_response_rep (hS : structsCover M E bad = true)
    (hI : ∀ i, inInt32 i = true → (E.vld.int32 (.int i)).accepted = true)
    (hU : ∀ i, inUInt31 i = true → (E.vld.uint31 (.int i)).accepted = true)
    (r : Request) (hc : responseCovered M E bad r = true) (j : Json) (hv : validResponseC M r j = true) (hw : Wf j) :
    ∃ e rn, entryOf E r.method = some e ∧ e.resp = some rn ∧ ∃ v k, rep E bad k (.cls rn) v j = true := by
  simp only [responseCovered] at hc
  cases he : entryOf E r.method with
  | none => simp [he] at hc
  | some e =>
    simp only [he] at hc
    cases hrn : e.resp with
    | none => simp [hrn] at hc
    | some rn =>
      simp only [hrn] at hc
      cases hcl : E.pkg.findCls rn with
      | none => simp [hcl] at hc
      | some cl =>
        simp only [hcl] at hc
        have hn := findCls_name' E hcl
        obtain ⟨v, k, hr⟩ := valid_object_rep M E bad hS hI hU (responseProps r) (by simp [responseProps]) cl hc (by rw [hn]; exact hcl) vFuel j hv hw
        exact ⟨e, rn, rfl, hrn, v, k, by rw [← hn]; exact hr⟩

theorem valid_notification_rep (hS : structsCover M E bad = true)
    (hI : ∀ i, inInt32 i = true → (E.vld.int32 (.int i)).accepted = true)
    (hU : ∀ i, inUInt31 i = true → (E.vld.uint31 (.int i)).accepted = true)
    (nt : Notification) (hc : notificationCovered M E bad nt = true) (j : Json) (hv : validNotificationC M nt j = true) (hw : Wf j) :
    ∃ e, entryOf E nt.method = some e ∧ ∃ v k, rep E bad k (.cls e.req) v j = true := by
  simp only [notificationCovered] at hc
  cases he : entryOf E nt.method with
  | none => simp [he] at hc
  | some e =>
    simp only [he] at hc
    cases hcl : E.pkg.findCls e.req with
    | none => simp [hcl] at hc
    | some cl =>
      simp only [hcl] at hc
      have hn := findCls_name' E hcl
      obtain ⟨v, k, hr⟩ := valid_object_rep M E bad hS hI hU (notificationProps nt) (by simp [notificationProps]) cl hc (by rw [hn]; exact hcl) vFuel j hv hw
      exact ⟨e, rfl, v, k, by rw [← hn]; exact hr⟩

/-- a structure of the metamodel, by name -/
theorem valid_struct_rep (hS : structsCover M E bad = true)
    (hI : ∀ i, inInt32 i = true → (E.vld.int32 (.int i)).accepted = true)
    (hU : ∀ i, inUInt31 i = true → (E.vld.uint31 (.int i)).accepted = true)
    (s : Struct) (hs : s ∈ M.structures) (m : Nat) (j : Json)
    (hv : (match j with | .obj kvs => validPropsC (validTyC M m) (propsOf (flatten M s)) kvs | _ => false) = true) (hw : Wf j) :
    ∃ v k, rep E bad k (.cls s.name) v j = true := by
  have hsc := List.all_eq_true.mp hS s hs
  simp only [structCovers] at hsc
  cases hcl : E.pkg.findCls s.name with
  | none => simp [hcl] at hsc
  | some cl =>
    simp only [hcl] at hsc
    have hn := findCls_name' E hcl
    cases j <;> try (simp at hv; done)
    rename_i kvs
    obtain ⟨v, k, hr⟩ := props_rep M E bad hI hU m (valid_rep M E bad hS hI hU m) linkFuel (propsOf (flatten M s)) cl hsc (by rw [hn]; exact hcl) kvs hv hw
    exact ⟨v, k, by rw [← hn]; exact hr⟩

/-! ### closed validity is validity -/

theorem all_imp {α} {f g : α → Bool} : ∀ (xs : List α), (∀ x ∈ xs, f x = true → g x = true) → xs.all f = true → xs.all g = true := by
  intro xs h hf
  simp only [List.all_eq_true] at hf ⊢
  exact fun x hx => h x hx (hf x hx)

theorem validPropsC_imp {r r' : Ty → Json → Bool} (h : ∀ t x, r t x = true → r' t x = true)
    (props : List (Name × Bool × Ty)) (kvs : List (Name × Json)) (hv : validPropsC r props kvs = true) : validProps r' props kvs = true := by
  unfold validProps
  by_cases he : props.isEmpty = true
  · simp [he]
  · simp only [he, Bool.false_eq_true, if_false]
    simp only [validPropsC, Bool.and_eq_true] at hv ⊢
    refine ⟨hv.1, all_imp props (fun p _ hp => ?_) hv.2⟩
    cases hl : Json.lookup kvs p.1 with
    | none => simpa [hl] using hp
    | some x =>
      simp only [hl] at hp ⊢
      exact h _ _ hp

/-- every closed-valid value is valid in the sense of Spec/StrictValid (the labelling spec of C17) -/
theorem validTyC_validTy : ∀ (n : Nat) (T : Ty) (j : Json), validTyC M n T j = true → validTy M n T j = true
  | 0, _, _, h => by simp [validTyC] at h
  | n + 1, T, j, h => by
    have ih := validTyC_validTy n
    unfold validTyC at h
    unfold validTy
    cases T with
    | ref r =>
      simp only at h ⊢
      by_cases h1 : (r == n!"LSPAny") = true
      · simp [h1]
      · simp only [h1, Bool.false_eq_true, if_false] at h ⊢
        by_cases h2 : (r == n!"LSPObject") = true
        · simp only [h2, if_true] at h ⊢
          cases j <;> first | rfl | (simp at h)
        · simp only [h2, Bool.false_eq_true, if_false] at h ⊢
          by_cases h3 : (r == n!"LSPArray") = true
          · simp only [h3, if_true] at h ⊢
            cases j <;> first | rfl | (simp at h)
          · simp only [h3, Bool.false_eq_true, if_false] at h ⊢
            cases he : M.findEnum r with
            | some e => simpa [he] using h
            | none =>
              simp only [he] at h ⊢
              cases hs : M.findStruct r with
              | some s =>
                simp only [hs] at h ⊢
                cases j <;> try (simp at h; done)
                exact validPropsC_imp ih _ _ h
              | none =>
                simp only [hs] at h ⊢
                cases ha : M.findAlias r with
                | some a => simp only [ha] at h ⊢; exact ih _ _ h
                | none => simp [ha] at h
    | array e =>
      cases j <;> try (simp at h; done)
      exact all_imp _ (fun x _ hx => ih _ _ hx) h
    | map k v =>
      cases j <;> try (simp at h; done)
      exact all_imp _ (fun x _ hx => ih _ _ hx) h
    | tuple ts =>
      cases j <;> try (simp at h; done)
      simp only [Bool.and_eq_true] at h ⊢
      exact ⟨h.1, all_imp _ (fun x _ hx => ih _ _ hx) h.2⟩
    | or ts =>
      simp only [List.any_eq_true] at h ⊢
      obtain ⟨a, ha, hva⟩ := h
      exact ⟨a, ha, ih _ _ hva⟩
    | and ts =>
      cases j <;> try (simp at h; done)
      rename_i kvs
      exact validPropsC_imp ih _ _ h
    | lit props =>
      cases j <;> try (simp at h; done)
      rename_i kvs
      simp only at h ⊢
      by_cases he : props.isEmpty = true
      · simp [validProps, he]
      · simp only [he, Bool.false_eq_true, if_false] at h
        exact validPropsC_imp ih _ _ h
    | base b => exact h
    | strLit s => exact h
    | intLit i => exact h
    | boolLit b => exact h

end LspVerif
