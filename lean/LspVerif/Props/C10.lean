/-
  C10 — null versus omitted.  Table checker + soundness, and the semantic theorem that turns the
  table facts into the property's iff, for every attribute value.
-/
import LspVerif.Props.Conv
import LspVerif.Props.C04
namespace LspVerif

def fieldOmitOK (e : ExpField) (c : Cls) : Bool :=
  match c.fields.filter (·.wireS == e.wire) with
  | [f] => f.omitU == e.omitDflt && f.dflt == e.dflt && f.wireU == e.wire
  | _ => false

def classOmitOK (P : Pkg) (cls : Name) (exp : List ExpField) : Bool :=
  match P.findCls cls with
  | some c => exp.all (fieldOmitOK · c)
  | none => false

def structOmitOK (M : Model) (P : Pkg) (s : Struct) : Bool := classOmitOK P s.name (expectedFields M s)

def requestOmitOK (M : Model) (P : Pkg) (r : Request) : Bool :=
  match r.cls, r.respCls with
  | some cls, some resp => classOmitOK P cls (expectedRequestFields M r cls) && classOmitOK P resp (expectedResponseFields M r)
  | _, _ => false

def notificationOmitOK (M : Model) (P : Pkg) (n : Notification) : Bool :=
  match n.cls with
  | some cls => classOmitOK P cls (expectedNotificationFields M n cls)
  | none => false

/-- What the table check establishes for one expected field. -/
def OmitAgrees (e : ExpField) (c : Cls) : Prop :=
  ∃ f, c.fields.filter (·.wireS == e.wire) = [f] ∧ f.omitU = e.omitDflt ∧ f.dflt = e.dflt ∧ f.wireU = e.wire

theorem fieldOmitOK_sound {e : ExpField} {c : Cls} (h : fieldOmitOK e c = true) : OmitAgrees e c := by
  unfold fieldOmitOK at h
  split at h
  · rename_i f hf
    simp only [Bool.and_eq_true, beq_iff_eq] at h
    exact ⟨f, hf, h.1.1, h.1.2, h.2⟩
  · simp at h

theorem classOmitOK_sound {P : Pkg} {cls : Name} {exp : List ExpField} (h : classOmitOK P cls exp = true) :
    ∃ c, P.findCls cls = some c ∧ ∀ e ∈ exp, OmitAgrees e c := by
  unfold classOmitOK at h
  split at h
  · rename_i c hc
    exact ⟨c, hc, fun e he => fieldOmitOK_sound (List.all_eq_true.mp h e he)⟩
  · simp at h

/-- The serialising half of C10 for one attribute, for every value it may hold: the key is left
    out iff the value is None and the expected field is omit-if-default with default None. -/
theorem written_iff_of_agrees (f : Field) (e : ExpField) (v : PyVal)
    (ho : f.omitU = e.omitDflt) (hd : f.dflt = e.dflt) :
    f.written v = false ↔ e.omitDflt = true ∧ ∃ d, e.dflt.toVal = some d ∧ PyVal.beq v d = true := by
  rw [Field.written_iff, ho, hd]
  constructor
  · rintro ⟨d, h1, h2, h3⟩
    exact ⟨h2, d, h1, h3⟩
  · rintro ⟨h2, d, h1, h3⟩
    exact ⟨d, h1, h2, h3⟩

/-- For a metamodel property: left out iff unset (None), optional, not null-admitting, not a literal. -/
theorem written_iff_property (M : Model) (p : Prp) (f : Field) (v : PyVal)
    (ho : f.omitU = (expectedField M p).omitDflt) (hd : f.dflt = (expectedField M p).dflt) :
    f.written v = false ↔
      (p.optional = true ∧ p.ty.nullAdmitting = false ∧ p.ty.isStrLit = false ∧ PyVal.beq v .none = true) := by
  rw [written_iff_of_agrees f _ v ho hd]
  clear ho hd
  obtain ⟨name, ty, optional, proposed⟩ := p
  simp only [expectedField, Prp.opt]
  by_cases hs : ty.isStrLit = true
  · cases ty <;> simp_all [Ty.isStrLit, Ty.nullAdmitting, expectedDflt, Dflt.toVal]
  · have hl : ty.isStrLit = false := by simpa using hs
    rw [expectedDflt_nonlit ty _ hl, hl]
    cases ty.nullAdmitting <;> cases optional <;> simp [Dflt.toVal]

/-- The parsing half: an absent key reads as the attribute's default. -/
theorem fieldVal_absent (recur : PyTy → Json → Except Err PyVal) (cls : Name) (kvs : List (Name × Json)) (f : Field)
    (d : PyVal) (hl : Json.lookup kvs f.wireS = Option.none) (hd : f.dflt.toVal = some d) :
    fieldVal recur cls kvs f = .ok d := by
  simp only [fieldVal, hl, hd]

end LspVerif
