/-
  T1 — totality and well-typedness of structuring on valid input (C03, C14, and the first half of C01):

      envOK E bad U  →  ty ∈ U  →  Valid ty j  →  ∃ v', structure(j, ty) = ok v' ∧ v' is a typed reading of j at ty

  for every JSON value `j` (any size, any nesting), by induction on the size of `j`.  `envOK` is the
  kernel-evaluated table fact (per run, on the regenerated environment): for every annotation of the
  universe `U`, the registered hook / the disambiguator cattrs built passes the dispatch checker, no
  union is left without support, and `U` is closed under what `structTy` recurs into.
-/
import LspVerif.Props.ChkSound
namespace LspVerif

variable (E : Env) (bad : List PyTy)

/-- the annotation passes the structural closure check (at some fuel) -/
def InU (H : List PyTy) (ty : PyTy) : Prop := ∃ n, lightOK E bad H n ty = true

theorem optionalOf_inv {ts : List PyTy} {x : PyTy} (h : PyTy.optionalOf ts = some x) :
    ts = [.none, x] ∨ ts = [x, .none] := by
  rcases ts with _ | ⟨a, _ | ⟨b, _ | ⟨c, r⟩⟩⟩
  · simp [PyTy.optionalOf] at h
  · simp [PyTy.optionalOf] at h
  · cases a <;> cases b <;> simp [PyTy.optionalOf] at h <;> simp [h]
  · simp [PyTy.optionalOf] at h

theorem simple_unique : ∀ (k n m : Nat) (t : PyTy) (v v' : PyVal) (x : Json), simpleTyF k t = true →
    rep E bad n t v x = true → rep E bad m t v' x = true → v = v'
  | 0, _, _, _, _, _, _, hs, _, _ => by simp [simpleTyF] at hs
  | _ + 1, 0, _, _, _, _, _, _, h, _ => by simp [rep] at h
  | _ + 1, _ + 1, 0, _, _, _, _, _, _, h => by simp [rep] at h
  | k + 1, n + 1, m + 1, t, v, v', x, hs, h, h' => by
    have h0 := h
    have h0' := h'
    unfold rep at h h'
    simp only [Bool.and_eq_true] at h h'
    have h2 := h.2
    have h2' := h'.2
    cases t with
    | int => cases v <;> cases v' <;> cases x <;> simp at h2 h2' <;> simp [h2, h2']
    | str => cases v <;> cases v' <;> cases x <;> simp at h2 h2' <;> simp [h2, h2']
    | bool => cases v <;> cases v' <;> cases x <;> simp at h2 h2' <;> simp [h2, h2']
    | none => cases v <;> cases v' <;> cases x <;> simp at h2 h2' <;> rfl
    | literal vs => cases v <;> cases v' <;> cases x <;> simp at h2 h2' <;> simp [h2.1, h2'.1]
    | float =>
      cases v <;> cases v' <;> cases x <;> simp at h2 h2'
      all_goals
        rename_i d d' b
        cases d <;> cases d' <;> simp at h2 h2' <;> simp [h2, h2']
    | union ts =>
      have hts : ∃ x0, simpleTyF k x0 = true ∧ ∀ u ∈ ts, u = x0 ∨ u = PyTy.none := by
        simp only [simpleTyF] at hs
        cases ho : PyTy.optionalOf ts with
        | none => simp [ho] at hs
        | some x0 =>
          simp only [ho] at hs
          refine ⟨x0, hs, ?_⟩
          rcases optionalOf_inv ho with rfl | rfl <;> (intro u hu; simp at hu; rcases hu with rfl | rfl <;> simp)
      obtain ⟨x0, hx0, hmem⟩ := hts
      have hnoraw : ∀ (r : PyTy → PyVal → Json → Bool) (w : PyVal), rawEnum r ts w x = false := by
        intro r w
        cases hr : rawEnum r ts w x with
        | false => rfl
        | true =>
          simp only [rawEnum, List.any_eq_true] at hr
          obtain ⟨u, hu, hh⟩ := hr
          rcases hmem u hu with rfl | rfl
          · cases u <;> first | (simp at hh; done) | (cases k <;> simp [simpleTyF] at hx0)
          · simp at hh
      simp only [hnoraw, Bool.and_false, Bool.or_false, List.any_eq_true] at h2 h2'
      obtain ⟨u, hu, hru⟩ := h2
      obtain ⟨u', hu', hru'⟩ := h2'
      rcases hmem u hu with rfl | rfl <;> rcases hmem u' hu' with rfl | rfl
      · exact simple_unique k n m _ v v' x hx0 hru hru'
      · have hx := rep_noneTy E bad hru'
        subst hx
        rw [rep_null E bad hru, rep_null E bad hru']
      · have hx := rep_noneTy E bad hru
        subst hx
        rw [rep_null E bad hru, rep_null E bad hru']
      · have hx := rep_noneTy E bad hru
        subst hx
        rw [rep_null E bad hru, rep_null E bad hru']
    | _ => simp [simpleTyF] at hs

/-! ### class nodes -/

theorem runFieldVld_vld_none (cls : Name) (f : Field) (v : PyVal) (h : f.vld = Vld.none) : runFieldVld E cls f v = .ok () := by
  simp [runFieldVld, h]

/-- structuring every attribute of a class node succeeds with typed readings, and attributes that
    carry validators get the very value the given reading has -/
theorem fields_total (H : List PyTy) (cname : Name) (kvs : List (Name × Json)) (n : Nat)
    (HS : ∀ x, x.size < (Json.obj kvs).size → ∀ B, InU E bad H B → Valid E bad B x → Goal E bad B x) :
    ∀ (fs : List Field) (vals : List (Name × PyVal)), repFields (rep E bad n) kvs fs vals = true →
      (∀ f ∈ fs, InU E bad H f.ty ∧ (f.vld = Vld.none ∨ simpleTyF 4 f.ty = true)) →
      ∃ vals', (∃ m, structFields (structTy E m) cname kvs fs = .ok vals') ∧
        (∃ k, repFields (rep E bad k) kvs fs vals' = true) ∧
        (∀ u, runVlds E cname fs vals = .ok u → runVlds E cname fs vals' = .ok u)
  | [], [], _, _ => ⟨[], ⟨0, rfl⟩, ⟨0, rfl⟩, fun _ h => h⟩
  | [], _ :: _, h, _ => by simp [repFields] at h
  | _ :: _, [], h, _ => by simp [repFields] at h
  | f :: fs, (a, v) :: vs, h, hU => by
    simp only [repFields, Bool.and_eq_true, beq_iff_eq] at h
    obtain ⟨⟨ha, hcl⟩, hrest⟩ := h
    obtain ⟨vals', ⟨m2, hm2⟩, ⟨k2, hk2⟩, hv2⟩ := fields_total H cname kvs n HS fs vs hrest (fun g hg => hU g (by simp [hg]))
    obtain ⟨hfU, hfv⟩ := hU f (by simp)
    -- the value of this attribute
    have hone : ∃ v', (∃ m, fieldVal (structTy E m) cname kvs f = .ok v') ∧
        (∃ k, (match Json.lookup kvs f.wireS with
               | some x => rep E bad k f.ty v' x && f.faithfulJ x
               | Option.none => f.dflt == Dflt.none && v'.isNone && rep E bad k f.ty .none .null) = true) ∧
        (runFieldVld E cname f v = .ok () → runFieldVld E cname f v' = .ok ()) := by
      cases hl : Json.lookup kvs f.wireS with
      | none =>
        simp only [hl, Bool.and_eq_true, beq_iff_eq] at hcl
        refine ⟨.none, ⟨0, by simp [fieldVal, hl, hcl.1.1, Dflt.toVal]⟩, ⟨n, by simp [hcl.1.1, PyVal.isNone, hcl.2]⟩, ?_⟩
        have : v = .none := by
          have h3 := hcl.1.2
          cases v <;> simp [PyVal.isNone] at h3 ⊢
        rw [this]; exact id
      | some x =>
        simp only [hl, Bool.and_eq_true] at hcl
        obtain ⟨v', ⟨m1, hm1⟩, ⟨k1, hk1⟩⟩ := HS x (size_lookup hl) f.ty hfU ⟨v, n, hcl.1⟩
        refine ⟨v', ⟨m1, by simp [fieldVal, hl, hm1]⟩, ⟨k1, by simp [hk1, hcl.2]⟩, ?_⟩
        rcases hfv with hnone | hsimple
        · intro _; exact runFieldVld_vld_none E cname f v' hnone
        · rw [simple_unique E bad 4 n k1 f.ty v v' x hsimple hcl.1 hk1]; exact id
    obtain ⟨v', ⟨m1, hm1⟩, ⟨k1, hk1⟩, hvl⟩ := hone
    refine ⟨(f.name, v') :: vals', ⟨max m1 m2, ?_⟩, ⟨max k1 k2, ?_⟩, ?_⟩
    · rw [structFields_cons_ok]
      exact ⟨v', vals', fieldVal_mono (le_structTy E (Nat.le_max_left _ _)) cname kvs f v' hm1,
        structFields_mono (le_structTy E (Nat.le_max_right _ _)) cname kvs fs vals' hm2, rfl⟩
    · simp only [repFields, Bool.and_eq_true, beq_self_eq_true, true_and]
      refine ⟨?_, repFields_mono (fun t w x hh => rep_mono E bad (Nat.le_max_right _ _) hh) kvs fs vals' hk2⟩
      cases hl : Json.lookup kvs f.wireS with
      | none =>
        simp only [hl, Bool.and_eq_true] at hk1 ⊢
        exact ⟨hk1.1, rep_mono E bad (Nat.le_max_left _ _) hk1.2⟩
      | some x =>
        simp only [hl, Bool.and_eq_true] at hk1 ⊢
        exact ⟨rep_mono E bad (Nat.le_max_left _ _) hk1.1, hk1.2⟩
    · intro u hu
      simp only [runVlds] at hu ⊢
      cases hfr : runFieldVld E cname f v with
      | error e => simp [hfr] at hu
      | ok u' =>
        simp only [hfr] at hu
        rw [hvl hfr]
        exact hv2 u hu

/-! ### maps and tuples -/

theorem collect_entries (H : List PyTy) (k t : PyTy) (n : Nat) (J : Json)
    (hk : InU E bad H k) (ht : InU E bad H t)
    (HS : ∀ x, x.size < J.size → ∀ B, InU E bad H B → Valid E bad B x → Goal E bad B x) :
    ∀ (ps : List (PyVal × PyVal)) (kvs : List (Name × Json)),
      (∀ kv ∈ kvs, kv.2.size < J.size ∧ 1 < J.size) →
      all2 (repEntry (rep E bad n) k t) ps kvs = true →
      ∃ ps', (∃ m, mapE (dictEntry (structTy E m) k t) kvs = .ok ps') ∧
        (∃ n', all2 (repEntry (rep E bad n') k t) ps' kvs = true)
  | [], [], _, _ => ⟨[], ⟨0, rfl⟩, ⟨0, rfl⟩⟩
  | [], _ :: _, _, h => by simp [all2] at h
  | _ :: _, [], _, h => by simp [all2] at h
  | p :: ps, kv :: kvs, hsz, h => by
    simp only [all2, Bool.and_eq_true] at h
    obtain ⟨ps', ⟨m2, hm2⟩, ⟨n2, hn2⟩⟩ := collect_entries H k t n J hk ht HS ps kvs (fun x hx => hsz x (by simp [hx])) h.2
    have hsz0 := hsz kv (by simp)
    have h1 := h.1
    simp only [repEntry, Bool.and_eq_true] at h1
    obtain ⟨v', ⟨mv, hmv⟩, ⟨nv, hnv⟩⟩ := HS kv.2 hsz0.1 t ht ⟨p.2, n, h1.2⟩
    -- the key
    have hkey : ∃ kk, (∃ m, (match k with | .str => Except.ok (PyVal.str kv.1) | _ => structTy E m k (.str kv.1)) = .ok kk) ∧
        (∃ n', (match k with
                | .str => (match kk with | .str s => s == kv.1 | _ => false)
                | _ => rep E bad n' k kk (.str kv.1)) = true) := by
      have h11 := h1.1
      cases k
      case str => exact ⟨.str kv.1, ⟨0, rfl⟩, ⟨0, by simp⟩⟩
      all_goals
        have hlt : (Json.str kv.1).size < J.size := by simpa [Json.size] using hsz0.2
        obtain ⟨kk, ⟨mk, hmk⟩, ⟨nk, hnk⟩⟩ := HS (.str kv.1) hlt _ hk ⟨p.1, n, h11⟩
        exact ⟨kk, ⟨mk, hmk⟩, ⟨nk, hnk⟩⟩
    obtain ⟨kk, ⟨mk, hmk⟩, ⟨nk, hnk⟩⟩ := hkey
    refine ⟨(kk, v') :: ps', ⟨max (max mk mv) m2, ?_⟩, ⟨max (max nk nv) n2, ?_⟩⟩
    · rw [mapE_cons_ok]
      refine ⟨(kk, v'), ps', ?_, mapE_mono kvs ps' (fun a _ b hab => dictEntry_mono (le_structTy E (Nat.le_max_right _ _)) k t a b hab) hm2, rfl⟩
      have hv2 := structTy_mono E (Nat.le_trans (Nat.le_max_right mk mv) (Nat.le_max_left _ m2)) hmv
      cases k
      case str =>
        simp only at hmk
        cases hmk
        simp only [dictEntry, bind, Except.bind, hv2]
      all_goals
        simp only at hmk
        have hk3 := structTy_mono E (Nat.le_trans (Nat.le_max_left mk mv) (Nat.le_max_left _ m2)) hmk
        simp only [dictEntry, bind, Except.bind, hv2, hk3]
    · simp only [all2, Bool.and_eq_true]
      refine ⟨?_, all2_mono (fun a b hab => repEntry_mono (fun t w x hh => rep_mono E bad (Nat.le_max_right _ _) hh) k t a b hab) ps' kvs hn2⟩
      simp only [repEntry, Bool.and_eq_true]
      refine ⟨?_, rep_mono E bad (Nat.le_trans (Nat.le_max_right nk nv) (Nat.le_max_left _ n2)) hnv⟩
      cases k
      case str => exact hnk
      all_goals exact rep_mono E bad (Nat.le_trans (Nat.le_max_left nk nv) (Nat.le_max_left _ n2)) hnk

theorem collect_tuple (H : List PyTy) (n : Nat) (J : Json)
    (HS : ∀ x, x.size < J.size → ∀ B, InU E bad H B → Valid E bad B x → Goal E bad B x) :
    ∀ (ts : List PyTy) (vs : List PyVal) (xs : List Json),
      (∀ t ∈ ts, InU E bad H t) → (∀ x ∈ xs, x.size < J.size) → all3 (rep E bad n) ts vs xs = true →
      xs.length = ts.length ∧
      ∃ ws, (∃ m, mapE (fun (p : PyTy × Json) => structTy E m p.1 p.2) (ts.zip xs) = .ok ws) ∧
        (∃ n', all3 (rep E bad n') ts ws xs = true)
  | [], [], [], _, _, _ => ⟨rfl, [], ⟨0, rfl⟩, ⟨0, rfl⟩⟩
  | t :: ts, v :: vs, x :: xs, hU, hsz, h => by
    simp only [all3, Bool.and_eq_true] at h
    obtain ⟨hl, ws, ⟨m2, hm2⟩, ⟨n2, hn2⟩⟩ := collect_tuple H n J HS ts vs xs (fun u hu => hU u (by simp [hu])) (fun y hy => hsz y (by simp [hy])) h.2
    obtain ⟨v', ⟨m1, hm1⟩, ⟨n1, hn1⟩⟩ := HS x (hsz x (by simp)) t (hU t (by simp)) ⟨v, n, h.1⟩
    refine ⟨by simp [hl], v' :: ws, ⟨max m1 m2, ?_⟩, ⟨max n1 n2, ?_⟩⟩
    · simp only [List.zip_cons_cons]
      rw [mapE_cons_ok]
      exact ⟨v', ws, structTy_mono E (Nat.le_max_left _ _) hm1,
        mapE_mono _ ws (fun a _ b hab => structTy_mono E (Nat.le_max_right _ _) hab) hm2, rfl⟩
    · simp only [all3, Bool.and_eq_true]
      exact ⟨rep_mono E bad (Nat.le_max_left _ _) hn1, all3_mono (fun a b c habc => rep_mono E bad (Nat.le_max_right _ _) habc) ts ws xs hn2⟩
  | [], [], _ :: _, _, _, h => by simp [all3] at h
  | [], _ :: _, _, _, _, h => by simp [all3] at h
  | _ :: _, [], _, _, _, h => by simp [all3] at h
  | _ :: _, _ :: _, [], _, _, h => by simp [all3] at h


/-! ### the closure check -/

theorem lightOK_succ (H : List PyTy) : ∀ (n : Nat) (ty : PyTy), lightOK E bad H n ty = true → lightOK E bad H (n + 1) ty = true
  | 0, _, h => by simp [lightOK] at h
  | n + 1, ty, h => by
    have ih := lightOK_succ H n
    unfold lightOK at h ⊢
    simp only [Bool.or_eq_true] at h ⊢
    rcases h with hb | h
    · exact Or.inl hb
    · right
      cases hh : E.hookFor ty with
      | some hk => simpa [hh] using h
      | none =>
        simp only [hh] at h ⊢
        cases ty with
        | seq t => exact ih t h
        | dict k v =>
          simp only [Bool.and_eq_true] at h ⊢
          exact ⟨ih k h.1, ih v h.2⟩
        | tuple ts =>
          simp only [List.all_eq_true] at h ⊢
          exact fun t ht => ih t (h t ht)
        | union ts =>
          simp only at h ⊢
          cases ho : PyTy.optionalOf ts with
          | some x =>
            simp only [ho, Bool.and_eq_true] at h ⊢
            exact ⟨ih x h.1, h.2⟩
          | none => simpa [ho] using h
        | _ => exact h

theorem InU.of_fuel {H : List PyTy} {n : Nat} {ty : PyTy} (h : lightOK E bad H n ty = true) : InU E bad H ty := ⟨n, h⟩

/-! ### annotations other than unions -/

theorem findEnum_name {e : Name} {pe : PyEnum} (h : E.pkg.findEnum e = some pe) : pe.name = e := by
  have := List.find?_some h
  simpa using this

theorem lemmaA (H : List PyTy) (hC : clsesOK E bad H = true) (j : Json)
    (HS : ∀ x, x.size < j.size → ∀ B, InU E bad H B → Valid E bad B x → Goal E bad B x) :
    ∀ ty, InU E bad H ty → ty.isUnionTy = false → Valid E bad ty j → Goal E bad ty j := by
  intro ty hty hnu hv
  obtain ⟨w, n, hr⟩ := hv
  obtain ⟨kf, hok⟩ := hty
  have hnb := rep_not_bad E bad hr
  cases kf with
  | zero => simp [lightOK] at hok
  | succ kf =>
  unfold lightOK at hok
  simp only [hnb, Bool.false_or] at hok
  cases hh : E.hookFor ty with
  | some h =>
    simp only [hh] at hok
    have hd : (h.isRetSelf && selfRepF bad 8 ty) = true := by
      cases ty <;> first | exact hok | simp [PyTy.isUnionTy] at hnu
    simp only [Bool.and_eq_true] at hd
    cases h <;> try (simp [HExpr.isRetSelf] at hd; done)
    refine ⟨PyVal.ofJson j, ⟨1, ?_⟩, ⟨n, selfRep_sound E bad 8 n ty w j hd.2 hr⟩⟩
    simp [structTy, hh, HExpr.run]
  | none =>
    simp only [hh] at hok
    cases n with
    | zero => simp [rep] at hr
    | succ n =>
      have hr0 := hr
      unfold rep at hr
      simp only [Bool.and_eq_true] at hr
      have h2 := hr.2
      cases ty with
      | int =>
        cases w <;> cases j <;> try (simp at h2; done)
        rename_i a b
        have hab : a = b := by simpa using h2
        subst hab
        exact ⟨.int a, ⟨1, by simp [structTy, hh, coerceIntJ]⟩, ⟨_, hr0⟩⟩
      | float =>
        cases w <;> cases j <;> try (simp at h2; done)
        all_goals
          rename_i d b
          cases d <;> try (simp at h2; done)
          rename_i a
          have hab : a = b := by simpa using h2
          subst hab
          exact ⟨_, ⟨1, by simp [structTy, hh]⟩, ⟨_, hr0⟩⟩
      | str =>
        cases w <;> cases j <;> try (simp at h2; done)
        rename_i a b
        have hab : a = b := by simpa using h2
        subst hab
        exact ⟨.str a, ⟨1, by simp [structTy, hh]⟩, ⟨_, hr0⟩⟩
      | bool =>
        cases w <;> cases j <;> try (simp at h2; done)
        rename_i a b
        have hab : a = b := by simpa using h2
        subst hab
        exact ⟨.bool a, ⟨1, by simp [structTy, hh]⟩, ⟨_, hr0⟩⟩
      | none =>
        cases w <;> cases j <;> try (simp at h2; done)
        exact ⟨.none, ⟨1, by simp [structTy, hh, PyVal.ofJson]⟩, ⟨_, hr0⟩⟩
      | any =>
        refine ⟨PyVal.ofJson j, ⟨1, by simp [structTy, hh]⟩, ⟨1, ?_⟩⟩
        unfold rep
        simp only [Bool.and_eq_true]
        exact ⟨hr.1, isOfJson_ofJson j⟩
      | obj => simp at hok
      | unknown s => simp at h2
      | literal vs =>
        cases w <;> cases j <;> try (simp at h2; done)
        rename_i a b
        simp only [Bool.and_eq_true, beq_iff_eq] at h2
        obtain ⟨hab, hc⟩ := h2
        subst hab
        have hc' : a ∈ vs := by simpa [List.contains_iff_mem] using hc
        exact ⟨.str a, ⟨1, by simp [structTy, hh, hc']⟩, ⟨_, hr0⟩⟩
      | enum e =>
        simp only at h2
        cases hf : E.pkg.findEnum e with
        | none => simp [hf] at h2
        | some pe =>
          cases w <;> try (simp [hf] at h2; done)
          case enum e' val =>
            simp only [hf, Bool.and_eq_true, beq_iff_eq] at h2
            obtain ⟨⟨he', hm⟩, hj⟩ := h2
            subst he'
            have hpn := findEnum_name E hf
            cases val <;> cases j <;> try (simp at hj; done)
            all_goals
              have hab := hj
              simp only [beq_iff_eq] at hab
              subst hab
              exact ⟨_, ⟨1, by simp [structTy, hh, hf, lookupEnum, hm, hpn]⟩, ⟨_, hr0⟩⟩
      | seq t =>
        cases w <;> cases j <;> try (simp at h2; done)
        case list.arr vs xs =>
          have htU : InU E bad H t := ⟨kf, hok⟩
          have helems : ∀ x ∈ xs, ∃ v', (∃ m, (HExpr.structAs t).run (structTy E m) x = .ok v') ∧ Rep E bad t v' x := by
            intro x hx
            obtain ⟨w', hw'⟩ := all2_exists_left vs xs h2 x hx
            obtain ⟨v', ⟨m, hm⟩, hrv⟩ := HS x (size_mem_arr xs x hx) t htU ⟨w', n, hw'⟩
            exact ⟨v', ⟨m, by simpa [HExpr.run] using hm⟩, hrv⟩
          obtain ⟨ws, ⟨m, hm⟩, ⟨k, hk⟩⟩ := collect_elems E bad (.structAs t) t xs helems
          have hm' : mapE (structTy E m t) xs = .ok ws := by simpa [HExpr.run] using hm
          refine ⟨.list ws, ⟨m + 1, by simp [structTy, hh, hm', bind, Except.bind]⟩, ⟨k + 1, ?_⟩⟩
          unfold rep
          simp only [Bool.and_eq_true]
          exact ⟨hr.1, hk⟩
      | dict kt vt =>
        cases w <;> cases j <;> try (simp at h2; done)
        case dict.obj ps kvs =>
          simp only [Bool.and_eq_true] at h2 hok
          have hsz : ∀ kv ∈ kvs, kv.2.size < (Json.obj kvs).size ∧ 1 < (Json.obj kvs).size := by
            intro kv hkv
            have h1 := size_mem_obj kvs kv hkv
            have h0 := Json.size_pos kv.2
            exact ⟨h1, by omega⟩
          obtain ⟨ps', ⟨m, hm⟩, ⟨k, hk⟩⟩ := collect_entries E bad H kt vt n (.obj kvs) ⟨kf, hok.1⟩ ⟨kf, hok.2⟩ HS ps kvs hsz h2.2
          refine ⟨.dict ps', ⟨m + 1, by simp [structTy, hh, hm, bind, Except.bind]⟩, ⟨k + 1, ?_⟩⟩
          unfold rep
          simp only [Bool.and_eq_true]
          exact ⟨hr.1, h2.1, hk⟩
      | tuple ts =>
        cases w <;> cases j <;> try (simp at h2; done)
        case tuple.arr vs xs =>
          have htsU : ∀ t ∈ ts, InU E bad H t := by
            intro t ht
            simp only [List.all_eq_true] at hok
            exact ⟨kf, hok t ht⟩
          obtain ⟨hl, ws, ⟨m, hm⟩, ⟨k, hk⟩⟩ := collect_tuple E bad H n (.arr xs) HS ts vs xs htsU (fun x hx => size_mem_arr xs x hx) h2
          refine ⟨.tuple ws, ⟨m + 1, by simp [structTy, hh, hl, hm, bind, Except.bind]⟩, ⟨k + 1, ?_⟩⟩
          unfold rep
          simp only [Bool.and_eq_true]
          exact ⟨hr.1, hk⟩
      | cls c =>
        obtain ⟨n', cl, vals, kvs, hn, hc, rfl, rfl, hnd, hdecl, hrf, ⟨u, hru⟩⟩ := rep_cls_inv E bad hr0
        cases hn
        have hclm : cl ∈ E.pkg.classes := List.mem_of_find?_eq_some hc
        have hcl := List.all_eq_true.mp hC cl hclm
        simp only [clsOK, List.all_eq_true, Bool.and_eq_true, Bool.or_eq_true, beq_iff_eq] at hcl
        have hfU : ∀ f ∈ cl.fields, InU E bad H f.ty ∧ (f.vld = Vld.none ∨ simpleTyF 4 f.ty = true) :=
          fun f hf => ⟨⟨lightFuel, (hcl f hf).1⟩, (hcl f hf).2⟩
        obtain ⟨vals', ⟨m, hm⟩, ⟨k, hk⟩, hvl⟩ := fields_total E bad H cl.name kvs n HS cl.fields vals hrf hfU
        have hextra : (kvs.any (fun kv => !(cl.fields.any (·.wireS == kv.1)))) = false := by
          cases hx : kvs.any (fun kv => !(cl.fields.any (·.wireS == kv.1))) with
          | false => rfl
          | true =>
            simp only [List.any_eq_true, Bool.not_eq_true'] at hx
            obtain ⟨kv, hkv, hnot⟩ := hx
            have := List.all_eq_true.mp hdecl kv hkv
            rw [this] at hnot
            cases hnot
        refine ⟨.inst cl.name vals', ⟨m + 1, ?_⟩, ⟨k + 1, ?_⟩⟩
        · simp [structTy, hh, hc, structCls, structObj, hextra, hm, hvl u hru]
        · unfold rep
          simp only [hc, Bool.and_eq_true, beq_self_eq_true, true_and]
          exact ⟨hr.1, ⟨⟨hnd, hdecl⟩, hk⟩, by simp [hvl u hru]⟩
      | union ts => simp [PyTy.isUnionTy] at hnu

/-! ### unions -/

theorem rep_unknown {n : Nat} {s : String} {w : PyVal} {x : Json} : rep E bad n (.unknown s) w x = false := by
  cases n <;> simp [rep]

theorem lemmaU (H : List PyTy) (hP : progsOK E bad H = true) (j : Json)
    (HA : ∀ ty, InU E bad H ty → ty.isUnionTy = false → Valid E bad ty j → Goal E bad ty j)
    (HS : ∀ x, x.size < j.size → ∀ B, InU E bad H B → Valid E bad B x → Goal E bad B x) :
    ∀ ts, InU E bad H (.union ts) → Valid E bad (.union ts) j → Goal E bad (.union ts) j := by
  intro ts hty hv
  obtain ⟨w, n, hr⟩ := hv
  obtain ⟨kf, hok⟩ := hty
  have hnb := rep_not_bad E bad hr
  cases kf with
  | zero => simp [lightOK] at hok
  | succ kf =>
  unfold lightOK at hok
  simp only [hnb, Bool.false_or] at hok
  have HL : ∀ B, InU E bad H B → (true = true → B.isUnionTy = false) → Valid E bad B j → Goal E bad B j :=
    fun B hB hnu hvB => HA B hB (hnu rfl) hvB
  have prog : ∀ h, dispatchOK E bad (lightOK E bad H lightFuel) (.union ts) h = true →
      ∃ v', (∃ m, h.run (structTy E m) j = .ok v') ∧ Rep E bad (.union ts) v' j := by
    intro h hd
    simp only [dispatchOK, List.all_eq_true, Bool.or_eq_true] at hd
    obtain ⟨a, ha, w', hw'⟩ := rep_union_alt E bad hr
    rcases hd a ha with hunk | hchk
    · cases a <;> simp [PyTy.isUnknownTy] at hunk
      rw [rep_unknown] at hw'
      cases hw'
    · exact chk_sound E bad (lightOK E bad H lightFuel) (InU E bad H) (fun B hB => ⟨lightFuel, hB⟩) h true (.union ts)
        { ty := a } j HL HS hchk (St.Holds.of_rep E bad hw')
  have hprogOK : inU H (.union ts) = true → progOK E bad H (.union ts) = true :=
    fun hin => List.all_eq_true.mp hP _ (inU_sound hin)
  cases hh : E.hookFor (.union ts) with
  | some h =>
    simp only [hh] at hok
    have hp := hprogOK hok
    simp only [progOK, hnb, Bool.false_or, hh] at hp
    obtain ⟨v', ⟨m, hm⟩, hrv⟩ := prog h hp
    exact ⟨v', ⟨m + 1, by simp [structTy, hh, hm]⟩, hrv⟩
  | none =>
    simp only [hh] at hok
    cases ho : PyTy.optionalOf ts with
    | some x =>
      simp only [ho, Bool.and_eq_true, Bool.not_eq_true'] at hok
      have hmem : ∀ u ∈ ts, u = x ∨ u = PyTy.none := by
        rcases optionalOf_inv ho with rfl | rfl <;> (intro u hu; simp at hu; rcases hu with rfl | rfl <;> simp)
      have hx : x ∈ ts := by rcases optionalOf_inv ho with rfl | rfl <;> simp
      by_cases hj : j = .null
      · subst hj
        have hwn := rep_null E bad hr
        subst hwn
        exact ⟨.none, ⟨1, by simp [structTy, hh, ho]⟩, ⟨n, hr⟩⟩
      · have hvx : Valid E bad x j := by
          obtain ⟨a, ha, w', hw'⟩ := rep_union_alt E bad hr
          rcases hmem a ha with rfl | rfl
          · exact ⟨w', n, hw'⟩
          · exact absurd (rep_noneTy E bad hw') hj
        obtain ⟨v', ⟨m, hm⟩, ⟨k, hk⟩⟩ := HA x ⟨kf, hok.1⟩ hok.2 hvx
        refine ⟨v', ⟨m + 1, ?_⟩, ⟨k + 1, ?_⟩⟩
        · cases j <;> first | exact absurd rfl hj | simp [structTy, hh, ho, hm]
        · unfold rep
          simp only [Bool.and_eq_true, Bool.not_eq_true', Bool.or_eq_true, List.any_eq_true]
          exact ⟨hnb, Or.inl ⟨x, hx, hk⟩⟩
    | none =>
      simp only [ho, Bool.and_eq_true] at hok
      obtain ⟨⟨hall, hdis⟩, hin⟩ := hok
      have hp := hprogOK hin
      simp only [progOK, hnb, Bool.false_or, hh] at hp
      cases hd : E.disambFor (.union ts) with
      | none => simp [hd] at hdis
      | some h =>
        simp only [hd] at hp
        obtain ⟨v', ⟨m, hm⟩, hrv⟩ := prog h hp
        exact ⟨v', ⟨m + 1, by simp [structTy, hh, ho, hall, hd, hm]⟩, hrv⟩

/-! ### T1 -/

/-- **T1.**  In an environment whose dispatch programs and class table pass the checks, every JSON
    value that has a typed reading at an annotation is structured successfully, and the result is a
    typed reading of that value at that annotation — whatever the nesting, whichever alternatives. -/
theorem structure_total (H : List PyTy) (hP : progsOK E bad H = true) (hC : clsesOK E bad H = true) :
    ∀ (s : Nat) (j : Json), j.size ≤ s → ∀ ty, InU E bad H ty → Valid E bad ty j → Goal E bad ty j
  | 0, j, hs, _, _, _ => by have := Json.size_pos j; omega
  | s + 1, j, hs, ty, hty, hv => by
    have HS : ∀ x, x.size < j.size → ∀ B, InU E bad H B → Valid E bad B x → Goal E bad B x :=
      fun x hx B hB hvB => structure_total H hP hC s x (by omega) B hB hvB
    have HA := lemmaA E bad H hC j HS
    cases hu : ty.isUnionTy with
    | false => exact HA ty hty hu hv
    | true =>
      cases ty <;> simp [PyTy.isUnionTy] at hu
      exact lemmaU E bad H hP j HA HS _ hty hv

/-- The form the properties use: `k` is the fuel at which the closure check of `ty` was evaluated. -/
theorem T1 (H : List PyTy) (hP : progsOK E bad H = true) (hC : clsesOK E bad H = true) (ty : PyTy) (k : Nat)
    (hty : lightOK E bad H k ty = true) (j : Json) (v : PyVal) (n : Nat) (h : rep E bad n ty v j = true) :
    ∃ v' m, structTy E m ty j = .ok v' ∧ ∃ k', rep E bad k' ty v' j = true := by
  obtain ⟨v', ⟨m, hm⟩, ⟨k', hk'⟩⟩ := structure_total E bad H hP hC j.size j (Nat.le_refl _) ty ⟨k, hty⟩ ⟨v, n, h⟩
  exact ⟨v', m, hm, k', hk'⟩

end LspVerif
