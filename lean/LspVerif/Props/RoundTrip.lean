/-
  T2 — unstructuring a typed reading gives the input back, up to the documented null rule
  (C02, and with T1 the whole of C01):

      clsesOKU E  →  rep E bad n ty v j  →
          ∃ j', unstructure(v, unstructure_as = ty) = ok j' ∧ nrel ty j j'
        ∧ ∃ j', unstructure(v)                      = ok j' ∧ nrel ty j j'

  for every annotation, every Python value `v` that is a typed reading of the JSON value `j` (any
  size, any nesting, whichever alternative was chosen at each union), by induction on the fuel of
  `rep`.  `clsesOKU` is the kernel-evaluated table fact of Core/Norm.lean.
-/
import LspVerif.Core.Norm
import LspVerif.Props.Dispatch
namespace LspVerif

/-! ### `Json.beq` is equality -/

mutual
theorem Json.beq_refl : ∀ j : Json, Json.beq j j = true
  | .null => rfl
  | .bool _ => by simp [Json.beq]
  | .int _ => by simp [Json.beq]
  | .dec _ => by simp [Json.beq]
  | .str _ => by simp [Json.beq]
  | .arr xs => by simp only [Json.beq]; exact Json.beqList_refl xs
  | .obj kvs => by simp only [Json.beq]; exact Json.beqKvs_refl kvs
theorem Json.beqList_refl : ∀ xs : List Json, Json.beqList xs xs = true
  | [] => rfl
  | x :: xs => by simp only [Json.beqList, Json.beq_refl x, Json.beqList_refl xs, Bool.and_self]
theorem Json.beqKvs_refl : ∀ kvs : List (Name × Json), Json.beqKvs kvs kvs = true
  | [] => rfl
  | (k, x) :: rest => by simp only [Json.beqKvs, Json.beq_refl x, Json.beqKvs_refl rest, beq_self_eq_true, Bool.and_self]
end

mutual
theorem Json.beq_eq : ∀ a b : Json, Json.beq a b = true → a = b
  | .null, b, h => by cases b <;> simp [Json.beq] at h ⊢
  | .bool _, b, h => by cases b <;> simp [Json.beq] at h ⊢; exact h
  | .int _, b, h => by cases b <;> simp [Json.beq] at h ⊢; exact h
  | .dec _, b, h => by cases b <;> simp [Json.beq] at h ⊢; exact h
  | .str _, b, h => by cases b <;> simp [Json.beq] at h ⊢; exact h
  | .arr xs, b, h => by
    cases b <;> simp only [Json.beq] at h <;> try (cases h; done)
    rw [Json.beqList_eq xs _ h]
  | .obj kvs, b, h => by
    cases b <;> simp only [Json.beq] at h <;> try (cases h; done)
    rw [Json.beqKvs_eq kvs _ h]
theorem Json.beqList_eq : ∀ xs ys : List Json, Json.beqList xs ys = true → xs = ys
  | [], [], _ => rfl
  | [], _ :: _, h => by simp [Json.beqList] at h
  | _ :: _, [], h => by simp [Json.beqList] at h
  | x :: xs, y :: ys, h => by
    simp only [Json.beqList, Bool.and_eq_true] at h
    rw [Json.beq_eq x y h.1, Json.beqList_eq xs ys h.2]
theorem Json.beqKvs_eq : ∀ a b : List (Name × Json), Json.beqKvs a b = true → a = b
  | [], [], _ => rfl
  | [], _ :: _, h => by simp [Json.beqKvs] at h
  | _ :: _, [], h => by simp [Json.beqKvs] at h
  | (k, x) :: a, (l, y) :: b, h => by
    simp only [Json.beqKvs, Bool.and_eq_true, beq_iff_eq] at h
    rw [h.1.1, Json.beq_eq x y h.1.2, Json.beqKvs_eq a b h.2]
end

variable (E : Env) (bad : List PyTy)

/-! ### fuel monotonicity of `rawJson`, `unstruct`, `nrel` -/

theorem zipE_mono {α β γ} {f g : α → β → Except Err γ} :
    ∀ (as : List α) (bs : List β) (cs : List γ), (∀ a b c, f a b = .ok c → g a b = .ok c) →
      zipE f as bs = .ok cs → zipE g as bs = .ok cs
  | [], _, cs, _, h' => by simpa [zipE] using h'
  | _ :: _, [], cs, _, h' => by simpa [zipE] using h'
  | a :: as, b :: bs, cs, h, h' => by
    simp only [zipE, bind, Except.bind] at h' ⊢
    cases hx : f a b with
    | error e => simp [hx] at h'
    | ok c =>
      rw [h a b c hx]
      cases hr : zipE f as bs with
      | error e => simp [hx, hr] at h'
      | ok r =>
        rw [zipE_mono as bs r h hr]
        simpa [hx, hr] using h'

def ULe (f g : PyVal → Except Err Json) : Prop := ∀ v j, f v = .ok j → g v = .ok j

theorem rawEntry_mono {f g : PyVal → Except Err Json} (h : ULe f g) (kv : PyVal × PyVal) (r : Name × Json)
    (h' : rawEntry f kv = .ok r) : rawEntry g kv = .ok r := by
  simp only [rawEntry, bind, Except.bind] at h' ⊢
  split at h'
  · simp at h'
  · rename_i k hk
    cases hv : f kv.2 with
    | error e => simp [hv] at h'
    | ok x => rw [h _ _ hv]; simpa [hv] using h'

theorem unstructEntry_mono {f f' g g' : PyVal → Except Err Json} (h : ULe f f') (hg : ULe g g') (kv : PyVal × PyVal)
    (r : Name × Json) (h' : unstructEntry f g kv = .ok r) : unstructEntry f' g' kv = .ok r := by
  simp only [unstructEntry, bind, Except.bind] at h' ⊢
  cases hk : f kv.1 with
  | error e => simp [hk] at h'
  | ok kj =>
    rw [h _ _ hk]
    simp only [hk] at h' ⊢
    cases hd : dictKey kj with
    | error e => simp [hd] at h'
    | ok k =>
      simp only [hd] at h' ⊢
      cases hv : g kv.2 with
      | error e => simp [hv] at h'
      | ok x => rw [hg _ _ hv]; simpa [hv] using h'

theorem rawJson_succ : ∀ (n : Nat) (v : PyVal) (j : Json), rawJson n v = .ok j → rawJson (n + 1) v = .ok j
  | 0, _, _, h => by simp [rawJson] at h
  | n + 1, v, j, h => by
    have ih : ULe (rawJson n) (rawJson (n + 1)) := fun w x hh => rawJson_succ n w x hh
    unfold rawJson at h ⊢
    cases v with
    | list xs =>
      simp only [bind, Except.bind] at h ⊢
      cases hm : mapE (rawJson n) xs with
      | error e => simp [hm] at h
      | ok ys => rw [mapE_mono xs ys (fun a _ b hab => ih a b hab) hm]; simpa [hm] using h
    | tuple xs =>
      simp only [bind, Except.bind] at h ⊢
      cases hm : mapE (rawJson n) xs with
      | error e => simp [hm] at h
      | ok ys => rw [mapE_mono xs ys (fun a _ b hab => ih a b hab) hm]; simpa [hm] using h
    | dict kvs =>
      simp only [bind, Except.bind] at h ⊢
      cases hm : mapE (rawEntry (rawJson n)) kvs with
      | error e => simp [hm] at h
      | ok ys => rw [mapE_mono kvs ys (fun a _ b hab => rawEntry_mono ih a b hab) hm]; simpa [hm] using h
    | _ => exact h

def OLe (f g : Option PyTy → PyVal → Except Err Json) : Prop := ∀ o v j, f o v = .ok j → g o v = .ok j

theorem unstructFields_mono {f g : Option PyTy → PyVal → Except Err Json} (h : OLe f g) (vals : List (Name × PyVal)) :
    ∀ (fs : List Field) (out : List (Name × Json)), unstructFields f vals fs = .ok out → unstructFields g vals fs = .ok out
  | [], _, h' => by simpa [unstructFields] using h'
  | fd :: fs, out, h' => by
    simp only [unstructFields] at h' ⊢
    cases hl : lookupAttr vals fd.name with
    | none => simp [hl] at h'
    | some v =>
      simp only [hl] at h' ⊢
      by_cases hw : fd.written v = true
      · simp only [hw, if_true] at h' ⊢
        cases hx : f (some fd.ty) v with
        | error e => simp [hx] at h'
        | ok x =>
          rw [h _ _ _ hx]
          simp only [hx] at h' ⊢
          cases hr : unstructFields f vals fs with
          | error e => simp [hr] at h'
          | ok rest =>
            rw [unstructFields_mono h vals fs rest hr]
            simpa [hr] using h'
      · simp only [hw] at h' ⊢
        exact unstructFields_mono h vals fs out h'

theorem unstruct_succ : ∀ (n : Nat) (o : Option PyTy) (v : PyVal) (j : Json),
    unstruct E n o v = .ok j → unstruct E (n + 1) o v = .ok j
  | 0, _, _, _, h => by simp [unstruct] at h
  | n + 1, o, v, j, h => by
    have ih : OLe (unstruct E n) (unstruct E (n + 1)) := fun o' w x hh => unstruct_succ n o' w x hh
    have ihu : ∀ o', ULe (unstruct E n o') (unstruct E (n + 1) o') := fun o' w x hh => ih o' w x hh
    cases o with
    | none =>
      unfold unstruct at h ⊢
      cases v with
      | inst c fields =>
        simp only at h ⊢
        cases hf : E.pkg.findCls c with
        | none => simp [hf] at h
        | some cl =>
          simp only [hf, bind, Except.bind] at h ⊢
          cases hm : unstructFields (unstruct E n) fields cl.fields with
          | error e => simp [hm] at h
          | ok out => rw [unstructFields_mono ih fields cl.fields out hm]; simpa [hm] using h
      | list xs =>
        simp only [bind, Except.bind] at h ⊢
        cases hm : mapE (unstruct E n Option.none) xs with
        | error e => simp [hm] at h
        | ok ys => rw [mapE_mono xs ys (fun a _ b hab => ih _ a b hab) hm]; simpa [hm] using h
      | tuple xs =>
        simp only [bind, Except.bind] at h ⊢
        cases hm : mapE (unstruct E n Option.none) xs with
        | error e => simp [hm] at h
        | ok ys => rw [mapE_mono xs ys (fun a _ b hab => ih _ a b hab) hm]; simpa [hm] using h
      | dict kvs =>
        simp only [bind, Except.bind] at h ⊢
        cases hm : mapE (unstructEntry (unstruct E n Option.none) (unstruct E n Option.none)) kvs with
        | error e => simp [hm] at h
        | ok ys =>
          rw [mapE_mono kvs ys (fun a _ b hab => unstructEntry_mono (ihu _) (ihu _) a b hab) hm]
          simpa [hm] using h
      | enum e val => exact h
      | _ => exact rawJson_succ _ _ _ h
    | some ty =>
      unfold unstruct at h ⊢
      cases ty with
      | union ts =>
        simp only at h ⊢
        cases ho : PyTy.optionalOf ts with
        | some x =>
          simp only [ho] at h ⊢
          by_cases hv : v.isNoneV = true
          · simpa [hv] using h
          · simp only [hv] at h ⊢
            exact ih _ _ _ h
        | none =>
          simp only [ho] at h ⊢
          exact ih _ _ _ h
      | any => exact ih _ _ _ h
      | seq t =>
        cases v <;> try exact h
        case list xs =>
          simp only [bind, Except.bind] at h ⊢
          cases hm : mapE (unstruct E n (some t)) xs with
          | error e => simp [hm] at h
          | ok ys => rw [mapE_mono xs ys (fun a _ b hab => ih _ a b hab) hm]; simpa [hm] using h
        case tuple xs =>
          simp only [bind, Except.bind] at h ⊢
          cases hm : mapE (unstruct E n (some t)) xs with
          | error e => simp [hm] at h
          | ok ys => rw [mapE_mono xs ys (fun a _ b hab => ih _ a b hab) hm]; simpa [hm] using h
      | dict kt vt =>
        cases v <;> try exact h
        case dict kvs =>
          simp only [bind, Except.bind] at h ⊢
          cases hm : mapE (unstructEntry (unstruct E n (some kt)) (unstruct E n (some vt))) kvs with
          | error e => simp [hm] at h
          | ok ys =>
            rw [mapE_mono kvs ys (fun a _ b hab => unstructEntry_mono (ihu _) (ihu _) a b hab) hm]
            simpa [hm] using h
      | tuple ts =>
        cases v <;> try exact h
        case tuple xs =>
          simp only [bind, Except.bind] at h ⊢
          cases hm : zipE (fun t x => unstruct E n (some t) x) ts xs with
          | error e => simp [hm] at h
          | ok ys => rw [zipE_mono ts xs ys (fun a b c habc => ih _ b c habc) hm]; simpa [hm] using h
        case list xs =>
          simp only [bind, Except.bind] at h ⊢
          cases hm : zipE (fun t x => unstruct E n (some t) x) ts xs with
          | error e => simp [hm] at h
          | ok ys => rw [zipE_mono ts xs ys (fun a b c habc => ih _ b c habc) hm]; simpa [hm] using h
      | cls c =>
        simp only at h ⊢
        cases hf : E.pkg.findCls c with
        | none => simp [hf] at h
        | some cl =>
          cases v <;> try (simp [hf] at h; done)
          case inst c' fields =>
            simp only [hf, bind, Except.bind] at h ⊢
            cases hm : unstructFields (unstruct E n) fields cl.fields with
            | error e => simp [hm] at h
            | ok out => rw [unstructFields_mono ih fields cl.fields out hm]; simpa [hm] using h
      | enum e => exact h
      | _ => exact rawJson_succ _ _ _ h

theorem unstruct_mono {n m : Nat} (hnm : n ≤ m) {o : Option PyTy} {v : PyVal} {j : Json}
    (h : unstruct E n o v = .ok j) : unstruct E m o v = .ok j := by
  induction hnm with
  | refl => exact h
  | step _ ih => exact unstruct_succ E _ o v j ih

theorem rawJson_mono {n m : Nat} (hnm : n ≤ m) {v : PyVal} {j : Json}
    (h : rawJson n v = .ok j) : rawJson m v = .ok j := by
  induction hnm with
  | refl => exact h
  | step _ ih => exact rawJson_succ _ v j ih

def NLe (r r' : PyTy → Json → Json → Bool) : Prop := ∀ t x y, r t x y = true → r' t x y = true

theorem relFields_mono {r r' : PyTy → Json → Json → Bool} (h : NLe r r') (a b : List (Name × Json)) :
    ∀ fs : List Field, relFields r a b fs = true → relFields r' a b fs = true
  | [], _ => rfl
  | f :: fs, h' => by
    simp only [relFields, Bool.and_eq_true] at h' ⊢
    refine ⟨?_, relFields_mono h a b fs h'.2⟩
    have h1 := h'.1
    cases hx : Json.lookup a f.wireS <;> cases hy : Json.lookup b f.wireS <;> simp only [hx, hy] at h1 ⊢ <;> try exact h1
    exact h _ _ _ h1

theorem nrel_succ : ∀ (n : Nat) (ty : PyTy) (j j' : Json), nrel E n ty j j' = true → nrel E (n + 1) ty j j' = true
  | 0, _, _, _, h => by simp [nrel] at h
  | n + 1, ty, j, j', h => by
    have ih : NLe (nrel E n) (nrel E (n + 1)) := fun t x y hh => nrel_succ n t x y hh
    unfold nrel at h ⊢
    cases ty with
    | cls c =>
      simp only at h ⊢
      cases hf : E.pkg.findCls c with
      | none => simp [hf] at h
      | some cl =>
        cases j <;> try (simp [hf] at h; done)
        case obj a =>
          cases j' <;> try (simp [hf] at h; done)
          case obj b =>
            simp only [hf, Bool.and_eq_true] at h ⊢
            exact ⟨h.1, relFields_mono ih a b _ h.2⟩
    | seq t =>
      cases j <;> cases j' <;> try (simp at h; done)
      case arr.arr xs ys => exact all2_mono (fun a b hab => ih t a b hab) xs ys h
    | dict k t =>
      cases j <;> cases j' <;> try (simp at h; done)
      case obj.obj a b =>
        refine all2_mono (fun p q hpq => ?_) a b h
        simp only [relEntry, Bool.and_eq_true] at hpq ⊢
        exact ⟨hpq.1, ih _ _ _ hpq.2⟩
    | tuple ts =>
      cases j <;> cases j' <;> try (simp at h; done)
      case arr.arr xs ys => exact all3_mono (fun a b c habc => ih a b c habc) ts xs ys h
    | union ts =>
      simp only [Bool.or_eq_true, List.any_eq_true] at h ⊢
      rcases h with ⟨t, ht, hh⟩ | hh
      · exact Or.inl ⟨t, ht, ih _ _ _ hh⟩
      · exact Or.inr hh
    | _ => exact h

theorem nrel_mono {n m : Nat} (hnm : n ≤ m) {ty : PyTy} {j j' : Json} (h : nrel E n ty j j' = true) :
    nrel E m ty j j' = true := by
  induction hnm with
  | refl => exact h
  | step _ ih => exact nrel_succ E _ ty j j' ih

/-! ### what the theorem concludes -/

def Unstr (o : Option PyTy) (v : PyVal) (j' : Json) : Prop := ∃ m, unstruct E m o v = .ok j'
def NRel (ty : PyTy) (j j' : Json) : Prop := ∃ k, nrel E k ty j j' = true

/-- unstructuring `v` with handler `o` succeeds, the output is related to `j` at `ty`, and `v` is
    a typed reading of the output too (so the output is again a valid value: T1 applies to it) -/
def OutAt (o : Option PyTy) (ty : PyTy) (v : PyVal) (j : Json) : Prop :=
  ∃ j', Unstr E o v j' ∧ NRel E ty j j' ∧ Rep E bad ty v j'

theorem NRel.refl_of_scalar {ty : PyTy} (j : Json) (h : ∀ n, nrel E (n + 1) ty j j = Json.beq j j) : NRel E ty j j :=
  ⟨1, by rw [h 0]; exact Json.beq_refl j⟩

/-! ### uninterpreted JSON (Any / LSPObject positions) comes back unchanged -/

mutual
theorem ofJson_raw : ∀ (v : PyVal) (j : Json), isOfJson v j = true → ∃ m, rawJson m v = .ok j
  | .none, j, h => by cases j <;> simp [isOfJson] at h; exact ⟨1, rfl⟩
  | .bool a, j, h => by cases j <;> simp [isOfJson] at h; subst h; exact ⟨1, rfl⟩
  | .int a, j, h => by cases j <;> simp [isOfJson] at h; subst h; exact ⟨1, rfl⟩
  | .str a, j, h => by cases j <;> simp [isOfJson] at h; subst h; exact ⟨1, rfl⟩
  | .float d, j, h => by
    cases j <;> simp [isOfJson] at h
    cases d <;> simp at h
    subst h; exact ⟨1, rfl⟩
  | .list vs, j, h => by
    cases j <;> simp only [isOfJson] at h <;> try (cases h; done)
    rename_i xs
    obtain ⟨m, hm⟩ := ofJsonL_raw vs xs h
    exact ⟨m + 1, by simp [rawJson, hm, bind, Except.bind]⟩
  | .dict ps, j, h => by
    cases j <;> simp only [isOfJson] at h <;> try (cases h; done)
    rename_i kvs
    obtain ⟨m, hm⟩ := ofJsonK_raw ps kvs h
    exact ⟨m + 1, by simp [rawJson, hm, bind, Except.bind]⟩
  | .strOf _, j, h => by cases j <;> simp [isOfJson] at h
  | .enum _ _, j, h => by cases j <;> simp [isOfJson] at h
  | .inst _ _, j, h => by cases j <;> simp [isOfJson] at h
  | .tuple _, j, h => by cases j <;> simp [isOfJson] at h
theorem ofJsonL_raw : ∀ (vs : List PyVal) (xs : List Json), isOfJsonL vs xs = true → ∃ m, mapE (rawJson m) vs = .ok xs
  | [], [], _ => ⟨0, rfl⟩
  | [], _ :: _, h => by simp [isOfJsonL] at h
  | _ :: _, [], h => by simp [isOfJsonL] at h
  | v :: vs, x :: xs, h => by
    simp only [isOfJsonL, Bool.and_eq_true] at h
    obtain ⟨m1, h1⟩ := ofJson_raw v x h.1
    obtain ⟨m2, h2⟩ := ofJsonL_raw vs xs h.2
    refine ⟨max m1 m2, ?_⟩
    rw [mapE_cons_ok]
    exact ⟨x, xs, rawJson_mono (Nat.le_max_left _ _) h1,
      mapE_mono vs xs (fun a _ b hab => rawJson_mono (Nat.le_max_right _ _) hab) h2, rfl⟩
theorem ofJsonK_raw : ∀ (ps : List (PyVal × PyVal)) (kvs : List (Name × Json)), isOfJsonK ps kvs = true →
    ∃ m, mapE (rawEntry (rawJson m)) ps = .ok kvs
  | [], [], _ => ⟨0, rfl⟩
  | [], _ :: _, h => by simp [isOfJsonK] at h
  | (k', v) :: ps, [], h => by cases k' <;> simp [isOfJsonK] at h
  | (k', v) :: ps, (k, x) :: kvs, h => by
    cases k' <;> try (simp [isOfJsonK] at h; done)
    rename_i s
    simp only [isOfJsonK, Bool.and_eq_true, beq_iff_eq] at h
    obtain ⟨⟨hk, hv⟩, hrest⟩ := h
    subst hk
    obtain ⟨m1, h1⟩ := ofJson_raw v x hv
    obtain ⟨m2, h2⟩ := ofJsonK_raw ps kvs hrest
    refine ⟨max m1 m2, ?_⟩
    rw [mapE_cons_ok]
    refine ⟨(s, x), kvs, ?_, mapE_mono ps kvs (fun a _ b hab => rawEntry_mono (fun w y hh => rawJson_mono (Nat.le_max_right _ _) hh) a b hab) h2, rfl⟩
    simp [rawEntry, bind, Except.bind, rawJson_mono (Nat.le_max_left m1 m2) h1]
end

mutual
theorem ofJson_unstruct : ∀ (v : PyVal) (j : Json), isOfJson v j = true → ∃ m, unstruct E m Option.none v = .ok j
  | .none, j, h => by cases j <;> simp [isOfJson] at h; exact ⟨1, rfl⟩
  | .bool a, j, h => by cases j <;> simp [isOfJson] at h; subst h; exact ⟨1, rfl⟩
  | .int a, j, h => by cases j <;> simp [isOfJson] at h; subst h; exact ⟨1, rfl⟩
  | .str a, j, h => by cases j <;> simp [isOfJson] at h; subst h; exact ⟨1, rfl⟩
  | .float d, j, h => by
    cases j <;> simp [isOfJson] at h
    cases d <;> simp at h
    subst h; exact ⟨1, rfl⟩
  | .list vs, j, h => by
    cases j <;> simp only [isOfJson] at h <;> try (cases h; done)
    rename_i xs
    obtain ⟨m, hm⟩ := ofJsonL_unstruct vs xs h
    exact ⟨m + 1, by simp [unstruct, hm, bind, Except.bind]⟩
  | .dict ps, j, h => by
    cases j <;> simp only [isOfJson] at h <;> try (cases h; done)
    rename_i kvs
    obtain ⟨m, hm⟩ := ofJsonK_unstruct ps kvs h
    exact ⟨m + 1, by simp [unstruct, hm, bind, Except.bind]⟩
  | .strOf _, j, h => by cases j <;> simp [isOfJson] at h
  | .enum _ _, j, h => by cases j <;> simp [isOfJson] at h
  | .inst _ _, j, h => by cases j <;> simp [isOfJson] at h
  | .tuple _, j, h => by cases j <;> simp [isOfJson] at h
theorem ofJsonL_unstruct : ∀ (vs : List PyVal) (xs : List Json), isOfJsonL vs xs = true →
    ∃ m, mapE (unstruct E m Option.none) vs = .ok xs
  | [], [], _ => ⟨0, rfl⟩
  | [], _ :: _, h => by simp [isOfJsonL] at h
  | _ :: _, [], h => by simp [isOfJsonL] at h
  | v :: vs, x :: xs, h => by
    simp only [isOfJsonL, Bool.and_eq_true] at h
    obtain ⟨m1, h1⟩ := ofJson_unstruct v x h.1
    obtain ⟨m2, h2⟩ := ofJsonL_unstruct vs xs h.2
    refine ⟨max m1 m2, ?_⟩
    rw [mapE_cons_ok]
    exact ⟨x, xs, unstruct_mono E (Nat.le_max_left _ _) h1,
      mapE_mono vs xs (fun a _ b hab => unstruct_mono E (Nat.le_max_right _ _) hab) h2, rfl⟩
theorem ofJsonK_unstruct : ∀ (ps : List (PyVal × PyVal)) (kvs : List (Name × Json)), isOfJsonK ps kvs = true →
    ∃ m, mapE (unstructEntry (unstruct E m Option.none) (unstruct E m Option.none)) ps = .ok kvs
  | [], [], _ => ⟨0, rfl⟩
  | [], _ :: _, h => by simp [isOfJsonK] at h
  | (k', v) :: ps, [], h => by cases k' <;> simp [isOfJsonK] at h
  | (k', v) :: ps, (k, x) :: kvs, h => by
    cases k' <;> try (simp [isOfJsonK] at h; done)
    rename_i s
    simp only [isOfJsonK, Bool.and_eq_true, beq_iff_eq] at h
    obtain ⟨⟨hk, hv⟩, hrest⟩ := h
    subst hk
    obtain ⟨m1, h1⟩ := ofJson_unstruct v x hv
    obtain ⟨m2, h2⟩ := ofJsonK_unstruct ps kvs hrest
    refine ⟨m1 + m2 + 1, ?_⟩
    rw [mapE_cons_ok]
    have hle2 : m2 ≤ m1 + m2 + 1 := by omega
    have hle1 : m1 ≤ m1 + m2 + 1 := by omega
    refine ⟨(s, x), kvs, ?_, mapE_mono ps kvs (fun a _ b hab =>
      unstructEntry_mono (fun w y hh => unstruct_mono E hle2 hh) (fun w y hh => unstruct_mono E hle2 hh) a b hab) h2, rfl⟩
    have hkey : unstruct E (m1 + m2 + 1) Option.none (.str s) = .ok (.str s) :=
      unstruct_mono E (by omega) (show unstruct E 1 Option.none (.str s) = .ok (.str s) from rfl)
    have h1' := unstruct_mono E hle1 h1
    simp only [unstructEntry, bind, Except.bind, hkey, dictKey, h1']
end

end LspVerif
