/-
  T2 (see Props/RoundTrip.lean for the statement and the auxiliary lemmas): the induction.
-/
import LspVerif.Props.RoundTrip
namespace LspVerif

variable (E : Env) (bad : List PyTy)

/-! ### small facts -/

theorem optionalOf_inv' {ts : List PyTy} {x : PyTy} (h : PyTy.optionalOf ts = some x) :
    ts = [.none, x] ∨ ts = [x, .none] := by
  rcases ts with _ | ⟨a, _ | ⟨b, _ | ⟨c, r⟩⟩⟩
  · simp [PyTy.optionalOf] at h
  · simp [PyTy.optionalOf] at h
  · cases a <;> cases b <;> simp [PyTy.optionalOf] at h <;> simp [h]
  · simp [PyTy.optionalOf] at h

theorem PyVal.beq_none {v : PyVal} (h : PyVal.beq v .none = true) : v = .none := by
  cases v <;> simp [PyVal.beq] at h ⊢

theorem PyVal.isNoneV_iff {v : PyVal} : v.isNoneV = true ↔ v = .none := by
  cases v <;> simp [PyVal.isNoneV]

theorem PyVal.isNone_eq {v : PyVal} (h : v.isNone = true) : v = .none := by
  cases v <;> simp [PyVal.isNone] at h ⊢

theorem nrel_str : ∀ (k : Nat) (ty : PyTy) (s : Name) (j' : Json), nrel E k ty (.str s) j' = true → j' = .str s
  | 0, _, _, _, h => by simp [nrel] at h
  | k + 1, ty, s, j', h => by
    unfold nrel at h
    cases ty with
    | cls c =>
      simp only at h
      cases hf : E.pkg.findCls c <;> simp [hf] at h
    | seq t => simp at h
    | dict a b => simp at h
    | tuple ts => simp at h
    | union ts =>
      simp only [Bool.or_eq_true, List.any_eq_true] at h
      rcases h with ⟨t, _, hh⟩ | hh
      · exact nrel_str k t s j' hh
      · exact (Json.beq_eq _ _ hh).symm
    | _ => exact (Json.beq_eq _ _ h).symm

theorem lookup_none_of_not_key : ∀ (out : List (Name × Json)) (w : Name), (∀ kv ∈ out, kv.1 ≠ w) → Json.lookup out w = Option.none
  | [], _, _ => rfl
  | (k, x) :: rest, w, h => by
    have hk : k ≠ w := h (k, x) (by simp)
    have : (k == w) = false := by simpa using hk
    simp only [Json.lookup, this]
    exact lookup_none_of_not_key rest w (fun kv hkv => h kv (by simp [hkv]))

theorem relFields_congr (r : PyTy → Json → Json → Bool) (a b b' : List (Name × Json)) :
    ∀ fs : List Field, (∀ g ∈ fs, Json.lookup b g.wireS = Json.lookup b' g.wireS) → relFields r a b fs = relFields r a b' fs
  | [], _ => rfl
  | f :: fs, h => by
    simp only [relFields]
    rw [h f (by simp), relFields_congr r a b b' fs (fun g hg => h g (by simp [hg]))]

theorem namesNodup_cons {a : Name} {rest : List Name} (h : namesNodup (a :: rest) = true) :
    a ∉ rest ∧ namesNodup rest = true := by
  simp only [namesNodup, Bool.and_eq_true, Bool.not_eq_true'] at h
  refine ⟨?_, h.2⟩
  intro hm
  have := List.contains_iff_mem.mpr hm
  rw [this] at h
  exact absurd h.1 (by simp)

/-- aligned attribute values are what `lookupAttr` finds (attribute names are distinct) -/
theorem lookupAttr_aligned (r : PyTy → PyVal → Json → Bool) (kvs : List (Name × Json)) :
    ∀ (fs : List Field) (vals : List (Name × PyVal)), repFields r kvs fs vals = true →
      namesNodup (fs.map (·.name)) = true → ∀ p ∈ fs.zip vals, lookupAttr vals p.1.name = some p.2.2
  | [], _, _, _, p, hp => by simp at hp
  | _ :: _, [], h, _, _, _ => by simp [repFields] at h
  | f :: fs, (a, v) :: vs, h, hnd, p, hp => by
    simp only [repFields, Bool.and_eq_true, beq_iff_eq] at h
    obtain ⟨⟨ha, _⟩, hrest⟩ := h
    simp only [List.map_cons] at hnd
    obtain ⟨hnot, hnd'⟩ := namesNodup_cons hnd
    simp only [List.zip_cons_cons, List.mem_cons] at hp
    rcases hp with rfl | hp
    · simp [lookupAttr, ha]
    · have hmem : p.1 ∈ fs := (List.of_mem_zip hp).1
      have hne : (a == p.1.name) = false := by
        rw [ha]
        have : f.name ≠ p.1.name := fun he => hnot (he ▸ List.mem_map_of_mem hmem)
        simpa using this
      simp only [lookupAttr, hne]
      exact lookupAttr_aligned r kvs fs vs hrest hnd' p hp

/-! ### collecting element results at one common fuel -/

theorem collect_list (o : Option PyTy) (t : PyTy) (n : Nat)
    (IH : ∀ w x, rep E bad n t w x = true → OutAt E bad o t w x) :
    ∀ (vs : List PyVal) (xs : List Json), all2 (rep E bad n t) vs xs = true →
      ∃ ys, (∃ m, mapE (unstruct E m o) vs = .ok ys) ∧ (∃ k, all2 (nrel E k t) xs ys = true) ∧
        (∃ k, all2 (rep E bad k t) vs ys = true)
  | [], [], _ => ⟨[], ⟨0, rfl⟩, ⟨0, rfl⟩, ⟨0, rfl⟩⟩
  | [], _ :: _, h => by simp [all2] at h
  | _ :: _, [], h => by simp [all2] at h
  | v :: vs, x :: xs, h => by
    simp only [all2, Bool.and_eq_true] at h
    obtain ⟨ys, ⟨m2, hm2⟩, ⟨k2, hk2⟩, ⟨r2, hr2⟩⟩ := collect_list o t n IH vs xs h.2
    obtain ⟨y, ⟨m1, hm1⟩, ⟨k1, hk1⟩, ⟨r1, hr1⟩⟩ := IH v x h.1
    refine ⟨y :: ys, ⟨max m1 m2, ?_⟩, ⟨max k1 k2, ?_⟩, ⟨max r1 r2, ?_⟩⟩
    · rw [mapE_cons_ok]
      exact ⟨y, ys, unstruct_mono E (Nat.le_max_left _ _) hm1,
        mapE_mono vs ys (fun a _ b hab => unstruct_mono E (Nat.le_max_right _ _) hab) hm2, rfl⟩
    · simp only [all2, Bool.and_eq_true]
      exact ⟨nrel_mono E (Nat.le_max_left _ _) hk1, all2_mono (fun a b hab => nrel_mono E (Nat.le_max_right _ _) hab) xs ys hk2⟩
    · simp only [all2, Bool.and_eq_true]
      exact ⟨rep_mono E bad (Nat.le_max_left _ _) hr1, all2_mono (fun a b hab => rep_mono E bad (Nat.le_max_right _ _) hab) vs ys hr2⟩

theorem collect_tuple_d (n : Nat) (IH : ∀ t w x, rep E bad n t w x = true → OutAt E bad Option.none t w x) :
    ∀ (ts : List PyTy) (vs : List PyVal) (xs : List Json), all3 (rep E bad n) ts vs xs = true →
      ∃ ys, (∃ m, mapE (unstruct E m Option.none) vs = .ok ys) ∧ (∃ k, all3 (nrel E k) ts xs ys = true) ∧
        (∃ k, all3 (rep E bad k) ts vs ys = true)
  | [], [], [], _ => ⟨[], ⟨0, rfl⟩, ⟨0, rfl⟩, ⟨0, rfl⟩⟩
  | t :: ts, v :: vs, x :: xs, h => by
    simp only [all3, Bool.and_eq_true] at h
    obtain ⟨ys, ⟨m2, hm2⟩, ⟨k2, hk2⟩, ⟨r2, hr2⟩⟩ := collect_tuple_d n IH ts vs xs h.2
    obtain ⟨y, ⟨m1, hm1⟩, ⟨k1, hk1⟩, ⟨r1, hr1⟩⟩ := IH t v x h.1
    refine ⟨y :: ys, ⟨max m1 m2, ?_⟩, ⟨max k1 k2, ?_⟩, ⟨max r1 r2, ?_⟩⟩
    · rw [mapE_cons_ok]
      exact ⟨y, ys, unstruct_mono E (Nat.le_max_left _ _) hm1,
        mapE_mono vs ys (fun a _ b hab => unstruct_mono E (Nat.le_max_right _ _) hab) hm2, rfl⟩
    · simp only [all3, Bool.and_eq_true]
      exact ⟨nrel_mono E (Nat.le_max_left _ _) hk1, all3_mono (fun a b c habc => nrel_mono E (Nat.le_max_right _ _) habc) ts xs ys hk2⟩
    · simp only [all3, Bool.and_eq_true]
      exact ⟨rep_mono E bad (Nat.le_max_left _ _) hr1, all3_mono (fun a b c habc => rep_mono E bad (Nat.le_max_right _ _) habc) ts vs ys hr2⟩
  | [], [], _ :: _, h => by simp [all3] at h
  | [], _ :: _, _, h => by simp [all3] at h
  | _ :: _, [], _, h => by simp [all3] at h
  | _ :: _, _ :: _, [], h => by simp [all3] at h

theorem collect_tuple_t (n : Nat) (IH : ∀ t w x, rep E bad n t w x = true → OutAt E bad (some t) t w x) :
    ∀ (ts : List PyTy) (vs : List PyVal) (xs : List Json), all3 (rep E bad n) ts vs xs = true →
      ∃ ys, (∃ m, zipE (fun t x => unstruct E m (some t) x) ts vs = .ok ys) ∧ (∃ k, all3 (nrel E k) ts xs ys = true) ∧
        (∃ k, all3 (rep E bad k) ts vs ys = true)
  | [], [], [], _ => ⟨[], ⟨0, rfl⟩, ⟨0, rfl⟩, ⟨0, rfl⟩⟩
  | t :: ts, v :: vs, x :: xs, h => by
    simp only [all3, Bool.and_eq_true] at h
    obtain ⟨ys, ⟨m2, hm2⟩, ⟨k2, hk2⟩, ⟨r2, hr2⟩⟩ := collect_tuple_t n IH ts vs xs h.2
    obtain ⟨y, ⟨m1, hm1⟩, ⟨k1, hk1⟩, ⟨r1, hr1⟩⟩ := IH t v x h.1
    refine ⟨y :: ys, ⟨max m1 m2, ?_⟩, ⟨max k1 k2, ?_⟩, ⟨max r1 r2, ?_⟩⟩
    · have h1 := unstruct_mono E (Nat.le_max_left m1 m2) hm1
      have h2 := zipE_mono ts vs ys (fun a b c habc => unstruct_mono E (Nat.le_max_right m1 m2) habc) hm2
      simp only [zipE, bind, Except.bind, h1, h2]
    · simp only [all3, Bool.and_eq_true]
      exact ⟨nrel_mono E (Nat.le_max_left _ _) hk1, all3_mono (fun a b c habc => nrel_mono E (Nat.le_max_right _ _) habc) ts xs ys hk2⟩
    · simp only [all3, Bool.and_eq_true]
      exact ⟨rep_mono E bad (Nat.le_max_left _ _) hr1, all3_mono (fun a b c habc => rep_mono E bad (Nat.le_max_right _ _) habc) ts vs ys hr2⟩
  | [], [], _ :: _, h => by simp [all3] at h
  | [], _ :: _, _, h => by simp [all3] at h
  | _ :: _, [], _, h => by simp [all3] at h
  | _ :: _, _ :: _, [], h => by simp [all3] at h

theorem hasKey_congr : ∀ (a b : List (Name × Json)) (k : Name), a.map (·.1) = b.map (·.1) → Json.hasKey a k = Json.hasKey b k
  | [], [], _, _ => rfl
  | [], _ :: _, _, h => by simp at h
  | _ :: _, [], _, h => by simp at h
  | (k1, x) :: a, (k2, y) :: b, k, h => by
    simp only [List.map_cons, List.cons.injEq] at h
    obtain ⟨hk, hr⟩ := h
    subst hk
    have ih := hasKey_congr a b k hr
    simp only [Json.hasKey, Json.lookup] at ih ⊢
    by_cases hc : (k1 == k) = true
    · simp [hc]
    · simp only [hc]; exact ih

theorem keysNodup_congr : ∀ (a b : List (Name × Json)), a.map (·.1) = b.map (·.1) → keysNodup a = keysNodup b
  | [], [], _ => rfl
  | [], _ :: _, h => by simp at h
  | _ :: _, [], h => by simp at h
  | (k1, x) :: a, (k2, y) :: b, h => by
    simp only [List.map_cons, List.cons.injEq] at h
    obtain ⟨hk, hr⟩ := h
    subst hk
    simp only [keysNodup, hasKey_congr a b k1 hr, keysNodup_congr a b hr]

theorem collect_entries_u (ok ov : Option PyTy) (k t : PyTy) (n : Nat)
    (IHk : ∀ w x, rep E bad n k w x = true → OutAt E bad ok k w x)
    (IHv : ∀ w x, rep E bad n t w x = true → OutAt E bad ov t w x)
    (hstr : k = .str → ∀ s, unstruct E 1 ok (.str s) = .ok (.str s)) :
    ∀ (ps : List (PyVal × PyVal)) (kvs : List (Name × Json)), all2 (repEntry (rep E bad n) k t) ps kvs = true →
      ∃ out, (∃ m, mapE (unstructEntry (unstruct E m ok) (unstruct E m ov)) ps = .ok out) ∧
        (∃ k', all2 (relEntry (nrel E k' t)) kvs out = true) ∧
        out.map (·.1) = kvs.map (·.1) ∧
        (∃ k', all2 (repEntry (rep E bad k') k t) ps out = true)
  | [], [], _ => ⟨[], ⟨0, rfl⟩, ⟨0, rfl⟩, rfl, ⟨0, rfl⟩⟩
  | [], _ :: _, h => by simp [all2] at h
  | _ :: _, [], h => by simp [all2] at h
  | p :: ps, kv :: kvs, h => by
    simp only [all2, Bool.and_eq_true] at h
    obtain ⟨out, ⟨m2, hm2⟩, ⟨k2, hk2⟩, hkeys, ⟨r2, hr2⟩⟩ := collect_entries_u ok ov k t n IHk IHv hstr ps kvs h.2
    have h1 := h.1
    simp only [repEntry, Bool.and_eq_true] at h1
    obtain ⟨y, ⟨mv, hmv⟩, ⟨kv', hkv'⟩, ⟨rv, hrv⟩⟩ := IHv p.2 kv.2 h1.2
    have hkey : ∃ m, unstruct E m ok p.1 = .ok (.str kv.1) := by
      have h11 := h1.1
      cases k
      case str =>
        cases hp : p.1 <;> simp [hp] at h11
        subst h11
        exact ⟨1, hstr rfl _⟩
      all_goals
        obtain ⟨kj, ⟨mk, hmk⟩, ⟨kk, hkk⟩, _⟩ := IHk p.1 (.str kv.1) h11
        have := nrel_str E kk _ kv.1 kj hkk
        subst this
        exact ⟨mk, hmk⟩
    obtain ⟨mk, hmk⟩ := hkey
    refine ⟨(kv.1, y) :: out, ⟨mk + mv + m2, ?_⟩, ⟨max kv' k2, ?_⟩, by simp [hkeys], ⟨max (max n rv) r2, ?_⟩⟩
    · rw [mapE_cons_ok]
      refine ⟨(kv.1, y), out, ?_, mapE_mono ps out (fun a _ b hab =>
        unstructEntry_mono (fun w z hh => unstruct_mono E (by omega) hh) (fun w z hh => unstruct_mono E (by omega) hh) a b hab) hm2, rfl⟩
      have hk' := unstruct_mono E (show mk ≤ mk + mv + m2 by omega) hmk
      have hv' := unstruct_mono E (show mv ≤ mk + mv + m2 by omega) hmv
      simp only [unstructEntry, bind, Except.bind, hk', hv', dictKey]
    · simp only [all2, Bool.and_eq_true]
      refine ⟨?_, all2_mono (fun a b hab => ?_) kvs out hk2⟩
      · simp only [relEntry, Bool.and_eq_true, beq_self_eq_true, true_and]
        exact nrel_mono E (Nat.le_max_left _ _) hkv'
      · simp only [relEntry, Bool.and_eq_true] at hab ⊢
        exact ⟨hab.1, nrel_mono E (Nat.le_max_right _ _) hab.2⟩
    · simp only [all2, Bool.and_eq_true]
      refine ⟨?_, all2_mono (fun a b hab => repEntry_mono (fun t' w x hh => rep_mono E bad (Nat.le_max_right _ _) hh) k t a b hab) ps out hr2⟩
      have hle1 : n ≤ max (max n rv) r2 := Nat.le_trans (Nat.le_max_left n rv) (Nat.le_max_left _ _)
      have hle2 : rv ≤ max (max n rv) r2 := Nat.le_trans (Nat.le_max_right n rv) (Nat.le_max_left _ _)
      have hsrc : repEntry (rep E bad n) k t p (kv.1, kv.2) = true := by
        simp only [repEntry, Bool.and_eq_true]; exact h1
      have hlift := repEntry_mono (fun t' w x hh => rep_mono E bad hle1 hh) k t p (kv.1, kv.2) hsrc
      simp only [repEntry, Bool.and_eq_true] at hlift ⊢
      exact ⟨hlift.1, rep_mono E bad hle2 hrv⟩

/-! ### class nodes -/

theorem Field.written_cases (f : Field) (v : PyVal) (hok : fieldOKU f = true) :
    (f.written v = true) ∨ (f.written v = false ∧ f.omitU = true ∧ f.dflt = Dflt.none ∧ v = .none) := by
  simp only [fieldOKU, Bool.and_eq_true] at hok
  have h2 := hok.2
  cases hd : f.dflt with
  | nothing => left; simp [Field.written, hd, Dflt.toVal]
  | other s => left; simp [Field.written, hd, Dflt.toVal]
  | str s =>
    left
    simp only [hd, Bool.not_eq_true'] at h2
    simp [Field.written, hd, Dflt.toVal, h2]
  | none =>
    cases hw : f.written v with
    | true => left; rfl
    | false =>
      right
      simp only [Field.written, hd, Dflt.toVal, Bool.not_eq_false', Bool.and_eq_true] at hw
      exact ⟨rfl, hw.1, rfl, PyVal.beq_none hw.2⟩

theorem repFields_congr (r : PyTy → PyVal → Json → Bool) (b b' : List (Name × Json)) :
    ∀ (fs : List Field) (vs : List (Name × PyVal)), (∀ g ∈ fs, Json.lookup b g.wireS = Json.lookup b' g.wireS) →
      repFields r b fs vs = repFields r b' fs vs
  | [], [], _ => rfl
  | [], _ :: _, _ => rfl
  | _ :: _, [], _ => rfl
  | f :: fs, (a, v) :: vs, h => by
    simp only [repFields]
    rw [h f (by simp), repFields_congr r b b' fs vs (fun g hg => h g (by simp [hg]))]

theorem fields_out (n' : Nat) (IH : ∀ t w x, rep E bad n' t w x = true → OutAt E bad (some t) t w x)
    (kvs : List (Name × Json)) (vals : List (Name × PyVal)) :
    ∀ (fs : List Field) (vs : List (Name × PyVal)),
      repFields (rep E bad n') kvs fs vs = true →
      (∀ p ∈ fs.zip vs, lookupAttr vals p.1.name = some p.2.2) →
      (∀ f ∈ fs, fieldOKU f = true) →
      namesNodup (fs.map (·.wireS)) = true →
      ∃ out, (∃ m, unstructFields (unstruct E m) vals fs = .ok out) ∧
        (∀ kv ∈ out, ∃ f ∈ fs, f.wireS = kv.1) ∧
        keysNodup out = true ∧
        (∃ k, relFields (nrel E k) kvs out fs = true) ∧
        (∃ k, repFields (rep E bad k) out fs vs = true)
  | [], [], _, _, _, _ => ⟨[], ⟨0, rfl⟩, by simp, rfl, ⟨0, rfl⟩, ⟨0, rfl⟩⟩
  | [], _ :: _, h, _, _, _ => by simp [repFields] at h
  | _ :: _, [], h, _, _, _ => by simp [repFields] at h
  | f :: fs, (a, v) :: vs, h, hla, hok, hnd => by
    simp only [repFields, Bool.and_eq_true, beq_iff_eq] at h
    obtain ⟨⟨ha, hcl⟩, hrest⟩ := h
    simp only [List.map_cons] at hnd
    obtain ⟨hnotw, hnd'⟩ := namesNodup_cons hnd
    obtain ⟨out', ⟨m2, hm2⟩, hkeys', hnodup', ⟨k2, hk2⟩, ⟨r2, hr2⟩⟩ :=
      fields_out n' IH kvs vals fs vs hrest (fun p hp => hla p (by simp [hp])) (fun g hg => hok g (by simp [hg])) hnd'
    have hlav : lookupAttr vals f.name = some v := hla (f, (a, v)) (by simp)
    have hfok := hok f (by simp)
    have hwire : f.wireU = f.wireS := by
      simp only [fieldOKU, Bool.and_eq_true, beq_iff_eq] at hfok
      exact hfok.1
    -- the key of this field does not occur in the rest of the output
    have hnokey : ∀ kv ∈ out', kv.1 ≠ f.wireS := by
      intro kv hkv he
      obtain ⟨g, hg, hgw⟩ := hkeys' kv hkv
      exact hnotw (by rw [← he, ← hgw]; exact List.mem_map_of_mem hg)
    have hlk' : Json.lookup out' f.wireS = Option.none := lookup_none_of_not_key out' f.wireS hnokey
    have htail : ∀ g ∈ fs, g.wireS ≠ f.wireS := fun g hg he => hnotw (he ▸ List.mem_map_of_mem hg)
    rcases Field.written_cases f v hfok with hw | ⟨hw, homit, hdflt, hvn⟩
    · -- written: the handler of the annotation runs on the value
      have hval : ∃ x', (∃ m, unstruct E m (some f.ty) v = .ok x') ∧
          (∃ k, (match Json.lookup kvs f.wireS with
                 | some x => nrel E k f.ty x x'
                 | Option.none => x'.isNull && !f.omitU) = true) ∧
          (∃ k, rep E bad k f.ty v x' = true) ∧ f.faithfulJ x' = true := by
        -- an always-written attribute, or one that is set: the output value is not a null that would be dropped on re-reading
        have hfaith : ∀ x' k, rep E bad k f.ty v x' = true → f.faithfulJ x' = true := by
          intro x' k hr
          unfold Field.faithfulJ
          cases hd : f.dflt with
          | nothing => rfl
          | other s => rfl
          | str s =>
            have h2 : f.omitU = false := by
              simp only [fieldOKU, hd, Bool.and_eq_true, Bool.not_eq_true'] at hfok
              exact hfok.2
            simp [h2]
          | none =>
            cases hxn : x'.isNull with
            | false => simp
            | true =>
              have hx : x' = .null := by cases x' <;> simp [Json.isNull] at hxn ⊢
              subst hx
              have hvn := rep_null E bad hr
              subst hvn
              have h2 : f.omitU = false := by
                simp only [Field.written, hd, Dflt.toVal, PyVal.beq, Bool.and_true, Bool.not_eq_true'] at hw
                exact hw
              simp [h2]
        cases hl : Json.lookup kvs f.wireS with
        | some x =>
          simp only [hl, Bool.and_eq_true] at hcl
          obtain ⟨x', hu, ⟨k, hk⟩, ⟨r, hr⟩⟩ := IH f.ty v x hcl.1
          exact ⟨x', hu, ⟨k, hk⟩, ⟨r, hr⟩, hfaith x' r hr⟩
        | none =>
          simp only [hl, Bool.and_eq_true, beq_iff_eq] at hcl
          have hvn := PyVal.isNone_eq hcl.1.2
          subst hvn
          have homit : f.omitU = false := by
            simp only [Field.written, hcl.1.1, Dflt.toVal, PyVal.beq, Bool.and_true, Bool.not_eq_true'] at hw
            exact hw
          -- `None` is a typed value of the annotation (part of the reading), so its handler passes it through
          obtain ⟨x', hu, _, ⟨r, hr⟩⟩ := IH f.ty .none .null hcl.2
          have hx := rep_none_val E bad hr
          subst hx
          exact ⟨.null, hu, ⟨0, by simp [Json.isNull, homit]⟩, ⟨r, hr⟩, hfaith .null r hr⟩
      obtain ⟨x', ⟨m1, hm1⟩, ⟨k1, hk1⟩, ⟨r1, hr1⟩, hf1⟩ := hval
      have hlkh : Json.lookup ((f.wireS, x') :: out') f.wireS = some x' := by simp [Json.lookup]
      have hlkt : ∀ g ∈ fs, Json.lookup ((f.wireS, x') :: out') g.wireS = Json.lookup out' g.wireS := by
        intro g hg
        have hne : (f.wireS == g.wireS) = false := by simpa using (htail g hg).symm
        simp [Json.lookup, hne]
      refine ⟨(f.wireS, x') :: out', ⟨max m1 m2, ?_⟩, ?_, ?_, ⟨max k1 k2, ?_⟩, ⟨max r1 r2, ?_⟩⟩
      · have h1 := unstruct_mono E (Nat.le_max_left m1 m2) hm1
        have h2 := unstructFields_mono (fun o w y hh => unstruct_mono E (Nat.le_max_right m1 m2) hh) vals fs out' hm2
        simp only [unstructFields, hlav, hw, if_true, h1, h2, hwire]
      · intro kv hkv
        rcases List.mem_cons.mp hkv with rfl | hkv
        · exact ⟨f, by simp, rfl⟩
        · obtain ⟨g, hg, hgw⟩ := hkeys' kv hkv
          exact ⟨g, by simp [hg], hgw⟩
      · simp only [keysNodup, Json.hasKey, hlk', Option.isSome_none, Bool.not_false, hnodup', Bool.and_self]
      · simp only [relFields, Bool.and_eq_true]
        constructor
        · rw [hlkh]
          cases hl : Json.lookup kvs f.wireS with
          | some x =>
            simp only [hl] at hk1 ⊢
            exact nrel_mono E (Nat.le_max_left _ _) hk1
          | none =>
            simp only [hl] at hk1 ⊢
            exact hk1
        · rw [relFields_congr (nrel E (max k1 k2)) kvs ((f.wireS, x') :: out') out' fs hlkt]
          exact relFields_mono (fun t x y hh => nrel_mono E (Nat.le_max_right _ _) hh) kvs out' fs hk2
      · simp only [repFields, Bool.and_eq_true, beq_iff_eq]
        refine ⟨⟨ha, ?_⟩, ?_⟩
        · rw [hlkh]
          simp only [Bool.and_eq_true]
          exact ⟨rep_mono E bad (Nat.le_max_left _ _) hr1, hf1⟩
        · rw [repFields_congr (rep E bad (max r1 r2)) ((f.wireS, x') :: out') out' fs vs hlkt]
          exact repFields_mono (fun t w x hh => rep_mono E bad (Nat.le_max_right _ _) hh) out' fs vs hr2
    · -- omitted: an unset (None) attribute of a class that omits it
      subst hvn
      have hnull : rep E bad n' f.ty .none .null = true := by
        cases hl : Json.lookup kvs f.wireS with
        | some x =>
          simp only [hl, Bool.and_eq_true] at hcl
          have hx := rep_none_val E bad hcl.1
          subst hx
          exact hcl.1
        | none =>
          simp only [hl, Bool.and_eq_true] at hcl
          exact hcl.2
      refine ⟨out', ⟨m2, ?_⟩, ?_, hnodup', ⟨k2, ?_⟩, ⟨max n' r2, ?_⟩⟩
      · simp only [unstructFields, hlav, hw]
        exact hm2
      · intro kv hkv
        obtain ⟨g, hg, hgw⟩ := hkeys' kv hkv
        exact ⟨g, by simp [hg], hgw⟩
      · simp only [relFields, Bool.and_eq_true]
        refine ⟨?_, hk2⟩
        rw [hlk']
        cases hl : Json.lookup kvs f.wireS with
        | some x =>
          simp only [hl, Bool.and_eq_true] at hcl
          have hx := rep_none_val E bad hcl.1
          subst hx
          simp [Json.isNull, homit]
        | none => rfl
      · simp only [repFields, Bool.and_eq_true, beq_iff_eq]
        refine ⟨⟨ha, ?_⟩, repFields_mono (fun t w x hh => rep_mono E bad (Nat.le_max_right _ _) hh) out' fs vs hr2⟩
        rw [hlk']
        simp only [Bool.and_eq_true, beq_iff_eq]
        exact ⟨⟨hdflt, rfl⟩, rep_mono E bad (Nat.le_max_left _ _) hnull⟩

/-! ### T2 -/

theorem findCls_name {c : Name} {cl : Cls} (h : E.pkg.findCls c = some cl) : cl.name = c := by
  have := List.find?_some h
  simpa using this

theorem handlerOf_out {x : PyTy} {v : PyVal} {j : Json} (ht : OutAt E bad (some x) x v j) (hd : OutAt E bad Option.none x v j) :
    OutAt E bad x.handlerOf x v j := by
  cases x <;> first | exact ht | exact hd

theorem rep_union_intro {k : Nat} {ts : List PyTy} {t : PyTy} {v : PyVal} {j : Json} (hb : isBad bad (.union ts) = false)
    (ht : t ∈ ts) (h : rep E bad k t v j = true) : rep E bad (k + 1) (.union ts) v j = true := by
  unfold rep
  simp only [hb, Bool.not_false, Bool.true_and, Bool.or_eq_true, List.any_eq_true]
  exact Or.inl ⟨t, ht, h⟩

/-- **T2**, both ways of calling the converter: `unstructure(v, unstructure_as = ty)` (what the
    generated class functions use for their attributes) and `unstructure(v)` (dispatch on the runtime class). -/
theorem unstruct_total (hU : clsesOKU E = true) : ∀ (n : Nat) (ty : PyTy) (v : PyVal) (j : Json),
    rep E bad n ty v j = true → OutAt E bad (some ty) ty v j ∧ OutAt E bad Option.none ty v j
  | 0, _, _, _, h => by simp [rep] at h
  | n + 1, ty, v, j, h => by
    have IH := unstruct_total hU n
    have h0 := h
    have hnb := rep_not_bad E bad h0
    unfold rep at h
    simp only [Bool.and_eq_true] at h
    have h2 := h.2
    -- the output is the input itself
    have same : (∃ m, unstruct E m (some ty) v = .ok j) → (∃ m, unstruct E m Option.none v = .ok j) →
        (∀ m, nrel E (m + 1) ty j j = Json.beq j j) → OutAt E bad (some ty) ty v j ∧ OutAt E bad Option.none ty v j :=
      fun ht hd hn => ⟨⟨j, ht, NRel.refl_of_scalar E j hn, ⟨n + 1, h0⟩⟩, ⟨j, hd, NRel.refl_of_scalar E j hn, ⟨n + 1, h0⟩⟩⟩
    cases ty with
    | int =>
      cases v <;> cases j <;> try (simp at h2; done)
      rename_i a b
      have hab : a = b := by simpa using h2
      subst hab
      exact same ⟨1, by simp [unstruct, rawJson]⟩ ⟨1, by simp [unstruct, rawJson]⟩ (fun m => by simp [nrel])
    | float =>
      cases v <;> cases j <;> try (simp at h2; done)
      all_goals
        rename_i d b
        cases d <;> try (simp at h2; done)
        rename_i a
        have hab : a = b := by simpa using h2
        subst hab
        exact same ⟨1, by simp [unstruct, rawJson]⟩ ⟨1, by simp [unstruct, rawJson]⟩ (fun m => by simp [nrel])
    | str =>
      cases v <;> cases j <;> try (simp at h2; done)
      rename_i a b
      have hab : a = b := by simpa using h2
      subst hab
      exact same ⟨1, by simp [unstruct, rawJson]⟩ ⟨1, by simp [unstruct, rawJson]⟩ (fun m => by simp [nrel])
    | bool =>
      cases v <;> cases j <;> try (simp at h2; done)
      rename_i a b
      have hab : a = b := by simpa using h2
      subst hab
      exact same ⟨1, by simp [unstruct, rawJson]⟩ ⟨1, by simp [unstruct, rawJson]⟩ (fun m => by simp [nrel])
    | none =>
      cases v <;> cases j <;> try (simp at h2; done)
      exact same ⟨1, by simp [unstruct, rawJson]⟩ ⟨1, by simp [unstruct, rawJson]⟩ (fun m => by simp [nrel])
    | literal vs =>
      cases v <;> cases j <;> try (simp at h2; done)
      rename_i a b
      simp only [Bool.and_eq_true, beq_iff_eq] at h2
      obtain ⟨hab, _⟩ := h2
      subst hab
      exact same ⟨1, by simp [unstruct, rawJson]⟩ ⟨1, by simp [unstruct, rawJson]⟩ (fun m => by simp [nrel])
    | enum e =>
      simp only at h2
      cases hf : E.pkg.findEnum e with
      | none => simp [hf] at h2
      | some pe =>
        cases v <;> try (simp [hf] at h2; done)
        case enum e' val =>
          simp only [hf, Bool.and_eq_true, beq_iff_eq] at h2
          obtain ⟨_, hj⟩ := h2
          have hjv : j = val.toJson := by
            cases val <;> cases j <;> simp at hj <;> simp [EnumVal.toJson, hj]
          subst hjv
          exact same ⟨1, by simp [unstruct]⟩ ⟨1, by simp [unstruct]⟩ (fun m => by simp [nrel])
    | any =>
      have hoj : isOfJson v j = true := h2
      obtain ⟨m, hm⟩ := ofJson_unstruct E v j hoj
      exact same ⟨m + 1, by simp [unstruct, hm]⟩ ⟨m, hm⟩ (fun m => by simp [nrel])
    | obj =>
      cases j <;> try (simp at h2; done)
      rename_i kvs
      have hoj : isOfJson v (.obj kvs) = true := h2
      obtain ⟨m, hm⟩ := ofJson_unstruct E v _ hoj
      obtain ⟨m', hm'⟩ := ofJson_raw v _ hoj
      refine same ⟨m' + 1, ?_⟩ ⟨m, hm⟩ (fun m => by simp [nrel])
      simp only [unstruct]
      exact rawJson_succ _ _ _ hm'
    | unknown s => simp at h2
    | seq t =>
      cases v <;> cases j <;> try (simp at h2; done)
      case list.arr vs xs =>
        obtain ⟨ys, ⟨m, hm⟩, ⟨k, hk⟩, ⟨r, hr⟩⟩ := collect_list E bad (some t) t n (fun w x hh => (IH t w x hh).1) vs xs h2
        obtain ⟨ys', ⟨m', hm'⟩, ⟨k', hk'⟩, ⟨r', hr'⟩⟩ := collect_list E bad Option.none t n (fun w x hh => (IH t w x hh).2) vs xs h2
        exact ⟨⟨.arr ys, ⟨m + 1, by simp [unstruct, hm, bind, Except.bind]⟩, ⟨k + 1, by simp [nrel, hk]⟩, ⟨r + 1, by simp [rep, hnb, hr]⟩⟩,
          ⟨.arr ys', ⟨m' + 1, by simp [unstruct, hm', bind, Except.bind]⟩, ⟨k' + 1, by simp [nrel, hk']⟩, ⟨r' + 1, by simp [rep, hnb, hr']⟩⟩⟩
    | tuple ts =>
      cases v <;> cases j <;> try (simp at h2; done)
      case tuple.arr vs xs =>
        obtain ⟨ys, ⟨m, hm⟩, ⟨k, hk⟩, ⟨r, hr⟩⟩ := collect_tuple_t E bad n (fun t w x hh => (IH t w x hh).1) ts vs xs h2
        obtain ⟨ys', ⟨m', hm'⟩, ⟨k', hk'⟩, ⟨r', hr'⟩⟩ := collect_tuple_d E bad n (fun t w x hh => (IH t w x hh).2) ts vs xs h2
        exact ⟨⟨.arr ys, ⟨m + 1, by simp [unstruct, hm, bind, Except.bind]⟩, ⟨k + 1, by simp [nrel, hk]⟩, ⟨r + 1, by simp [rep, hnb, hr]⟩⟩,
          ⟨.arr ys', ⟨m' + 1, by simp [unstruct, hm', bind, Except.bind]⟩, ⟨k' + 1, by simp [nrel, hk']⟩, ⟨r' + 1, by simp [rep, hnb, hr']⟩⟩⟩
    | dict kt vt =>
      cases v <;> cases j <;> try (simp at h2; done)
      case dict.obj ps kvs =>
        simp only [Bool.and_eq_true] at h2
        obtain ⟨out, ⟨m, hm⟩, ⟨k, hk⟩, hkeys, ⟨r, hr⟩⟩ := collect_entries_u E bad (some kt) (some vt) kt vt n
          (fun w x hh => (IH kt w x hh).1) (fun w x hh => (IH vt w x hh).1) (fun hk s => by subst hk; rfl) ps kvs h2.2
        obtain ⟨out', ⟨m', hm'⟩, ⟨k', hk'⟩, hkeys', ⟨r', hr'⟩⟩ := collect_entries_u E bad Option.none Option.none kt vt n
          (fun w x hh => (IH kt w x hh).2) (fun w x hh => (IH vt w x hh).2) (fun _ s => rfl) ps kvs h2.2
        have hnd : keysNodup out = true := by rw [keysNodup_congr out kvs hkeys]; exact h2.1
        have hnd' : keysNodup out' = true := by rw [keysNodup_congr out' kvs hkeys']; exact h2.1
        exact ⟨⟨.obj out, ⟨m + 1, by simp [unstruct, hm, bind, Except.bind]⟩, ⟨k + 1, by simp [nrel, hk]⟩, ⟨r + 1, by simp [rep, hnb, hnd, hr]⟩⟩,
          ⟨.obj out', ⟨m' + 1, by simp [unstruct, hm', bind, Except.bind]⟩, ⟨k' + 1, by simp [nrel, hk']⟩, ⟨r' + 1, by simp [rep, hnb, hnd', hr']⟩⟩⟩
    | cls c =>
      obtain ⟨n', cl, vals, kvs, hn, hc, rfl, rfl, hknd, hkdecl, hrf, ⟨u, hru⟩⟩ := rep_cls_inv E bad h0
      cases hn
      have hclm : cl ∈ E.pkg.classes := List.mem_of_find?_eq_some hc
      have hcl := List.all_eq_true.mp hU cl hclm
      simp only [clsOKU, Bool.and_eq_true] at hcl
      obtain ⟨⟨hnames, hwires⟩, hfields⟩ := hcl
      obtain ⟨out, ⟨m, hm⟩, hkeys, hnodup, ⟨k, hk⟩, ⟨r, hr⟩⟩ := fields_out E bad n (fun t w x hh => (IH t w x hh).1) kvs vals cl.fields vals hrf
        (lookupAttr_aligned _ kvs cl.fields vals hrf hnames) (fun f hf => List.all_eq_true.mp hfields f hf) hwires
      have hname := findCls_name E hc
      have hc' : E.pkg.findCls cl.name = some cl := by rw [hname]; exact hc
      have hdecl : (out.all (fun kv => cl.fields.any (·.wireS == kv.1))) = true := by
        simp only [List.all_eq_true, List.any_eq_true, beq_iff_eq]
        intro kv hkv
        obtain ⟨f, hf, hfw⟩ := hkeys kv hkv
        exact ⟨f, hf, hfw⟩
      have hn : NRel E (.cls c) (.obj kvs) (.obj out) := ⟨k + 1, by simp [nrel, hc, hnodup, hdecl, hk, hknd, hkdecl]⟩
      have hrep : Rep E bad (.cls c) (.inst cl.name vals) (.obj out) := ⟨r + 1, by
        unfold rep
        simp only [hc, hnb, Bool.not_false, Bool.true_and, beq_self_eq_true, hnodup, hdecl, hr, hru]⟩
      exact ⟨⟨.obj out, ⟨m + 1, by simp [unstruct, hc, hm, bind, Except.bind]⟩, hn, hrep⟩,
        ⟨.obj out, ⟨m + 1, by simp [unstruct, hc', hm, bind, Except.bind]⟩, hn, hrep⟩⟩
    | union ts =>
      obtain ⟨n', hn', halt⟩ := rep_union_inv E bad h0
      cases hn'
      -- the runtime-class dispatch (`unstructure(v)`)
      have hD : OutAt E bad Option.none (.union ts) v j := by
        rcases halt with ⟨t, ht, hr⟩ | ⟨_, hraw⟩
        · obtain ⟨j', hu, ⟨k, hk⟩, ⟨r, hrr⟩⟩ := (IH t v j hr).2
          exact ⟨j', hu, ⟨k + 1, by
            simp only [nrel, Bool.or_eq_true, List.any_eq_true]
            exact Or.inl ⟨t, ht, hk⟩⟩, ⟨r + 1, rep_union_intro E bad hnb ht hrr⟩⟩
        · simp only [rawEnum, List.any_eq_true] at hraw
          obtain ⟨t, _, hh⟩ := hraw
          have hn : NRel E (.union ts) j j := ⟨1, by simp [nrel, Json.beq_refl]⟩
          cases t <;> try (simp at hh; done)
          cases hv : v <;> cases hj : j <;> simp only [hv, hj] at hh <;> try (simp at hh; done)
          all_goals
            simp only [Bool.and_eq_true, beq_iff_eq] at hh
            obtain ⟨hab, _⟩ := hh
            subst hab
            refine ⟨_, ⟨1, rfl⟩, ?_, ⟨n + 1, ?_⟩⟩
            · rw [← hj]; exact hn
            · rw [← hj, ← hv]; exact h0
      refine ⟨?_, hD⟩
      cases ho : PyTy.optionalOf ts with
      | none =>
        obtain ⟨j', ⟨m, hm⟩, hn, hr⟩ := hD
        exact ⟨j', ⟨m + 1, by simp [unstruct, ho, hm]⟩, hn, hr⟩
      | some x =>
        have hmem : ∀ u ∈ ts, u = x ∨ u = PyTy.none := by
          rcases optionalOf_inv' ho with rfl | rfl <;> (intro u hu; simp at hu; rcases hu with rfl | rfl <;> simp)
        have hxin : x ∈ ts := by rcases optionalOf_inv' ho with rfl | rfl <;> simp
        rcases halt with ⟨t, ht, hr⟩ | ⟨hno, _⟩
        · by_cases hv : v = .none
          · subst hv
            have hj := rep_none_val E bad hr
            subst hj
            exact ⟨.null, ⟨1, by simp [unstruct, ho, PyVal.isNoneV]⟩, ⟨1, by simp [nrel, Json.beq]⟩, ⟨n + 1, h0⟩⟩
          · have htx : t = x := by
              rcases hmem t ht with rfl | rfl
              · rfl
              · have hjn := rep_noneTy E bad hr
                subst hjn
                exact absurd (rep_null E bad hr) hv
            subst htx
            obtain ⟨j', ⟨m, hm⟩, ⟨k, hk⟩, ⟨r, hrr⟩⟩ := handlerOf_out E bad (IH t v j hr).1 (IH t v j hr).2
            have hvn : v.isNoneV = false := by
              cases hvv : v.isNoneV with
              | false => rfl
              | true => exact absurd (PyVal.isNoneV_iff.mp hvv) hv
            exact ⟨j', ⟨m + 1, by simp [unstruct, ho, hvn, hm]⟩, ⟨k + 1, by
              simp only [nrel, Bool.or_eq_true, List.any_eq_true]
              exact Or.inl ⟨t, hxin, hk⟩⟩, ⟨r + 1, rep_union_intro E bad hnb hxin hrr⟩⟩
        · simp [ho] at hno

/-- **T2.**  A typed reading `v` of the JSON value `j` at `ty` unstructures to a JSON value `j'`
    related to `j` by the null rule — whichever way the converter is called — and `v` is a typed
    reading of `j'` as well (the output is again valid for `ty`). -/
theorem T2 (hU : clsesOKU E = true) {n : Nat} {ty : PyTy} {v : PyVal} {j : Json} (h : rep E bad n ty v j = true) :
    (∃ j' m, unstruct E m (some ty) v = .ok j' ∧ (∃ k, nrel E k ty j j' = true) ∧ ∃ k, rep E bad k ty v j' = true) ∧
    (∃ j' m, unstruct E m Option.none v = .ok j' ∧ (∃ k, nrel E k ty j j' = true) ∧ ∃ k, rep E bad k ty v j' = true) := by
  obtain ⟨⟨j1, ⟨m1, h1⟩, hk1, hr1⟩, ⟨j2, ⟨m2, h2⟩, hk2, hr2⟩⟩ := unstruct_total E bad hU n ty v j h
  exact ⟨⟨j1, m1, h1, hk1, hr1⟩, ⟨j2, m2, h2, hk2, hr2⟩⟩

end LspVerif
