/-
  C15, globally: structuring ignores an undeclared key wherever the model consumes an object as a
  protocol object, at any depth, through every hook and disambiguator dispatch.

  `eraseJ k j` removes key `k` from every object node of `j`.  `clean E k n ty j` walks `j` exactly
  as `structTy E n ty j` does and says that `k` does not occur inside any part of `j` that is
  consumed as *content* (positions typed Any / LSPObject / None / a scalar, the keys of a
  `Dict[...]`, `return object_`, `str(object_)`, `len(object_)` of a dict).  The theorem:

      kFreshEnv E k → clean E k n ty j → structTy E n ty (eraseJ k j) = structTy E n ty j

  for every environment, fuel, type and JSON value — valid or not, success or error.
  `kFreshEnv E k` (no generated class function forbids extra keys; `k` is no wire name of any class;
  no hook or disambiguator program mentions `k`) is a decidable fact about the regenerated tables,
  discharged once for all undeclared `k` by `declaredKeys ⊆ names of the metamodel`.
-/
import LspVerif.Props.ConvTables
import LspVerif.Core.Erase
namespace LspVerif

/-! ### erasing a key everywhere -/

mutual
theorem eraseJ_of_kFree (k : Name) : ∀ j, kFreeJ k j = true → eraseJ k j = j
  | .arr xs, h => by simp only [eraseJ]; rw [eraseL_of_kFree k xs (by simpa [kFreeJ] using h)]
  | .obj kvs, h => by simp only [eraseJ]; rw [eraseKvs_of_kFree k kvs (by simpa [kFreeJ] using h)]
  | .null, _ => rfl
  | .bool _, _ => rfl
  | .int _, _ => rfl
  | .dec _, _ => rfl
  | .str _, _ => rfl
theorem eraseL_of_kFree (k : Name) : ∀ xs, kFreeL k xs = true → eraseL k xs = xs
  | [], _ => rfl
  | x :: xs, h => by
    simp only [kFreeL, Bool.and_eq_true] at h
    simp only [eraseL, eraseJ_of_kFree k x h.1, eraseL_of_kFree k xs h.2]
theorem eraseKvs_of_kFree (k : Name) : ∀ kvs, kFreeKvs k kvs = true → eraseKvs k kvs = kvs
  | [], _ => rfl
  | (w, v) :: rest, h => by
    simp only [kFreeKvs, Bool.and_eq_true, Bool.not_eq_true'] at h
    simp only [eraseKvs, h.1.1, Bool.false_eq_true, if_false, eraseJ_of_kFree k v h.1.2, eraseKvs_of_kFree k rest h.2]
end

theorem eraseL_eq_map (k : Name) : ∀ xs, eraseL k xs = xs.map (eraseJ k)
  | [] => rfl
  | x :: xs => by simp [eraseL, eraseL_eq_map k xs]

theorem eraseJ_kind (k : Name) (j : Json) : (eraseJ k j).kind = j.kind := by
  cases j <;> simp [eraseJ, Json.kind]

/-- looking up a key other than `k` commutes with erasing -/
theorem lookup_eraseKvs (k w : Name) (hw : (w == k) = false) :
    ∀ kvs, Json.lookup (eraseKvs k kvs) w = (Json.lookup kvs w).map (eraseJ k)
  | [] => rfl
  | (w', v) :: rest => by
    by_cases h : (w' == k) = true
    · have hne : (w' == w) = false := by
        have h1 : w' = k := by simpa using h
        have h2 : ¬ w = k := by simpa using hw
        simp only [beq_eq_false_iff_ne, ne_eq]
        intro h3
        exact h2 (h3 ▸ h1)
      simp only [eraseKvs, h, if_true, Json.lookup, hne, Bool.false_eq_true, if_false]
      exact lookup_eraseKvs k w hw rest
    · have h' : (w' == k) = false := by simpa using h
      simp only [eraseKvs, h', Bool.false_eq_true, if_false, Json.lookup]
      by_cases hww : (w' == w) = true
      · simp [hww]
      · simp only [hww, if_false]
        exact lookup_eraseKvs k w hw rest

theorem hasKey_eraseKvs (k w : Name) (hw : (w == k) = false) (kvs : List (Name × Json)) :
    Json.hasKey (eraseKvs k kvs) w = Json.hasKey kvs w := by
  simp [Json.hasKey, lookup_eraseKvs k w hw kvs]

/-- without a top-level `k`, erasing an object only erases inside its values -/
theorem eraseKvs_no_top (k : Name) : ∀ kvs, Json.hasKey kvs k = false →
    eraseKvs k kvs = kvs.map (fun kv => (kv.1, eraseJ k kv.2))
  | [], _ => rfl
  | (w, v) :: rest, h => by
    have hw : (w == k) = false := by
      by_cases hh : (w == k) = true
      · simp [Json.hasKey, Json.lookup, hh] at h
      · simpa using hh
    have hr : Json.hasKey rest k = false := by
      simpa [Json.hasKey, Json.lookup, hw] using h
    simp [eraseKvs, hw, eraseKvs_no_top k rest hr]

/-! ### hook programs under erasure -/

theorem Path.eval_erase (k : Name) : ∀ (p : Path) (j : Json), (p.keys.contains k) = false →
    p.eval (eraseJ k j) = (p.eval j).map (eraseJ k)
  | .self, j, _ => rfl
  | .idx p i, j, h => by
    have ih := Path.eval_erase k p j (by simpa [Path.keys] using h)
    simp only [Path.eval, ih, bind, Except.bind, Except.map]
    cases hp : p.eval j with
    | error e => rfl
    | ok x =>
      cases x <;> simp only [eraseJ]
      case arr xs =>
        simp only [eraseL_eq_map, List.getElem?_map]
        cases xs[i]? <;> rfl
  | .key p w, j, h => by
    have hk : (w == k) = false ∧ (p.keys.contains k) = false := by
      simp only [Path.keys, List.contains_cons] at h
      have := Bool.or_eq_false_iff.mp h
      exact ⟨by simpa [BEq.comm] using this.1, this.2⟩
    have ih := Path.eval_erase k p j hk.2
    simp only [Path.eval, ih, bind, Except.bind, Except.map]
    cases hp : p.eval j with
    | error e => rfl
    | ok x =>
      cases x <;> simp only [eraseJ]
      case obj kvs =>
        simp only [lookup_eraseKvs k w hk.1 kvs]
        cases Json.lookup kvs w <;> rfl

theorem any_erase (k : Name) (f : Json → Bool) (hf : ∀ x, f (eraseJ k x) = f x) : ∀ xs : List Json,
    (xs.map (eraseJ k)).any f = xs.any f
  | [] => rfl
  | x :: xs => by simp only [List.map, List.any, any_erase k f hf xs, hf x]

theorem Cond.eval_erase (k : Name) : ∀ (c : Cond) (j : Json), (c.keys.contains k) = false → c.clean k j = true →
    c.eval (eraseJ k j) = c.eval j
  | .tt, _, _, _ => rfl
  | .ff, _, _, _ => rfl
  | .isNone p, j, h, _ => by
    simp only [Cond.eval, Path.eval_erase k p j (by simpa [Cond.keys] using h), bind, Except.bind, Except.map]
    cases p.eval j with
    | error e => rfl
    | ok x => cases x <;> rfl
  | .isInst p ks, j, h, _ => by
    simp only [Cond.eval, Path.eval_erase k p j (by simpa [Cond.keys] using h), bind, Except.bind, Except.map]
    cases p.eval j with
    | error e => rfl
    | ok x => simp [eraseJ_kind]
  | .hasKey p w, j, h, _ => by
    have hk : (w == k) = false ∧ (p.keys.contains k) = false := by
      simp only [Cond.keys, List.contains_cons] at h
      have := Bool.or_eq_false_iff.mp h
      exact ⟨by simpa [BEq.comm] using this.1, this.2⟩
    simp only [Cond.eval, Path.eval_erase k p j hk.2, bind, Except.bind, Except.map]
    cases p.eval j with
    | error e => rfl
    | ok x =>
      cases x <;> simp only [eraseJ]
      case arr xs =>
        simp only [eraseL_eq_map]
        rw [any_erase k _ (fun x => by cases x <;> rfl)]
      case obj kvs => simp only [hasKey_eraseKvs k w hk.1]
  | .keyEq p w s, j, h, _ => by
    have hk : ((Path.key p w).keys.contains k) = false := by simpa [Cond.keys, Path.keys] using h
    simp only [Cond.eval, Path.eval_erase k (.key p w) j hk, bind, Except.bind, Except.map]
    cases (Path.key p w).eval j with
    | error e => rfl
    | ok x => cases x <;> rfl
  | .lenEq p n, j, h, hc => by
    simp only [Cond.eval, Path.eval_erase k p j (by simpa [Cond.keys] using h), bind, Except.bind, Except.map]
    simp only [Cond.clean] at hc
    cases hp : p.eval j with
    | error e => rfl
    | ok x =>
      cases x <;> simp only [eraseJ]
      case arr xs => simp [eraseL_eq_map]
      case obj kvs =>
        have : Json.hasKey kvs k = false := by simpa [hp] using hc
        simp [eraseKvs_no_top k kvs this]
  | .not c, j, h, hc => by
    simp only [Cond.eval, Cond.eval_erase k c j (by simpa [Cond.keys] using h) (by simpa [Cond.clean] using hc)]
  | .and a b, j, h, hc => by
    simp only [Cond.keys, List.contains_append, Bool.or_eq_false_iff] at h
    simp only [Cond.clean, Bool.and_eq_true] at hc
    simp only [Cond.eval, Cond.eval_erase k a j h.1 hc.1, Cond.eval_erase k b j h.2 hc.2]
  | .or a b, j, h, hc => by
    simp only [Cond.keys, List.contains_append, Bool.or_eq_false_iff] at h
    simp only [Cond.clean, Bool.and_eq_true] at hc
    simp only [Cond.eval, Cond.eval_erase k a j h.1 hc.1, Cond.eval_erase k b j h.2 hc.2]

theorem mapE_congr {α β} (f g : α → Except Err β) : ∀ xs : List α, (∀ x ∈ xs, f x = g x) → mapE f xs = mapE g xs
  | [], _ => rfl
  | x :: xs, h => by
    simp only [mapE, h x (by simp), mapE_congr f g xs (fun y hy => h y (by simp [hy]))]

theorem mapE_map {α β γ} (f : β → Except Err γ) (g : α → β) : ∀ xs : List α, mapE f (xs.map g) = mapE (fun x => f (g x)) xs
  | [] => rfl
  | x :: xs => by simp only [List.map, mapE, mapE_map f g xs]

theorem HExpr.keys_ite (c : Cond) (a b : HExpr) (k : Name) (h : ((HExpr.ite c a b).keys.contains k) = false) :
    (c.keys.contains k) = false ∧ (a.keys.contains k) = false ∧ (b.keys.contains k) = false := by
  simp only [HExpr.keys, List.contains_append, Bool.or_eq_false_iff] at h
  exact ⟨h.1.1, h.1.2, h.2⟩

theorem HExpr.run_erase (k : Name) (recur : PyTy → Json → Except Err PyVal) (cl : PyTy → Json → Bool)
    (hr : ∀ t x, cl t x = true → recur t (eraseJ k x) = recur t x) :
    ∀ (h : HExpr) (j : Json), (h.keys.contains k) = false → h.clean k cl j = true →
      h.run recur (eraseJ k j) = h.run recur j
  | .retNone, _, _, _ => rfl
  | .retEmptyList, _, _, _ => rfl
  | .raise _, _, _, _ => rfl
  | .retSelf, j, _, hc => by rw [eraseJ_of_kFree k j (by simpa [HExpr.clean] using hc)]
  | .strOf, j, _, hc => by rw [eraseJ_of_kFree k j (by simpa [HExpr.clean] using hc)]
  | .tupleInts _, j, _, hc => by rw [eraseJ_of_kFree k j (by simpa [HExpr.clean] using hc)]
  | .structAs t, j, _, hc => by
    simp only [HExpr.run]
    exact hr t j (by simpa [HExpr.clean] using hc)
  | .mapEach e, j, hk, hc => by
    cases j <;> try rfl
    case arr xs =>
      simp only [HExpr.clean, List.all_eq_true] at hc
      simp only [eraseJ, HExpr.run, eraseL_eq_map, mapE_map]
      rw [mapE_congr _ (e.run recur) xs (fun x hx =>
        HExpr.run_erase k recur cl hr e x (by simpa [HExpr.keys] using hk) (hc x hx))]
  | .ite c a b, j, hk, hc => by
    obtain ⟨hkc, hka, hkb⟩ := HExpr.keys_ite c a b k hk
    simp only [HExpr.clean, Bool.and_eq_true] at hc
    simp only [HExpr.run, Cond.eval_erase k c j hkc hc.1, bind, Except.bind]
    cases hce : c.eval j with
    | error e => rfl
    | ok bv =>
      cases bv
      · simp only [Bool.false_eq_true, if_false]
        exact HExpr.run_erase k recur cl hr b j hkb (by simpa [hce] using hc.2)
      · simp only [if_true]
        exact HExpr.run_erase k recur cl hr a j hka (by simpa [hce] using hc.2)

/-! ### the traversal condition and the theorem -/

/-- every key the environment can look at: wire names of the generated class functions and the
    keys mentioned by hook and disambiguator programs -/
def Env.declaredKeys (E : Env) : List Name :=
  E.pkg.classes.flatMap (fun c => c.fields.map (·.wireS)) ++ (E.hooks ++ E.disamb).flatMap (fun h => h.2.keys)

def kFreshEnv (E : Env) (k : Name) : Bool :=
  noForbidExtra E.pkg && !(E.declaredKeys.contains k)

theorem kFresh_class (E : Env) (k : Name) (h : kFreshEnv E k = true) (c : Name) (cl : Cls)
    (hc : E.pkg.findCls c = some cl) : cl.forbidExtra = false ∧ ∀ f ∈ cl.fields, (f.wireS == k) = false := by
  simp only [kFreshEnv, Bool.and_eq_true, Bool.not_eq_true'] at h
  have hmem : cl ∈ E.pkg.classes := by
    simp only [Pkg.findCls] at hc
    exact List.mem_of_find?_eq_some hc
  constructor
  · have := h.1
    simp only [noForbidExtra, Bool.and_eq_true, List.all_eq_true, Bool.not_eq_true'] at this
    exact this.2 cl hmem
  · intro f hf
    cases hb : (f.wireS == k) with
    | false => rfl
    | true =>
      have hfk : f.wireS = k := by simpa using hb
      have : E.declaredKeys.contains k = true := by
        simp only [Env.declaredKeys, List.contains_append, Bool.or_eq_true]
        left
        simp only [List.contains_iff_mem, List.mem_flatMap, List.mem_map]
        exact ⟨cl, hmem, f, hf, hfk⟩
      rw [this] at h
      exact absurd h.2 (by simp)

theorem kFresh_prog (E : Env) (k : Name) (h : kFreshEnv E k = true) (ty : PyTy) (p : HExpr)
    (hp : E.hookFor ty = some p ∨ E.disambFor ty = some p) : (p.keys.contains k) = false := by
  simp only [kFreshEnv, Bool.and_eq_true, Bool.not_eq_true'] at h
  cases hb : p.keys.contains k with
  | false => rfl
  | true =>
  have hin : k ∈ p.keys := by simpa [List.contains_iff_mem] using hb
  have hmem : ∃ q ∈ E.hooks ++ E.disamb, q.2 = p := by
    rcases hp with hp | hp
    · simp only [Env.hookFor, Option.map_eq_some_iff] at hp
      obtain ⟨q, hq, rfl⟩ := hp
      exact ⟨q, List.mem_append_left _ (List.mem_of_find?_eq_some hq), rfl⟩
    · simp only [Env.disambFor, Option.map_eq_some_iff] at hp
      obtain ⟨q, hq, rfl⟩ := hp
      exact ⟨q, List.mem_append_right _ (List.mem_of_find?_eq_some hq), rfl⟩
  obtain ⟨q, hq, rfl⟩ := hmem
  have : E.declaredKeys.contains k = true := by
    simp only [Env.declaredKeys, List.contains_append, Bool.or_eq_true]
    right
    simp only [List.contains_iff_mem, List.mem_flatMap]
    exact ⟨q, hq, hin⟩
  rw [this] at h
  exact absurd h.2 (by simp)

theorem structFields_erase (recur : PyTy → Json → Except Err PyVal) (cl : PyTy → Json → Bool) (k cls : Name)
    (hr : ∀ t x, cl t x = true → recur t (eraseJ k x) = recur t x) (kvs : List (Name × Json)) :
    ∀ fs : List Field, (∀ f ∈ fs, (f.wireS == k) = false) →
      (fs.all (fun f => match Json.lookup kvs f.wireS with | some x => cl f.ty x | Option.none => true)) = true →
      structFields recur cls (eraseKvs k kvs) fs = structFields recur cls kvs fs
  | [], _, _ => rfl
  | f :: fs, hw, hc => by
    simp only [List.all_cons, Bool.and_eq_true] at hc
    have ih := structFields_erase recur cl k cls hr kvs fs (fun g hg => hw g (by simp [hg])) hc.2
    have hf : fieldVal recur cls (eraseKvs k kvs) f = fieldVal recur cls kvs f := by
      simp only [fieldVal, lookup_eraseKvs k f.wireS (hw f (by simp)) kvs]
      cases hl : Json.lookup kvs f.wireS with
      | none => rfl
      | some x =>
        simp only [Option.map]
        exact hr f.ty x (by simpa [hl] using hc.1)
    simp only [structFields, hf, ih]

theorem zip_map_right {α β} (g : β → β) : ∀ (ts : List α) (xs : List β),
    ts.zip (xs.map g) = (ts.zip xs).map (fun p => (p.1, g p.2))
  | [], _ => by simp
  | _ :: _, [] => by simp
  | t :: ts, x :: xs => by simp [zip_map_right g ts xs]

/-- **C15 (global).**  In an environment where `k` is undeclared, erasing `k` from every object of a
    value whose `k`s all sit at protocol-object nodes does not change the result of structuring it —
    at any type, depth, through any hook. -/
theorem C15_global (E : Env) (k : Name) (hE : kFreshEnv E k = true) :
    ∀ (n : Nat) (ty : PyTy) (j : Json), clean E k n ty j = true →
      structTy E n ty (eraseJ k j) = structTy E n ty j
  | 0, _, _, _ => rfl
  | n + 1, ty, j, hc => by
    have ih : ∀ t x, clean E k n t x = true → structTy E n t (eraseJ k x) = structTy E n t x :=
      fun t x h => C15_global E k hE n t x h
    unfold clean at hc
    unfold structTy
    cases hh : E.hookFor ty with
    | some h =>
      simp only [hh] at hc ⊢
      exact HExpr.run_erase k (structTy E n) (clean E k n) ih h j (kFresh_prog E k hE ty h (Or.inl hh)) hc
    | none =>
      simp only [hh] at hc ⊢
      cases ty with
      | cls c =>
        simp only at hc ⊢
        cases hf : E.pkg.findCls c with
        | none => rfl
        | some cl =>
          obtain ⟨hfe, hw⟩ := kFresh_class E k hE c cl hf
          cases j <;> try rfl
          case obj kvs =>
            simp only [hf] at hc
            simp only [eraseJ, structCls, structObj, hfe, Bool.false_and, Bool.false_eq_true, if_false]
            rw [structFields_erase (structTy E n) (clean E k n) k cl.name ih kvs cl.fields hw hc]
      | seq t =>
        cases j <;> try rfl
        case arr xs =>
          simp only [List.all_eq_true] at hc
          simp only [eraseJ, eraseL_eq_map, mapE_map]
          rw [mapE_congr _ (structTy E n t) xs (fun x hx => ih t x (hc x hx))]
      | dict kt vt =>
        cases j <;> try rfl
        case obj kvs =>
          simp only [Bool.and_eq_true, Bool.not_eq_true', List.all_eq_true] at hc
          simp only [eraseJ, eraseKvs_no_top k kvs hc.1, mapE_map]
          rw [mapE_congr _ (dictEntry (structTy E n) kt vt) kvs (fun kv hkv => by
            simp only [dictEntry, ih vt kv.2 (hc.2 kv hkv)])]
      | tuple ts =>
        cases j <;> try rfl
        case arr xs =>
          simp only [List.all_eq_true] at hc
          simp only [eraseJ, eraseL_eq_map, List.length_map, zip_map_right, mapE_map]
          rw [mapE_congr _ (fun p => structTy E n p.1 p.2) (ts.zip xs) (fun p hp => ih p.1 p.2 (hc p hp))]
      | union ts =>
        simp only at hc ⊢
        cases ho : PyTy.optionalOf ts with
        | some x =>
          simp only [ho] at hc ⊢
          cases j <;> first | rfl | (simp only [eraseJ] at *; exact ih x _ hc)
        | none =>
          simp only [ho] at hc ⊢
          by_cases hall : ts.all PyTy.isAttrsOrNone = true
          · simp only [hall, if_true] at hc ⊢
            cases hd : E.disambFor (.union ts) with
            | none => rfl
            | some h =>
              simp only [hd] at hc ⊢
              exact HExpr.run_erase k (structTy E n) (clean E k n) ih h j (kFresh_prog E k hE _ h (Or.inr hd)) hc
          · simp only [hall, Bool.false_eq_true, if_false]
      | _ => rw [eraseJ_of_kFree k j hc]

/-- The table form: if every key the environment can look at is among `names`, every other key is fresh. -/
theorem kFresh_of_subset (E : Env) (names : List Name) (h1 : noForbidExtra E.pkg = true)
    (h2 : E.declaredKeys.all (fun w => names.contains w) = true) (k : Name) (hk : names.contains k = false) :
    kFreshEnv E k = true := by
  simp only [kFreshEnv, h1, Bool.true_and, Bool.not_eq_true']
  cases hb : E.declaredKeys.contains k with
  | false => rfl
  | true =>
    have hin : k ∈ E.declaredKeys := by simpa [List.contains_iff_mem] using hb
    have := List.all_eq_true.mp h2 k hin
    rw [hk] at this
    exact absurd this (by simp)

/-- `declaredKeys ⊆ names`, split into the class part (sliceable) and the program part -/
theorem declaredKeys_all (E : Env) (names : List Name)
    (h1 : E.pkg.classes.all (fun c => c.fields.all (fun f => names.contains f.wireS)) = true)
    (h2 : (E.hooks ++ E.disamb).all (fun h => h.2.keys.all (fun w => names.contains w)) = true) :
    E.declaredKeys.all (fun w => names.contains w) = true := by
  simp only [Env.declaredKeys, List.all_append, Bool.and_eq_true, List.all_eq_true, List.mem_flatMap, List.mem_map] at *
  constructor
  · rintro w ⟨c, hc, f, hf, rfl⟩
    exact h1 c hc f hf
  · rintro w ⟨h, hh, hw⟩
    rcases List.mem_append.mp hh with hm | hm
    · exact h2.1 h hm w hw
    · exact h2.2 h hm w hw

/-- C15 for a whole environment: any key outside `names`. -/
theorem C15_env (E : Env) (names : List Name) (h1 : noForbidExtra E.pkg = true)
    (h2 : E.declaredKeys.all (fun w => names.contains w) = true) :
    ∀ (k : Name), names.contains k = false → ∀ (n : Nat) (ty : PyTy) (j : Json), clean E k n ty j = true →
      structTy E n ty (eraseJ k j) = structTy E n ty j :=
  fun k hk => C15_global E k (kFresh_of_subset E names h1 h2 k hk)

/-- erasing all of several keys -/
def eraseAll (ks : List Name) (j : Json) : Json := ks.foldl (fun acc k => eraseJ k acc) j

/-! Non-vacuity on a small environment: a class with a nested class list, a map and an Any field. -/
section Example
private def exPkg : Pkg := { (default : Pkg) with
  classes := [
    { name := n!"P", fields := [{ name := n!"line", wireS := n!"line", wireU := n!"line", ty := .int, omitS := false, omitU := false, dflt := .nothing, vld := .none }], forbidExtra := false },
    { name := n!"Q", fields := [
        { name := n!"items", wireS := n!"items", wireU := n!"items", ty := .seq (.cls n!"P"), omitS := false, omitU := false, dflt := .nothing, vld := .none },
        { name := n!"data", wireS := n!"data", wireU := n!"data", ty := .union [.any, .none], omitS := true, omitU := true, dflt := .none, vld := .none },
        { name := n!"m", wireS := n!"m", wireU := n!"m", ty := .union [.dict .str (.cls n!"P"), .none], omitS := true, omitU := true, dflt := .none, vld := .none }], forbidExtra := false }] }
private def exEnv : Env := { pkg := exPkg, hooks := [], disamb := [], vld := { int32 := fun _ => default, uint31 := fun _ => default } }
private def exIn : Json := .obj [(n!"zz", .int 1), (n!"items", .arr [.obj [(n!"line", .int 3), (n!"zz", .null)]]),
  (n!"m", .obj [(n!"a", .obj [(n!"zz", .str n!"x"), (n!"line", .int 4)])])]
-- the hypotheses are satisfiable: `zz` is fresh, sits at protocol-object nodes only …
example : kFreshEnv exEnv n!"zz" = true ∧ clean exEnv n!"zz" 8 (.cls n!"Q") exIn = true ∧ kFreeJ n!"zz" exIn = false := by decide +kernel
-- … and not when it sits under the Any-typed `data` or is a key of the map `m`
example : clean exEnv n!"zz" 8 (.cls n!"Q") (.obj [(n!"items", .arr []), (n!"data", .obj [(n!"zz", .int 1)])]) = false ∧
          clean exEnv n!"zz" 8 (.cls n!"Q") (.obj [(n!"items", .arr []), (n!"m", .obj [(n!"zz", .obj [(n!"line", .int 1)])])]) = false := by decide +kernel
end Example

end LspVerif
