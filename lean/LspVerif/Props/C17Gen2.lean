import LspVerif.Props.C17Gen
namespace LspVerif.TestGen
open LspVerif


theorem validTy_tuple (M : Model) (n : Nat) (ts : List Ty) (xs : List Json) :
    validTy M (n + 1) (.tuple ts) (.arr xs) = (xs.length == ts.length && (ts.zip xs).all (fun p => validTy M n p.1 p.2)) := by
  simp [validTy]
theorem validTy_map (M : Model) (n : Nat) (k x : Ty) (kvs : List (Name × Json)) :
    validTy M (n + 1) (.map k x) (.obj kvs) = kvs.all (fun kv => validTy M n x kv.2) := by
  simp [validTy]
theorem validTy_lit (M : Model) (n : Nat) (props : List (Name × Bool × Ty)) (kvs : List (Name × Json)) :
    validTy M (n + 1) (.lit props) (.obj kvs) = validProps (validTy M n) props kvs := by
  simp [validTy]
theorem validTy_base (M : Model) (n : Nat) (b : Base) (j : Json) : validTy M (n + 1) (.base b) j = validBase b j := by
  simp [validTy]


theorem validTy_ref (M : Model) (n : Nat) (r : Name) (j : Json) : validTy M (n + 1) (.ref r) j =
    (if r == n!"LSPAny" then true
      else if r == n!"LSPObject" then (match j with | .obj _ => true | _ => false)
      else if r == n!"LSPArray" then (match j with | .arr _ => true | _ => false)
      else match M.findEnum r with
        | some e => if e.custom then validBase e.base j else enumHas e j
        | none => match M.findStruct r with
          | some s => (match j with
            | .obj kvs => validProps (validTy M n) (propsOf (flatten M s)) kvs
            | _ => false)
          | none => match M.findAlias r with
            | some a => validTy M n a.ty j
            | none => false) := by
  rfl

theorem special_false {r : Name} (h : special r = false) : (r == n!"LSPAny") = false ∧ (r == n!"LSPObject") = false ∧ (r == n!"LSPArray") = false := by
  simp only [special, Bool.or_eq_false_iff] at h
  exact ⟨h.1.1, h.1.2, h.2⟩

theorem gen_map_shape (M : Model) : ∀ (f : Nat) (vis : List Name) (k x : Ty) (g : Vs), genTy M f vis (.map k x) = some g →
    ∀ p ∈ g, ∃ kvs, p.2 = GV.val (.obj kvs)
  | 0, _, _, _, _, h => by simp [genTy] at h
  | f + 1, vis, k, x, g, h => by
    simp only [genTy] at h
    obtain ⟨ks, _, h⟩ := Option.bind_eq_some_iff.mp h
    obtain ⟨xs, _, h⟩ := Option.bind_eq_some_iff.mp h
    intro p hp
    obtain ⟨q, _, hqp⟩ := forall2_mem_right (mapM_spec _ _ g h) p hp
    cases hkey : keyOf q.2.1 with
    | none => simp [hkey] at hqp
    | some key =>
      simp only [hkey, Option.map_some, Option.some.injEq] at hqp
      subst hqp
      exact ⟨_, rfl⟩

theorem gen_array_shape (M : Model) : ∀ (f : Nat) (vis : List Name) (e : Ty) (g : Vs), genTy M f vis (.array e) = some g →
    ∀ p ∈ g, ∃ xs, p.2 = GV.val (.arr xs)
  | 0, _, _, _, h => by simp [genTy] at h
  | f + 1, vis, e, g, h => by
    simp only [genTy] at h
    obtain ⟨ge, _, heq⟩ := Option.bind_eq_some_iff.mp h
    simp only [Option.pure_def, Option.some.injEq] at heq
    subst heq
    intro p hp
    simp only [List.mem_cons, List.mem_append, List.mem_filterMap, List.mem_flatMap] at hp
    rcases hp with (rfl | ⟨q, _, hqe⟩) | ⟨a, _, b, _, hab⟩
    · exact ⟨_, rfl⟩
    · cases hq : q.2 with
      | ignore => simp [hq] at hqe
      | val j => simp only [hq, Option.some.injEq] at hqe; subst hqe; exact ⟨_, rfl⟩
    · cases ha : a.2 with
      | ignore => simp [ha] at hab
      | val x =>
        cases hb : b.2 with
        | ignore => simp [ha, hb] at hab
        | val y => simp only [ha, hb, Option.some.injEq] at hab; subst hab; exact ⟨_, rfl⟩

theorem head?_mem {α} {l : List α} {a : α} (h : l.head? = some a) : a ∈ l := by
  cases l with
  | nil => simp at h
  | cons x xs => simp at h; subst h; exact List.mem_cons_self

theorem sound_base (M : Model) (f : Nat) (b : Base) : Sound M f (.base b) (genBase b) := by
  intro p hp
  have := List.all_eq_true.mp (genBase_ok b) p hp
  cases hp2 : p.2 with
  | ignore => simp [hp2] at this
  | val j =>
    refine ⟨j, rfl, fun h1 => ?_⟩
    simp only [hp2, h1, Bool.not_true, Bool.false_or] at this
    rw [validTy_base]; exact this

theorem gen_sound (M : Model) (hM : modelOK M = true) : ∀ (f : Nat) (vis : List Name) (t : Ty) (g : Vs),
    tyOK t = true → genTy M f vis t = some g → Sound M f t g
  | 0, _, _, _, _, h => by simp [genTy] at h
  | f + 1, vis, t, g, hok, h => by
    cases t with
    | base b =>
      simp only [genTy, Option.some.injEq] at h
      subst h
      exact sound_base M (f + 1) b
    | strLit s =>
      simp only [genTy, Option.some.injEq] at h
      subst h
      intro p hp
      simp only [List.mem_singleton] at hp
      subst hp
      exact ⟨.str s, rfl, fun _ => by simp [validTy]⟩
    | intLit i =>
      simp only [genTy, Option.some.injEq] at h
      subst h
      intro p hp; cases hp
    | boolLit i =>
      simp only [genTy, Option.some.injEq] at h
      subst h
      intro p hp; cases hp
    | and ts => simp [tyOK] at hok
    | array e =>
      simp only [genTy] at h
      obtain ⟨ge, hg, heq⟩ := Option.bind_eq_some_iff.mp h
      simp only [Option.pure_def, Option.some.injEq] at heq
      subst heq
      have ihe := gen_sound M hM f vis e ge (by simpa [tyOK] using hok) hg
      intro p hp
      simp only [List.mem_cons, List.mem_append, List.mem_filterMap, List.mem_flatMap] at hp
      rcases hp with (rfl | ⟨q, hq, hqe⟩) | ⟨a, ha, b, hb, hab⟩
      · exact ⟨.arr [], rfl, fun _ => by rw [validTy_array]; rfl⟩
      · obtain ⟨j, hj, hval⟩ := ihe q hq
        rw [hj] at hqe
        simp only [Option.some.injEq] at hqe
        subst hqe
        exact ⟨.arr [j], rfl, fun h1 => by
          simp only [v] at h1
          rw [validTy_array]; simp [hval h1]⟩
      · obtain ⟨ja, hja, hvala⟩ := ihe a (List.mem_of_mem_take ha)
        obtain ⟨jb, hjb, hvalb⟩ := ihe b (List.mem_of_mem_take hb)
        rw [hja, hjb] at hab
        simp only [Option.some.injEq] at hab
        subst hab
        exact ⟨.arr [ja, jb], rfl, fun h1 => by
          simp only [v, Bool.and_eq_true] at h1
          rw [validTy_array]; simp [hvala h1.1, hvalb h1.2]⟩
    | tuple ts =>
      simp only [genTy] at h
      obtain ⟨gs, hgs, h⟩ := Option.bind_eq_some_iff.mp h
      obtain ⟨rs, hrs, heq⟩ := Option.bind_eq_some_iff.mp h
      simp only [Option.pure_def, Option.some.injEq] at heq
      subst heq
      have hts : ∀ t ∈ ts, tyOK t = true := tyOKL_mem (by simpa [tyOK] using hok)
      intro p hp
      obtain ⟨row, hrow, rfl⟩ := List.mem_map.mp hp
      have h1 := F2.mem_left (mapM_spec _ ts gs hgs)
      have h2 := rows_spec gs rs hrs row hrow
      have h3 : F2 (fun t x => ∃ j, x.2 = GV.val j ∧ (x.1 = true → validTy M (f + 1) t j = true)) ts row :=
        forall2_comp (fun t gi x ht hx => gen_sound M hM f vis t gi (hts t ht.1) ht.2 x hx) h1 h2
      exact ⟨_, rfl, fun hv => by
        simp only [v] at hv
        rw [validTy_tuple]
        exact tuple_valid _ ts row h3 hv⟩
    | map k x =>
      simp only [genTy] at h
      obtain ⟨ks, hks, h⟩ := Option.bind_eq_some_iff.mp h
      obtain ⟨xs, hxs, h⟩ := Option.bind_eq_some_iff.mp h
      have hok' : tyOK k = true ∧ tyOK x = true := by simpa [tyOK] using hok
      have ihx := gen_sound M hM f vis x xs hok'.2 hxs
      intro p hp
      obtain ⟨q, hq, hqp⟩ := forall2_mem_right (mapM_spec _ _ g h) p hp
      simp only [List.mem_flatMap, List.mem_filterMap] at hq
      obtain ⟨a, _, b, hb, hab⟩ := hq
      obtain ⟨jb, hjb, hvalb⟩ := ihx b hb
      cases ha2 : a.2 with
      | ignore => simp [ha2] at hab
      | val kj =>
        simp only [ha2, hjb, Option.some.injEq] at hab
        subst hab
        cases hkey : keyOf kj with
        | none => simp [hkey] at hqp
        | some key =>
          simp only [hkey, Option.map_some, Option.some.injEq] at hqp
          subst hqp
          exact ⟨_, rfl, fun hv => by
            simp only [v, Bool.and_eq_true] at hv
            rw [validTy_map]
            simp [hvalb hv.2]⟩
    | or ts =>
      simp only [genTy] at h
      obtain ⟨gs, hgs, heq⟩ := Option.bind_eq_some_iff.mp h
      simp only [Option.pure_def, Option.some.injEq] at heq
      subst heq
      have hts : ∀ t ∈ ts, tyOK t = true := tyOKL_mem (by simpa [tyOK] using hok)
      intro p hp
      rcases List.mem_append.mp hp with hp | hp
      · split at hp
        · rename_i hnull
          simp only [List.mem_singleton] at hp
          subst hp
          obtain ⟨a, ha, hna⟩ := List.any_eq_true.mp hnull
          exact ⟨.null, rfl, fun _ => by
            rw [validTy_or]
            exact List.any_eq_true.mpr ⟨a, ha, by rw [isNullTy_eq hna, validTy_base]; rfl⟩⟩
        · cases hp
      · obtain ⟨gi, hgi, hpgi⟩ := List.mem_flatten.mp hp
        obtain ⟨t, ht, hgen⟩ := forall2_mem_right (mapM_spec _ _ gs hgs) gi hgi
        have ht' : t ∈ ts := (List.mem_filter.mp ht).1
        obtain ⟨j, hj, hval⟩ := gen_sound M hM f vis t gi (hts t ht') hgen p hpgi
        exact ⟨j, hj, fun h1 => by
          rw [validTy_or]
          exact List.any_eq_true.mpr ⟨t, ht', hval h1⟩⟩
    | lit props =>
      simp only [genTy] at h
      have hok' : namesNodup (props.map (·.1)) = true ∧ tyOKP props = true := by simpa [tyOK] using hok
      split at h
      · rename_i hemp
        simp only [Option.some.injEq] at h
        subst h
        have : props = [] := by simpa using hemp
        subst this
        intro p hp
        simp only [List.mem_cons, List.mem_singleton, List.not_mem_nil, or_false] at hp
        rcases hp with rfl | rfl <;> exact ⟨_, rfl, fun _ => by rw [validTy_lit]; rfl⟩
      · obtain ⟨gs, hgs, h⟩ := Option.bind_eq_some_iff.mp h
        obtain ⟨rs, hrs, heq⟩ := Option.bind_eq_some_iff.mp h
        simp only [Option.pure_def, Option.some.injEq] at heq
        subst heq
        intro p hp
        obtain ⟨row, hrow, rfl⟩ := List.mem_map.mp hp
        have h1 := F2.mem_left (mapM_spec _ props gs hgs)
        have h2 := rows_spec gs rs hrs row hrow
        have h3 : F2 (EntryOK (validTy M (f + 1))) props row :=
          forall2_comp (fun q gi x hq hx => by
            obtain ⟨j, hj, hval⟩ := gen_sound M hM f vis q.2.2 gi (tyOKP_mem hok'.2 q hq.1) hq.2 x hx
            refine ⟨fun hi => ?_, fun j' hj' hx1 => ?_⟩
            · rw [hj] at hi; cases hi
            · rw [hj] at hj'; cases hj'; exact hval hx1) h1 h2
        exact ⟨_, rfl, fun hv => by
          simp only [v] at hv
          rw [objOfRow_eq, validTy_lit]
          exact obj_valid _ props row h3 hok'.1 hv⟩
    | ref r =>
      have hS : ∀ s ∈ M.structures, structOK M s = true ∧ special s.name = false := by
        intro s hs
        have := List.all_eq_true.mp (by simp only [modelOK, Bool.and_eq_true] at hM; exact hM.1.1) s hs
        simpa using this
      have hE : ∀ e ∈ M.enumerations, enumOK e = true ∧ special e.name = false := by
        intro e he
        have := List.all_eq_true.mp (by simp only [modelOK, Bool.and_eq_true] at hM; exact hM.1.2) e he
        simpa using this
      have hA : ∀ a ∈ M.aliases, aliasOK M a = true := by
        intro a ha
        exact List.all_eq_true.mp (by simp only [modelOK, Bool.and_eq_true] at hM; exact hM.2) a ha
      simp only [genTy] at h
      split at h
      · simp only [Option.some.injEq] at h
        subst h
        intro p hp; cases hp
      · split at h
        · -- a structure
          rename_i s hfs
          obtain ⟨hsm, hsn⟩ := find?_name (fun (x : Struct) => x.name) M.structures r s hfs
          obtain ⟨hsok, hsp⟩ := hS s hsm
          rw [hsn] at hsp
          obtain ⟨ps, hps, h⟩ := Option.bind_eq_some_iff.mp h
          unfold structOK at hsok
          rw [hps] at hsok
          simp only [Bool.and_eq_true, Option.isNone_iff_eq_none] at hsok
          obtain ⟨⟨⟨hbeq, hnd⟩, htys⟩, hen⟩ := hsok
          rw [hsn] at hen
          have hflat := Ty.beqProps_eq _ _ hbeq
          have hvalid : ∀ kvs, validTy M (f + 1 + 1) (.ref r) (.obj kvs) = validProps (validTy M (f + 1)) (propsOf ps) kvs := by
            intro kvs
            obtain ⟨h1, h2, h3⟩ := special_false hsp
            rw [validTy_ref]
            simp only [h1, h2, h3, hen, hfs, hflat, Bool.false_eq_true, if_false]
          have hnames : (propsOf ps).map (·.1) = ps.map (·.name) := by simp [propsOf]
          split at h
          · rename_i hemp
            simp only [Option.pure_def, Option.some.injEq] at h
            subst h
            have : ps = [] := by simpa using hemp
            subst this
            intro p hp
            simp only [List.mem_cons, List.mem_singleton, List.not_mem_nil, or_false] at hp
            rcases hp with rfl | rfl <;> exact ⟨_, rfl, fun _ => by rw [hvalid]; rfl⟩
          · obtain ⟨gs, hgs, h⟩ := Option.bind_eq_some_iff.mp h
            obtain ⟨rs, hrs, heq⟩ := Option.bind_eq_some_iff.mp h
            simp only [Option.pure_def, Option.some.injEq] at heq
            subst heq
            intro p hp
            obtain ⟨row, hrow, rfl⟩ := List.mem_map.mp hp
            have h1 := F2.mem_left (mapM_spec _ ps gs hgs)
            have h2 := rows_spec gs rs hrs row hrow
            have h3 : F2 (fun (q : Prp) x => EntryOK (validTy M (f + 1)) (q.name, q.optional, q.ty) x) ps row :=
              forall2_comp (fun q gi x hq hx => by
                obtain ⟨g0, hg0, hgi⟩ := Option.bind_eq_some_iff.mp hq.2
                simp only [Option.pure_def, Option.some.injEq] at hgi
                have hty : tyOK q.ty = true := tyOKP_mem htys (q.name, q.optional, q.ty) (by
                  simp only [propsOf]; exact List.mem_map_of_mem hq.1)
                have ih := gen_sound M hM f (vis ++ [r]) q.ty g0 hty hg0
                subst hgi
                by_cases hopt : q.optional = true
                · simp only [hopt, if_true, List.mem_cons] at hx
                  rcases hx with rfl | hx
                  · exact ⟨fun _ => hopt, fun j hj => by cases hj⟩
                  · obtain ⟨j, hj, hval⟩ := ih x hx
                    refine ⟨fun hi => ?_, fun j' hj' hx1 => ?_⟩
                    · rw [hj] at hi; cases hi
                    · rw [hj] at hj'; cases hj'; exact hval hx1
                · simp only [hopt, Bool.false_eq_true, if_false] at hx
                  obtain ⟨j, hj, hval⟩ := ih x hx
                  refine ⟨fun hi => ?_, fun j' hj' hx1 => ?_⟩
                  · rw [hj] at hi; cases hi
                  · rw [hj] at hj'; cases hj'; exact hval hx1) h1 h2
            have h4 : F2 (EntryOK (validTy M (f + 1))) (propsOf ps) row := F2.map_left (fun (q : Prp) => (q.name, q.optional, q.ty)) h3
            exact ⟨_, rfl, fun hv => by
              simp only [v] at hv
              rw [objOfRow_eq, hvalid, ← hnames]
              exact obj_valid _ (propsOf ps) row h4 (by rw [hnames]; exact hnd) hv⟩
        · rename_i hfs
          split at h
          · -- an alias
            rename_i a hfa
            obtain ⟨ham, han⟩ := find?_name (fun (x : Alias) => x.name) M.aliases r a hfa
            have haok := hA a ham
            simp only [aliasOK, Bool.and_eq_true, Bool.or_eq_true, Option.isNone_iff_eq_none, bne_iff_ne, ne_eq] at haok
            obtain ⟨⟨⟨hty, hen⟩, hobj⟩, harr⟩ := haok
            rw [han] at hen hobj harr
            obtain ⟨g0, hg0, h⟩ := Option.bind_eq_some_iff.mp h
            have ih := gen_sound M hM f (vis ++ [r]) a.ty g0 hty hg0
            split at h
            · rename_i hspec
              simp only [Option.pure_def, Option.some.injEq] at h
              subst h
              intro p hp
              obtain ⟨q, hq, rfl⟩ := List.mem_map.mp hp
              obtain ⟨j, hj, _⟩ := ih q hq
              refine ⟨j, hj, fun _ => ?_⟩
              rw [validTy_ref]
              by_cases h1 : r = n!"LSPAny"
              · simp [h1]
              · by_cases h2 : r = n!"LSPObject"
                · have hm : isMapTy a.ty = true := by
                    rcases hobj with hobj | hobj
                    · exact absurd h2 hobj
                    · exact hobj
                  cases hat : a.ty with
                  | map k x =>
                    rw [hat] at hg0
                    obtain ⟨kvs, hkvs⟩ := gen_map_shape M f _ k x g0 hg0 q hq
                    rw [hj] at hkvs; cases hkvs
                    simp [h2]
                  | _ => simp [hat, isMapTy] at hm
                · have h3 : r = n!"LSPArray" := by
                    simp only [Bool.or_eq_true, beq_iff_eq] at hspec
                    rcases hspec with (h | h) | h
                    · exact absurd h h2
                    · exact absurd h h1
                    · exact h
                  have hm : isArrayTy a.ty = true := by
                    rcases harr with harr | harr
                    · exact absurd h3 harr
                    · exact harr
                  cases hat : a.ty with
                  | array e =>
                    rw [hat] at hg0
                    obtain ⟨xs, hxs⟩ := gen_array_shape M f _ e g0 hg0 q hq
                    rw [hj] at hxs; cases hxs
                    simp [h3]
                  | _ => simp [hat, isArrayTy] at hm
            · rename_i hspec
              simp only [Option.pure_def, Option.some.injEq] at h
              subst h
              intro p hp
              obtain ⟨j, hj, hval⟩ := ih p hp
              refine ⟨j, hj, fun h1 => ?_⟩
              have hsp : special r = false := by
                simp only [special]
                simp only [Bool.or_eq_true, not_or, beq_iff_eq] at hspec
                simp [hspec.1.1, hspec.1.2, hspec.2]
              obtain ⟨s1, s2, s3⟩ := special_false hsp
              rw [validTy_ref]
              simp only [s1, s2, s3, hen, hfs, hfa, Bool.false_eq_true, if_false]
              exact hval h1
          · rename_i hfa
            split at h
            · -- an enumeration
              rename_i e hfe
              obtain ⟨hem, hen⟩ := find?_name (fun (x : Enum) => x.name) M.enumerations r e hfe
              obtain ⟨heok, hsp⟩ := hE e hem
              rw [hen] at hsp
              obtain ⟨s1, s2, s3⟩ := special_false hsp
              have hvalid : ∀ j, validTy M (f + 1 + 1) (.ref r) j = (if e.custom then validBase e.base j else enumHas e j) := by
                intro j
                rw [validTy_ref]
                simp only [s1, s2, s3, hfe, Bool.false_eq_true, if_false]
              unfold enumOK at heok
              split at h
              · cases h
              · rename_i e0 he0
                rw [he0] at heok
                simp only at heok
                split at h
                · rename_i i hi
                  rw [hi] at heok
                  simp only [Bool.or_eq_true, Bool.not_eq_true', Bool.and_eq_true] at heok
                  simp only [Option.some.injEq] at h
                  subst h
                  intro p hp
                  simp only [List.mem_cons, List.mem_singleton, List.not_mem_nil, or_false] at hp
                  rcases hp with rfl | rfl
                  · refine ⟨_, rfl, fun _ => ?_⟩
                    rw [hvalid]
                    by_cases hc : e.custom = true
                    · simp only [hc, if_true]
                      rcases heok with heok | heok
                      · rw [hc] at heok; cases heok
                      · exact heok.1
                    · simp only [hc, Bool.false_eq_true, if_false, enumHas]
                      exact List.any_eq_true.mpr ⟨e0, head?_mem he0, by simp [hi]⟩
                  · refine ⟨_, rfl, fun hc => ?_⟩
                    simp only [v] at hc
                    rw [hvalid]
                    simp only [hc, if_true]
                    rcases heok with heok | heok
                    · rw [hc] at heok; cases heok
                    · exact heok.2
                · rename_i sv hi
                  rw [hi] at heok
                  simp only [Bool.or_eq_true, Bool.not_eq_true', Bool.and_eq_true] at heok
                  simp only [Option.some.injEq] at h
                  subst h
                  intro p hp
                  simp only [List.mem_cons, List.mem_singleton, List.not_mem_nil, or_false] at hp
                  rcases hp with rfl | rfl
                  · refine ⟨_, rfl, fun _ => ?_⟩
                    rw [hvalid]
                    by_cases hc : e.custom = true
                    · simp only [hc, if_true]
                      rcases heok with heok | heok
                      · rw [hc] at heok; cases heok
                      · exact heok.1
                    · simp only [hc, Bool.false_eq_true, if_false, enumHas]
                      exact List.any_eq_true.mpr ⟨e0, head?_mem he0, by simp [hi]⟩
                  · refine ⟨_, rfl, fun hc => ?_⟩
                    simp only [v] at hc
                    rw [hvalid]
                    simp only [hc, if_true]
                    rcases heok with heok | heok
                    · rw [hc] at heok; cases heok
                    · exact heok.2
            · cases h
end LspVerif.TestGen
