/-
  C16 — generation is a deterministic function of the model files.
  (1) sorting neutralises hash-order: permutations sort to the same list;
  (2) the output discipline "delete everything the plugin owns, then write what the model yields"
      makes the owned part of the output directory independent of its previous contents;
  (3) the table of accounted nondeterminism sites the regenerated scan is compared with.
-/
import LspVerif.Core.Name
namespace LspVerif.C16

/-- `sorted(set(...))`: whatever order the hash seed gives the set, the sorted list is the same. -/
theorem sort_perm {α} (le : α → α → Bool)
    (trans : ∀ a b c, le a b → le b c → le a c) (total : ∀ a b, le a b || le b a)
    (antisymm : ∀ a b, le a b → le b a → a = b)
    (l₁ l₂ : List α) (h : l₁.Perm l₂) : l₁.mergeSort le = l₂.mergeSort le := by
  apply List.Perm.eq_of_pairwise (le := fun a b => le a b = true)
  · intro a b _ _ hab hba; exact antisymm a b hab hba
  · exact List.pairwise_mergeSort trans total l₁
  · exact List.pairwise_mergeSort trans total l₂
  · exact ((List.mergeSort_perm l₁ le).trans h).trans (List.mergeSort_perm l₂ le).symm

theorem sort_perm_nat (l₁ l₂ : List Nat) (h : l₁.Perm l₂) :
    l₁.mergeSort (fun a b => decide (a ≤ b)) = l₂.mergeSort (fun a b => decide (a ≤ b)) := by
  apply sort_perm
  · intro a b c; simp; omega
  · intro a b; simp; omega
  · intro a b; simp; omega
  · exact h

/-- An output directory: relative path ↦ content (both as names). -/
abbrev FS := List (Name × Name)

/-- A plugin run: remove every file the plugin owns, then write the files the model yields. -/
def runPlugin (owns : Name → Bool) (emit : FS) (fs : FS) : FS := fs.filter (fun f => !owns f.1) ++ emit

def ownedPart (owns : Name → Bool) (fs : FS) : FS := fs.filter (fun f => owns f.1)

/-- stale owned files do not survive; the owned part depends on the emitted files only -/
theorem owned_indep_history (owns : Name → Bool) (emit fs : FS) (he : ∀ f ∈ emit, owns f.1 = true) :
    ownedPart owns (runPlugin owns emit fs) = emit := by
  unfold ownedPart runPlugin
  rw [List.filter_append]
  have h1 : (fs.filter (fun f => !owns f.1)).filter (fun f => owns f.1) = [] := by
    rw [List.filter_filter]
    apply List.filter_eq_nil_iff.mpr
    intro a _
    cases owns a.1 <;> simp
  have h2 : emit.filter (fun f => owns f.1) = emit := List.filter_eq_self.mpr he
  rw [h1, h2]; rfl

theorem owned_indep_history' (owns : Name → Bool) (emit fs₁ fs₂ : FS) (he : ∀ f ∈ emit, owns f.1 = true) :
    ownedPart owns (runPlugin owns emit fs₁) = ownedPart owns (runPlugin owns emit fs₂) := by
  rw [owned_indep_history owns emit fs₁ he, owned_indep_history owns emit fs₂ he]

/-- re-running (any number of earlier runs, even of other models) changes nothing -/
theorem rerun_idempotent (owns : Name → Bool) (emit emit' fs : FS) (he : ∀ f ∈ emit, owns f.1 = true) :
    ownedPart owns (runPlugin owns emit (runPlugin owns emit' fs)) = emit :=
  owned_indep_history owns emit _ he

/-- A generation inside an interpreter reads and may update interpreter-level state (module-level containers, memo tables,
    mutable defaults).  If no generation changes that state — what the scan obligation establishes: no such site exists apart from
    the accounted constants — then the output for a model does not depend on which models were generated before it in the process. -/
theorem stateless_history_independent {σ M O : Type} (g : σ → M → O × σ) (h : ∀ s m, (g s m).2 = s) (s : σ) (ms : List M) (m : M) :
    (g (ms.foldl (fun s m' => (g s m').2) s) m).1 = (g s m).1 := by
  induction ms generalizing s with
  | nil => rfl
  | cons a as ih => simp only [List.foldl, h s a]; exact ih s

/-- Every nondeterminism site of generator/ that the design accounts for:
    (file, enclosing function, kind, how it is neutralised). -/
def accounted : List (Name × Name × Name × Name) := [
  -- model ids: uuid4 only ever as the default of an `id_` attribute …
  (n!"generator/model.py", n!"<lambda>", n!"uuid", n!"id-attribute-default"),
  -- … which plugins use as dictionary keys (and in one error message), never in emitted text
  (n!"generator/plugins/rust/rust_commons.py", n!"add_type_info", n!"id_-read", n!"key"),
  (n!"generator/plugins/rust/rust_commons.py", n!"has_id", n!"id_-read", n!"key"),
  (n!"generator/plugins/rust/rust_commons.py", n!"add_type_info", n!"id_-read", n!"fstring"),
  (n!"generator/plugins/dotnet/dotnet_commons.py", n!"add_type_info", n!"id_-read", n!"key"),
  (n!"generator/plugins/dotnet/dotnet_commons.py", n!"has_id", n!"id_-read", n!"key"),
  (n!"generator/plugins/dotnet/dotnet_commons.py", n!"add_type_info", n!"id_-read", n!"fstring"),
  -- sets sorted before emission
  (n!"generator/plugins/python/utils.py", n!"_get_utility_code", n!"set", n!"sorted"),
  (n!"generator/plugins/rust/rust_commons.py", n!"generate_extra_types", n!"set", n!"sorted"),
  (n!"generator/plugins/dotnet/dotnet_helpers.py", n!"get_usings", n!"set", n!"sorted"),
  -- sets bound to a name and sorted where they are consumed (checked by the seed runs)
  (n!"generator/plugins/python/utils.py", n!"_get_utility_code", n!"set", n!"escapes-unsorted:Assign"),
  (n!"generator/plugins/python/utils.py", n!"_add_lsp_method_type", n!"set", n!"escapes-unsorted:Assign"),
  (n!"generator/plugins/dotnet/dotnet_classes.py", n!"get_types_for_usings", n!"set", n!"escapes-unsorted:Return"),
  -- membership only
  (n!"generator/plugins/python/utils.py", n!"_add_requests", n!"set", n!"membership"),
  -- directory listings: order-irrelevant deletion / one distinct target per listed file
  (n!"generator/plugins/testdata/testdata_utils.py", n!"cleanup", n!"dirlist", n!"loop-deletes-each"),
  (n!"generator/plugins/dotnet/dotnet_utils.py", n!"cleanup", n!"dirlist", n!"loop-deletes-each"),
  (n!"generator/plugins/dotnet/dotnet_utils.py", n!"copy_custom_classes", n!"dirlist", n!"loop-writes-distinct-file-each"),
  -- interpreter-level state (kinds module-state, module-object, memo-decorator, mutable-default): the one module-level object that is
  -- not a compiled regex / logger / frozenset is a constant structure appended to the model of each generation; nothing mutates it
  (n!"generator/plugins/testdata/testdata_generator.py", n!"<module>", n!"module-object", n!"model.Structure")
]

/-- ways of consuming a hash-ordered container whose result cannot depend on the iteration order, wherever they occur
    (`neutralised-at-every-use-via-local-name`: bound once to a local name every read of which is sorted / a membership test / len … — x_nondet.locally_neutralised) -/
def safeUses : List Name := [n!"sorted", n!"membership", n!"membership-only-via-name", n!"neutralised-at-every-use-via-local-name", n!"order-insensitive-len", n!"order-insensitive-any",
  n!"order-insensitive-all", n!"order-insensitive-bool", n!"order-insensitive-min", n!"order-insensitive-max", n!"order-insensitive-sum"]

def sitesAccounted (sites : List (Name × Name × Name × Name)) : Bool :=
  sites.all (fun s => accounted.contains s || ((s.2.2.1 == n!"set") && safeUses.contains s.2.2.2))

/-- the output discipline each plugin is expected to follow -/
def expectedDisciplines : List (Name × Name × Name) := [
  (n!"dotnet", n!"cleanup-before-write", n!"yes"), (n!"dotnet", n!"cleanup-glob", n!"*.cs"), (n!"dotnet", n!"writes-suffix", n!".cs"),
  (n!"python", n!"cleanup-before-write", n!"none"), (n!"python", n!"writes-fixed", n!"types.py"),
  (n!"rust", n!"cleanup-before-write", n!"none"), (n!"rust", n!"writes-fixed", n!"src/lib.rs"),
  (n!"testdata", n!"cleanup-before-write", n!"yes"), (n!"testdata", n!"cleanup-glob", n!"*.json"), (n!"testdata", n!"writes-suffix", n!".json")
]

def disciplinesOK (d : List (Name × Name × Name)) : Bool :=
  expectedDisciplines.all (fun e => d.contains e) && d.all (fun x => expectedDisciplines.contains x)

end LspVerif.C16
