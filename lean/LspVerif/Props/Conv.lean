/-
  Node-level theorems about the converter model, for every input, every class table and every
  environment (C10, C11, C13, C15).  Instance obligations (decidable facts about the regenerated
  tables) are discharged per run by the kernel; see tools/props/c10.py … c15.py.
-/
import LspVerif.Core.Cattrs
import LspVerif.Spec.Messages
namespace LspVerif

/-! ### C15 at one object node: the class function reads declared wire names only -/

theorem fieldVal_congr (recur : PyTy → Json → Except Err PyVal) (cls : Name) (kvs kvs' : List (Name × Json))
    (f : Field) (h : Json.lookup kvs' f.wireS = Json.lookup kvs f.wireS) :
    fieldVal recur cls kvs' f = fieldVal recur cls kvs f := by
  simp only [fieldVal, h]

theorem structFields_congr (recur : PyTy → Json → Except Err PyVal) (cls : Name)
    (kvs kvs' : List (Name × Json)) :
    ∀ (fs : List Field), (∀ f ∈ fs, Json.lookup kvs' f.wireS = Json.lookup kvs f.wireS) →
      structFields recur cls kvs' fs = structFields recur cls kvs fs
  | [], _ => rfl
  | f :: fs, h => by
    have hf := fieldVal_congr recur cls kvs kvs' f (h f (by simp))
    have ih := structFields_congr recur cls kvs kvs' fs (fun g hg => h g (by simp [hg]))
    simp only [structFields, hf, ih]

/-- Adding or removing any keys other than the class's wire names does not change the result of
    structuring an object as that class (success, value or error) — provided the generated
    function does not forbid extra keys. -/
theorem structCls_ignores_undeclared (E : Env) (recur : PyTy → Json → Except Err PyVal) (c : Cls)
    (kvs kvs' : List (Name × Json)) (hf : c.forbidExtra = false)
    (h : ∀ f ∈ c.fields, Json.lookup kvs' f.wireS = Json.lookup kvs f.wireS) :
    structCls E recur c (.obj kvs') = structCls E recur c (.obj kvs) := by
  simp only [structCls, structObj, hf, Bool.false_and]
  rw [structFields_congr recur c.name kvs kvs' c.fields h]

theorem lookup_cons_ne {k k' : Name} {v : Json} {kvs : List (Name × Json)} (h : (k == k') = false) :
    Json.lookup ((k, v) :: kvs) k' = Json.lookup kvs k' := by
  simp [Json.lookup, h]

/-- The form used by C15: an extra key whose name is no wire name of the class. -/
theorem structCls_extra_key (E : Env) (recur : PyTy → Json → Except Err PyVal) (c : Cls)
    (kvs : List (Name × Json)) (k : Name) (v : Json) (hf : c.forbidExtra = false)
    (hk : ∀ f ∈ c.fields, (k == f.wireS) = false) :
    structCls E recur c (.obj ((k, v) :: kvs)) = structCls E recur c (.obj kvs) :=
  structCls_ignores_undeclared E recur c kvs _ hf (fun f hfm => lookup_cons_ne (hk f hfm))

/-! ### C10: which keys the generated unstructure function writes -/

theorem unstructFields_keys (recur : Option PyTy → PyVal → Except Err Json) (vals : List (Name × PyVal)) :
    ∀ (fs : List Field) (out : List (Name × Json)), unstructFields recur vals fs = .ok out →
      out.map (·.1) = (fs.filter (fun f => match lookupAttr vals f.name with
                                            | some v => f.written v
                                            | Option.none => false)).map (·.wireU)
  | [], out, h => by
    simp [unstructFields] at h
    subst h
    simp
  | f :: fs, out, h => by
    unfold unstructFields at h
    cases hv : lookupAttr vals f.name with
    | none => simp [hv] at h
    | some v =>
      simp only [hv] at h
      by_cases hw : f.written v = true
      · simp only [hw, if_true] at h
        cases hx : recur (some f.ty) v with
        | error e => simp [hx] at h
        | ok x =>
          cases hr : unstructFields recur vals fs with
          | error e => simp [hx, hr] at h
          | ok rest =>
            simp [hx, hr] at h
            have ih := unstructFields_keys recur vals fs rest hr
            subst h
            simp [List.filter, hv, hw, ih]
      · simp only [hw] at h
        have ih := unstructFields_keys recur vals fs out (by simpa using h)
        simp [List.filter, hv, hw, ih]

/-- `written` spelled out: a key is left out iff the attribute has a default, the unstructure
    override says omit-if-default, and the value equals the default. -/
theorem Field.written_iff (f : Field) (v : PyVal) :
    f.written v = false ↔ ∃ d, f.dflt.toVal = some d ∧ f.omitU = true ∧ PyVal.beq v d = true := by
  unfold Field.written
  cases h : f.dflt.toVal with
  | none => simp
  | some d => simp

/-! ### C11: single-field deviations make the class function fail -/

theorem structFields_error_of_fieldVal (recur : PyTy → Json → Except Err PyVal) (cls : Name)
    (kvs : List (Name × Json)) :
    ∀ (fs : List Field) (f : Field) (e0 : Err), f ∈ fs → fieldVal recur cls kvs f = .error e0 →
      ∃ e, structFields recur cls kvs fs = .error e
  | [], f, _, hm, _ => by simp at hm
  | g :: gs, f, e0, hm, he0 => by
    rcases List.mem_cons.mp hm with rfl | hm'
    · exact ⟨e0, by simp only [structFields, he0]⟩
    · obtain ⟨e, he⟩ := structFields_error_of_fieldVal recur cls kvs gs f e0 hm' he0
      simp only [structFields]
      cases fieldVal recur cls kvs g with
      | error e' => exact ⟨e', rfl⟩
      | ok v => exact ⟨e, by simp only [he]⟩

theorem structCls_error_of_fieldVal (E : Env) (recur : PyTy → Json → Except Err PyVal) (c : Cls)
    (kvs : List (Name × Json)) (f : Field) (e0 : Err) (hm : f ∈ c.fields)
    (he0 : fieldVal recur c.name kvs f = .error e0) :
    ∃ e, structCls E recur c (.obj kvs) = .error e := by
  simp only [structCls, structObj]
  split
  · exact ⟨_, rfl⟩
  · obtain ⟨e, he⟩ := structFields_error_of_fieldVal recur c.name kvs c.fields f e0 hm he0
    exact ⟨e, by simp only [he]⟩

/-- Removing (or never having) a required key: structuring the object as the class raises. -/
theorem structCls_error_of_missing (E : Env) (recur : PyTy → Json → Except Err PyVal) (c : Cls)
    (kvs : List (Name × Json)) (f : Field) (hm : f ∈ c.fields)
    (hl : Json.lookup kvs f.wireS = Option.none) (hd : f.dflt.toVal = Option.none) :
    ∃ e, structCls E recur c (.obj kvs) = .error e :=
  structCls_error_of_fieldVal E recur c kvs f (.missingKey c.name f.wireS) hm (by simp only [fieldVal, hl, hd])

/-- A present key whose value the field's handler rejects: structuring raises. -/
theorem structCls_error_of_field (E : Env) (recur : PyTy → Json → Except Err PyVal) (c : Cls)
    (kvs : List (Name × Json)) (f : Field) (x : Json) (e0 : Err) (hm : f ∈ c.fields)
    (hl : Json.lookup kvs f.wireS = some x) (hr : recur f.ty x = .error e0) :
    ∃ e, structCls E recur c (.obj kvs) = .error e :=
  structCls_error_of_fieldVal E recur c kvs f e0 hm (by simp only [fieldVal, hl, hr])

theorem runVlds_error_of_field (E : Env) (cls : Name) :
    ∀ (fs : List Field) (vals : List (Name × PyVal)) (f : Field) (v : PyVal) (i : Nat),
      fs[i]? = some f → vals[i]? = some (f.name, v) →
      (∃ e, runFieldVld E cls f v = .error e) → ∃ e, runVlds E cls fs vals = .error e
  | [], _, _, _, _, hf, _, _ => by simp at hf
  | g :: gs, [], _, _, _, _, hv, _ => by simp at hv
  | g :: gs, (n, w) :: vs, f, v, 0, hf, hv, ⟨e, he⟩ => by
    simp at hf hv
    obtain ⟨rfl, rfl⟩ := hv
    subst hf
    exact ⟨e, by simp only [runVlds, he]⟩
  | g :: gs, (n, w) :: vs, f, v, i + 1, hf, hv, he => by
    simp at hf hv
    obtain ⟨e, h⟩ := runVlds_error_of_field E cls gs vs f v i hf hv he
    simp only [runVlds]
    cases runFieldVld E cls g w with
    | error e' => exact ⟨e', rfl⟩
    | ok u => exact ⟨e, h⟩

/-- The values computed for the fields line up with the fields. -/
theorem structFields_spec (recur : PyTy → Json → Except Err PyVal) (cls : Name) (kvs : List (Name × Json)) :
    ∀ (fs : List Field) (vals : List (Name × PyVal)), structFields recur cls kvs fs = .ok vals →
      ∀ (i : Nat) (f : Field), fs[i]? = some f → ∃ v, fieldVal recur cls kvs f = .ok v ∧ vals[i]? = some (f.name, v)
  | [], vals, h, i, f, hf => by simp at hf
  | g :: gs, vals, h, i, f, hf => by
    simp only [structFields] at h
    cases hv : fieldVal recur cls kvs g with
    | error e => simp [hv] at h
    | ok v =>
      cases hr : structFields recur cls kvs gs with
      | error e => simp [hv, hr] at h
      | ok rest =>
        simp [hv, hr] at h
        subst h
        cases i with
        | zero =>
          simp at hf
          subst hf
          exact ⟨v, hv, by simp⟩
        | succ i =>
          simp at hf
          obtain ⟨w, hw, hi⟩ := structFields_spec recur cls kvs gs rest hr i f hf
          exact ⟨w, hw, by simpa using hi⟩

/-- A present key whose value the handler accepts as `v`, but whose validator rejects `v`,
    makes the class function fail (this is how range, literal and instance_of violations surface). -/
theorem structCls_error_of_validator (E : Env) (recur : PyTy → Json → Except Err PyVal) (c : Cls)
    (kvs : List (Name × Json)) (f : Field) (x : Json) (v : PyVal) (i : Nat)
    (hi : c.fields[i]? = some f) (hl : Json.lookup kvs f.wireS = some x) (hr : recur f.ty x = .ok v)
    (hv : ∃ e, runFieldVld E c.name f v = .error e) :
    ∃ e, structCls E recur c (.obj kvs) = .error e := by
  simp only [structCls, structObj]
  split
  · exact ⟨_, rfl⟩
  · cases hs : structFields recur c.name kvs c.fields with
    | error e => exact ⟨e, rfl⟩
    | ok vals =>
      obtain ⟨w, hw, hiv⟩ := structFields_spec recur c.name kvs c.fields vals hs i f hi
      have : w = v := by
        simp only [fieldVal, hl, hr] at hw
        cases hw; rfl
      subst this
      obtain ⟨e, he⟩ := runVlds_error_of_field E c.name c.fields vals f w i hi hiv hv
      exact ⟨e, by simp only [he]⟩

/-! ### C13: closed enums accept exactly their members; pass-through hooks accept any base value -/

theorem structTy_enum_str (E : Env) (n : Nat) (e : Name) (pe : PyEnum) (s : Name)
    (hh : E.hookFor (.enum e) = Option.none) (hp : E.pkg.findEnum e = some pe) :
    (∃ v, structTy E (n + 1) (.enum e) (.str s) = .ok v) ↔ pe.members.any (·.2 == .s s) = true := by
  simp only [structTy, hh, hp, lookupEnum]
  by_cases h : pe.members.any (·.2 == .s s) = true
  · simp [h]
  · simp [h]

theorem structTy_enum_int (E : Env) (n : Nat) (e : Name) (pe : PyEnum) (i : Int)
    (hh : E.hookFor (.enum e) = Option.none) (hp : E.pkg.findEnum e = some pe) :
    (∃ v, structTy E (n + 1) (.enum e) (.int i) = .ok v) ↔ pe.members.any (·.2 == .i i) = true := by
  simp only [structTy, hh, hp, lookupEnum]
  by_cases h : pe.members.any (·.2 == .i i) = true
  · simp [h]
  · simp [h]

/-- The shape of the hooks registered for `Union[Enum, base]` positions:
    None passes, primitives pass unchanged, anything else is structured as the enum. -/
def HExpr.primPassthrough : HExpr → Bool
  | .ite (.isNone .self) .retNone (.ite (.isInst .self ks) .retSelf _) => ks.contains .str && ks.contains .int
  | _ => false

theorem primPassthrough_str (h : HExpr) (recur : PyTy → Json → Except Err PyVal) (s : Name)
    (hp : h.primPassthrough = true) : h.run recur (.str s) = .ok (.str s) := by
  match h, hp with
  | .ite (.isNone .self) .retNone (.ite (.isInst .self ks) .retSelf _), hp =>
    simp only [HExpr.primPassthrough, Bool.and_eq_true, List.contains_iff_mem] at hp
    simp [HExpr.run, Cond.eval, Path.eval, Json.kind, hp.1, PyVal.ofJson, bind, Except.bind]

theorem primPassthrough_int (h : HExpr) (recur : PyTy → Json → Except Err PyVal) (i : Int)
    (hp : h.primPassthrough = true) : h.run recur (.int i) = .ok (.int i) := by
  match h, hp with
  | .ite (.isNone .self) .retNone (.ite (.isInst .self ks) .retSelf _), hp =>
    simp only [HExpr.primPassthrough, Bool.and_eq_true, List.contains_iff_mem] at hp
    simp [HExpr.run, Cond.eval, Path.eval, Json.kind, hp.2, PyVal.ofJson, bind, Except.bind]

/-- Open enumerations: at a position annotated `Union[E, base]` whose registered hook has the
    pass-through shape, any string (resp. int) is accepted and comes back unchanged. -/
theorem open_enum_roundtrip_str (E : Env) (n : Nat) (ty : PyTy) (h : HExpr) (s : Name)
    (hh : E.hookFor ty = some h) (hp : h.primPassthrough = true) (hu : ∃ ts, ty = .union ts ∧ PyTy.optionalOf ts = Option.none) :
    structTy E (n + 1) ty (.str s) = .ok (.str s) ∧ unstruct E (n + 2) (some ty) (.str s) = .ok (.str s) := by
  obtain ⟨ts, rfl, hopt⟩ := hu
  constructor
  · simp only [structTy, hh]
    exact primPassthrough_str h _ s hp
  · simp [unstruct, hopt, rawJson]

theorem open_enum_roundtrip_int (E : Env) (n : Nat) (ty : PyTy) (h : HExpr) (i : Int)
    (hh : E.hookFor ty = some h) (hp : h.primPassthrough = true) (hu : ∃ ts, ty = .union ts ∧ PyTy.optionalOf ts = Option.none) :
    structTy E (n + 1) ty (.int i) = .ok (.int i) ∧ unstruct E (n + 2) (some ty) (.int i) = .ok (.int i) := by
  obtain ⟨ts, rfl, hopt⟩ := hu
  constructor
  · simp only [structTy, hh]
    exact primPassthrough_int h _ i hp
  · simp [unstruct, hopt, rawJson]

end LspVerif
