/-
  C17, the part that holds for *every* metamodel: the True labels of the testdata generation algorithm
  (Spec/TestGen.lean, tied to the code by the correspondence of tools/props/c17.py) are sound.

  `gen_sound`: for every metamodel `M` that passes the decidable check `modelOK` (kernel-evaluated per run,
  for the committed metamodel and for the evolved one) and every type without `and`, whatever
  `generate_for_type` yields with label True is a strictly valid instance of the type (`validTy`), and it
  never yields the `Ignore` marker.  `request_sound` / `notification_sound` lift this to the message
  vectors (`validRequest`, `validNotification`), `response_sound_partial` to the `result` member of the
  response vectors (the `error` member next to it is the recorded finding F1).

  Not a theorem (and false in general): that a False label implies invalidity — e.g. for `integer | uinteger`
  the uinteger boundary value -1 is labelled False although it is a valid integer.  For the metamodel of the
  run that direction is decided by exhaustive enumeration of all vectors (tools/search/c17_oracle.py).
-/
import LspVerif.Spec.TestGen
import LspVerif.Core.Norm
namespace LspVerif.TestGen
open LspVerif

/-! ### `Ty.beq` decides equality -/
mutual
theorem Ty.beq_eq : ∀ a b : Ty, Ty.beq a b = true → a = b
  | .base _, b, h => by cases b <;> simp [Ty.beq] at h ⊢; exact h
  | .ref _, b, h => by cases b <;> simp [Ty.beq] at h ⊢; exact h
  | .strLit _, b, h => by cases b <;> simp [Ty.beq] at h ⊢; exact h
  | .intLit _, b, h => by cases b <;> simp [Ty.beq] at h ⊢; exact h
  | .boolLit _, b, h => by cases b <;> simp [Ty.beq] at h ⊢; exact h
  | .array x, b, h => by
    cases b <;> simp only [Ty.beq] at h <;> try (cases h; done)
    rw [Ty.beq_eq x _ h]
  | .map k x, b, h => by
    cases b <;> simp only [Ty.beq, Bool.and_eq_true] at h <;> try (cases h; done)
    rw [Ty.beq_eq k _ h.1, Ty.beq_eq x _ h.2]
  | .or xs, b, h => by
    cases b <;> simp only [Ty.beq] at h <;> try (cases h; done)
    rw [Ty.beqList_eq xs _ h]
  | .and xs, b, h => by
    cases b <;> simp only [Ty.beq] at h <;> try (cases h; done)
    rw [Ty.beqList_eq xs _ h]
  | .tuple xs, b, h => by
    cases b <;> simp only [Ty.beq] at h <;> try (cases h; done)
    rw [Ty.beqList_eq xs _ h]
  | .lit ps, b, h => by
    cases b <;> simp only [Ty.beq] at h <;> try (cases h; done)
    rw [Ty.beqProps_eq ps _ h]
theorem Ty.beqList_eq : ∀ xs ys : List Ty, Ty.beqList xs ys = true → xs = ys
  | [], [], _ => rfl
  | [], _ :: _, h => by simp [Ty.beqList] at h
  | _ :: _, [], h => by simp [Ty.beqList] at h
  | x :: xs, y :: ys, h => by
    simp only [Ty.beqList, Bool.and_eq_true] at h
    rw [Ty.beq_eq x y h.1, Ty.beqList_eq xs ys h.2]
theorem Ty.beqProps_eq : ∀ a b : List (Name × Bool × Ty), Ty.beqProps a b = true → a = b
  | [], [], _ => rfl
  | [], _ :: _, h => by simp [Ty.beqProps] at h
  | _ :: _, [], h => by simp [Ty.beqProps] at h
  | (n, o, t) :: a, (m, p, u) :: b, h => by
    simp only [Ty.beqProps, Bool.and_eq_true, beq_iff_eq] at h
    rw [h.1.1.1, h.1.1.2, Ty.beq_eq t u h.1.2, Ty.beqProps_eq a b h.2]
end

/-! ### the decidable side conditions -/
mutual
/-- no `and` inside, literal property names distinct -/
def tyOK : Ty → Bool
  | .and _ => false
  | .array e => tyOK e
  | .map k x => tyOK k && tyOK x
  | .or ts => tyOKL ts
  | .tuple ts => tyOKL ts
  | .lit ps => namesNodup (ps.map (·.1)) && tyOKP ps
  | _ => true
def tyOKL : List Ty → Bool
  | [] => true
  | t :: ts => tyOK t && tyOKL ts
def tyOKP : List (Name × Bool × Ty) → Bool
  | [] => true
  | (_, _, t) :: ps => tyOK t && tyOKP ps
end

theorem tyOKL_mem : ∀ {ts : List Ty}, tyOKL ts = true → ∀ t ∈ ts, tyOK t = true
  | [], _, _, h => by cases h
  | t :: ts, h, x, hx => by
    simp only [tyOKL, Bool.and_eq_true] at h
    rcases List.mem_cons.mp hx with rfl | hx
    · exact h.1
    · exact tyOKL_mem h.2 x hx

theorem tyOKP_mem : ∀ {ps : List (Name × Bool × Ty)}, tyOKP ps = true → ∀ p ∈ ps, tyOK p.2.2 = true
  | [], _, _, h => by cases h
  | (_, _, t) :: ps, h, x, hx => by
    simp only [tyOKP, Bool.and_eq_true] at h
    rcases List.mem_cons.mp hx with rfl | hx
    · exact h.1
    · exact tyOKP_mem h.2 x hx

/-- the generator's own flattening gives the flattened property list of the specification, names distinct, types fine -/
def structOK (M : Model) (s : Struct) : Bool :=
  match allProps M propFuel s with
  | none => false
  | some ps => Ty.beqProps (propsOf ps) (propsOf (flatten M s)) && namesNodup (ps.map (·.name)) && tyOKP (propsOf ps) &&
               (M.findEnum s.name).isNone

def enumOK (e : Enum) : Bool :=
  match e.values.head? with
  | none => false
  | some e0 => match e0.value with
    | .i i => !e.custom || (validBase e.base (.int i) && validBase e.base (.int 12345))
    | .s s => !e.custom || (validBase e.base (.str s) && validBase e.base (.str n!"testCustomValue"))

def isMapTy : Ty → Bool
  | .map _ _ => true
  | _ => false
def isArrayTy : Ty → Bool
  | .array _ => true
  | _ => false

def aliasOK (M : Model) (a : Alias) : Bool :=
  tyOK a.ty && (M.findEnum a.name).isNone &&
  (a.name != n!"LSPObject" || isMapTy a.ty) && (a.name != n!"LSPArray" || isArrayTy a.ty)

def special (r : Name) : Bool := r == n!"LSPAny" || r == n!"LSPObject" || r == n!"LSPArray"

def modelOK (M : Model) : Bool :=
  M.structures.all (fun s => structOK M s && !special s.name) && M.enumerations.all (fun e => enumOK e && !special e.name) && M.aliases.all (aliasOK M)

/-! ### list lemmas -/

inductive F2 {α β} (R : α → β → Prop) : List α → List β → Prop
  | nil : F2 R [] []
  | cons {a b as bs} : R a b → F2 R as bs → F2 R (a :: as) (b :: bs)


theorem mapM_spec {α β} (F : α → Option β) : ∀ (l : List α) (r : List β), l.mapM F = some r → F2 (fun a b => F a = some b) l r
  | [], r, h => by
    simp at h; subst h; exact .nil
  | a :: l, r, h => by
    simp only [List.mapM_cons, Option.bind_eq_bind] at h
    cases ha : F a with
    | none => simp [ha] at h
    | some b =>
      cases hl : l.mapM F with
      | none => simp [ha, hl] at h
      | some bs =>
        simp [ha, hl] at h
        subst h
        exact .cons ha (mapM_spec F l bs hl)

def pick {α} (k : Nat) (l : List α) : Option α := l[k % l.length]?

theorem pick_row {α} (k : Nat) : ∀ (lists : List (List α)), (∀ l ∈ lists, l ≠ []) →
    F2 (fun l x => x ∈ l) lists (lists.filterMap (fun l => l[k % l.length]?))
  | [], _ => by simpa using F2.nil
  | l :: ls, h => by
    have hl : l ≠ [] := h l (List.mem_cons_self)
    have hlen : 0 < l.length := List.length_pos_iff.mpr hl
    have hk : k % l.length < l.length := Nat.mod_lt _ hlen
    rw [List.filterMap_cons, List.getElem?_eq_getElem hk]
    exact .cons (List.getElem_mem hk) (pick_row k ls (fun x hx => h x (List.mem_cons_of_mem _ hx)))

theorem rows_spec {α} (lists : List (List α)) (rs : List (List α)) (h : rows lists = some rs) :
    ∀ row ∈ rs, F2 (fun l x => x ∈ l) lists row := by
  unfold rows at h
  split at h
  · cases h
  · rename_i hc
    simp only [Bool.or_eq_true, not_or, Bool.not_eq_true] at hc
    injection h with h
    subst h
    intro row hrow
    simp only [List.mem_map, List.mem_range] at hrow
    obtain ⟨k, _, rfl⟩ := hrow
    apply pick_row
    intro l hl hnil
    have := hc.2
    rw [List.any_eq_false] at this
    have := this l hl
    simp [hnil] at this

theorem forall2_comp {α β γ} {R : α → β → Prop} {S : β → γ → Prop} {T : α → γ → Prop}
    (hT : ∀ a b c, R a b → S b c → T a c) : ∀ {as : List α} {bs : List β} {cs : List γ},
    F2 R as bs → F2 S bs cs → F2 T as cs
  | _, _, _, .nil, .nil => .nil
  | _, _, _, .cons h1 t1, .cons h2 t2 => .cons (hT _ _ _ h1 h2) (forall2_comp hT t1 t2)

theorem forall2_mem_right {α β} {R : α → β → Prop} : ∀ {as : List α} {bs : List β}, F2 R as bs → ∀ b ∈ bs, ∃ a ∈ as, R a b
  | _, _, .nil, _, hb => by cases hb
  | _, _, .cons h t, b, hb => by
    rcases List.mem_cons.mp hb with rfl | hb
    · exact ⟨_, List.mem_cons_self, h⟩
    · obtain ⟨a, ha, hr⟩ := forall2_mem_right t b hb
      exact ⟨a, List.mem_cons_of_mem _ ha, hr⟩


theorem F2.imp {α β} {R S : α → β → Prop} (h : ∀ a b, R a b → S a b) : ∀ {as : List α} {bs : List β}, F2 R as bs → F2 S as bs
  | _, _, .nil => .nil
  | _, _, .cons h1 t => .cons (h _ _ h1) (F2.imp h t)

theorem F2.mem_left {α β} {R : α → β → Prop} : ∀ {as : List α} {bs : List β}, F2 R as bs → F2 (fun a b => a ∈ as ∧ R a b) as bs
  | _, _, .nil => .nil
  | _, _, .cons h t => .cons ⟨List.mem_cons_self, h⟩ (F2.imp (fun _ _ hab => ⟨List.mem_cons_of_mem _ hab.1, hab.2⟩) (F2.mem_left t))

theorem F2.map_left {α β γ} {R : γ → β → Prop} (fn : α → γ) : ∀ {as : List α} {bs : List β}, F2 (fun a b => R (fn a) b) as bs → F2 R (as.map fn) bs
  | _, _, .nil => .nil
  | _, _, .cons h t => .cons h (F2.map_left fn t)

theorem tuple_valid (recur : Ty → Json → Bool) : ∀ (ts : List Ty) (row : List (Bool × GV)),
    F2 (fun t x => ∃ j, x.2 = GV.val j ∧ (x.1 = true → recur t j = true)) ts row → rowValid row = true →
    ((row.filterMap (fun p => match p.2 with | .val j => some j | .ignore => none)).length == ts.length &&
     (ts.zip (row.filterMap (fun p => match p.2 with | .val j => some j | .ignore => none))).all (fun p => recur p.1 p.2)) = true
  | _, _, .nil, _ => by simp
  | t :: ts, x :: xs, .cons h ht, hv => by
    have hv' : x.1 = true ∧ rowValid xs = true := by simpa [rowValid] using hv
    have ih := tuple_valid recur ts xs ht hv'.2
    obtain ⟨j, hj, hval⟩ := h
    simp only [List.filterMap_cons, hj, List.length_cons, List.zip_cons_cons, List.all_cons, Bool.and_eq_true, beq_iff_eq] at ih ⊢
    exact ⟨by omega, hval hv'.1, ih.2⟩

theorem isNullTy_eq {t : Ty} (h : isNullTy t = true) : t = .base .null := by
  cases t with
  | base b => cases b <;> simp [isNullTy] at h ⊢
  | _ => simp [isNullTy] at h

/-! ### objects built from a row -/

def kvsOf (names : List Name) (row : List (Bool × GV)) : List (Name × Json) :=
  (names.zip row).filterMap (fun p => match p.2.2 with | .val j => some (p.1, j) | .ignore => none)

theorem objOfRow_eq (names : List Name) (row : List (Bool × GV)) : objOfRow names row = .obj (dictOf (kvsOf names row)) := rfl

theorem kvsOf_keys : ∀ (names : List Name) (row : List (Bool × GV)), ∀ kv ∈ kvsOf names row, kv.1 ∈ names
  | [], _, kv, h => by simp [kvsOf] at h
  | _ :: _, [], kv, h => by simp [kvsOf] at h
  | n :: ns, x :: xs, kv, h => by
    have ih := kvsOf_keys ns xs kv
    simp only [kvsOf, List.zip_cons_cons, List.filterMap_cons] at h ih
    cases hx : x.2 with
    | ignore =>
      simp only [hx] at h
      exact List.mem_cons_of_mem _ (ih h)
    | val j =>
      simp only [hx, List.mem_cons] at h
      rcases h with rfl | h
      · exact List.mem_cons_self
      · exact List.mem_cons_of_mem _ (ih h)

theorem lookup_none_of_not_key : ∀ (kvs : List (Name × Json)) (k : Name), (∀ kv ∈ kvs, kv.1 ≠ k) → Json.lookup kvs k = none
  | [], _, _ => rfl
  | (k', x) :: rest, k, h => by
    have h1 : k' ≠ k := h (k', x) List.mem_cons_self
    simp only [Json.lookup, beq_iff_eq, h1, if_false]
    exact lookup_none_of_not_key rest k (fun kv hkv => h kv (List.mem_cons_of_mem _ hkv))

theorem namesNodup_cons {a : Name} {rest : List Name} (h : namesNodup (a :: rest) = true) : a ∉ rest ∧ namesNodup rest = true := by
  simp only [namesNodup, Bool.and_eq_true, Bool.not_eq_true', List.contains_eq_mem, decide_eq_false_iff_not] at h
  exact h

/-- keys distinct: the dict built by successive updates is the list itself -/
theorem dictUpdate_fresh : ∀ (l acc : List (Name × Json)), namesNodup (l.map (·.1)) = true → (∀ kv ∈ l, ∀ a ∈ acc, a.1 ≠ kv.1) →
    dictUpdate acc l = acc ++ l
  | [], acc, _, _ => by simp [dictUpdate]
  | kv :: l, acc, hn, hf => by
    have hn' := namesNodup_cons (by simpa using hn)
    have hnot : acc.any (fun a => a.1 == kv.1) = false := by
      rw [List.any_eq_false]
      intro a ha
      simpa using hf kv List.mem_cons_self a ha
    have step : dictSet acc kv.1 kv.2 = acc ++ [kv] := by simp [dictSet, hnot]
    have := dictUpdate_fresh l (acc ++ [kv]) hn'.2 (by
      intro kv' hkv' a ha
      rcases List.mem_append.mp ha with ha | ha
      · exact hf kv' (List.mem_cons_of_mem _ hkv') a ha
      · simp only [List.mem_singleton] at ha
        subst ha
        intro heq
        exact hn'.1 (by rw [heq]; exact List.mem_map_of_mem hkv'))
    simp only [dictUpdate, List.foldl_cons] at this ⊢
    rw [step, this]
    simp

theorem dictOf_nodup (l : List (Name × Json)) (h : namesNodup (l.map (·.1)) = true) : dictOf l = l := by
  have := dictUpdate_fresh l [] h (by intro _ _ a ha; cases ha)
  simpa [dictOf] using this

theorem kvsOf_nodup : ∀ (names : List Name) (row : List (Bool × GV)), namesNodup names = true → namesNodup ((kvsOf names row).map (·.1)) = true
  | [], _, _ => by simp [kvsOf, namesNodup]
  | _ :: _, [], _ => by simp [kvsOf, namesNodup]
  | n :: ns, x :: xs, h => by
    have hn := namesNodup_cons h
    have ih := kvsOf_nodup ns xs hn.2
    have hk := kvsOf_keys ns xs
    simp only [kvsOf, List.zip_cons_cons, List.filterMap_cons] at ih hk ⊢
    cases hx : x.2 with
    | ignore => simpa [hx] using ih
    | val j =>
      simp only [hx, List.map_cons, namesNodup, Bool.and_eq_true, Bool.not_eq_true', List.contains_eq_mem, decide_eq_false_iff_not]
      refine ⟨?_, ih⟩
      intro hmem
      obtain ⟨kv, hkv, hkn⟩ := List.mem_map.mp hmem
      exact hn.1 (hkn ▸ hk kv hkv)

/-- the relation between a declared property and the generated entry of a row -/
def EntryOK (recur : Ty → Json → Bool) (p : Name × Bool × Ty) (x : Bool × GV) : Prop :=
  (x.2 = GV.ignore → p.2.1 = true) ∧ (∀ j, x.2 = GV.val j → x.1 = true → recur p.2.2 j = true)

theorem row_lookup (recur : Ty → Json → Bool) : ∀ (props : List (Name × Bool × Ty)) (row : List (Bool × GV)),
    F2 (EntryOK recur) props row → namesNodup (props.map (·.1)) = true → rowValid row = true →
    ∀ p ∈ props, (match Json.lookup (kvsOf (props.map (·.1)) row) p.1 with | some x => recur p.2.2 x = true | none => p.2.1 = true)
  | _, _, .nil, _, _, p, hp => by cases hp
  | p0 :: ps, x0 :: xs, .cons h0 ht, hn, hv, p, hp => by
    have hn' := namesNodup_cons (by simpa using hn)
    have hv' : x0.1 = true ∧ rowValid xs = true := by simpa [rowValid] using hv
    have ih := row_lookup recur ps xs ht hn'.2 hv'.2
    have hkeys := kvsOf_keys (ps.map (·.1)) xs
    simp only [kvsOf, List.map_cons, List.zip_cons_cons, List.filterMap_cons] at ih hkeys ⊢
    rcases List.mem_cons.mp hp with rfl | hp
    · cases hx : x0.2 with
      | ignore =>
        simp only [hx]
        rw [lookup_none_of_not_key _ _ (fun kv hkv heq => hn'.1 (by rw [← heq]; exact hkeys kv hkv))]
        exact h0.1 hx
      | val j =>
        simp only [hx, Json.lookup, beq_self_eq_true, if_true]
        exact h0.2 j hx hv'.1
    · have hne : p0.1 ≠ p.1 := fun heq => hn'.1 (heq ▸ List.mem_map_of_mem hp)
      cases hx : x0.2 with
      | ignore => simpa [hx] using ih p hp
      | val j =>
        simp only [hx, Json.lookup, beq_iff_eq, hne, if_false]
        exact ih p hp

theorem obj_valid (recur : Ty → Json → Bool) (props : List (Name × Bool × Ty)) (row : List (Bool × GV))
    (h : F2 (EntryOK recur) props row) (hn : namesNodup (props.map (·.1)) = true) (hv : rowValid row = true) :
    validProps recur props (dictOf (kvsOf (props.map (·.1)) row)) = true := by
  rw [dictOf_nodup _ (kvsOf_nodup _ _ hn)]
  unfold validProps
  split
  · rfl
  · simp only [Bool.and_eq_true, List.all_eq_true, List.any_eq_true, beq_iff_eq]
    refine ⟨fun kv hkv => ?_, fun p hp => ?_⟩
    · obtain ⟨p, hp, hpn⟩ := List.mem_map.mp (kvsOf_keys _ _ kv hkv)
      exact ⟨p, hp, hpn⟩
    · have := row_lookup recur props row h hn hv p hp
      split <;> simp_all

/-! ### soundness of the labels -/

/-- what `genTy` at fuel `f` yields for `t` is never `Ignore`, and what it labels True is valid (at fuel `f + 1`) -/
def Sound (M : Model) (f : Nat) (t : Ty) (g : Vs) : Prop :=
  ∀ p ∈ g, ∃ j, p.2 = GV.val j ∧ (p.1 = true → validTy M (f + 1) t j = true)

theorem genBase_ok (b : Base) : (genBase b).all (fun p => match p.2 with | .val j => !p.1 || validBase b j | .ignore => false) = true := by
  cases b <;> decide +kernel

theorem find?_name {α} (nm : α → Name) (l : List α) (r : Name) (a : α) (h : l.find? (fun x => nm x == r) = some a) : a ∈ l ∧ nm a = r := by
  have h1 := List.mem_of_find?_eq_some h
  have h2 := List.find?_some h
  exact ⟨h1, by simpa using h2⟩

end LspVerif.TestGen
