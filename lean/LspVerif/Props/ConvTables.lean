/-
  Decidable table facts about the converter environment used by C11, C13, C14, C15 (and by C01–C03
  as side conditions), with the lemmas that connect them to the semantics.
-/
import LspVerif.Props.Conv
import LspVerif.Props.C12
namespace LspVerif

/-! ### C15 side conditions -/

def noForbidExtra (P : Pkg) : Bool := !P.forbidExtra && P.classes.all (fun c => !c.forbidExtra)

def Path.keys : Path → List Name
  | .self => []
  | .idx p _ => p.keys
  | .key p k => k :: p.keys

def Cond.keys : Cond → List Name
  | .tt | .ff => []
  | .isNone p | .isInst p _ | .lenEq p _ => p.keys
  | .hasKey p k => k :: p.keys
  | .keyEq p k _ => k :: p.keys
  | .not c => c.keys
  | .and a b | .or a b => a.keys ++ b.keys

/-- `len(object_)` where object_ may be the dict itself: its value would depend on the *set* of keys. -/
def Cond.lenOfSelf : Cond → Bool
  | .lenEq .self _ => true
  | .not c => c.lenOfSelf
  | .and a b | .or a b => a.lenOfSelf || b.lenOfSelf
  | _ => false

def HExpr.keys : HExpr → List Name
  | .ite c a b => c.keys ++ a.keys ++ b.keys
  | .mapEach e => e.keys
  | _ => []

def onlyList (ks : List Kind) : Bool := ks.all (fun k => match k with | .list => true | _ => false) && !ks.isEmpty

mutual
/-- the condition being true implies that `object_` is a list -/
def Cond.impliesList : Cond → Bool
  | .isInst .self ks => onlyList ks
  | .not c => Cond.refutesList c
  | .and a b => Cond.impliesList a || Cond.impliesList b
  | _ => false
/-- the condition being false implies that `object_` is a list -/
def Cond.refutesList : Cond → Bool
  | .not c => Cond.impliesList c
  | .or a b => Cond.refutesList a || Cond.refutesList b
  | _ => false
end

/-- every `len(object_)` inside the condition is evaluated only when `object_` is known to be a list
    (`g`: known before the condition; a left conjunct / disjunct adds what its outcome implies) -/
def Cond.lenOK : Bool → Cond → Bool
  | g, .lenEq .self _ => g
  | g, .not c => Cond.lenOK g c
  | g, .and a b => Cond.lenOK g a && Cond.lenOK (g || a.impliesList) b
  | g, .or a b => Cond.lenOK g a && Cond.lenOK (g || a.refutesList) b
  | _, _ => true

/-- every `len(object_)` test is evaluated only where a preceding `isinstance(object_, list)` test (positive, or a
    negative one on the other branch) has established that `object_` is a list — so it is never applied to a dict -/
def HExpr.lenGuarded : Bool → HExpr → Bool
  | g, .ite c a b => c.lenOK g && HExpr.lenGuarded (g || c.impliesList) a && HExpr.lenGuarded (g || c.refutesList) b
  | _, .mapEach e => HExpr.lenGuarded false e
  | _, _ => true

def Model.propNames (M : Model) : List Name := M.structures.flatMap (fun s => s.props.map (·.name))

/-- Every key any hook or disambiguator probes is a property name the metamodel declares (so a
    fresh, undeclared name is never probed), and no program looks at the size of a dict. -/
def probesDeclared (M : Model) (E : Env) : Bool :=
  let names := M.propNames
  (E.hooks ++ E.disamb).all (fun h => h.2.keys.all (fun k => names.contains k) && h.2.lenGuarded false)

/-- C15 at every class node of the environment: an extra key that is no wire name of the class
    never changes the result of structuring an object as that class. -/
theorem C15_class_nodes (E : Env) (h : noForbidExtra E.pkg = true) :
    ∀ c ∈ E.pkg.classes, ∀ (recur : PyTy → Json → Except Err PyVal) (kvs : List (Name × Json)) (k : Name) (v : Json),
      (∀ f ∈ c.fields, (k == f.wireS) = false) →
      structCls E recur c (.obj ((k, v) :: kvs)) = structCls E recur c (.obj kvs) := by
  intro c hc recur kvs k v hk
  simp only [noForbidExtra, Bool.and_eq_true, List.all_eq_true, Bool.not_eq_true'] at h
  exact structCls_extra_key E recur c kvs k v (h.2 c hc) hk

/-- A condition evaluates the same on two objects that agree on every key it mentions at the top
    level — stated for the two top-level tests hooks use on the object itself. -/
theorem hasKey_self_congr (kvs kvs' : List (Name × Json)) (k : Name)
    (h : Json.lookup kvs' k = Json.lookup kvs k) :
    (Cond.hasKey .self k).eval (.obj kvs') = (Cond.hasKey .self k).eval (.obj kvs) := by
  simp [Cond.eval, Path.eval, Json.hasKey, h, bind, Except.bind]

theorem keyEq_self_congr (kvs kvs' : List (Name × Json)) (k s : Name)
    (h : Json.lookup kvs' k = Json.lookup kvs k) :
    (Cond.keyEq .self k s).eval (.obj kvs') = (Cond.keyEq .self k s).eval (.obj kvs) := by
  simp [Cond.eval, Path.eval, h, bind, Except.bind]

/-! ### C14: every union annotation has parsing support -/

def HExpr.isCattrsFailure : HExpr → Bool
  | .raise _ => true
  | _ => false

/-- A union annotation is supported when a hook is registered for it, or it is `Optional[X]`,
    or cattrs could build a disambiguator for it. -/
def unionSupported (E : Env) (ty : PyTy) : Bool :=
  match ty with
  | .union ts =>
    (E.hookFor ty).isSome ||
    (PyTy.optionalOf ts).isSome ||
    (ts.all PyTy.isAttrsOrNone && (match E.disambFor ty with | some h => !h.isCattrsFailure | Option.none => false))
  | _ => true

/-- all union annotations occurring in a type (fuel-bounded walk) -/
def PyTy.unions : Nat → PyTy → List PyTy
  | 0, _ => []
  | n + 1, t =>
    match t with
    | .union ts => t :: ts.flatMap (PyTy.unions n)
    | .seq e => PyTy.unions n e
    | .dict k v => PyTy.unions n k ++ PyTy.unions n v
    | .tuple ts => ts.flatMap (PyTy.unions n)
    | _ => []

/-- Every union that structuring can reach *through the generated class functions* is supported:
    the annotation of each attribute, and below it through Optional / Sequence / Dict / Tuple.
    (Members of a union that has a registered hook are reached only through that hook.) -/
def PyTy.reachableUnsupported (E : Env) : Nat → PyTy → List PyTy
  | 0, _ => []
  | n + 1, t =>
    match t with
    | .union ts =>
      if (E.hookFor t).isSome then []
      else if !unionSupported E t then [t]
      else match PyTy.optionalOf ts with
        | some x => PyTy.reachableUnsupported E n x
        | Option.none => []
    | .seq e => PyTy.reachableUnsupported E n e
    | .dict k v => PyTy.reachableUnsupported E n k ++ PyTy.reachableUnsupported E n v
    | .tuple ts => ts.flatMap (PyTy.reachableUnsupported E n)
    | _ => []

def classUnsupported (E : Env) (c : Cls) : List (Name × Name) :=
  c.fields.flatMap (fun f => (PyTy.reachableUnsupported E 10 f.ty).map (fun _ => (c.name, f.name)))

def allUnionsSupported (E : Env) : Bool :=
  E.pkg.classes.all (fun c => (classUnsupported E c).isEmpty)

/-- At a supported union (not hook-registered, not optional) the model dispatches to the extracted
    disambiguator: structuring never ends in a missing-handler error *at this node*. -/
theorem supported_union_dispatch (E : Env) (n : Nat) (ts : List PyTy) (j : Json)
    (hh : E.hookFor (.union ts) = Option.none) (ho : PyTy.optionalOf ts = Option.none)
    (hs : unionSupported E (.union ts) = true) :
    ∃ h, E.disambFor (.union ts) = some h ∧ structTy E (n + 1) (.union ts) j = h.run (structTy E n) j := by
  simp only [unionSupported, hh, ho, Option.isSome_none, Bool.false_or, Bool.and_eq_true] at hs
  obtain ⟨hall, hd⟩ := hs
  cases hdis : E.disambFor (.union ts) with
  | none => simp [hdis] at hd
  | some h =>
    refine ⟨h, rfl, ?_⟩
    simp only [structTy, hh, ho, hall, hdis, if_true]

/-! ### C13: enum use sites -/

/-- the enum referenced by a property type directly, as an array element, or as a map value -/
def Ty.enumRef (M : Model) : Ty → Option (Enum × (PyTy → PyTy))
  | .ref r => (M.findEnum r).map (fun e => (e, id))
  | .array (.ref r) => (M.findEnum r).map (fun e => (e, PyTy.seq))
  | .map k (.ref r) => (M.findEnum r).map (fun e => (e, PyTy.dict (pyTyOf M tyFuel k)))
  | _ => Option.none

/-- Closed enumeration ⇒ the position is annotated with the enum itself (no primitive escape hatch);
    open ⇒ `Union[E, base]` with a registered hook of the pass-through shape. -/
def enumSiteOK (M : Model) (E : Env) (c : Cls) (p : Prp) : Bool :=
  match p.ty.enumRef M with
  | Option.none => true
  | some (e, wrap) =>
    match c.fields.filter (·.wireS == p.name) with
    | [f] =>
      let inner : PyTy := if e.custom then PyTy.mkUnion [.enum e.name, basePy e.base] else .enum e.name
      let exp := if p.opt then (wrap inner).optional else wrap inner
      PyTy.beq f.ty exp &&
      (if e.custom then (match E.hookFor inner with | some h => h.primPassthrough | Option.none => false)
       else (E.hookFor inner).isNone)
    | _ => false

def enumSitesOK (M : Model) (E : Env) (s : Struct) : Bool :=
  match E.pkg.findCls s.name with
  | some c => (flatten M s).all (enumSiteOK M E c)
  | Option.none => false

def enumSiteCount (M : Model) : Nat :=
  (M.structures.flatMap (fun s => (flatten M s).filter (fun p => (p.ty.enumRef M).isSome))).length

end LspVerif
