/-
  Soundness of the dispatch checker (Core/Dispatch.lean) with respect to the converter model:
  what `kindsOf`, `absPath`, `split`, `subOK` and `chk` claim about an abstract state holds of every
  JSON value that has a typed reading in that state.
-/
import LspVerif.Props.RepLemmas
namespace LspVerif

variable (E : Env) (bad : List PyTy)

/-! ### inversion of `rep` -/

theorem rep_not_bad {n : Nat} {ty : PyTy} {v : PyVal} {j : Json} (h : rep E bad n ty v j = true) : isBad bad ty = false := by
  cases n with
  | zero => simp [rep] at h
  | succ n =>
    unfold rep at h
    simp only [Bool.and_eq_true, Bool.not_eq_true'] at h
    exact h.1

theorem rep_cls_inv {n : Nat} {c : Name} {v : PyVal} {j : Json} (h : rep E bad n (.cls c) v j = true) :
    ∃ n' cl vals kvs, n = n' + 1 ∧ E.pkg.findCls c = some cl ∧ v = .inst cl.name vals ∧ j = .obj kvs ∧
      keysNodup kvs = true ∧ (kvs.all (fun kv => cl.fields.any (·.wireS == kv.1))) = true ∧
      repFields (rep E bad n') kvs cl.fields vals = true ∧ (∃ u, runVlds E cl.name cl.fields vals = .ok u) := by
  cases n with
  | zero => simp [rep] at h
  | succ n =>
    unfold rep at h
    simp only [Bool.and_eq_true] at h
    have h2 := h.2
    cases hf : E.pkg.findCls c with
    | none => simp [hf] at h2
    | some cl =>
      cases v <;> try (simp [hf] at h2; done)
      case inst c' vals =>
        cases j <;> try (simp [hf] at h2; done)
        case obj kvs =>
          simp only [hf, Bool.and_eq_true, beq_iff_eq] at h2
          refine ⟨n, cl, vals, kvs, rfl, rfl, by rw [h2.1.1.1.1], rfl, h2.1.1.1.2, h2.1.1.2, h2.1.2, ?_⟩
          cases hr : runVlds E cl.name cl.fields vals with
          | ok u => exact ⟨u, rfl⟩
          | error e => simp [hr] at h2

theorem rep_seq_inv {n : Nat} {t : PyTy} {v : PyVal} {j : Json} (h : rep E bad n (.seq t) v j = true) :
    ∃ n' vs xs, n = n' + 1 ∧ v = .list vs ∧ j = .arr xs ∧ all2 (rep E bad n' t) vs xs = true := by
  cases n with
  | zero => simp [rep] at h
  | succ n =>
    unfold rep at h
    simp only [Bool.and_eq_true] at h
    have h2 := h.2
    cases v <;> cases j <;> try (simp at h2; done)
    case list.arr vs xs => exact ⟨n, vs, xs, rfl, rfl, rfl, h2⟩

theorem rep_union_inv {n : Nat} {ts : List PyTy} {v : PyVal} {j : Json} (h : rep E bad n (.union ts) v j = true) :
    ∃ n', n = n' + 1 ∧ ((∃ t ∈ ts, rep E bad n' t v j = true) ∨
      ((PyTy.optionalOf ts).isNone = true ∧ rawEnum (rep E bad n') ts v j = true)) := by
  cases n with
  | zero => simp [rep] at h
  | succ n =>
    unfold rep at h
    simp only [Bool.and_eq_true, Bool.or_eq_true, List.any_eq_true] at h
    exact ⟨n, rfl, h.2⟩

/-- at a union, the value is readable as one of the alternatives (a raw primitive at an enum
    alternative is traded for the member) -/
theorem rep_union_alt {n : Nat} {ts : List PyTy} {v : PyVal} {j : Json} (h : rep E bad n (.union ts) v j = true) :
    ∃ t ∈ ts, ∃ w, rep E bad n t w j = true := by
  obtain ⟨n', rfl, h'⟩ := rep_union_inv E bad h
  rcases h' with ⟨t, ht, hr⟩ | ⟨_, hr⟩
  · exact ⟨t, ht, v, rep_succ E bad _ _ _ _ hr⟩
  · simp only [rawEnum, List.any_eq_true] at hr
    obtain ⟨t, ht, hh⟩ := hr
    cases t <;> try (simp at hh; done)
    case enum e =>
      cases v <;> cases j <;> try (simp at hh; done)
      all_goals
        simp only [Bool.and_eq_true] at hh
        exact ⟨_, ht, _, rep_succ E bad _ _ _ _ hh.2⟩

theorem rep_null {n : Nat} {ty : PyTy} {v : PyVal} : rep E bad n ty v .null = true → v = .none := by
  induction n generalizing ty v with
  | zero => intro h; simp [rep] at h
  | succ n ih =>
    intro h
    unfold rep at h
    simp only [Bool.and_eq_true] at h
    have h2 := h.2
    cases ty with
    | any => cases v <;> simp [isOfJson] at h2 ⊢
    | none => cases v <;> simp at h2 ⊢
    | union ts =>
      simp only [Bool.or_eq_true, List.any_eq_true, Bool.and_eq_true] at h2
      rcases h2 with ⟨t, _, hr⟩ | ⟨_, hr⟩
      · exact ih hr
      · simp only [rawEnum, List.any_eq_true] at hr
        obtain ⟨t, _, hh⟩ := hr
        cases t <;> cases v <;> simp at hh
    | enum e =>
      simp only at h2
      cases hf : E.pkg.findEnum e with
      | none => cases v <;> simp [hf] at h2
      | some pe =>
        cases v <;> simp [hf] at h2
    | cls c =>
      simp only at h2
      cases hf : E.pkg.findCls c with
      | none => cases v <;> simp [hf] at h2
      | some cl => cases v <;> simp [hf] at h2
    | _ => cases v <;> simp at h2

/-! ### kinds -/

theorem kinds_sound : ∀ (k n : Nat) (ty : PyTy) (v : PyVal) (j : Json), rep E bad n ty v j = true →
    (kindsOf E k ty).contains j.kind = true
  | 0, _, _, _, j, _ => by cases j <;> simp [kindsOf, allKinds, Json.kind]
  | k + 1, 0, _, _, _, h => by simp [rep] at h
  | k + 1, n + 1, ty, v, j, h => by
    unfold rep at h
    simp only [Bool.and_eq_true] at h
    have h2 := h.2
    cases ty with
    | int => cases v <;> cases j <;> simp at h2 <;> simp [kindsOf, Json.kind]
    | float =>
      cases v <;> cases j <;> simp at h2 <;> simp [kindsOf, Json.kind]
    | str => cases v <;> cases j <;> simp at h2 <;> simp [kindsOf, Json.kind]
    | bool => cases v <;> cases j <;> simp at h2 <;> simp [kindsOf, Json.kind]
    | none => cases v <;> cases j <;> simp at h2 <;> simp [kindsOf, Json.kind]
    | any => cases j <;> simp [kindsOf, allKinds, Json.kind]
    | obj => cases j <;> simp at h2 <;> simp [kindsOf, Json.kind]
    | literal vs => cases v <;> cases j <;> simp at h2 <;> simp [kindsOf, Json.kind]
    | unknown s => simp at h2
    | cls c =>
      obtain ⟨_, _, _, kvs, _, _, _, rfl, _⟩ := rep_cls_inv E bad (n := n + 1) (c := c) (v := v) (j := j) (by unfold rep; simp only [Bool.and_eq_true]; exact h)
      simp [kindsOf, Json.kind]
    | seq t => cases v <;> cases j <;> simp at h2 <;> simp [kindsOf, Json.kind]
    | tuple ts => cases v <;> cases j <;> simp at h2 <;> simp [kindsOf, Json.kind]
    | dict a b => cases v <;> cases j <;> simp at h2 <;> simp [kindsOf, Json.kind]
    | enum e =>
      simp only at h2
      cases hf : E.pkg.findEnum e with
      | none => simp [hf] at h2
      | some pe =>
        cases v <;> try (simp [hf] at h2; done)
        case enum e' val =>
          simp only [hf, Bool.and_eq_true, List.any_eq_true] at h2
          obtain ⟨⟨_, m, hm, hmv⟩, hj⟩ := h2
          have hmv' : m.2 = val := by simpa using hmv
          simp only [kindsOf, hf, List.contains_iff_mem, List.mem_map]
          refine ⟨m, hm, ?_⟩
          rw [hmv']
          cases val <;> cases j <;> simp at hj <;> simp [Json.kind]
    | union ts =>
      have hu : rep E bad (n + 1) (.union ts) v j = true := by unfold rep; simp only [Bool.and_eq_true]; exact h
      obtain ⟨t, ht, w, hw⟩ := rep_union_alt E bad hu
      have := kinds_sound k (n + 1) t w j hw
      simp only [kindsOf, List.contains_iff_mem, List.mem_flatMap] at this ⊢
      exact ⟨t, ht, this⟩

/-! ### abstract states -/

def jHasKey (j : Json) (k : Name) : Bool :=
  match j with
  | .obj kvs => Json.hasKey kvs k
  | _ => false

structure St.Holds (st : St) (j : Json) : Prop where
  rd : ∃ v n, rep E bad n st.ty v j = true
  pres : ∀ k ∈ st.present, jHasKey j k = true
  abs : ∀ k ∈ st.absent, jHasKey j k = false
  len : match st.len with
    | some true => j = .arr []
    | some false => ∃ x xs, j = .arr (x :: xs)
    | Option.none => True

/-- value (and field) of the first attribute read from key `k` -/
def valOf : List Field → List (Name × PyVal) → Name → Option (Field × PyVal)
  | f :: fs, (_, v) :: vs, k => if f.wireS == k then some (f, v) else valOf fs vs k
  | _, _, _ => Option.none

def FieldReads (r : PyTy → PyVal → Json → Bool) (kvs : List (Name × Json)) (f : Field) (v : PyVal) : Prop :=
  match Json.lookup kvs f.wireS with
  | some x => r f.ty v x = true ∧ f.faithfulJ x = true
  | Option.none => f.dflt = Dflt.none ∧ v = PyVal.none ∧ r f.ty .none .null = true

theorem repFields_find {r : PyTy → PyVal → Json → Bool} {kvs : List (Name × Json)} :
    ∀ (fs : List Field) (vals : List (Name × PyVal)), repFields r kvs fs vals = true →
      ∀ (k : Name) (f : Field), fs.find? (·.wireS == k) = some f →
        ∃ v, valOf fs vals k = some (f, v) ∧ FieldReads r kvs f v
  | [], _, _, _, _, hf => by simp at hf
  | _ :: _, [], h, _, _, _ => by simp [repFields] at h
  | g :: gs, (a, w) :: vs, h, k, f, hf => by
    simp only [repFields, Bool.and_eq_true] at h
    by_cases hg : (g.wireS == k) = true
    · simp only [List.find?, hg] at hf
      cases hf
      refine ⟨w, by simp [valOf, hg], ?_⟩
      unfold FieldReads
      have h2 := h.1.2
      cases hl : Json.lookup kvs g.wireS with
      | none =>
        simp only [hl, Bool.and_eq_true, beq_iff_eq] at h2
        refine ⟨h2.1.1, ?_, h2.2⟩
        have h3 := h2.1.2
        cases w <;> simp [PyVal.isNone] at h3 ⊢
      | some x =>
        simp only [hl, Bool.and_eq_true] at h2
        exact h2
    · have hg' : (g.wireS == k) = false := by simpa using hg
      simp only [List.find?, hg'] at hf
      obtain ⟨v, hv, hr⟩ := repFields_find gs vs h.2 k f hf
      exact ⟨v, by simp [valOf, hg', hv], hr⟩

theorem runVlds_valOf (cls : Name) :
    ∀ (fs : List Field) (vals : List (Name × PyVal)) (u : Unit), runVlds E cls fs vals = .ok u →
      ∀ (k : Name) (f : Field) (v : PyVal), valOf fs vals k = some (f, v) → runFieldVld E cls f v = .ok ()
  | [], _, _, _, _, _, _, hv => by simp [valOf] at hv
  | _ :: _, [], _, _, _, _, _, hv => by simp [valOf] at hv
  | g :: gs, (a, w) :: vs, u, h, k, f, v, hv => by
    simp only [runVlds] at h
    cases hg : runFieldVld E cls g w with
    | error e => simp [hg] at h
    | ok u' =>
      simp only [hg] at h
      by_cases hk : (g.wireS == k) = true
      · simp only [valOf, hk, if_true, Option.some.injEq, Prod.mk.injEq] at hv
        obtain ⟨rfl, rfl⟩ := hv
        exact hg
      · have hk' : (g.wireS == k) = false := by simpa using hk
        simp only [valOf, hk', Bool.false_eq_true, if_false] at hv
        exact runVlds_valOf cls gs vs u h k f v hv

theorem find_wire {fs : List Field} {k : Name} {f : Field} (h : fs.find? (·.wireS == k) = some f) : f.wireS = k ∧ f ∈ fs := by
  have h1 := List.find?_some h
  exact ⟨by simpa using h1, List.mem_of_find?_eq_some h⟩

theorem hasKey_iff_lookup (kvs : List (Name × Json)) (k : Name) : Json.hasKey kvs k = true ↔ ∃ x, Json.lookup kvs k = some x := by
  simp [Json.hasKey, Option.isSome_iff_exists]

/-- all keys of a class reading are declared wire names -/
theorem declared_of_hasKey {kvs : List (Name × Json)} {fs : List Field} (hd : kvs.all (fun kv => fs.any (·.wireS == kv.1)) = true)
    {k : Name} (hk : Json.hasKey kvs k = true) : ∃ f, fs.find? (·.wireS == k) = some f := by
  induction kvs with
  | nil => simp [Json.hasKey, Json.lookup] at hk
  | cons kv rest ih =>
    simp only [List.all_cons, Bool.and_eq_true] at hd
    by_cases hkv : (kv.1 == k) = true
    · have hkk : kv.1 = k := by simpa using hkv
      have := hd.1
      rw [hkk] at this
      cases hf : fs.find? (·.wireS == k) with
      | some f => exact ⟨f, rfl⟩
      | none =>
        rw [List.find?_eq_none] at hf
        simp only [List.any_eq_true] at this
        obtain ⟨f, hfm, hfw⟩ := this
        exact absurd hfw (hf f hfm)
    · have hkv' : (kv.1 == k) = false := by simpa using hkv
      apply ih hd.2
      obtain ⟨k', x⟩ := kv
      simpa [Json.hasKey, Json.lookup, hkv'] using hk

theorem St.Holds.of_rep {ty : PyTy} {v : PyVal} {n : Nat} {j : Json} (h : rep E bad n ty v j = true) :
    St.Holds E bad { ty := ty } j :=
  ⟨⟨v, n, h⟩, by simp, by simp, trivial⟩

theorem all2_cons_inv {α β} {f : α → β → Bool} {vs : List α} {x : β} {xs : List β} (h : all2 f vs (x :: xs) = true) :
    ∃ w ws, vs = w :: ws ∧ f w x = true ∧ all2 f ws xs = true := by
  cases vs with
  | nil => simp [all2] at h
  | cons w ws =>
    simp only [all2, Bool.and_eq_true] at h
    exact ⟨w, ws, rfl, h.1, h.2⟩

/-- a present key of a class reading is read by the first attribute with that wire name -/
theorem cls_key_reads {n : Nat} {c : Name} {v : PyVal} {j : Json} (h : rep E bad n (.cls c) v j = true)
    {cl : Cls} (hc : E.pkg.findCls c = some cl) {k : Name} {f : Field} (hf : cl.fields.find? (·.wireS == k) = some f) :
    ∃ n' vals kvs w, n = n' + 1 ∧ v = .inst cl.name vals ∧ j = .obj kvs ∧ valOf cl.fields vals k = some (f, w) ∧
      FieldReads (rep E bad n') kvs f w ∧ runFieldVld E cl.name f w = .ok () := by
  obtain ⟨n', cl', vals, kvs, rfl, hc', rfl, rfl, _, _, hrf, ⟨u, hru⟩⟩ := rep_cls_inv E bad h
  rw [hc] at hc'
  cases hc'
  obtain ⟨w, hw, hr⟩ := repFields_find cl.fields vals hrf k f hf
  exact ⟨n', vals, kvs, w, rfl, rfl, rfl, hw, hr, runVlds_valOf E cl.name cl.fields vals u hru k f w hw⟩

theorem absPath_sound : ∀ (p : Path) (st s : St) (j : Json), St.Holds E bad st j → absPath E st p = some s →
    ∃ x, p.eval j = .ok x ∧ St.Holds E bad s x
  | .self, st, s, j, hst, hp => by
    simp only [absPath, Option.some.injEq] at hp
    subst hp
    exact ⟨j, rfl, hst⟩
  | .idx p i, st, s, j, hst, hp => by
    simp only [absPath] at hp
    cases h0 : absPath E st p with
    | none => simp [h0] at hp
    | some s0 =>
      obtain ⟨x0, hx0, hs0⟩ := absPath_sound p st s0 j hst h0
      simp only [h0] at hp
      cases hty : s0.ty <;> simp only [hty] at hp <;> try (simp at hp; done)
      case seq t =>
        cases i with
        | succ i => simp at hp
        | zero =>
          simp only at hp
          split at hp
          · rename_i hlen
            have hlen' : s0.len = some false := by simpa using hlen
            simp only [Option.some.injEq] at hp
            subst hp
            have hl := hs0.len
            simp only [hlen'] at hl
            obtain ⟨x, xs, rfl⟩ := hl
            obtain ⟨v, n, hr⟩ := hs0.rd
            rw [hty] at hr
            obtain ⟨n', vs, xs', rfl, rfl, hj, ha⟩ := rep_seq_inv E bad hr
            cases hj
            obtain ⟨w, ws, rfl, hw, _⟩ := all2_cons_inv ha
            refine ⟨x, ?_, St.Holds.of_rep E bad hw⟩
            simp [Path.eval, hx0, bind, Except.bind]
          · simp at hp
  | .key p k, st, s, j, hst, hp => by
    simp only [absPath] at hp
    cases h0 : absPath E st p with
    | none => simp [h0] at hp
    | some s0 =>
      obtain ⟨x0, hx0, hs0⟩ := absPath_sound p st s0 j hst h0
      simp only [h0] at hp
      cases hty : s0.ty <;> simp only [hty] at hp <;> try (simp at hp; done)
      case cls c =>
        cases hc : E.pkg.findCls c with
        | none => simp [hc] at hp
        | some cl =>
          simp only [hc] at hp
          cases hf : cl.fields.find? (·.wireS == k) with
          | none => simp [hf] at hp
          | some f =>
            simp only [hf] at hp
            split at hp
            · rename_i hsure
              simp only [Option.some.injEq] at hp
              subst hp
              obtain ⟨v, n, hr⟩ := hs0.rd
              rw [hty] at hr
              obtain ⟨n', vals, kvs, w, rfl, rfl, rfl, _, hrd, _⟩ := cls_key_reads E bad hr hc hf
              have hwk := (find_wire hf).1
              unfold FieldReads at hrd
              rw [hwk] at hrd
              cases hl : Json.lookup kvs k with
              | some x =>
                simp only [hl] at hrd
                refine ⟨x, ?_, St.Holds.of_rep E bad hrd.1⟩
                simp [Path.eval, hx0, bind, Except.bind, hl]
              | none =>
                simp only [hl] at hrd
                simp only [Bool.or_eq_true] at hsure
                rcases hsure with hcert | hpres
                · simp [Field.certain, hrd.1] at hcert
                · have := hs0.pres k (by simpa [List.contains_iff_mem] using hpres)
                  simp [jHasKey, Json.hasKey, hl] at this
            · simp at hp

/-! ### conditions -/

theorem inLit_accept (cls : Name) (f : Field) (vs : List Name) (a : Name) (hv : f.vld = .inLit vs)
    (h : runFieldVld E cls f (.str a) = .ok ()) : vs.contains a = true := by
  cases hca : vs.contains a with
  | true => rfl
  | false =>
    have : runVld E.vld (.inLit vs) (.str a) = .valueError [] := by simp only [runVld, hca]; rfl
    simp [runFieldVld, hv, PyVal.toPV, this, VR.accepted] at h

def SplitOK (c : Cond) (j : Json) (T F : List St) : Prop :=
  (c.eval j = .ok true ∧ ∃ t ∈ T, St.Holds E bad t j) ∨ (c.eval j = .ok false ∧ ∃ f ∈ F, St.Holds E bad f j)

theorem SplitOK.mono {c : Cond} {j : Json} {T F T' F' : List St} (h : SplitOK E bad c j T F)
    (hT : ∀ t ∈ T, t ∈ T') (hF : ∀ f ∈ F, f ∈ F') : SplitOK E bad c j T' F' := by
  rcases h with ⟨he, t, ht, hh⟩ | ⟨he, f, hf, hh⟩
  · exact Or.inl ⟨he, t, hT t ht, hh⟩
  · exact Or.inr ⟨he, f, hF f hf, hh⟩

theorem splitAll_sound (c : Cond) (j : Json) (f : St → Split) :
    ∀ (sts : List St) (T F : List St),
      (∀ s ∈ sts, ∀ T F, St.Holds E bad s j → f s = some (T, F) → SplitOK E bad c j T F) →
      splitAll f sts = some (T, F) → (∃ s ∈ sts, St.Holds E bad s j) → SplitOK E bad c j T F
  | [], _, _, _, _, ⟨s, hs, _⟩ => by simp at hs
  | s :: rest, T, F, hf, h, ⟨s', hs', hh⟩ => by
    simp only [splitAll] at h
    cases h1 : f s with
    | none => simp [h1] at h
    | some te =>
      cases h2 : splitAll f rest with
      | none => simp [h1, h2] at h
      | some tes =>
        obtain ⟨t, e⟩ := te
        obtain ⟨ts, es⟩ := tes
        simp only [h1, h2, Option.some.injEq, Prod.mk.injEq] at h
        obtain ⟨rfl, rfl⟩ := h
        rcases List.mem_cons.mp hs' with rfl | hm
        · exact (hf s' (by simp) t e hh h1).mono E bad (fun x hx => List.mem_append_left _ hx) (fun x hx => List.mem_append_left _ hx)
        · have := splitAll_sound c j f rest ts es (fun s hs => hf s (by simp [hs])) h2 ⟨s', hm, hh⟩
          exact this.mono E bad (fun x hx => List.mem_append_right _ hx) (fun x hx => List.mem_append_right _ hx)

theorem kind_none_iff (x : Json) : x.kind = Kind.none ↔ x = .null := by
  cases x <;> simp [Json.kind]

theorem St.Holds.kinds {s : St} {x : Json} (h : St.Holds E bad s x) (k : Nat) : (kindsOf E k s.ty).contains x.kind = true := by
  obtain ⟨v, n, hr⟩ := h.rd
  exact kinds_sound E bad k n s.ty v x hr

theorem St.Holds.cls_obj {s : St} {x : Json} (h : St.Holds E bad s x) {c : Name} (hty : s.ty = .cls c) {cl : Cls}
    (hc : E.pkg.findCls c = some cl) :
    ∃ kvs, x = .obj kvs ∧ (kvs.all (fun kv => cl.fields.any (·.wireS == kv.1))) = true := by
  obtain ⟨v, n, hr⟩ := h.rd
  rw [hty] at hr
  obtain ⟨_, cl', _, kvs, _, hc', _, rfl, _, hd, _, _⟩ := rep_cls_inv E bad hr
  rw [hc] at hc'
  cases hc'
  exact ⟨kvs, rfl, hd⟩

/-- a key that a class reading certainly has (no `None` default, or seen by an earlier test) -/
theorem St.Holds.sure_key {s : St} {x : Json} (h : St.Holds E bad s x) {c : Name} (hty : s.ty = .cls c) {cl : Cls}
    (hc : E.pkg.findCls c = some cl) {k : Name} {f : Field} (hf : cl.fields.find? (·.wireS == k) = some f)
    (hsure : (f.certain || s.present.contains k) = true) :
    ∃ kvs y w n', x = .obj kvs ∧ Json.lookup kvs k = some y ∧ rep E bad n' f.ty w y = true ∧ runFieldVld E cl.name f w = .ok () := by
  obtain ⟨v, n, hr⟩ := h.rd
  rw [hty] at hr
  obtain ⟨n', vals, kvs, w, rfl, rfl, rfl, _, hrd, hvl⟩ := cls_key_reads E bad hr hc hf
  have hwk := (find_wire hf).1
  unfold FieldReads at hrd
  rw [hwk] at hrd
  cases hl : Json.lookup kvs k with
  | some y =>
    simp only [hl] at hrd
    exact ⟨kvs, y, w, n', rfl, hl, hrd.1, hvl⟩
  | none =>
    simp only [hl] at hrd
    simp only [Bool.or_eq_true] at hsure
    rcases hsure with hcert | hpres
    · simp [Field.certain, hrd.1] at hcert
    · have := h.pres k (by simpa [List.contains_iff_mem] using hpres)
      simp [jHasKey, Json.hasKey, hl] at this

theorem split_sound : ∀ (c : Cond) (st : St) (j : Json) (T F : List St), St.Holds E bad st j →
    split E c st = some (T, F) → SplitOK E bad c j T F
  | .tt, st, j, T, F, hst, h => by
    simp only [split, Option.some.injEq, Prod.mk.injEq] at h
    obtain ⟨rfl, rfl⟩ := h
    exact Or.inl ⟨rfl, st, by simp, hst⟩
  | .ff, st, j, T, F, hst, h => by
    simp only [split, Option.some.injEq, Prod.mk.injEq] at h
    obtain ⟨rfl, rfl⟩ := h
    exact Or.inr ⟨rfl, st, by simp, hst⟩
  | .isNone p, st, j, T, F, hst, h => by
    simp only [split] at h
    cases h0 : absPath E st p with
    | none => simp [h0] at h
    | some s =>
      obtain ⟨x, hx, hs⟩ := absPath_sound E bad p st s j hst h0
      have hk := hs.kinds E bad kindsFuel
      simp only [h0] at h
      split at h
      · rename_i hall
        simp only [Option.some.injEq, Prod.mk.injEq] at h
        obtain ⟨rfl, rfl⟩ := h
        have : x.kind = Kind.none := by
          have := List.all_eq_true.mp hall x.kind (by simpa [List.contains_iff_mem] using hk)
          simpa using this
        have hxn := (kind_none_iff x).mp this
        subst hxn
        exact Or.inl ⟨by simp [Cond.eval, hx, bind, Except.bind], st, by simp, hst⟩
      · split at h
        · rename_i hnot
          simp only [Option.some.injEq, Prod.mk.injEq] at h
          obtain ⟨rfl, rfl⟩ := h
          have hne : x ≠ .null := by
            intro hxn
            subst hxn
            simp only [Json.kind] at hk
            rw [hk] at hnot
            simp at hnot
          refine Or.inr ⟨?_, st, by simp, hst⟩
          cases x <;> first | exact absurd rfl hne | simp [Cond.eval, hx, bind, Except.bind]
        · simp at h
  | .isInst p ks', st, j, T, F, hst, h => by
    simp only [split] at h
    cases h0 : absPath E st p with
    | none => simp [h0] at h
    | some s =>
      obtain ⟨x, hx, hs⟩ := absPath_sound E bad p st s j hst h0
      have hk := hs.kinds E bad kindsFuel
      have hkm : x.kind ∈ kindsOf E kindsFuel s.ty := by simpa [List.contains_iff_mem] using hk
      simp only [h0] at h
      split at h
      · rename_i hall
        simp only [Option.some.injEq, Prod.mk.injEq] at h
        obtain ⟨rfl, rfl⟩ := h
        have := List.all_eq_true.mp hall x.kind hkm
        have hev : (Cond.isInst p ks').eval j = .ok (ks'.contains x.kind) := by simp only [Cond.eval, hx, bind, Except.bind]
        exact Or.inl ⟨by rw [hev, this], st, by simp, hst⟩
      · split at h
        · rename_i hnone
          simp only [Option.some.injEq, Prod.mk.injEq] at h
          obtain ⟨rfl, rfl⟩ := h
          have := List.all_eq_true.mp hnone x.kind hkm
          simp only [Bool.not_eq_true'] at this
          have hev : (Cond.isInst p ks').eval j = .ok (ks'.contains x.kind) := by simp only [Cond.eval, hx, bind, Except.bind]
          exact Or.inr ⟨by rw [hev, this], st, by simp, hst⟩
        · simp at h
  | .hasKey p k, st, j, T, F, hst, h => by
    simp only [split] at h
    cases h0 : absPath E st p with
    | none => simp [h0] at h
    | some s =>
      obtain ⟨x, hx, hs⟩ := absPath_sound E bad p st s j hst h0
      simp only [h0] at h
      cases hty : s.ty <;> simp only [hty] at h <;> try (simp at h; done)
      case cls c =>
        cases hc : E.pkg.findCls c with
        | none => simp [hc] at h
        | some cl =>
          simp only [hc] at h
          obtain ⟨kvs, rfl, hdecl⟩ := hs.cls_obj E bad hty hc
          have hev : (Cond.hasKey p k).eval j = .ok (Json.hasKey kvs k) := by
            simp [Cond.eval, hx, bind, Except.bind]
          split at h
          · rename_i hpres
            simp only [Option.some.injEq, Prod.mk.injEq] at h
            obtain ⟨rfl, rfl⟩ := h
            have := hs.pres k (by simpa [List.contains_iff_mem] using hpres)
            simp only [jHasKey] at this
            exact Or.inl ⟨by rw [hev, this], st, by simp, hst⟩
          · split at h
            · rename_i habs
              simp only [Option.some.injEq, Prod.mk.injEq] at h
              obtain ⟨rfl, rfl⟩ := h
              have := hs.abs k (by simpa [List.contains_iff_mem] using habs)
              simp only [jHasKey] at this
              exact Or.inr ⟨by rw [hev, this], st, by simp, hst⟩
            · cases hf : cl.fields.find? (·.wireS == k) with
              | none =>
                simp only [hf, Option.some.injEq, Prod.mk.injEq] at h
                obtain ⟨rfl, rfl⟩ := h
                have : Json.hasKey kvs k = false := by
                  cases hh : Json.hasKey kvs k with
                  | false => rfl
                  | true =>
                    obtain ⟨f, hf'⟩ := declared_of_hasKey hdecl hh
                    rw [hf] at hf'
                    cases hf'
                exact Or.inr ⟨by rw [hev, this], st, by simp, hst⟩
              | some f =>
                simp only [hf] at h
                split at h
                · rename_i hcert
                  simp only [Option.some.injEq, Prod.mk.injEq] at h
                  obtain ⟨rfl, rfl⟩ := h
                  obtain ⟨kvs', y, _, _, hobj, hl, _, _⟩ := hs.sure_key E bad hty hc hf (by simp [hcert])
                  cases hobj
                  have : Json.hasKey kvs k = true := by simp [Json.hasKey, hl]
                  exact Or.inl ⟨by rw [hev, this], st, by simp, hst⟩
                · cases p <;> try (simp at h; done)
                  case self =>
                    simp only [Option.some.injEq, Prod.mk.injEq] at h
                    obtain ⟨rfl, rfl⟩ := h
                    simp only [absPath, Option.some.injEq] at h0
                    subst h0
                    simp only [Path.eval, Except.ok.injEq] at hx
                    subst hx
                    cases hh : Json.hasKey kvs k with
                    | true =>
                      refine Or.inl ⟨by rw [hev, hh], { st with present := k :: st.present }, by simp, ⟨hst.rd, ?_, hst.abs, hst.len⟩⟩
                      intro k' hk'
                      rcases List.mem_cons.mp hk' with rfl | hm
                      · simpa [jHasKey] using hh
                      · exact hst.pres k' hm
                    | false =>
                      refine Or.inr ⟨by rw [hev, hh], { st with absent := k :: st.absent }, by simp, ⟨hst.rd, hst.pres, ?_, hst.len⟩⟩
                      intro k' hk'
                      rcases List.mem_cons.mp hk' with rfl | hm
                      · simpa [jHasKey] using hh
                      · exact hst.abs k' hm
  | .keyEq p k s', st, j, T, F, hst, h => by
    simp only [split] at h
    cases h0 : absPath E st p with
    | none => simp [h0] at h
    | some s =>
      obtain ⟨x, hx, hs⟩ := absPath_sound E bad p st s j hst h0
      simp only [h0] at h
      cases hty : s.ty <;> simp only [hty] at h <;> try (simp at h; done)
      case cls c =>
        cases hc : E.pkg.findCls c with
        | none => simp [hc] at h
        | some cl =>
          simp only [hc] at h
          cases hf : cl.fields.find? (·.wireS == k) with
          | none => simp [hf] at h
          | some f =>
            simp only [hf] at h
            split at h
            · rename_i hsure
              obtain ⟨kvs, y, w, n', rfl, hl, hr, hvl⟩ := hs.sure_key E bad hty hc hf hsure
              split at h
              · rename_i l hfty hfv
                -- the attribute is a str validated by in_([l]) : the value under the key is the string l
                have hyl : y = .str l := by
                  rw [hfty] at hr
                  cases n' with
                  | zero => simp [rep] at hr
                  | succ n' =>
                    unfold rep at hr
                    simp only [Bool.and_eq_true] at hr
                    have hr2 := hr.2
                    cases w <;> cases y <;> simp at hr2
                    rename_i a b
                    subst hr2
                    have hca := inLit_accept E cl.name f [l] a hfv hvl
                    have : a = l := by simpa using hca
                    rw [this]
                subst hyl
                have hev : (Cond.keyEq p k s').eval j = .ok (l == s') := by
                  simp [Cond.eval, Path.eval, hx, bind, Except.bind, hl]
                split at h
                · rename_i hls
                  simp only [Option.some.injEq, Prod.mk.injEq] at h
                  obtain ⟨rfl, rfl⟩ := h
                  exact Or.inl ⟨by rw [hev, hls], st, by simp, hst⟩
                · rename_i hls
                  simp only [Option.some.injEq, Prod.mk.injEq] at h
                  obtain ⟨rfl, rfl⟩ := h
                  have : (l == s') = false := by simpa using hls
                  exact Or.inr ⟨by rw [hev, this], st, by simp, hst⟩
              · simp at h
            · simp at h
  | .lenEq p n, st, j, T, F, hst, h => by
    simp only [split] at h
    cases p <;> try (simp at h; done)
    case self =>
      cases n with
      | succ n => simp at h
      | zero =>
        simp only at h
        cases hty : st.ty <;> simp only [hty] at h <;> try (simp at h; done)
        case seq t =>
          obtain ⟨v, m, hr⟩ := hst.rd
          rw [hty] at hr
          obtain ⟨_, vs, xs, _, _, rfl, _⟩ := rep_seq_inv E bad hr
          have hev : (Cond.lenEq .self 0).eval (.arr xs) = .ok (xs.length == 0) := by
            simp [Cond.eval, Path.eval, bind, Except.bind]
          cases hlen : st.len with
          | some b =>
            have hl := hst.len
            cases b with
            | true =>
              simp only [hlen, Option.some.injEq, Prod.mk.injEq] at h hl
              obtain ⟨rfl, rfl⟩ := h
              cases hl
              exact Or.inl ⟨by rw [hev]; rfl, st, by simp, hst⟩
            | false =>
              simp only [hlen, Option.some.injEq, Prod.mk.injEq] at h hl
              obtain ⟨rfl, rfl⟩ := h
              obtain ⟨x, xs', hxs⟩ := hl
              cases hxs
              exact Or.inr ⟨by rw [hev]; rfl, st, by simp, hst⟩
          | none =>
            simp only [hlen, Option.some.injEq, Prod.mk.injEq] at h
            obtain ⟨rfl, rfl⟩ := h
            cases xs with
            | nil => exact Or.inl ⟨by rw [hev]; rfl, { st with len := some true }, by simp [hty], ⟨hst.rd, hst.pres, hst.abs, by simp⟩⟩
            | cons x xs' => exact Or.inr ⟨by rw [hev]; rfl, { st with len := some false }, by simp [hty], ⟨hst.rd, hst.pres, hst.abs, by simp⟩⟩
  | .not c, st, j, T, F, hst, h => by
    simp only [split, Option.map_eq_some_iff] at h
    obtain ⟨⟨T', F'⟩, hc, heq⟩ := h
    simp only [Prod.mk.injEq] at heq
    obtain ⟨rfl, rfl⟩ := heq
    rcases split_sound c st j T' F' hst hc with ⟨he, t, ht, hh⟩ | ⟨he, f, hf, hh⟩
    · exact Or.inr ⟨by simp [Cond.eval, he, bind, Except.bind], t, ht, hh⟩
    · exact Or.inl ⟨by simp [Cond.eval, he, bind, Except.bind], f, hf, hh⟩
  | .and a b, st, j, T, F, hst, h => by
    simp only [split] at h
    cases ha : split E a st with
    | none => simp [ha] at h
    | some tf =>
      obtain ⟨ta, fa⟩ := tf
      simp only [ha] at h
      cases hb : splitAll (split E b) ta with
      | none => simp [hb] at h
      | some tf' =>
        obtain ⟨tb, fb⟩ := tf'
        simp only [hb, Option.some.injEq, Prod.mk.injEq] at h
        obtain ⟨rfl, rfl⟩ := h
        rcases split_sound a st j ta fa hst ha with ⟨he, t, ht, hh⟩ | ⟨he, f, hf, hh⟩
        · have := splitAll_sound E bad b j (split E b) ta tb fb (fun s _ T F hs hsp => split_sound b s j T F hs hsp) hb ⟨t, ht, hh⟩
          rcases this with ⟨he', t', ht', hh'⟩ | ⟨he', f', hf', hh'⟩
          · exact Or.inl ⟨by simp [Cond.eval, he, he', bind, Except.bind], t', ht', hh'⟩
          · exact Or.inr ⟨by simp [Cond.eval, he, he', bind, Except.bind], f', List.mem_append_right _ hf', hh'⟩
        · exact Or.inr ⟨by simp [Cond.eval, he, bind, Except.bind], f, List.mem_append_left _ hf, hh⟩
  | .or a b, st, j, T, F, hst, h => by
    simp only [split] at h
    cases ha : split E a st with
    | none => simp [ha] at h
    | some tf =>
      obtain ⟨ta, fa⟩ := tf
      simp only [ha] at h
      cases hb : splitAll (split E b) fa with
      | none => simp [hb] at h
      | some tf' =>
        obtain ⟨tb, fb⟩ := tf'
        simp only [hb, Option.some.injEq, Prod.mk.injEq] at h
        obtain ⟨rfl, rfl⟩ := h
        rcases split_sound a st j ta fa hst ha with ⟨he, t, ht, hh⟩ | ⟨he, f, hf, hh⟩
        · exact Or.inl ⟨by simp [Cond.eval, he, bind, Except.bind], t, List.mem_append_left _ ht, hh⟩
        · have := splitAll_sound E bad b j (split E b) fa tb fb (fun s _ T F hs hsp => split_sound b s j T F hs hsp) hb ⟨f, hf, hh⟩
          rcases this with ⟨he', t', ht', hh'⟩ | ⟨he', f', hf', hh'⟩
          · exact Or.inl ⟨by simp [Cond.eval, he, he', bind, Except.bind], t', List.mem_append_right _ ht', hh'⟩
          · exact Or.inr ⟨by simp [Cond.eval, he, he', bind, Except.bind], f', hf', hh'⟩

/-! ### `return object_` -/

mutual
theorem isOfJson_ofJson : ∀ j : Json, isOfJson (PyVal.ofJson j) j = true
  | .null => rfl
  | .bool _ => by simp [PyVal.ofJson, isOfJson]
  | .int _ => by simp [PyVal.ofJson, isOfJson]
  | .dec _ => by simp [PyVal.ofJson, isOfJson]
  | .str _ => by simp [PyVal.ofJson, isOfJson]
  | .arr xs => by simp only [PyVal.ofJson, isOfJson]; exact isOfJsonL_ofJson xs
  | .obj kvs => by simp only [PyVal.ofJson, isOfJson]; exact isOfJsonK_ofJson kvs
theorem isOfJsonL_ofJson : ∀ xs : List Json, isOfJsonL (PyVal.ofJsonList xs) xs = true
  | [] => rfl
  | x :: xs => by simp only [PyVal.ofJsonList, isOfJsonL, isOfJson_ofJson x, isOfJsonL_ofJson xs, Bool.and_self]
theorem isOfJsonK_ofJson : ∀ kvs : List (Name × Json), isOfJsonK (PyVal.ofJsonKvs kvs) kvs = true
  | [] => rfl
  | (k, x) :: rest => by simp only [PyVal.ofJsonKvs, isOfJsonK, isOfJson_ofJson x, isOfJsonK_ofJson rest, beq_self_eq_true, Bool.and_self]
end

theorem all2_ofJsonList {f : PyVal → Json → Bool} : ∀ (vs : List PyVal) (xs : List Json),
    (∀ v x, x ∈ xs → f v x = true → f (PyVal.ofJson x) x = true) → all2 f vs xs = true → all2 f (PyVal.ofJsonList xs) xs = true
  | [], [], _, _ => rfl
  | [], _ :: _, _, h => by simp [all2] at h
  | _ :: _, [], _, h => by simp [all2] at h
  | v :: vs, x :: xs, hf, h => by
    simp only [all2, Bool.and_eq_true, PyVal.ofJsonList] at h ⊢
    exact ⟨hf v x (by simp) h.1, all2_ofJsonList vs xs (fun v' x' hx' => hf v' x' (by simp [hx'])) h.2⟩

theorem selfRep_sound : ∀ (k n : Nat) (ty : PyTy) (v : PyVal) (j : Json), selfRepF bad k ty = true →
    rep E bad n ty v j = true → rep E bad n ty (PyVal.ofJson j) j = true
  | 0, _, _, _, _, hs, _ => by simp [selfRepF] at hs
  | _ + 1, 0, _, _, _, _, h => by simp [rep] at h
  | k + 1, n + 1, ty, v, j, hs, h => by
    unfold rep at h ⊢
    simp only [Bool.and_eq_true] at h ⊢
    refine ⟨h.1, ?_⟩
    have h2 := h.2
    cases ty with
    | int => cases v <;> cases j <;> simp at h2 <;> simp [PyVal.ofJson]
    | str => cases v <;> cases j <;> simp at h2 <;> simp [PyVal.ofJson]
    | bool => cases v <;> cases j <;> simp at h2 <;> simp [PyVal.ofJson]
    | none => cases v <;> cases j <;> simp at h2 <;> simp [PyVal.ofJson]
    | any => exact isOfJson_ofJson j
    | obj => cases j <;> simp at h2 <;> exact isOfJson_ofJson _
    | literal vs => cases v <;> cases j <;> simp at h2 <;> simp [PyVal.ofJson] <;> exact h2.1 ▸ h2.2
    | unknown s => simp at h2
    | seq t =>
      cases v <;> cases j <;> try (simp at h2; done)
      case list.arr vs xs =>
        simp only [selfRepF] at hs
        simp only [PyVal.ofJson]
        exact all2_ofJsonList vs xs (fun v' x' _ hv' => selfRep_sound k n t v' x' hs hv') h2
    | union ts =>
      simp only [selfRepF, List.all_eq_true, Bool.or_eq_true] at hs
      simp only [Bool.or_eq_true, List.any_eq_true, Bool.and_eq_true] at h2 ⊢
      rcases h2 with ⟨t, ht, hr⟩ | ⟨_, hr⟩
      · rcases hs t ht with hst | hfl
        · exact Or.inl ⟨t, ht, selfRep_sound k n t v j hst hr⟩
        · cases t <;> try (simp at hfl; done)
          case float =>
            simp only [Bool.and_eq_true, List.any_eq_true, Bool.not_eq_true'] at hfl
            obtain ⟨⟨i, hi, hii⟩, hbi⟩ := hfl
            cases i <;> try (simp [PyTy.isIntTy] at hii; done)
            cases n with
            | zero => simp [rep] at hr
            | succ n =>
              unfold rep at hr
              simp only [Bool.and_eq_true] at hr
              have hr2 := hr.2
              cases v <;> cases j <;> try (simp at hr2; done)
              case float.int d b =>
                refine Or.inl ⟨.int, hi, ?_⟩
                unfold rep
                simp [hbi, PyVal.ofJson]
              case float.dec d b =>
                refine Or.inl ⟨.float, ht, ?_⟩
                unfold rep
                simp only [Bool.and_eq_true]
                exact ⟨hr.1, by simp [PyVal.ofJson]⟩
      · simp only [rawEnum, List.any_eq_true] at hr
        obtain ⟨t, ht, hh⟩ := hr
        cases t <;> try (simp at hh; done)
        case enum e =>
          rcases hs _ ht with hst | hfl
          · cases k <;> simp [selfRepF] at hst
          · exact absurd hfl (by simp)
    | cls c => simp [selfRepF] at hs
    | enum e => simp [selfRepF] at hs
    | float => simp [selfRepF] at hs
    | dict a b => simp [selfRepF] at hs
    | tuple ts => simp [selfRepF] at hs

/-! ### subsumption: a reading as one class is a reading as another -/

theorem rep_none_val {n : Nat} {ty : PyTy} {x : Json} : rep E bad n ty .none x = true → x = .null := by
  induction n generalizing ty with
  | zero => intro h; simp [rep] at h
  | succ n ih =>
    intro h
    unfold rep at h
    simp only [Bool.and_eq_true] at h
    have h2 := h.2
    cases ty with
    | any => cases x <;> simp [isOfJson] at h2 ⊢
    | none => cases x <;> simp at h2 ⊢
    | obj => cases x <;> simp [isOfJson] at h2
    | union ts =>
      simp only [Bool.or_eq_true, List.any_eq_true, Bool.and_eq_true] at h2
      rcases h2 with ⟨t, _, hr⟩ | ⟨_, hr⟩
      · exact ih hr
      · simp only [rawEnum, List.any_eq_true] at hr
        obtain ⟨t, _, hh⟩ := hr
        cases t <;> simp at hh
    | enum e =>
      simp only at h2
      cases hf : E.pkg.findEnum e <;> simp [hf] at h2
    | cls c =>
      simp only at h2
      cases hf : E.pkg.findCls c <;> simp [hf] at h2
    | _ => cases x <;> simp at h2

theorem rep_noneTy {n : Nat} {w : PyVal} {x : Json} (h : rep E bad n .none w x = true) : x = .null := by
  cases n with
  | zero => simp [rep] at h
  | succ n =>
    unfold rep at h
    cases w <;> cases x <;> simp at h ⊢

theorem tyConv_sound {nn : Bool} {a b : PyTy} (h : tyConv bad nn a b = true) {n : Nat} {v : PyVal} {x : Json}
    (hr : rep E bad n a v x = true) (hnn : nn = true → x ≠ .null) : rep E bad (n + 1) b v x = true := by
  simp only [tyConv, Bool.or_eq_true, Bool.and_eq_true, Bool.not_eq_true'] at h
  rcases h with (he | ⟨hb, hall⟩) | ⟨hn, h3⟩
  · rw [← PyTy.eqb_sound he]
    exact rep_succ E bad _ _ _ _ hr
  · cases b <;> try (simp at hall; done)
    case union bs =>
      simp only [List.all_eq_true, Bool.or_eq_true, Bool.and_eq_true] at hall
      obtain ⟨hall, hopt⟩ := hall
      have key : ∀ t ∈ altsOf a, ∀ w, rep E bad n t w x = true → t ∈ bs := by
        intro t ht w hw
        rcases hall t ht with hin | ⟨hnn', htn⟩
        · exact any_eqb_sound hin
        · cases t <;> simp [PyTy.isNoneTy] at htn
          exact absurd (rep_noneTy E bad hw) (hnn hnn')
      by_cases hu : ∃ as, a = .union as
      · obtain ⟨as, rfl⟩ := hu
        obtain ⟨n', rfl, hh⟩ := rep_union_inv E bad hr
        unfold rep
        simp only [Bool.and_eq_true, Bool.not_eq_true', Bool.or_eq_true, List.any_eq_true]
        refine ⟨hb, ?_⟩
        rcases hh with ⟨t, ht, hrt⟩ | ⟨_, hraw⟩
        · have hrt' := rep_succ E bad _ _ _ _ hrt
          exact Or.inl ⟨t, key t (by simpa [altsOf] using ht) v hrt', hrt'⟩
        · right
          simp only [rawEnum, List.any_eq_true] at hraw
          obtain ⟨t, ht, hh'⟩ := hraw
          cases t <;> try (simp at hh'; done)
          case enum e =>
            have hoptb : (PyTy.optionalOf bs).isNone = true := by
              rcases hopt with h1 | h2
              · exact h1
              · have : (altsOf (PyTy.union as)).any PyTy.isEnumTy = true := by
                  simp only [altsOf, List.any_eq_true]
                  exact ⟨_, ht, rfl⟩
                simp [this] at h2
            simp only [Bool.and_eq_true, rawEnum, List.any_eq_true]
            refine ⟨hoptb, ?_⟩
            cases v <;> cases x <;> try (simp at hh'; done)
            all_goals
              simp only [Bool.and_eq_true] at hh'
              have hm := rep_succ E bad _ _ _ _ hh'.2
              refine ⟨.enum e, key (.enum e) (by simpa [altsOf] using ht) _ hm, ?_⟩
              simp only [Bool.and_eq_true]
              exact ⟨hh'.1, hm⟩
      · have halt : altsOf a = [a] := by
          cases a <;> first | rfl | exact absurd ⟨_, rfl⟩ hu
        unfold rep
        simp only [Bool.and_eq_true, Bool.not_eq_true', Bool.or_eq_true, List.any_eq_true]
        exact ⟨hb, Or.inl ⟨a, key a (by simp [halt]) v hr, hr⟩⟩
  · have hxn := hnn hn
    have core : ∀ (t : PyTy) (as : List PyTy), a = .union as → (∀ u ∈ as, u = t ∨ u = .none) → PyTy.eqb t b = true →
        t.isEnumTy = false → rep E bad (n + 1) b v x = true := by
      intro t as ha hmem hte hten
      rw [← PyTy.eqb_sound hte]
      subst ha
      obtain ⟨n', rfl, hh⟩ := rep_union_inv E bad hr
      rcases hh with ⟨u, hu, hru⟩ | ⟨_, hraw⟩
      · rcases hmem u hu with rfl | rfl
        · exact rep_succ E bad _ _ _ _ (rep_succ E bad _ _ _ _ hru)
        · exact absurd (rep_noneTy E bad hru) hxn
      · simp only [rawEnum, List.any_eq_true] at hraw
        obtain ⟨u, hu, hh'⟩ := hraw
        rcases hmem u hu with rfl | rfl
        · cases u <;> first | (simp at hh'; done) | (simp [PyTy.isEnumTy] at hten)
        · simp at hh'
    split at h3
    · simp only [Bool.and_eq_true, Bool.not_eq_true'] at h3
      exact core _ _ rfl (by simp) h3.1 h3.2
    · simp only [Bool.and_eq_true, Bool.not_eq_true'] at h3
      exact core _ _ rfl (by intro u hu; simp at hu; rcases hu with rfl | rfl <;> simp) h3.1 h3.2
    · simp at h3

def vldAccepts (vl : Vld) (v : PyVal) : Bool :=
  match vl with
  | .none => true
  | _ =>
    match v.toPV with
    | Option.none => (match vl with | .instStr | .opt .instStr => true | _ => false)
    | some pv => (runVld E.vld vl pv).accepted

theorem runFieldVld_iff (cls : Name) (f : Field) (v : PyVal) :
    runFieldVld E cls f v = .ok () ↔ vldAccepts E f.vld v = true := by
  unfold runFieldVld vldAccepts
  cases hv : f.vld with
  | opt w => cases w <;> cases hp : v.toPV <;> simp
  | _ => cases hp : v.toPV <;> simp

theorem toPV_none_iff (v : PyVal) : v.toPV = some PV.none ↔ v = .none := by
  cases v <;> simp [PyVal.toPV]

theorem vldConv_sound {nn : Bool} {va vb : Vld} (h : vldConv nn va vb = true) {v : PyVal}
    (hnn : nn = true → v ≠ .none) (ha : vldAccepts E va v = true) : vldAccepts E vb v = true := by
  simp only [vldConv, Bool.or_eq_true, beq_iff_eq] at h
  rcases h with ((h1 | h2) | h3) | h4
  · subst h1; rfl
  · subst h2; exact ha
  · cases va <;> try (simp at h3; done)
    case opt w =>
      simp only [Bool.and_eq_true, beq_iff_eq] at h3
      obtain ⟨hn, rfl⟩ := h3
      have hv := hnn hn
      unfold vldAccepts at ha ⊢
      cases hp : v.toPV with
      | none =>
        simp only [hp] at ha ⊢
        cases w <;> simp at ha ⊢
      | some pv =>
        have hpv : pv ≠ PV.none := fun hh => hv ((toPV_none_iff v).mp (hh ▸ hp))
        simp only [hp] at ha ⊢
        cases w <;> simp only [] <;> (cases pv <;> first | exact absurd rfl hpv | simpa [runVld] using ha)
  · cases vb <;> try (simp at h4; done)
    case opt w =>
      simp only [Bool.and_eq_true, beq_iff_eq] at h4
      obtain ⟨rfl, hb⟩ := h4
      unfold vldAccepts at ha ⊢
      cases hp : v.toPV with
      | none =>
        simp only [hp] at ha ⊢
        cases w <;> simp [Vld.isBase] at hb ha ⊢
      | some pv =>
        simp only [hp] at ha ⊢
        cases w <;> simp [Vld.isBase] at hb <;> (cases pv <;> simp [runVld, VR.accepted] at ha ⊢ <;> try exact ha)

def subVal (ca : Cls) (vals : List (Name × PyVal)) (fb : Field) : PyVal :=
  match valOf ca.fields vals fb.wireS with
  | some p => p.2
  | Option.none => .none

theorem valOf_none_of_find_none : ∀ (fs : List Field) (vals : List (Name × PyVal)) (k : Name),
    fs.find? (·.wireS == k) = Option.none → valOf fs vals k = Option.none
  | [], _, _, _ => by simp [valOf]
  | _ :: _, [], _, _ => by simp [valOf]
  | f :: fs, (a, v) :: vs, k, h => by
    by_cases hk : (f.wireS == k) = true
    · simp [List.find?, hk] at h
    · have hk' : (f.wireS == k) = false := by simpa using hk
      simp only [List.find?, hk'] at h
      simp only [valOf, hk', Bool.false_eq_true, if_false]
      exact valOf_none_of_find_none fs vs k h

theorem hasKey_of_mem : ∀ (kvs : List (Name × Json)) (kv : Name × Json), kv ∈ kvs → Json.hasKey kvs kv.1 = true
  | [], _, h => by simp at h
  | (k, x) :: rest, kv, h => by
    by_cases hk : (k == kv.1) = true
    · simp [Json.hasKey, Json.lookup, hk]
    · have hk' : (k == kv.1) = false := by simpa using hk
      rcases List.mem_cons.mp h with rfl | hm
      · simp at hk
      · have := hasKey_of_mem rest kv hm
        simpa [Json.hasKey, Json.lookup, hk'] using this

theorem repFields_map {r : PyTy → PyVal → Json → Bool} {kvs : List (Name × Json)} (g : Field → PyVal) :
    ∀ fs : List Field, (∀ f ∈ fs, FieldReads r kvs f (g f)) → repFields r kvs fs (fs.map (fun f => (f.name, g f))) = true
  | [], _ => rfl
  | f :: fs, h => by
    simp only [List.map, repFields, Bool.and_eq_true, beq_self_eq_true, true_and]
    refine ⟨?_, repFields_map g fs (fun f' hf' => h f' (by simp [hf']))⟩
    have := h f (by simp)
    unfold FieldReads at this
    cases hl : Json.lookup kvs f.wireS with
    | none =>
      simp only [hl] at this ⊢
      simp [this.1, this.2.1, this.2.2, PyVal.isNone]
    | some x =>
      simp only [hl] at this ⊢
      simp [this.1, this.2]

theorem runVlds_map (cls : Name) (g : Field → PyVal) :
    ∀ fs : List Field, (∀ f ∈ fs, runFieldVld E cls f (g f) = .ok ()) → runVlds E cls fs (fs.map (fun f => (f.name, g f))) = .ok ()
  | [], _ => rfl
  | f :: fs, h => by
    simp only [List.map, runVlds, h f (by simp)]
    exact runVlds_map cls g fs (fun f' hf' => h f' (by simp [hf']))

theorem absent_vld {fb : Field} (h : absentVldOK E fb = true) (cls : Name) : runFieldVld E cls fb .none = .ok () := by
  unfold absentVldOK at h
  cases hr : runFieldVld E 0 fb .none with
  | error e => simp [hr] at h
  | ok u => exact (runFieldVld_iff E cls fb .none).mpr ((runFieldVld_iff E 0 fb .none).mp hr)

theorem field_sub {st : St} {ca : Cls} {fb : Field} {kvs : List (Name × Json)} {vals : List (Name × PyVal)} {n : Nat}
    (hst : St.Holds E bad st (.obj kvs)) (hdecl : (kvs.all (fun kv => ca.fields.any (·.wireS == kv.1))) = true)
    (hrf : repFields (rep E bad n) kvs ca.fields vals = true) (u : Unit) (hru : runVlds E ca.name ca.fields vals = .ok u)
    (h : fieldConv E bad st ca fb = true) (cls : Name) :
    FieldReads (rep E bad (n + 4)) kvs fb (subVal ca vals fb) ∧ runFieldVld E cls fb (subVal ca vals fb) = .ok () := by
  unfold fieldConv at h
  cases hfind : ca.fields.find? (·.wireS == fb.wireS) with
  | none =>
    simp only [hfind, Bool.and_eq_true, beq_iff_eq] at h
    have hv : subVal ca vals fb = .none := by simp [subVal, valOf_none_of_find_none _ vals _ hfind]
    have hl : Json.lookup kvs fb.wireS = Option.none := by
      cases hl : Json.lookup kvs fb.wireS with
      | none => rfl
      | some x =>
        obtain ⟨f, hf⟩ := declared_of_hasKey hdecl (k := fb.wireS) (by simp [Json.hasKey, hl])
        rw [hfind] at hf
        cases hf
    rw [hv]
    exact ⟨by unfold FieldReads; simp only [hl]; exact ⟨h.1.1, trivial, rep_mono E bad (by omega) h.2⟩, absent_vld E h.1.2 cls⟩
  | some fa =>
    simp only [hfind, Bool.and_eq_true] at h
    obtain ⟨⟨⟨htc, hvc⟩, hsure⟩, hfaith⟩ := h
    obtain ⟨v, hvo, hrd⟩ := repFields_find ca.fields vals hrf fb.wireS fa hfind
    have hw := (find_wire hfind).1
    have hv : subVal ca vals fb = v := by simp [subVal, hvo]
    rw [hv]
    unfold FieldReads at hrd ⊢
    rw [hw] at hrd
    cases hl : Json.lookup kvs fb.wireS with
    | some x =>
      simp only [hl] at hrd ⊢
      have hnnx : ((fa.omitU && fa.dflt == Dflt.none && !fa.ty.anyNull) || !((kindsOf E kindsFuel fa.ty).contains Kind.none)) = true → x ≠ .null := by
        intro hnn hx
        subst hx
        simp only [Bool.or_eq_true, Bool.and_eq_true, beq_iff_eq, Bool.not_eq_true'] at hnn
        rcases hnn with ⟨⟨ho, hd⟩, ha⟩ | hk
        · have := hrd.2
          simp [Field.faithfulJ, hd, ho, ha, Json.isNull] at this
        · have := kinds_sound E bad kindsFuel n fa.ty v .null hrd.1
          simp only [Json.kind] at this
          rw [hk] at this
          cases this
      refine ⟨⟨rep_mono E bad (by omega) (tyConv_sound E bad htc hrd.1 hnnx), ?_⟩, ?_⟩
      · unfold Field.faithfulJ
        cases hd : fb.dflt with
        | none =>
          simp only [hd] at hfaith ⊢
          rcases Bool.or_eq_true_iff.mp hfaith with hfa | hany
          · rcases Bool.or_eq_true_iff.mp hfa with ho | hnn
            · simp only [Bool.not_eq_true'] at ho
              simp [ho]
            · have := hnnx hnn
              cases x <;> first | exact absurd rfl this | simp [Json.isNull]
          · simp [hany]
        | str s =>
          simp only [hd, Bool.not_eq_true'] at hfaith
          simp [hfaith]
        | nothing => rfl
        | other r => rfl
      · have hva : runFieldVld E ca.name fa v = .ok () := runVlds_valOf E ca.name ca.fields vals u hru fb.wireS fa v hvo
        have hacc := (runFieldVld_iff E ca.name fa v).mp hva
        refine (runFieldVld_iff E cls fb v).mpr (vldConv_sound E hvc ?_ hacc)
        intro hnn hvn
        subst hvn
        exact hnnx hnn (rep_none_val E bad hrd.1)
    | none =>
      simp only [hl] at hrd ⊢
      obtain ⟨hfd, rfl, _⟩ := hrd
      have hns : (fa.certain || st.present.contains fb.wireS) = false := by
        simp only [Bool.or_eq_false_iff]
        constructor
        · simp [Field.certain, hfd]
        · cases hp : st.present.contains fb.wireS with
          | false => rfl
          | true =>
            have := hst.pres fb.wireS (by simpa [List.contains_iff_mem] using hp)
            simp [jHasKey, Json.hasKey, hl] at this
      simp only [hns, Bool.false_or, Bool.and_eq_true, beq_iff_eq] at hsure
      exact ⟨⟨hsure.1.1, rfl, rep_mono E bad (by omega) hsure.2⟩, absent_vld E hsure.1.2 cls⟩

theorem subOK_sound {st : St} {B : PyTy} {j : Json} (hst : St.Holds E bad st j) (h : subOK E bad st B = true) :
    ∃ w n, rep E bad n B w j = true := by
  simp only [subOK, Bool.or_eq_true] at h
  rcases h with he | h
  · rw [← PyTy.eqb_sound he]
    exact hst.rd
  · cases hty : st.ty <;> simp only [hty] at h <;> try (simp at h; done)
    case cls a =>
      cases B <;> try (simp at h; done)
      case cls b =>
        cases hca : E.pkg.findCls a with
        | none => simp [hca] at h
        | some ca =>
          cases hcb : E.pkg.findCls b with
          | none => simp [hca, hcb] at h
          | some cb =>
            simp only [hca, hcb, Bool.and_eq_true, Bool.not_eq_true', List.all_eq_true, Bool.or_eq_true] at h
            obtain ⟨⟨hbad, hfields⟩, hkeys⟩ := h
            obtain ⟨v, n, hr⟩ := hst.rd
            rw [hty] at hr
            obtain ⟨n', ca', vals, kvs, rfl, hca', rfl, rfl, hnd, hdecl, hrf, ⟨u, hru⟩⟩ := rep_cls_inv E bad hr
            rw [hca] at hca'
            cases hca'
            have hfs := fun fb hfb => field_sub E bad hst hdecl hrf u hru (hfields fb hfb) cb.name
            refine ⟨.inst cb.name (cb.fields.map (fun fb => (fb.name, subVal ca vals fb))), n' + 4 + 1, ?_⟩
            unfold rep
            simp only [hcb, Bool.and_eq_true, Bool.not_eq_true', beq_self_eq_true, true_and]
            refine ⟨hbad, ⟨⟨hnd, ?_⟩, repFields_map _ cb.fields (fun f hf => (hfs f hf).1)⟩, ?_⟩
            · rw [List.all_eq_true]
              intro kv hkv
              have hk := hasKey_of_mem kvs kv hkv
              obtain ⟨fa, hfa⟩ := declared_of_hasKey hdecl hk
              obtain ⟨hfw, hfm⟩ := find_wire hfa
              rcases hkeys fa hfm with habs | hin
              · have := hst.abs fa.wireS (by simpa [List.contains_iff_mem] using habs)
                rw [hfw] at this
                simp [jHasKey, hk] at this
              · rw [hfw] at hin
                exact hin
            · rw [runVlds_map E cb.name _ cb.fields (fun f hf => (hfs f hf).2)]

end LspVerif
