/-
  C12 — generic part: the two entry points run the same validator on an int, and the table
  checker that every directly integer-typed property carries the matching validator.
  The exactness theorems about the validator bodies are in the per-run instance file
  (tools/props/c12.py), proved against the definitions translated from validators.py.
-/
import LspVerif.Core.Valid
import LspVerif.Spec.PySpec
namespace LspVerif

/-- Same verdict at both entry points, for every int, for every attribute annotated `int` or
    `Optional[int]` (whatever its validator). -/
theorem entry_points_agree (E : VldEnv) (f : Field) (i : Int)
    (ht : PyTy.beq f.ty .int = true ∨ PyTy.beq f.ty (PyTy.optional .int) = true) :
    structureEntryInt E f (.int i) = some (constructEntry E f (.int i)) := by
  unfold structureEntryInt constructEntry
  rcases ht with h | h
  · simp [h, coerceInt]
  · by_cases h0 : PyTy.beq f.ty .int = true
    · simp [h0, coerceInt]
    · simp [h0, h, coerceInt]

/-- Which validator a directly integer-typed property must carry. -/
def intVldOf : Base → Option Vld
  | .integer => some .int32
  | .uinteger => some .uint31
  | _ => none

/-- Mismatches: a flattened property whose type is directly integer / uinteger whose attribute
    is not annotated int / Optional[int] or does not carry the matching range validator. -/
def intFieldMismatches (M : Model) (P : Pkg) (s : Struct) : List Mismatch :=
  match P.findCls s.name with
  | none => [⟨s.name.toString, "class-missing", "", ""⟩]
  | some c => (flatten M s).flatMap (fun p =>
      match p.ty with
      | .base b => match intVldOf b with
        | none => []
        | some v =>
          match c.fields.filter (·.wireS == p.name) with
          | [f] =>
            let site := s.name.toString ++ "." ++ p.name.toString
            (if (if p.opt then f.vld == .opt v else f.vld == v) then [] else [⟨site, "range-validator", toString (repr v), toString (repr f.vld)⟩]) ++
            (if (if p.opt then PyTy.beq f.ty (PyTy.optional .int) else PyTy.beq f.ty .int) then [] else [⟨site, "int-annotation", "int", showTy f.ty⟩])
          | _ => [⟨s.name.toString ++ "." ++ p.name.toString, "attribute-not-unique", "", ""⟩]
      | _ => [])

def intFieldsOK (M : Model) (P : Pkg) : List Mismatch := M.structures.flatMap (intFieldMismatches M P)

/-- The integer-typed attribute sites, for the evidence and the correspondence harness. -/
def intSites (M : Model) : List (Name × Name × Base × Bool) :=
  M.structures.flatMap (fun s => (flatten M s).filterMap (fun p =>
    match p.ty with
    | .base .integer => some (s.name, p.name, .integer, p.opt)
    | .base .uinteger => some (s.name, p.name, .uinteger, p.opt)
    | _ => none))

/-- Soundness of the table check, in the form the instance theorem uses: if the checker is
    empty then every directly integer-typed flattened property of every structure has a unique
    attribute with the matching range validator (under `optional` iff optional on the wire) and an
    `int` / `Optional[int]` annotation. -/
theorem intFieldsOK_sound {M : Model} {P : Pkg} (h : intFieldsOK M P = []) :
    ∀ s ∈ M.structures, ∃ c, P.findCls s.name = some c ∧
      ∀ p ∈ flatten M s, ∀ b v, p.ty = .base b → intVldOf b = some v →
        ∃ f, c.fields.filter (·.wireS == p.name) = [f] ∧
          f.vld = (if p.opt then .opt v else v) ∧
          PyTy.beq f.ty (if p.opt then PyTy.optional .int else .int) = true := by
  intro s hs
  unfold intFieldsOK at h
  rw [List.flatMap_eq_nil_iff] at h
  have hs' := h s hs
  unfold intFieldMismatches at hs'
  split at hs'
  · simp at hs'
  · rename_i c hc
    refine ⟨c, hc, ?_⟩
    intro p hp b v hty hv
    rw [List.flatMap_eq_nil_iff] at hs'
    have := hs' p hp
    simp only [hty, hv] at this
    split at this
    · rename_i f hf
      rw [List.append_eq_nil_iff] at this
      refine ⟨f, hf, ?_, ?_⟩
      · by_cases ho : p.opt = true
        · simp only [ho, if_true] at this ⊢
          by_cases c1 : (f.vld == Vld.opt v) = true
          · simpa using c1
          · simp [c1] at this
        · simp only [ho] at this ⊢
          by_cases c1 : (f.vld == v) = true
          · simpa using c1
          · simp [c1] at this
      · by_cases ho : p.opt = true
        · simp only [ho, if_true] at this ⊢
          by_cases c1 : PyTy.beq f.ty (PyTy.optional .int) = true
          · exact c1
          · simp [c1] at this
        · simp only [ho] at this ⊢
          by_cases c1 : PyTy.beq f.ty .int = true
          · simpa using c1
          · simp [c1] at this
    · simp at this

end LspVerif
