/-
  C11 — spec-invalid single-field deviations are rejected.  Table checker with exact (not
  up-to-union-order) annotation tests, and the four rejection theorems for every object.
-/
import LspVerif.Props.ConvTables
namespace LspVerif

def PyTy.isInt : PyTy → Bool | .int => true | _ => false
def PyTy.isStr : PyTy → Bool | .str => true | _ => false
def PyTy.isEnum (e : Name) : PyTy → Bool | .enum n => n == e | _ => false

theorem PyTy.eq_int {t : PyTy} (h : t.isInt = true) : t = .int := by cases t <;> simp_all [PyTy.isInt]
theorem PyTy.eq_str {t : PyTy} (h : t.isStr = true) : t = .str := by cases t <;> simp_all [PyTy.isStr]
theorem PyTy.eq_enum {t : PyTy} {e : Name} (h : t.isEnum e = true) : t = .enum e := by
  cases t <;> simp_all [PyTy.isEnum]

/-- Table facts needed for the four edits, for the unique attribute `f` of property `p`. -/
def c11Facts (M : Model) (f : Field) (p : Prp) : Bool :=
  -- required on the wire ⇒ no default
  (if !p.opt && !p.ty.isStrLit then f.dflt == .nothing else true) &&
  (match p.ty with
   | .base .integer => if p.opt then true else f.ty.isInt && f.vld == .int32
   | .base .uinteger => if p.opt then true else f.ty.isInt && f.vld == .uint31
   | .strLit l => if p.opt then true else f.ty.isStr && f.vld == .inLit [l]
   | .ref r =>
     (match M.findEnum r with
      | some e => if e.custom || p.opt then true else f.ty.isEnum r
      | Option.none => true)
   | _ => true)

def c11FieldOK (M : Model) (c : Cls) (p : Prp) : Bool :=
  match c.fields.filter (·.wireS == p.name) with
  | [f] => c11Facts M f p
  | _ => false

def c11StructOK (M : Model) (P : Pkg) (s : Struct) : Bool :=
  match P.findCls s.name with
  | some c => (flatten M s).all (c11FieldOK M c)
  | Option.none => false

/-- No hook is registered for the plain types the edits go through. -/
def c11EnvOK (M : Model) (E : Env) : Bool :=
  (E.hookFor .int).isNone && (E.hookFor .str).isNone &&
  M.enumerations.all (fun e => e.custom || ((E.hookFor (.enum e.name)).isNone && (E.pkg.findEnum e.name).isSome))

theorem mem_of_filter_singleton {α} {l : List α} {q : α → Bool} {x : α} (h : l.filter q = [x]) : x ∈ l ∧ q x = true := by
  have : x ∈ l.filter q := by rw [h]; simp
  exact List.mem_filter.mp this

theorem idx_of_mem {α} {l : List α} {x : α} (h : x ∈ l) : ∃ i : Nat, l[i]? = some x := by
  obtain ⟨i, hi, rfl⟩ := List.mem_iff_getElem.mp h
  exact ⟨i, by simp [hi]⟩

/-- The shape every C11 theorem starts from. -/
theorem c11_unpack {M : Model} {P : Pkg} {s : Struct} (h : c11StructOK M P s = true) :
    ∃ c, P.findCls s.name = some c ∧ ∀ p ∈ flatten M s, ∃ f, f ∈ c.fields ∧ f.wireS = p.name ∧ c11Facts M f p = true := by
  unfold c11StructOK at h
  split at h
  · rename_i c hc
    refine ⟨c, hc, ?_⟩
    intro p hp
    have := List.all_eq_true.mp h p hp
    unfold c11FieldOK at this
    split at this
    · rename_i f hf
      obtain ⟨hm, hq⟩ := mem_of_filter_singleton hf
      exact ⟨f, hm, by simpa using hq, this⟩
    · simp at this
  · simp at h

/-- Edit 1: removing a required property (neither optional, nor null-admitting, nor a literal). -/
theorem C11_missing_required (M : Model) (E : Env) (s : Struct) (h : c11StructOK M E.pkg s = true) :
    ∃ c, E.pkg.findCls s.name = some c ∧ ∀ p ∈ flatten M s, p.opt = false → p.ty.isStrLit = false →
      ∀ (recur : PyTy → Json → Except Err PyVal) (kvs : List (Name × Json)), Json.lookup kvs p.name = Option.none →
        ∃ e, structCls E recur c (.obj kvs) = .error e := by
  obtain ⟨c, hc, hall⟩ := c11_unpack h
  refine ⟨c, hc, ?_⟩
  intro p hp hopt hlit recur kvs hl
  obtain ⟨f, hm, hw, hf⟩ := hall p hp
  simp only [c11Facts, hopt, hlit, Bool.not_false, Bool.and_self, if_true, Bool.and_eq_true, beq_iff_eq] at hf
  apply structCls_error_of_missing E recur c kvs f hm (by rw [hw]; exact hl)
  rw [hf.1]; rfl

/-- Edit 2: an integer / uinteger property replaced by an int outside its range (`bad` says
    the translated validator rejects it — discharged by the C12 exactness theorems). -/
theorem C11_out_of_range (M : Model) (E : Env) (s : Struct) (h : c11StructOK M E.pkg s = true)
    (he : c11EnvOK M E = true) :
    ∃ c, E.pkg.findCls s.name = some c ∧ ∀ p ∈ flatten M s, p.opt = false →
      ∀ (n : Nat) (kvs : List (Name × Json)) (i : Int), Json.lookup kvs p.name = some (.int i) →
        ((p.ty == .base .integer) = true → (E.vld.int32 (.int i)).accepted = false →
          ∃ e, structCls E (structTy E (n + 1)) c (.obj kvs) = .error e) ∧
        ((p.ty == .base .uinteger) = true → (E.vld.uint31 (.int i)).accepted = false →
          ∃ e, structCls E (structTy E (n + 1)) c (.obj kvs) = .error e) := by
  obtain ⟨c, hc, hall⟩ := c11_unpack h
  refine ⟨c, hc, ?_⟩
  intro p hp hopt n kvs i hl
  obtain ⟨f, hm, hw, hf⟩ := hall p hp
  obtain ⟨idx, hidx⟩ := idx_of_mem hm
  simp only [c11EnvOK, Bool.and_eq_true, Option.isNone_iff_eq_none] at he
  have hint : ∀ t, t = PyTy.int → structTy E (n + 1) t (.int i) = .ok (.int i) := by
    intro t ht; subst ht
    simp [structTy, he.1.1, coerceIntJ]
  constructor
  · intro hty hbad
    have hty' : p.ty = .base .integer := by
      cases hp' : p.ty <;> simp_all [BEq.beq, Ty.beq]
    simp [c11Facts, hty', hopt, Ty.isStrLit] at hf
    obtain ⟨_, hti, hvl⟩ := hf
    have hfi := PyTy.eq_int hti
    apply structCls_error_of_validator E _ c kvs f (.int i) (.int i) idx hidx (by rw [hw]; exact hl) (hint _ hfi)
    simp [runFieldVld, hvl, PyVal.toPV, runVld, hbad]
  · intro hty hbad
    have hty' : p.ty = .base .uinteger := by
      cases hp' : p.ty <;> simp_all [BEq.beq, Ty.beq]
    simp [c11Facts, hty', hopt, Ty.isStrLit] at hf
    obtain ⟨_, hti, hvl⟩ := hf
    have hfi := PyTy.eq_int hti
    apply structCls_error_of_validator E _ c kvs f (.int i) (.int i) idx hidx (by rw [hw]; exact hl) (hint _ hfi)
    simp [runFieldVld, hvl, PyVal.toPV, runVld, hbad]

/-- Edit 3: a closed-enumeration property replaced by a string / int outside the enumeration. -/
theorem C11_not_a_member (M : Model) (E : Env) (s : Struct) (h : c11StructOK M E.pkg s = true)
    (he : c11EnvOK M E = true) :
    ∃ c, E.pkg.findCls s.name = some c ∧ ∀ p ∈ flatten M s, p.opt = false →
      ∀ r e, p.ty = .ref r → M.findEnum r = some e → e ∈ M.enumerations → e.name = r → e.custom = false →
      ∃ pe, E.pkg.findEnum r = some pe ∧
      ∀ (n : Nat) (kvs : List (Name × Json)),
        (∀ x : Name, Json.lookup kvs p.name = some (.str x) → pe.members.any (·.2 == .s x) = false →
          ∃ err, structCls E (structTy E (n + 1)) c (.obj kvs) = .error err) ∧
        (∀ x : Int, Json.lookup kvs p.name = some (.int x) → pe.members.any (·.2 == .i x) = false →
          ∃ err, structCls E (structTy E (n + 1)) c (.obj kvs) = .error err) := by
  obtain ⟨c, hc, hall⟩ := c11_unpack h
  refine ⟨c, hc, ?_⟩
  intro p hp hopt r e hty hfe hmem hname hcust
  obtain ⟨f, hm, hw, hf⟩ := hall p hp
  simp only [c11EnvOK, Bool.and_eq_true, List.all_eq_true] at he
  have hen := he.2 e hmem
  simp only [hcust, Bool.false_or, Bool.and_eq_true, Option.isNone_iff_eq_none, Option.isSome_iff_exists, hname] at hen
  obtain ⟨hh, pe, hpe⟩ := hen
  simp only [c11Facts, hty, hfe, hcust, hopt, Ty.isStrLit, Bool.or_self, Bool.false_eq_true, if_false, Bool.and_eq_true] at hf
  have hft := PyTy.eq_enum hf.2
  refine ⟨pe, hpe, ?_⟩
  intro n kvs
  constructor
  · intro x hl hnot
    apply structCls_error_of_field E _ c kvs f (.str x) (.notMember pe.name) hm (by rw [hw]; exact hl)
    rw [hft]
    simp [structTy, hh, hpe, lookupEnum, hnot]
  · intro x hl hnot
    apply structCls_error_of_field E _ c kvs f (.int x) (.notMember pe.name) hm (by rw [hw]; exact hl)
    rw [hft]
    simp [structTy, hh, hpe, lookupEnum, hnot]

/-- Edit 4: a string-literal property replaced by a different string. -/
theorem C11_wrong_literal (M : Model) (E : Env) (s : Struct) (h : c11StructOK M E.pkg s = true)
    (he : c11EnvOK M E = true) :
    ∃ c, E.pkg.findCls s.name = some c ∧ ∀ p ∈ flatten M s, p.opt = false → ∀ l, p.ty = .strLit l →
      ∀ (n : Nat) (kvs : List (Name × Json)) (x : Name), Json.lookup kvs p.name = some (.str x) → (x == l) = false →
        ∃ err, structCls E (structTy E (n + 1)) c (.obj kvs) = .error err := by
  obtain ⟨c, hc, hall⟩ := c11_unpack h
  refine ⟨c, hc, ?_⟩
  intro p hp hopt l hty n kvs x hl hne
  obtain ⟨f, hm, hw, hf⟩ := hall p hp
  obtain ⟨idx, hidx⟩ := idx_of_mem hm
  simp only [c11EnvOK, Bool.and_eq_true, Option.isNone_iff_eq_none] at he
  simp [c11Facts, hty, hopt, Ty.isStrLit] at hf
  obtain ⟨hts, hvl⟩ := hf
  have hfs := PyTy.eq_str hts
  have hstr : structTy E (n + 1) f.ty (.str x) = .ok (.str x) := by
    rw [hfs]; simp [structTy, he.1.2]
  apply structCls_error_of_validator E _ c kvs f (.str x) (.str x) idx hidx (by rw [hw]; exact hl) hstr
  have hxl : ¬ x = l := by simpa using hne
  simp [runFieldVld, hvl, PyVal.toPV, runVld, hxl, VR.accepted]

end LspVerif
