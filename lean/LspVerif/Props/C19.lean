/-
  C19 (schedules): for the locked shape of the once-only section, for every number of threads,
  every registry size and every schedule, no thread raises, and a thread that is done has seen
  the flag set.  For the unlocked shape the negation is witnessed by a concrete 2-thread schedule.
-/
import LspVerif.Core.Conc
import LspVerif.Core.Hist
namespace LspVerif.Conc

def PC.critical : PC → Bool
  | .check | .iter | .resolve | .setFlag | .unlock => true
  | _ => false

structure Inv (g : G) : Prop where
  crit : ∀ t, (g.th t).pc.critical = true → g.lock = some t
  snapOK : ∀ t, (g.th t).pc = .iter → (g.th t).snap = g.version
  noRaise : ∀ t, (g.th t).raised = false
  doneFlag : ∀ t, (g.th t).pc = .done → g.flag = true
  unlockFlag : ∀ t, (g.th t).pc = .unlock → g.flag = true
  flagResolved : g.flag = true → g.allResolved = true
  setFlagResolved : ∀ t, (g.th t).pc = .setFlag → g.allResolved = true

theorem inv_init : Inv init := by
  constructor <;> intro t <;> simp_all [init, PC.critical]

theorem inv_step (sh : Shape) (hs : sh.safe = true) (K : Nat) (g : G) (t : Nat) (h : Inv g) : Inv (step sh K g t) := by
  simp only [Shape.safe, Bool.and_eq_true] at hs
  obtain ⟨⟨hl, hr⟩, _⟩ := hs
  obtain ⟨c, s, r, d, uf, fr, sr⟩ := h
  unfold step
  have hnr := r t
  simp only [hnr, Bool.false_eq_true, if_false]
  cases hpc : (g.th t).pc <;> simp only [hl, hr, if_true, Bool.not_true, Bool.or_false, Bool.true_and]
  all_goals (try (split))
  all_goals (try (split))
  all_goals (constructor <;> (try intro u) <;> (try by_cases hu : u = t) <;> (try simp [G.set, hu]) <;> grind [PC.critical, G.set])

/-- C19 (schedules): every reachable state of every number of threads under every schedule. -/
theorem inv_run (sh : Shape) (hs : sh.safe = true) (K : Nat) (sched : List Nat) : Inv (run sh K init sched) := by
  unfold run
  have : ∀ (g : G), Inv g → Inv (sched.foldl (step sh K) g) := by
    induction sched with
    | nil => intro g hg; simpa using hg
    | cons t rest ih => intro g hg; exact ih _ (inv_step sh hs K g t hg)
  exact this init inv_init

theorem C19_schedules (sh : Shape) (hs : sh.safe = true) (K : Nat) (sched : List Nat) :
    let g := run sh K init sched
    (∀ t, (g.th t).raised = false) ∧ (∀ t, (g.th t).pc = .done → g.flag = true ∧ g.allResolved = true) :=
  let h := inv_run sh hs K sched
  ⟨h.noRaise, fun t ht => ⟨h.doneFlag t ht, h.flagResolved (h.doneFlag t ht)⟩⟩

/-- The unsynchronised shape of the pinned tree: a 3-step schedule of two threads raises
    (T0 enters the filter, T1 runs to its first resolve, T0 advances its iterator). -/
def unlockedShape : Shape := { fastPath := false, locked := false, recheck := false, materialised := true }

theorem unlocked_races :
    ((run unlockedShape 1 init [0, 0, 1, 1, 1, 1, 1, 0]).th 0).raised = true := by decide

/-- non-vacuity of the theorem: under the locked shape the same schedule completes -/
def lockedShape : Shape := { fastPath := true, locked := true, recheck := true, materialised := true }
example : ((run lockedShape 1 init [0, 0, 1, 1, 0, 0, 0, 0, 0, 0, 0, 1, 1, 1, 1]).th 0).raised = false ∧
          ((run lockedShape 1 init [0, 0, 1, 1, 0, 0, 0, 0, 0, 0, 0, 1, 1, 1, 1]).th 0).pc = .done := by decide

end LspVerif.Conc

namespace LspVerif.Hist

/-- C19 (histories): whatever converters were created before, with whatever configurations and in
    whatever number, the converter a creation returns is the one the same creation returns in a
    fresh process. -/
theorem history_independent {Cfg Conv : Type} (regs : Cfg → Conv) (hist : List Cfg) (cfg : Cfg) (w0 : W) :
    (create regs cfg (after regs hist w0)).1 = (create regs cfg {}).1 := rfl

/-- and earlier creations are not affected by later ones: the value returned is not revisited -/
theorem creation_order_irrelevant {Cfg Conv : Type} (regs : Cfg → Conv) (h1 h2 : List Cfg) (cfg : Cfg) :
    (create regs cfg (after regs h1 {})).1 = (create regs cfg (after regs h2 {})).1 := rfl

theorem flag_after {Cfg Conv : Type} (regs : Cfg → Conv) (hist : List Cfg) (w0 : W) (h : hist ≠ []) :
    (after regs hist w0).flag = true := by
  unfold after
  induction hist generalizing w0 with
  | nil => exact absurd rfl h
  | cons c rest ih =>
    cases rest with
    | nil => rfl
    | cons d rest' => exact ih _ (by simp)

end LspVerif.Hist
