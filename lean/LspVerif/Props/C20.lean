/-
  C20 — generic facts about the specification side (no reference to the translated code).
  The property theorems themselves are stated in tools/props/c20.py's instance template and
  proved against the definitions regenerated from /repo on every run.
-/
import LspVerif.Core.Cmp
namespace LspVerif.Cmp

/-- Exactly one of `<`, `==`, `>` holds on the specification side. -/
theorem lex_trichotomy (a b : Pos) :
    (lexOp .lt a b = true ∧ lexOp .eq a b = false ∧ lexOp .gt a b = false) ∨
    (lexOp .lt a b = false ∧ lexOp .eq a b = true ∧ lexOp .gt a b = false) ∨
    (lexOp .lt a b = false ∧ lexOp .eq a b = false ∧ lexOp .gt a b = true) := by
  obtain ⟨al, ac⟩ := a
  obtain ⟨bl, bc⟩ := b
  simp [lexOp, lexLt]
  grind

/-- `≤`/`≥`/`≠` are the complements of `>`/`<`/`==` on the specification side. -/
theorem lex_complements (a b : Pos) :
    lexOp .le a b = !lexOp .gt a b ∧ lexOp .ge a b = !lexOp .lt a b ∧ lexOp .ne a b = !lexOp .eq a b := by
  simp [lexOp]

/-- Kinds of the three related classes. -/
def Obj.related : Obj → Bool
  | .other _ => false
  | _ => true

def Obj.sameKind : Obj → Obj → Bool
  | .pos _, .pos _ => true
  | .rng _, .rng _ => true
  | .loc _, .loc _ => true
  | _, _ => false

def Op.isOrdering : Op → Bool
  | .eq | .ne => false
  | _ => true

end LspVerif.Cmp
