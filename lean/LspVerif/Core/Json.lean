/-
  JSON values and Python runtime values of the converter model.  Strings are `Name`s (see
  Core/Name.lean) so that key comparison is cheap in the kernel.
-/
import LspVerif.Core.Py
namespace LspVerif

inductive Json
  | null
  | bool (b : Bool)
  | int (i : Int)
  | dec (d : Nat)                  -- a non-integral double, opaque (never compared numerically)
  | str (s : Name)
  | arr (xs : List Json)
  | obj (kvs : List (Name × Json)) -- keys distinct (Python dict)
  deriving Repr, Inhabited

mutual
def Json.beq : Json → Json → Bool
  | .null, .null => true
  | .bool a, .bool b => a == b
  | .int a, .int b => a == b
  | .dec a, .dec b => a == b
  | .str a, .str b => a == b
  | .arr a, .arr b => Json.beqList a b
  | .obj a, .obj b => Json.beqKvs a b
  | _, _ => false
def Json.beqList : List Json → List Json → Bool
  | [], [] => true
  | a :: as, b :: bs => Json.beq a b && Json.beqList as bs
  | _, _ => false
def Json.beqKvs : List (Name × Json) → List (Name × Json) → Bool
  | [], [] => true
  | (k, a) :: as, (l, b) :: bs => k == l && Json.beq a b && Json.beqKvs as bs
  | _, _ => false
end

instance : BEq Json := ⟨Json.beq⟩

def Json.lookup (kvs : List (Name × Json)) (k : Name) : Option Json :=
  match kvs with
  | [] => none
  | (k', v) :: rest => if k' == k then some v else Json.lookup rest k

def Json.hasKey (kvs : List (Name × Json)) (k : Name) : Bool := (Json.lookup kvs k).isSome

/-- Python values produced by structuring. -/
inductive PyVal
  | none
  | bool (b : Bool)
  | int (i : Int)
  | float (d : Json)               -- float(x) of a JSON number x (kept symbolic)
  | str (s : Name)
  | strOf (j : Json)               -- str(x) of a non-string x (opaque)
  | enum (e : Name) (v : EnumVal)  -- a member of enum class e
  | inst (cls : Name) (fields : List (Name × PyVal))   -- attrs instance: attribute name ↦ value
  | list (xs : List PyVal)
  | tuple (xs : List PyVal)
  | dict (kvs : List (PyVal × PyVal))
  deriving Repr, Inhabited

mutual
def PyVal.beq : PyVal → PyVal → Bool
  | .none, .none => true
  | .bool a, .bool b => a == b
  | .int a, .int b => a == b
  | .float a, .float b => a == b
  | .str a, .str b => a == b
  | .strOf a, .strOf b => a == b
  | .enum e a, .enum f b => e == f && a == b
  | .inst c a, .inst d b => c == d && PyVal.beqFields a b
  | .list a, .list b => PyVal.beqList a b
  | .tuple a, .tuple b => PyVal.beqList a b
  | .dict a, .dict b => PyVal.beqPairs a b
  | _, _ => false
def PyVal.beqList : List PyVal → List PyVal → Bool
  | [], [] => true
  | a :: as, b :: bs => PyVal.beq a b && PyVal.beqList as bs
  | _, _ => false
def PyVal.beqFields : List (Name × PyVal) → List (Name × PyVal) → Bool
  | [], [] => true
  | (k, a) :: as, (l, b) :: bs => k == l && PyVal.beq a b && PyVal.beqFields as bs
  | _, _ => false
def PyVal.beqPairs : List (PyVal × PyVal) → List (PyVal × PyVal) → Bool
  | [], [] => true
  | (k, a) :: as, (l, b) :: bs => PyVal.beq k l && PyVal.beq a b && PyVal.beqPairs as bs
  | _, _ => false
end

instance : BEq PyVal := ⟨PyVal.beq⟩

mutual
/-- A JSON value passed through uninterpreted (positions typed Any / LSPObject / LSPAny):
    the Python object json.loads produced. -/
def PyVal.ofJson : Json → PyVal
  | .null => .none
  | .bool b => .bool b
  | .int i => .int i
  | .dec d => .float (.dec d)
  | .str s => .str s
  | .arr xs => .list (PyVal.ofJsonList xs)
  | .obj kvs => .dict (PyVal.ofJsonKvs kvs)
def PyVal.ofJsonList : List Json → List PyVal
  | [] => []
  | x :: xs => PyVal.ofJson x :: PyVal.ofJsonList xs
def PyVal.ofJsonKvs : List (Name × Json) → List (PyVal × PyVal)
  | [] => []
  | (k, v) :: rest => (.str k, PyVal.ofJson v) :: PyVal.ofJsonKvs rest
end

inductive Err
  | fuel                         -- model ran out of fuel (never a verdict)
  | unspecified (why : String)   -- the model declines to predict (coercion of an ill-typed primitive, ...)
  | missingKey (cls key : Name)  -- required attribute absent (KeyError -> ClassValidationError)
  | validator (cls attr : Name)  -- attrs validator rejected
  | notMember (e : Name)         -- value is not a member of a closed enum
  | literal                      -- value not among the Literal options
  | noHandler (ty : String)      -- StructureHandlerNotFoundError
  | hookRaise (why : String)     -- a hook raised (ValueError / AssertionError / TypeError / KeyError)
  | typeError (why : String)
  | extraKeys (cls : Name)
  deriving Repr, Inhabited

end LspVerif
