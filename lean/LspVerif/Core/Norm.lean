/-
  The "documented null rule" of C01/C02 as a relation between an input JSON value `j` and the JSON
  value `j'` that unstructuring produces, directed by the annotation:

  * at a protocol-object node (annotation = a generated class) the two objects agree property by
    property (recursively), except that
      - a property absent from `j` may appear in `j'` as an explicit `null` — only when the class
        always writes it (`omit_if_default` off: the null-admitting properties), and
      - a property present in `j` as an explicit `null` may be absent from `j'` — only when the class
        omits it when unset;
    neither object has a key that is not a declared wire name of the class, or a key twice;
  * arrays, tuples and maps keep their shape, keys and order;
  * at a union the two are related at one of the alternatives, or equal;
  * everywhere else (scalars, enums, literals, Any / LSPObject positions) they are equal.

  So a property that `j` carries with a non-null value can neither disappear nor change.

  `clsOKU` is the table fact the round-trip theorem needs about a class (kernel-evaluated per run on
  the regenerated package): attribute names and wire names are distinct, the structure and the
  unstructure function use the same wire name, and a literal-defaulted attribute is always written.
  (That an always-written `None`-defaulted attribute can be unstructured when unset follows from the
  reading itself: `rep` demands that `None` be a typed value of the annotation of an absent property.)

  Definitions only.
-/
import LspVerif.Core.Rep
namespace LspVerif

/-- per declared attribute: what the two objects hold under its wire name -/
def relFields (r : PyTy → Json → Json → Bool) (a b : List (Name × Json)) : List Field → Bool
  | [] => true
  | f :: fs =>
    (match Json.lookup a f.wireS, Json.lookup b f.wireS with
     | some x, some y => r f.ty x y
     | Option.none, some y => y.isNull && !f.omitU
     | some x, Option.none => x.isNull && f.omitU
     | Option.none, Option.none => true) &&
    relFields r a b fs

def relEntry (r : Json → Json → Bool) (p q : Name × Json) : Bool := p.1 == q.1 && r p.2 q.2

def nrel (E : Env) : Nat → PyTy → Json → Json → Bool
  | 0, _, _, _ => false
  | n + 1, ty, j, j' =>
    match ty with
    | .cls c =>
      (match E.pkg.findCls c, j, j' with
       | some cl, .obj a, .obj b =>
         -- both objects are objects of THIS class: no repeated key, every key a declared wire name (so that a property of `j`
         -- cannot be "related" by looking at an alternative that does not declare it)
         keysNodup a && a.all (fun kv => cl.fields.any (·.wireS == kv.1)) &&
         keysNodup b && b.all (fun kv => cl.fields.any (·.wireS == kv.1)) && relFields (nrel E n) a b cl.fields
       | _, _, _ => false)
    | .seq t => (match j, j' with | .arr xs, .arr ys => all2 (nrel E n t) xs ys | _, _ => false)
    | .dict _ t => (match j, j' with | .obj a, .obj b => all2 (relEntry (nrel E n t)) a b | _, _ => false)
    | .tuple ts => (match j, j' with | .arr xs, .arr ys => all3 (nrel E n) ts xs ys | _, _ => false)
    | .union ts => ts.any (fun t => nrel E n t j j') || Json.beq j j'
    | _ => Json.beq j j'

def namesNodup : List Name → Bool
  | [] => true
  | a :: rest => !(rest.contains a) && namesNodup rest

def fieldOKU (f : Field) : Bool :=
  f.wireU == f.wireS &&
  (match f.dflt with
   | .str _ => !f.omitU
   | _ => true)

def clsOKU (c : Cls) : Bool :=
  namesNodup (c.fields.map (·.name)) && namesNodup (c.fields.map (·.wireS)) && c.fields.all fieldOKU

def clsesOKU (E : Env) : Bool := E.pkg.classes.all clsOKU

/-- classes failing `clsOKU`, for the report -/
def clsFailuresU (E : Env) : List Name := (E.pkg.classes.filter (fun c => !(clsOKU c))).map (·.name)

end LspVerif
