/-
  M2: the generated Python package as tables.  `Gen.pkg : Pkg` is regenerated on every run by
  tools/extract/x_pkg.py from the *imported* module (attrs.fields after resolve_types, enum
  members, module dicts) and from a converter built by get_converter() (rename / omit tables).
-/
import LspVerif.Core.Meta
namespace LspVerif

/-- Python annotations after `attrs.resolve_types` (typing has flattened and de-duplicated unions). -/
inductive PyTy
  | int | float | str | bool | none | any
  | obj                          -- `LSPObject` (= object)
  | cls (n : Name)               -- a generated attrs class
  | enum (n : Name)              -- a generated enum class
  | seq (t : PyTy)               -- Sequence[t]
  | dict (k v : PyTy)            -- Dict[k, v]
  | tuple (ts : List PyTy)       -- Tuple[t1, ..., tn]
  | union (ts : List PyTy)       -- Union[...]; Optional[X] = union [X, none]
  | literal (vs : List Name)     -- Literal["..."]
  | unknown (repr : String)      -- anything the translator does not recognise
  deriving Repr, Inhabited

/-- Equality of annotations up to the order of union members (typing.Union equality ignores order).
    Fuel bounds the nesting depth; annotations in this package nest at most 6 deep. -/
def PyTy.beqF : Nat → PyTy → PyTy → Bool
  | 0, _, _ => false
  | n + 1, a, b =>
    match a, b with
    | .int, .int | .float, .float | .str, .str | .bool, .bool | .none, .none | .any, .any | .obj, .obj => true
    | .cls a, .cls b => a == b
    | .enum a, .enum b => a == b
    | .seq a, .seq b => PyTy.beqF n a b
    | .dict a b, .dict c d => PyTy.beqF n a c && PyTy.beqF n b d
    | .tuple a, .tuple b => a.length == b.length && (a.zip b).all (fun p => PyTy.beqF n p.1 p.2)
    | .union a, .union b => a.all (fun x => b.any (PyTy.beqF n x)) && b.all (fun y => a.any (fun x => PyTy.beqF n x y))
    | .literal a, .literal b => a == b
    | .unknown a, .unknown b => a == b
    | _, _ => false

def PyTy.beq (a b : PyTy) : Bool := PyTy.beqF 12 a b

def PyTy.memList (a : PyTy) (bs : List PyTy) : Bool := bs.any (PyTy.beq a)

instance : BEq PyTy := ⟨PyTy.beq⟩

/-- `typing.Union[...]` construction: flatten nested unions, drop duplicates, collapse singletons. -/
def PyTy.flattenU : List PyTy → List PyTy
  | [] => []
  | .union ts :: rest => ts ++ PyTy.flattenU rest       -- members are already flat (built bottom-up)
  | t :: rest => t :: PyTy.flattenU rest

def PyTy.dedup : List PyTy → List PyTy → List PyTy
  | acc, [] => acc.reverse
  | acc, t :: rest => if PyTy.memList t acc then PyTy.dedup acc rest else PyTy.dedup (t :: acc) rest

def PyTy.mkUnion (ts : List PyTy) : PyTy :=
  match PyTy.dedup [] (PyTy.flattenU ts) with
  | [t] => t
  | ts' => .union ts'

def PyTy.optional (t : PyTy) : PyTy := PyTy.mkUnion [t, .none]

inductive Dflt
  | nothing | none | str (s : Name) | other (repr : String)
  deriving DecidableEq, Repr, Inhabited

/-- attrs validators as the generator emits them. -/
inductive Vld
  | none
  | int32                       -- validators.integer_validator
  | uint31                      -- validators.uinteger_validator
  | instStr | instBool | instFloat
  | inLit (vs : List Name)      -- attrs.validators.in_([...])
  | opt (v : Vld)               -- attrs.validators.optional(v)
  | other (repr : String)
  deriving DecidableEq, Repr, Inhabited

structure Field where
  name : Name              -- Python attribute name
  wireS : Name             -- key read by the structure function (override.rename)
  wireU : Name             -- key written by the unstructure function
  omitS : Bool             -- omit_if_default in the structure override (unused by cattrs; recorded)
  omitU : Bool             -- omit_if_default in the unstructure override
  ty : PyTy
  dflt : Dflt
  vld : Vld
  plain : Bool := true     -- init=True, kw_only=False, no converter, alias = name
  deriving Repr, Inhabited

structure Cls where
  name : Name
  fields : List Field
  forbidExtra : Bool := false    -- the generated structure function rejects unknown keys
  deriving Repr, Inhabited

structure PyEnum where
  name : Name
  base : Name                            -- n!"str" | n!"int" | n!""
  members : List (Name × EnumVal)      -- __members__, aliases included, definition order
  deriving Repr, Inhabited

structure MethodEntry where
  method : Name
  req : Name                   -- request / notification class name
  resp : Option Name           -- response class name
  params : Option PyTy
  regOpts : Option PyTy
  deriving Repr, Inhabited

structure Pkg where
  classes : List Cls
  enums : List PyEnum
  aliases : List (Name × PyTy)             -- module-level alias objects (non-class registry entries)
  methodToTypes : List MethodEntry
  directions : List (Name × Name)          -- _MESSAGE_DIRECTION
  constants : List (Name × Name)           -- UPPER_SNAKE module constants holding method strings
  registry : List Name                     -- keys of ALL_TYPES_MAP
  defined : List Name                      -- protocol types defined by the module (classes, enums, aliases)
  special : List Name                      -- _SPECIAL_PROPERTIES
  forbidExtra : Bool
  detailed : Bool
  deriving Repr, Inhabited

namespace Pkg
def findCls (P : Pkg) (n : Name) : Option Cls := P.classes.find? (·.name == n)
def findEnum (P : Pkg) (n : Name) : Option PyEnum := P.enums.find? (·.name == n)
end Pkg

def Cls.findWire (c : Cls) (w : Name) : Option Field := c.fields.find? (·.wireS == w)

end LspVerif
