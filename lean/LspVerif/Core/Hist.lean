/-
  C19 (histories): what a converter returned by `get_converter` can depend on.

  `Scan` is the table tools/extract/x_hist.py regenerates from lsprotocol/converters.py and
  lsprotocol/_hooks.py on every run; `Scan.ok` says that the module keeps no state besides the
  resolved-once flag (no mutable module-level container, no other `global`, no cache decorator or
  mutable default, no write through a module or class object) and that every hook closure captures
  only the converter it is registered on and local helper functions.  Under `Scan.ok` a creation is
  a function of its argument alone, which is what the history theorem (Props/C19.lean) states.
-/
import LspVerif.Core.Name
namespace LspVerif.Hist

structure Scan where
  bindings : List (Name × Name × Name)   -- file, module-level name, kind of the bound value
  globals : List (Name × Name × Name)    -- file, function, name declared `global`
  caches : List (Name × Name × Name)     -- file, function, cache decorator / mutable default
  writes : List (Name × Name × Name)     -- file, function, store/mutation through a non-local object
  captures : List (Name × Name × Name)   -- enclosing function, captured name, what it is there
  flow : List (Name × Name × Name)       -- file, entry point, callee (in source order)
  deriving Repr, Inhabited

def okBindingKinds : List Name := [n!"constant", n!"lock", n!"alias"]
/-- what a nested function may capture: a parameter of the registering function, a local function, or a local bound once to an
    immutable tuple of constants / names (a lookup table): none of them can carry state from one creation to the next -/
def okCaptureKinds : List Name := [n!"param", n!"function", n!"local:constant"]

/-- the calls the two entry points make, in order -/
def expectedFlow : List (Name × Name × Name) := [
  (n!"converters.py", n!"get_converter", n!"_hooks.register_hooks"),
  (n!"converters.py", n!"get_converter", n!"cattrs.Converter"),
  (n!"_hooks.py", n!"register_hooks", n!"_resolve_forward_references"),
  (n!"_hooks.py", n!"register_hooks", n!"_register_capabilities_hooks"),
  (n!"_hooks.py", n!"register_hooks", n!"_register_required_structure_hooks"),
  (n!"_hooks.py", n!"register_hooks", n!"_register_custom_property_hooks")]

def Scan.ok (s : Scan) : Bool :=
  s.bindings.all (fun b => okBindingKinds.contains b.2.2) &&
  s.globals.all (fun g => g == (n!"_hooks.py", n!"_resolve_forward_references", n!"_resolved_forward_references")) &&
  s.caches.isEmpty && s.writes.isEmpty &&
  s.captures.all (fun c => okCaptureKinds.contains c.2.2) &&
  s.flow == expectedFlow

/-- Module state a creation can read or write when `Scan.ok` holds: the resolved-once flag
    (the class table it guards is resolved exactly once, C19 schedules). -/
structure W where
  flag : Bool := false
  deriving DecidableEq, Repr

/-- `get_converter(c)`: resolve once, then register the hook tables on `c`; the registered hooks
    are a function `regs` of the argument (its configuration) only. -/
def create {Cfg Conv : Type} (regs : Cfg → Conv) (cfg : Cfg) (_w : W) : Conv × W := (regs cfg, { flag := true })

def after {Cfg Conv : Type} (regs : Cfg → Conv) (hist : List Cfg) (w : W) : W :=
  hist.foldl (fun w c => (create regs c w).2) w

end LspVerif.Hist
