/-
  Validators: Python values as validators see them, validator results, and the semantics of the
  attrs validator combinators the generated package uses.  The bodies of the two hand-written
  range validators are regenerated from /repo's validators.py on every run (x_valid.py).
-/
import LspVerif.Core.Py
namespace LspVerif

/-- Python runtime values as far as validators distinguish them. -/
inductive PV
  | int (i : Int)          -- an `int` that is not a bool
  | bool (b : Bool)        -- bool is a subclass of int
  | float (tag : Nat)
  | str (s : Name)
  | none
  | other (tag : Nat)      -- list, dict, object, ...
  deriving DecidableEq, Repr, Inhabited

/-- The integer a value is, for `isinstance(value, int)` values. -/
def PV.asInt : PV → Option Int
  | .int i => some i
  | .bool b => some (if b then 1 else 0)
  | _ => Option.none

inductive MsgPart
  | cls            -- instance.__class__.__qualname__
  | attr           -- attribute.name
  | value          -- the offending value
  | const (i : Int)
  | lit (s : String)
  deriving DecidableEq, Repr, Inhabited

inductive VR
  | ok                                 -- returned True / None without raising
  | valueError (msg : List MsgPart)
  | typeError
  | otherError
  deriving DecidableEq, Repr, Inhabited

def VR.accepted : VR → Bool
  | .ok => true
  | _ => false

theorem VR.accepted_iff (r : VR) : r.accepted = true ↔ r = .ok := by
  cases r <;> simp [VR.accepted]

/-- The two hand-written validators, as translated from validators.py. -/
structure VldEnv where
  int32 : PV → VR
  uint31 : PV → VR

/-- attrs' validator combinators (instance_of raises TypeError, in_ raises ValueError,
    optional passes None through). -/
def runVld (E : VldEnv) : Vld → PV → VR
  | .none, _ => .ok
  | .int32, v => E.int32 v
  | .uint31, v => E.uint31 v
  | .instStr, v => match v with | .str _ => .ok | _ => .typeError
  | .instBool, v => match v with | .bool _ => .ok | _ => .typeError
  | .instFloat, v => match v with | .float _ => .ok | _ => .typeError
  | .inLit vs, v => match v with | .str s => if vs.contains s then .ok else .valueError [] | _ => .valueError []
  | .opt w, v => match v with | .none => .ok | _ => runVld E w v
  | .other _, _ => .otherError

/-- Constructor entry point for one attribute: attrs' generated `__init__` assigns the argument
    and runs the attribute's validator on it. -/
def constructEntry (E : VldEnv) (f : Field) (v : PV) : VR := runVld E f.vld v

/-- Converter entry point for one attribute whose annotation is `int` or `Optional[int]`:
    cattrs calls `int(x)` on the JSON value (identity on ints; `Optional` passes None through),
    then the class `__init__` runs the validator. -/
def coerceInt : PV → Option PV
  | .int i => some (.int i)
  | .bool b => some (.int (if b then 1 else 0))   -- int(True) == 1
  | _ => none                                      -- floats/strings: result not modelled here

def structureEntryInt (E : VldEnv) (f : Field) (v : PV) : Option VR :=
  if PyTy.beq f.ty .int then (coerceInt v).map (runVld E f.vld)
  else if PyTy.beq f.ty (PyTy.optional .int) then
    (match v with | .none => some (runVld E f.vld .none) | _ => (coerceInt v).map (runVld E f.vld))
  else none

end LspVerif
