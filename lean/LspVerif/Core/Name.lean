/-
  Identifiers as natural numbers.  Kernel evaluation of `String` equality costs ~1 ms per
  comparison in Lean 4.33 (measured), which makes table obligations over a few thousand names
  impractical; `Nat` equality is GMP-accelerated.  A name is the big-endian number whose bytes are
  0x01 followed by the UTF-8 bytes of the string — an injective encoding.  The translators emit
  the literals; `n!"abc"` writes one by hand; `Name.toString` decodes for messages and drivers.
-/
import Lean
namespace LspVerif

abbrev Name := Nat

def Name.ofBytes (bs : List UInt8) : Name := bs.foldl (fun acc b => acc * 256 + b.toNat) 1

def Name.ofString (s : String) : Name := Name.ofBytes s.toUTF8.toList

partial def Name.bytesAux (n : Nat) (acc : List UInt8) : List UInt8 :=
  if n ≤ 1 then acc else Name.bytesAux (n / 256) (UInt8.ofNat (n % 256) :: acc)

def Name.toString (n : Name) : String :=
  match String.fromUTF8? (ByteArray.mk (Name.bytesAux n []).toArray) with
  | some s => s
  | none => s!"<name {n}>"

/-- `n!"abc"` elaborates to the numeral encoding "abc". -/
macro:max "n!" s:str : term =>
  let v := Name.ofString s.getString
  `(($(Lean.quote v) : Name))

example : n!"ab" = 0x016162 := by decide

end LspVerif
