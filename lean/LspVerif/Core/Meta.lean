/-
  M1: the LSP metamodel (generator/lsp.json) as Lean data.  The value `Gen.meta : Model` is
  regenerated from /repo's lsp.json on every run by tools/extract/x_meta.py.
  No Mathlib; everything here is executable and kernel-reducible (structural recursion only).
-/
import LspVerif.Core.Name
namespace LspVerif

inductive Base
  | uri | documentUri | integer | uinteger | decimal | regExp | string | boolean | null
  deriving DecidableEq, Repr, Inhabited

/-- Type expressions of the metamodel. `lit` carries (name, optional, type) per property. -/
inductive Ty
  | base (b : Base)
  | ref (n : Name)
  | array (e : Ty)
  | map (k v : Ty)
  | or (items : List Ty)
  | and (items : List Ty)
  | tuple (items : List Ty)
  | strLit (v : Name)
  | intLit (v : Int)
  | boolLit (v : Bool)
  | lit (props : List (Name × Bool × Ty))
  deriving Repr, Inhabited

mutual
def Ty.beq : Ty → Ty → Bool
  | .base a, .base b => a == b
  | .ref a, .ref b => a == b
  | .array a, .array b => Ty.beq a b
  | .map a b, .map c d => Ty.beq a c && Ty.beq b d
  | .or a, .or b => Ty.beqList a b
  | .and a, .and b => Ty.beqList a b
  | .tuple a, .tuple b => Ty.beqList a b
  | .strLit a, .strLit b => a == b
  | .intLit a, .intLit b => a == b
  | .boolLit a, .boolLit b => a == b
  | .lit a, .lit b => Ty.beqProps a b
  | _, _ => false
def Ty.beqList : List Ty → List Ty → Bool
  | [], [] => true
  | a :: as, b :: bs => Ty.beq a b && Ty.beqList as bs
  | _, _ => false
def Ty.beqProps : List (Name × Bool × Ty) → List (Name × Bool × Ty) → Bool
  | [], [] => true
  | (n, o, t) :: as, (m, p, u) :: bs => n == m && o == p && Ty.beq t u && Ty.beqProps as bs
  | _, _ => false
end

instance : BEq Ty := ⟨Ty.beq⟩

structure Prp where
  name : Name
  ty : Ty
  optional : Bool := false
  proposed : Bool := false
  deriving Repr, Inhabited

structure Struct where
  name : Name
  props : List Prp
  exts : List Name := []        -- `extends`, reference names in order
  mixins : List Name := []
  proposed : Bool := false
  deriving Repr, Inhabited

inductive EnumVal
  | s (v : Name) | i (v : Int)
  deriving DecidableEq, Repr, Inhabited

structure EnumEntry where
  name : Name
  value : EnumVal
  proposed : Bool := false
  deriving Repr, Inhabited

structure Enum where
  name : Name
  base : Base
  values : List EnumEntry
  custom : Bool := false          -- supportsCustomValues
  proposed : Bool := false
  deriving Repr, Inhabited

structure Alias where
  name : Name
  ty : Ty
  proposed : Bool := false
  deriving Repr, Inhabited

structure Request where
  method : Name
  typeName : Option Name := none
  params : Option Ty := none
  result : Ty
  partialResult : Option Ty := none
  errorData : Option Ty := none
  regOpts : Option Ty := none
  regMethod : Option Name := none
  direction : Name
  proposed : Bool := false
  deriving Repr, Inhabited

structure Notification where
  method : Name
  typeName : Option Name := none
  params : Option Ty := none
  regOpts : Option Ty := none
  regMethod : Option Name := none
  direction : Name
  proposed : Bool := false
  deriving Repr, Inhabited

structure Model where
  version : String
  structures : List Struct
  enumerations : List Enum
  aliases : List Alias
  requests : List Request
  notifications : List Notification
  deriving Repr, Inhabited

namespace Model

def findStruct (M : Model) (n : Name) : Option Struct := M.structures.find? (·.name == n)
def findEnum (M : Model) (n : Name) : Option Enum := M.enumerations.find? (·.name == n)
def findAlias (M : Model) (n : Name) : Option Alias := M.aliases.find? (·.name == n)

end Model

/-- "null-admitting" as the package documents it: the property's type is an `or` one of whose
    direct members is the base type `null`. -/
def Ty.nullAdmitting : Ty → Bool
  | .or items => items.any (fun t => match t with | .base .null => true | _ => false)
  | _ => false

def Ty.isStrLit : Ty → Bool
  | .strLit _ => true
  | _ => false

/-- Append the properties of `more` whose names are not yet present (first declaration wins). -/
def mergeProps (acc more : List Prp) : List Prp :=
  more.foldl (fun acc p => if acc.any (·.name == p.name) then acc else acc ++ [p]) acc

/-- All ancestors of a structure in depth-first pre-order over `extends ++ mixins`
    (the traversal all three plugins use), without de-duplication.  Fuel bounds the depth. -/
def ancestors (M : Model) : Nat → Name → List Struct
  | 0, _ => []
  | fuel + 1, n =>
    match M.findStruct n with
    | none => []
    | some s => (s.exts ++ s.mixins).flatMap (fun p =>
        match M.findStruct p with
        | none => []
        | some ps => ps :: ancestors M fuel p)

/-- Flattened properties: own first, then every ancestor's in pre-order; the first (nearest)
    declaration of a name wins. -/
def flatten (M : Model) (s : Struct) : List Prp :=
  (ancestors M M.structures.length s.name).foldl (fun acc a => mergeProps acc a.props) (mergeProps [] s.props)

/-- Distance-based alternative reading of "nearest": breadth-first by inheritance depth. Used only
    by the obligation that both readings give the same property set on the committed model. -/
def ancestorsAtDepth (M : Model) : Nat → List Name → List Struct
  | 0, _ => []
  | d + 1, names =>
    let here := names.filterMap M.findStruct
    let next := here.flatMap (fun s => s.exts ++ s.mixins)
    if next.isEmpty then here else here ++ ancestorsAtDepth M d next

def flattenBFS (M : Model) (s : Struct) : List Prp :=
  ((ancestorsAtDepth M M.structures.length (s.exts ++ s.mixins))).foldl
    (fun acc a => mergeProps acc a.props) (mergeProps [] s.props)

end LspVerif
