/-
  Typed readings.  `rep E bad n T v j` says: the Python value `v` is a well-typed instance of the
  annotation `T` (C03's notion: class instances with one value per attribute, converted sequence
  elements, tuples, enum members, uninterpreted JSON only at Any / LSPObject positions, at a union
  an instance of one alternative) *and* it is a faithful reading of the JSON value `j` (every key of
  every object node is a declared wire name of the class it is read as and is held by the
  corresponding attribute; attributes without a key hold their `None` default, and `None` is itself a
  typed value of their annotation; nothing that would be omitted on the way back is present).

  "j is valid for T" is then `∃ v n, rep E bad n T v j` — some typed reading exists (this is also
  C02's constructor path: any admissible choice of class at each union position).  The theorems
  (Props/Total.lean, Props/RoundTrip.lean):

      T1  rep … T v j  →  ∃ v', structure(j, T) = ok v' ∧ rep … T v' j        (C03, C14, half of C01)
      T2  rep … T v j  →  ∃ j', unstructure(v) = ok j' ∧ j ⊑ j'               (C02, other half of C01)

  `bad` lists the annotations excluded from the claim (known findings and unions whose dispatch the
  checker of Core/Dispatch.lean cannot decide); `rep` is false at them, so a value that reaches one
  is outside the theorem — explicitly.

  Definitions only (the line-protocol driver and kernel examples evaluate them).
-/
import LspVerif.Core.Cattrs
namespace LspVerif

/-! ### structural equality of annotations (order-sensitive, unlike `PyTy.beq`) -/

def eqL {α} (f : α → α → Bool) : List α → List α → Bool
  | [], [] => true
  | a :: as, b :: bs => f a b && eqL f as bs
  | _, _ => false

def PyTy.eqF : Nat → PyTy → PyTy → Bool
  | 0, _, _ => false
  | n + 1, a, b =>
    match a, b with
    | .int, .int | .float, .float | .str, .str | .bool, .bool | .none, .none | .any, .any | .obj, .obj => true
    | .cls a, .cls b => a == b
    | .enum a, .enum b => a == b
    | .seq a, .seq b => PyTy.eqF n a b
    | .dict a b, .dict c d => PyTy.eqF n a c && PyTy.eqF n b d
    | .tuple a, .tuple b => eqL (PyTy.eqF n) a b
    | .union a, .union b => eqL (PyTy.eqF n) a b
    | .literal a, .literal b => a == b
    | .unknown a, .unknown b => a == b
    | _, _ => false

/-- top level without fuel recursion (most comparisons fail on the constructor or the name; the
    kernel evaluates thousands of these per obligation) -/
def PyTy.eqb (a b : PyTy) : Bool :=
  match a, b with
  | .int, .int | .float, .float | .str, .str | .bool, .bool | .none, .none | .any, .any | .obj, .obj => true
  | .cls a, .cls b => a == b
  | .enum a, .enum b => a == b
  | .seq a, .seq b => PyTy.eqF 16 a b
  | .dict a b, .dict c d => PyTy.eqF 16 a c && PyTy.eqF 16 b d
  | .tuple a, .tuple b => eqL (PyTy.eqF 16) a b
  | .union a, .union b => eqL (PyTy.eqF 16) a b
  | .literal a, .literal b => a == b
  | .unknown a, .unknown b => a == b
  | _, _ => false

def inU (U : List PyTy) (t : PyTy) : Bool := U.any (PyTy.eqb t)

/-! ### helpers -/

def keysNodup : List (Name × Json) → Bool
  | [] => true
  | (k, _) :: rest => !(Json.hasKey rest k) && keysNodup rest

def all2 {α β} (f : α → β → Bool) : List α → List β → Bool
  | [], [] => true
  | a :: as, b :: bs => f a b && all2 f as bs
  | _, _ => false

def all3 {α β γ} (f : α → β → γ → Bool) : List α → List β → List γ → Bool
  | [], [], [] => true
  | a :: as, b :: bs, c :: cs => f a b c && all3 f as bs cs
  | _, _, _ => false

def PyVal.isNone : PyVal → Bool
  | .none => true
  | _ => false

def Json.isNull : Json → Bool
  | .null => true
  | _ => false

mutual
/-- `v` is the Python object `json.loads` made of `j` (what an Any / LSPObject position holds) -/
def isOfJson : PyVal → Json → Bool
  | .none, .null => true
  | .bool a, .bool b => a == b
  | .int a, .int b => a == b
  | .float d, .dec b => (match d with | .dec a => a == b | _ => false)
  | .str a, .str b => a == b
  | .list vs, .arr xs => isOfJsonL vs xs
  | .dict ps, .obj kvs => isOfJsonK ps kvs
  | _, _ => false
def isOfJsonL : List PyVal → List Json → Bool
  | [], [] => true
  | v :: vs, x :: xs => isOfJson v x && isOfJsonL vs xs
  | _, _ => false
def isOfJsonK : List (PyVal × PyVal) → List (Name × Json) → Bool
  | [], [] => true
  | (.str k', v) :: ps, (k, x) :: kvs => k' == k && isOfJson v x && isOfJsonK ps kvs
  | _, _ => false
end

/-- An explicit `null` under an optional property whose type does not admit null is not a valid
    value (the metamodel reading; the converter would read it as unset).  Where the type admits null
    only through `LSPAny` (`data?: LSPAny`), an explicit `null` is valid and reads as unset.  A string
    equal to the literal default of an omitted-when-default field does not occur in the package. -/
def PyTy.anyNull : PyTy → Bool
  | .any => true
  | .union ts => ts.any (fun t => match t with | .any => true | _ => false)
  | _ => false

def Field.faithfulJ (f : Field) (x : Json) : Bool :=
  match f.dflt with
  | .none => !(f.omitU && x.isNull && !f.ty.anyNull)
  | .str s => !(f.omitU && (match x with | .str t => t == s | _ => false))
  | _ => true

def isBad (bad : List PyTy) (t : PyTy) : Bool := bad.any (PyTy.eqb t)

/-- attribute values lined up with the fields of the class -/
def repFields (r : PyTy → PyVal → Json → Bool) (kvs : List (Name × Json)) : List Field → List (Name × PyVal) → Bool
  | [], [] => true
  | f :: fs, (a, v) :: vs =>
    a == f.name &&
    (match Json.lookup kvs f.wireS with
     | some x => r f.ty v x && f.faithfulJ x
     | Option.none => f.dflt == Dflt.none && v.isNone && r f.ty .none .null) &&
    repFields r kvs fs vs
  | _, _ => false

def repEntry (r : PyTy → PyVal → Json → Bool) (k t : PyTy) (p : PyVal × PyVal) (kv : Name × Json) : Bool :=
  (match k with
   | .str => (match p.1 with | .str s => s == kv.1 | _ => false)
   | _ => r k p.1 (.str kv.1)) &&
  r t p.2 kv.2

/-- a raw primitive equal to a member, at a union position that has an enum alternative (only at
    unions other than `Optional[X]`: those are unstructured by the runtime class of the value, so a
    raw primitive passes; an `Optional[Enum]` attribute would call `.value` on it) -/
def rawEnum (r : PyTy → PyVal → Json → Bool) (ts : List PyTy) (v : PyVal) (j : Json) : Bool :=
  ts.any (fun t => match t with
    | .enum e => (match v, j with
      | .int i, .int i' => i == i' && r (.enum e) (.enum e (.i i)) j
      | .str s, .str s' => s == s' && r (.enum e) (.enum e (.s s)) j
      | _, _ => false)
    | _ => false)

def rep (E : Env) (bad : List PyTy) : Nat → PyTy → PyVal → Json → Bool
  | 0, _, _, _ => false
  | n + 1, ty, v, j =>
    !(isBad bad ty) &&
    (match ty with
     | .int => (match v, j with | .int a, .int b => a == b | _, _ => false)
     | .float => (match v, j with
       | .float d, .int b => (match d with | .int a => a == b | _ => false)
       | .float d, .dec b => (match d with | .dec a => a == b | _ => false)
       | _, _ => false)
     | .str => (match v, j with | .str a, .str b => a == b | _, _ => false)
     | .bool => (match v, j with | .bool a, .bool b => a == b | _, _ => false)
     | .none => (match v, j with | .none, .null => true | _, _ => false)
     | .any => isOfJson v j
     | .obj => (match j with | .obj _ => isOfJson v j | _ => false)
     | .enum e =>
       (match E.pkg.findEnum e, v with
        | some pe, .enum e' val => e' == e && pe.members.any (·.2 == val) &&
          (match val, j with
           | .s a, .str b => a == b
           | .i a, .int b => a == b
           | _, _ => false)
        | _, _ => false)
     | .literal vs => (match v, j with | .str a, .str b => a == b && vs.contains a | _, _ => false)
     | .cls c =>
       (match E.pkg.findCls c, v, j with
        | some cl, .inst c' vals, .obj kvs =>
          c' == cl.name && keysNodup kvs && kvs.all (fun kv => cl.fields.any (·.wireS == kv.1)) &&
          repFields (rep E bad n) kvs cl.fields vals &&
          (match runVlds E cl.name cl.fields vals with | .ok _ => true | .error _ => false)
        | _, _, _ => false)
     | .seq t => (match v, j with | .list vs, .arr xs => all2 (rep E bad n t) vs xs | _, _ => false)
     | .dict k t =>
       (match v, j with
        | .dict ps, .obj kvs => keysNodup kvs && all2 (repEntry (rep E bad n) k t) ps kvs
        | _, _ => false)
     | .tuple ts =>
       (match v, j with
        | .tuple vs, .arr xs => all3 (rep E bad n) ts vs xs
        | _, _ => false)
     | .union ts => ts.any (fun t => rep E bad n t v j) || ((PyTy.optionalOf ts).isNone && rawEnum (rep E bad n) ts v j)
     | .unknown _ => false)

/-- `j` is valid for `T`: it has a typed reading. -/
def Rep (E : Env) (bad : List PyTy) (ty : PyTy) (v : PyVal) (j : Json) : Prop := ∃ n, rep E bad n ty v j = true

def Str (E : Env) (ty : PyTy) (j : Json) (v : PyVal) : Prop := ∃ n, structTy E n ty j = .ok v

end LspVerif
