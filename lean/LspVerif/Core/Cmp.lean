/-
  M-Cmp: CPython's rich-comparison protocol, `functools.total_ordering`, and Python tuple
  comparison, for the three classes with hand-written dunder methods
  (Position / Range / Location).  Hand-written model; validated against the interpreter by the
  C20 correspondence harness.  The *bodies* of the dunder methods are not written here: they are
  regenerated from /repo's `types.py` by tools/extract/x_pos.py on every run (`Gen.*`).
-/
namespace LspVerif.Cmp

structure Pos where
  line : Int
  character : Int
  deriving DecidableEq, Repr

structure Rng where
  start : Pos
  «end» : Pos
  deriving DecidableEq, Repr

structure Loc where
  uri : String
  range : Rng
  deriving DecidableEq, Repr

/-- A Python object taking part in a comparison. `other n` is an *unrelated* object (identity `n`):
    every rich-comparison method it has returns `NotImplemented` for our three classes
    (this is what `int`, `str`, `dict`, `object()` and unrelated attrs classes do). -/
inductive Obj
  | pos (p : Pos) | rng (r : Rng) | loc (l : Loc) | other (n : Nat)
  deriving DecidableEq, Repr

/-- Result of a dunder method: a bool or `NotImplemented`. -/
inductive R
  | bool (b : Bool) | notImpl
  deriving DecidableEq, Repr

/-- Result of an operator expression. -/
inductive Out
  | ok (b : Bool) | typeError
  deriving DecidableEq, Repr

inductive Op | lt | le | gt | ge | eq | ne
  deriving DecidableEq, Repr

/-- Python tuple `==` on int tuples. -/
def pyTupEq : List Int → List Int → Bool
  | [], [] => true
  | x :: xs, y :: ys => x == y && pyTupEq xs ys
  | _, _ => false

/-- Python tuple `>`: first differing position decides, else longer tuple is greater. -/
def pyTupGt : List Int → List Int → Bool
  | [], _ => false
  | _ :: _, [] => true
  | x :: xs, y :: ys => if x == y then pyTupGt xs ys else decide (x > y)

def pyTupLt : List Int → List Int → Bool
  | _, [] => false
  | [], _ :: _ => true
  | x :: xs, y :: ys => if x == y then pyTupLt xs ys else decide (x < y)

def pyTupGe (a b : List Int) : Bool := !pyTupLt a b
def pyTupLe (a b : List Int) : Bool := !pyTupGt a b

/-- How a class comes by one of its six rich-comparison methods. -/
inductive Impl (α : Type)
  | absent                                   -- inherited from `object`
  | source (f : α → Obj → R)                 -- body translated from types.py
  | ltFromGt | leFromGt | geFromGt           -- functools.total_ordering, root `__gt__`
  | gtFromLt | leFromLt | geFromLt           -- functools.total_ordering, root `__lt__`

structure Methods (α : Type) where
  eq : Impl α := .absent
  ne : Impl α := .absent
  lt : Impl α := .absent
  le : Impl α := .absent
  gt : Impl α := .absent
  ge : Impl α := .absent

structure Env where
  pos : Methods Pos
  rng : Methods Rng
  loc : Methods Loc

def Methods.get {α} (m : Methods α) : Op → Impl α
  | .eq => m.eq | .ne => m.ne | .lt => m.lt | .le => m.le | .gt => m.gt | .ge => m.ge

/-- Raw source-level method call (no derived methods). `none` = not defined in source. -/
def srcCall (E : Env) (op : Op) (x y : Obj) : Option R :=
  match x with
  | .pos p => match E.pos.get op with | .source f => some (f p y) | _ => none
  | .rng r => match E.rng.get op with | .source f => some (f r y) | _ => none
  | .loc l => match E.loc.get op with | .source f => some (f l y) | _ => none
  | .other _ => none

/-- `x.__eq__(y)` including `object.__eq__` (identity) as the inherited default. `same` = `x is y`. -/
def callEq (E : Env) (same : Bool) (x y : Obj) : R :=
  match x with
  | .other _ => .notImpl
  | _ => match srcCall E .eq x y with
    | some r => r
    | none => if same then .bool true else .notImpl

/-- The `==` operator: `x.__eq__(y)`, then reflected `y.__eq__(x)`, then identity. -/
def opEq (E : Env) (same : Bool) (x y : Obj) : Bool :=
  match callEq E same x y with
  | .bool b => b
  | .notImpl => match callEq E same y x with
    | .bool b => b
    | .notImpl => same

/-- `x.__ne__(y)`: source if defined, else `object.__ne__` which inverts `__eq__`. -/
def callNe (E : Env) (same : Bool) (x y : Obj) : R :=
  match x with
  | .other _ => .notImpl
  | _ => match srcCall E .ne x y with
    | some r => r
    | none => match callEq E same x y with
      | .bool b => .bool (!b)
      | .notImpl => .notImpl

def opNe (E : Env) (same : Bool) (x y : Obj) : Bool :=
  match callNe E same x y with
  | .bool b => b
  | .notImpl => match callNe E same y x with
    | .bool b => b
    | .notImpl => !same

def implOf (E : Env) (op : Op) : Obj → Option (Impl Unit)
  | .pos _ => some (match E.pos.get op with
      | .absent => .absent | .source _ => .source (fun _ _ => .notImpl)
      | .ltFromGt => .ltFromGt | .leFromGt => .leFromGt | .geFromGt => .geFromGt
      | .gtFromLt => .gtFromLt | .leFromLt => .leFromLt | .geFromLt => .geFromLt)
  | .rng _ => some (match E.rng.get op with
      | .absent => .absent | .source _ => .source (fun _ _ => .notImpl)
      | .ltFromGt => .ltFromGt | .leFromGt => .leFromGt | .geFromGt => .geFromGt
      | .gtFromLt => .gtFromLt | .leFromLt => .leFromLt | .geFromLt => .geFromLt)
  | .loc _ => some (match E.loc.get op with
      | .absent => .absent | .source _ => .source (fun _ _ => .notImpl)
      | .ltFromGt => .ltFromGt | .leFromGt => .leFromGt | .geFromGt => .geFromGt
      | .gtFromLt => .gtFromLt | .leFromLt => .leFromLt | .geFromLt => .geFromLt)
  | .other _ => none

/-- `type(x).__op__(x, y)` for an ordering operator, with `total_ordering`'s derived methods
    exactly as CPython's functools defines them:
      _lt_from_gt: r = gt(a,b); NotImplemented if r is; else (not r and a != b)
      _ge_from_gt: r = gt(a,b); NotImplemented if r is; else (r or a == b)
      _le_from_gt: r = gt(a,b); NotImplemented if r is; else (not r)
      _gt_from_lt: r = lt(a,b); ... (not r and a != b)
      _le_from_lt: (r or a == b) ; _ge_from_lt: (not r)
    `object.__lt__` etc. return NotImplemented. -/
def callOrd (E : Env) (same : Bool) (op : Op) (x y : Obj) : R :=
  match implOf E op x with
  | none => .notImpl
  | some .absent => .notImpl
  | some (.source _) => (srcCall E op x y).getD .notImpl
  | some .ltFromGt => match (srcCall E .gt x y).getD .notImpl with
      | .notImpl => .notImpl | .bool r => .bool (!r && opNe E same x y)
  | some .geFromGt => match (srcCall E .gt x y).getD .notImpl with
      | .notImpl => .notImpl | .bool r => .bool (r || opEq E same x y)
  | some .leFromGt => match (srcCall E .gt x y).getD .notImpl with
      | .notImpl => .notImpl | .bool r => .bool (!r)
  | some .gtFromLt => match (srcCall E .lt x y).getD .notImpl with
      | .notImpl => .notImpl | .bool r => .bool (!r && opNe E same x y)
  | some .leFromLt => match (srcCall E .lt x y).getD .notImpl with
      | .notImpl => .notImpl | .bool r => .bool (r || opEq E same x y)
  | some .geFromLt => match (srcCall E .lt x y).getD .notImpl with
      | .notImpl => .notImpl | .bool r => .bool (!r)

def Op.reflected : Op → Op
  | .lt => .gt | .gt => .lt | .le => .ge | .ge => .le | .eq => .eq | .ne => .ne

/-- The six binary comparison operators as the interpreter evaluates them (neither operand's type
    is a proper subclass of the other's, so the left operand's method goes first). -/
def pyOp (E : Env) (same : Bool) (op : Op) (x y : Obj) : Out :=
  match op with
  | .eq => .ok (opEq E same x y)
  | .ne => .ok (opNe E same x y)
  | _ => match callOrd E same op x y with
    | .bool b => .ok b
    | .notImpl => match callOrd E same op.reflected y x with
      | .bool b => .ok b
      | .notImpl => .typeError

/-- The specification side: the operator on the pair (line, character), lexicographically. -/
def lexLt (a b : Pos) : Prop := a.line < b.line ∨ (a.line = b.line ∧ a.character < b.character)

instance (a b : Pos) : Decidable (lexLt a b) := by unfold lexLt; infer_instance

def lexOp (op : Op) (a b : Pos) : Bool :=
  match op with
  | .lt => decide (lexLt a b)
  | .gt => decide (lexLt b a)
  | .le => !decide (lexLt b a)
  | .ge => !decide (lexLt a b)
  | .eq => decide (a = b)
  | .ne => !decide (a = b)

/-- Python `str(int)` / `format(int, "")`. -/
def pyIntStr (i : Int) : String := toString i

end LspVerif.Cmp
