/-
  M3: the converter semantics — the fragment of cattrs 24.1 / attrs 24.2 that the lsprotocol
  package uses, in cattrs' dispatch order, plus the small program language the hand-written hooks
  of _hooks.py are translated into (tools/extract/x_hooks.py).

  Hand-written model; validated against the real converter on every run by the correspondence
  harness (structure / unstructure lines for every root type).  Every definition is structurally
  recursive on the fuel, with list helpers taking the recursive call as an argument, so that the
  kernel can evaluate the model (witnesses, non-vacuity examples).

  Where the real code's behaviour on ill-typed input is not something any property speaks about
  (e.g. `int("٣")`, iterating a dict as a sequence) the model answers `Err.unspecified` and the
  correspondence harness skips the comparison; it never guesses.
-/
import LspVerif.Core.Json
import LspVerif.Core.Valid
namespace LspVerif

/-! ### Hook programs -/

inductive Path
  | self
  | idx (p : Path) (i : Nat)       -- p[i]
  | key (p : Path) (k : Name)      -- p["k"]
  deriving Repr, Inhabited, DecidableEq

/-- Runtime kinds of json.loads output (isinstance tests). -/
inductive Kind
  | none | bool | int | float | str | list | dict
  deriving Repr, Inhabited, DecidableEq

inductive Cond
  | tt | ff
  | isNone (p : Path)
  | isInst (p : Path) (ks : List Kind)   -- the translator expands `int` to [int, bool]
  | hasKey (p : Path) (k : Name)         -- "k" in p   (Python `in` on whatever p is)
  | keyEq (p : Path) (k : Name) (s : Name) -- p["k"] == "s"
  | lenEq (p : Path) (n : Nat)           -- len(p) == n
  | not (c : Cond)
  | and (a b : Cond)
  | or (a b : Cond)
  deriving Repr, Inhabited

inductive HExpr
  | retNone
  | retSelf                      -- return object_
  | retEmptyList                 -- return []
  | strOf                        -- str(object_)
  | structAs (t : PyTy)          -- converter.structure(object_, T)
  | mapEach (e : HExpr)          -- [e(item) for item in object_]
  | tupleInts (n : Nat)          -- (int(object_[0]), ..., int(object_[n-1]))
  | ite (c : Cond) (a b : HExpr)
  | raise (why : String)
  deriving Repr, Inhabited

def Json.kind : Json → Kind
  | .null => .none
  | .bool _ => .bool
  | .int _ => .int
  | .dec _ => .float
  | .str _ => .str
  | .arr _ => .list
  | .obj _ => .dict

/-- Evaluate a path; subscripting the wrong kind of object raises (TypeError/KeyError/IndexError). -/
def Path.eval : Path → Json → Except Err Json
  | .self, j => .ok j
  | .idx p i, j => do
    match ← p.eval j with
    | .arr xs => match xs[i]? with
      | some x => .ok x
      | none => .error (.hookRaise "IndexError")
    | .obj _ => .error (.hookRaise "KeyError (int key on dict)")
    | .str _ => .error (.unspecified "indexing a str")
    | _ => .error (.hookRaise "TypeError (not subscriptable)")
  | .key p k, j => do
    match ← p.eval j with
    | .obj kvs => match Json.lookup kvs k with
      | some x => .ok x
      | none => .error (.hookRaise "KeyError")
    | _ => .error (.hookRaise "TypeError (str index on non-dict)")

def Cond.eval : Cond → Json → Except Err Bool
  | .tt, _ => .ok true
  | .ff, _ => .ok false
  | .isNone p, j => do
    match ← p.eval j with
    | .null => .ok true
    | _ => .ok false
  | .isInst p ks, j => do
    let x ← p.eval j
    .ok (ks.contains x.kind)
  | .hasKey p k, j => do
    match ← p.eval j with
    | .obj kvs => .ok (Json.hasKey kvs k)
    | .arr xs => .ok (xs.any (fun x => match x with | .str s => s == k | _ => false))
    | .str _ => .error (.unspecified "substring test")
    | _ => .error (.hookRaise "TypeError (argument of type ... is not iterable)")
  | .keyEq p k s, j => do
    match ← (Path.key p k).eval j with
    | .str t => .ok (t == s)
    | _ => .ok false
  | .lenEq p n, j => do
    match ← p.eval j with
    | .arr xs => .ok (xs.length == n)
    | .obj kvs => .ok (kvs.length == n)
    | .str _ => .error (.unspecified "len of str")
    | _ => .error (.hookRaise "TypeError (no len)")
  | .not c, j => do
    let b ← c.eval j
    .ok (!b)
  | .and a b, j => do
    if ← a.eval j then b.eval j else .ok false
  | .or a b, j => do
    if ← a.eval j then .ok true else b.eval j

/-- `int(x)` for a JSON value x. -/
def coerceIntJ : Json → Except Err PyVal
  | .int i => .ok (.int i)
  | .bool b => .ok (.int (if b then 1 else 0))
  | .dec _ => .error (.unspecified "int(float)")
  | .str _ => .error (.unspecified "int(str)")
  | _ => .error (.typeError "int()")

def mapE {α β} (f : α → Except Err β) : List α → Except Err (List β)
  | [] => .ok []
  | x :: xs => do
    let y ← f x
    let ys ← mapE f xs
    .ok (y :: ys)

/-- Run a hook program; `recur` is `converter.structure`. -/
def HExpr.run (recur : PyTy → Json → Except Err PyVal) : HExpr → Json → Except Err PyVal
  | .retNone, _ => .ok .none
  | .retSelf, j => .ok (PyVal.ofJson j)
  | .retEmptyList, _ => .ok (.list [])
  | .strOf, j => (match j with | .str s => .ok (.str s) | _ => .ok (.strOf j))
  | .structAs t, j => recur t j
  | .mapEach e, j =>
    (match j with
     | .arr xs => do
       let ys ← mapE (e.run recur) xs
       .ok (.list ys)
     | .obj _ => .error (.unspecified "iterating a dict")
     | .str _ => .error (.unspecified "iterating a str")
     | _ => .error (.hookRaise "TypeError (not iterable)"))
  | .tupleInts n, j =>
    (match j with
     | .arr xs =>
       if xs.length < n then .error (.hookRaise "IndexError")
       else do
         let ys ← mapE coerceIntJ (xs.take n)
         .ok (.tuple ys)
     | .obj _ => .error (.hookRaise "KeyError")
     | .str _ => .error (.unspecified "indexing a str")
     | _ => .error (.hookRaise "TypeError (not subscriptable)"))
  | .ite c a b, j => do
    if ← c.eval j then a.run recur j else b.run recur j
  | .raise why, _ => .error (.hookRaise why)

/-! ### The environment -/

structure Env where
  pkg : Pkg
  /-- registered structure hooks: union registry and class registrations (type(None), LSPObject) -/
  hooks : List (PyTy × HExpr)
  /-- the functions cattrs' default disambiguator built for the unions that use it -/
  disamb : List (PyTy × HExpr)
  vld : VldEnv

def Env.hookFor (E : Env) (t : PyTy) : Option HExpr := (E.hooks.find? (fun h => PyTy.beq h.1 t)).map (·.2)
def Env.disambFor (E : Env) (t : PyTy) : Option HExpr := (E.disamb.find? (fun h => PyTy.beq h.1 t)).map (·.2)

/-! ### Validators on structured values -/

def PyVal.toPV : PyVal → Option PV
  | .none => some .none
  | .bool b => some (.bool b)
  | .int i => some (.int i)
  | .float _ => some (.float 0)
  | .str s => some (.str s)
  | .strOf _ => Option.none            -- a str whose content the model does not know
  | _ => some (.other 0)

def Dflt.toVal : Dflt → Option PyVal
  | .nothing => Option.none
  | .none => some .none
  | .str s => some (.str s)
  | .other _ => Option.none

def runFieldVld (E : Env) (cls : Name) (f : Field) (v : PyVal) : Except Err Unit :=
  match f.vld with
  | .none => .ok ()
  | vl =>
    match v.toPV with
    | Option.none =>
      (match vl with
       | .instStr | .opt .instStr => .ok ()
       | _ => .error (.unspecified "validator on str(x)"))
    | some pv => if (runVld E.vld vl pv).accepted then .ok () else .error (.validator cls f.name)

/-! ### Structuring -/

/- The dict function cattrs generates for an attrs class (`make_dict_structure_fn` with the
   rename overrides), followed by the attrs `__init__` (defaults, validators). -/

/-- The value of one attribute: the handler of its annotation applied to the value under its
    wire name, else its default, else a missing-key error. -/
def fieldVal (recur : PyTy → Json → Except Err PyVal) (cls : Name) (kvs : List (Name × Json)) (f : Field) :
    Except Err PyVal :=
  match Json.lookup kvs f.wireS with
  | some x => recur f.ty x
  | Option.none => match f.dflt.toVal with
    | some d => .ok d
    | Option.none => .error (.missingKey cls f.wireS)

def structFields (recur : PyTy → Json → Except Err PyVal) (cls : Name) (kvs : List (Name × Json)) :
    List Field → Except Err (List (Name × PyVal))
  | [] => .ok []
  | f :: fs =>
    match fieldVal recur cls kvs f with
    | .error e => .error e
    | .ok v =>
      match structFields recur cls kvs fs with
      | .error e => .error e
      | .ok rest => .ok ((f.name, v) :: rest)

def runVlds (E : Env) (cls : Name) : List Field → List (Name × PyVal) → Except Err Unit
  | f :: fs, (_, v) :: vs =>
    match runFieldVld E cls f v with
    | .error e => .error e
    | .ok _ => runVlds E cls fs vs
  | _, _ => .ok ()

/-- Structuring a JSON object as class `c`. -/
def structObj (E : Env) (recur : PyTy → Json → Except Err PyVal) (c : Cls) (kvs : List (Name × Json)) : Except Err PyVal :=
  if c.forbidExtra && kvs.any (fun kv => !(c.fields.any (·.wireS == kv.1))) then .error (.extraKeys c.name)
  else
    match structFields recur c.name kvs c.fields with
    | .error e => .error e
    | .ok vals =>
      match runVlds E c.name c.fields vals with
      | .error e => .error e
      | .ok _ => .ok (.inst c.name vals)

def structCls (E : Env) (recur : PyTy → Json → Except Err PyVal) (c : Cls) (j : Json) : Except Err PyVal :=
  match j with
  | .obj kvs => structObj E recur c kvs
  | .arr _ => .error (.unspecified "attrs class from a list")
  | .str _ => .error (.unspecified "attrs class from a str")
  | _ => .error (.typeError "attrs class from a scalar")

def lookupEnum (pe : PyEnum) (v : EnumVal) : Except Err PyVal :=
  if pe.members.any (·.2 == v) then .ok (.enum pe.name v) else .error (.notMember pe.name)

/-- Optional[X]: exactly two members, one of them None. -/
def PyTy.optionalOf : List PyTy → Option PyTy
  | [.none, x] => some x
  | [x, .none] => some x
  | _ => Option.none

def PyTy.isAttrsOrNone : PyTy → Bool
  | .cls _ => true
  | .none => true
  | _ => false

/-- one item of a mapping: the key handler on the key (identity for `str`), the value handler on the value -/
def dictEntry (recur : PyTy → Json → Except Err PyVal) (k v : PyTy) (kv : Name × Json) : Except Err (PyVal × PyVal) := do
  let kk ← (match k with
    | .str => Except.ok (PyVal.str kv.1)
    | _ => recur k (.str kv.1))
  let vv ← recur v kv.2
  .ok (kk, vv)

/-- `converter.structure(j, T)` in cattrs' dispatch order. -/
def structTy (E : Env) : Nat → PyTy → Json → Except Err PyVal
  | 0, _, _ => .error .fuel
  | n + 1, ty, j =>
    match E.hookFor ty with
    | some h => h.run (structTy E n) j
    | Option.none =>
      match ty with
      | .int => coerceIntJ j
      | .float =>
        (match j with
         | .int _ | .dec _ => .ok (.float j)
         | .bool b => .ok (.float (.int (if b then 1 else 0)))
         | .str _ => .error (.unspecified "float(str)")
         | _ => .error (.typeError "float()"))
      | .str => (match j with | .str s => .ok (.str s) | _ => .ok (.strOf j))
      | .bool =>
        .ok (.bool (match j with
          | .bool b => b
          | .null => false
          | .int i => i != 0
          | .dec _ => true
          | .str s => s != n!""
          | .arr xs => !xs.isEmpty
          | .obj kvs => !kvs.isEmpty))   -- bool(dict): only ill-typed input reaches this
      | .none => .ok (PyVal.ofJson j)
      | .any => .ok (PyVal.ofJson j)
      | .obj => .error (.noHandler "LSPObject")
      | .enum e =>
        (match E.pkg.findEnum e with
         | Option.none => .error (.noHandler "enum")
         | some pe =>
           match j with
           | .str s => lookupEnum pe (.s s)
           | .int i => lookupEnum pe (.i i)
           | .bool b => lookupEnum pe (.i (if b then 1 else 0))
           | .dec _ => .error (.unspecified "Enum(float)")
           | _ => .error (.notMember e))
      | .literal vs =>
        (match j with
         | .str s => if vs.contains s then .ok (.str s) else .error .literal
         | _ => .error .literal)
      | .cls c =>
        (match E.pkg.findCls c with
         | Option.none => .error (.noHandler "class")
         | some cl => structCls E (structTy E n) cl j)
      | .seq t =>
        (match j with
         | .arr xs => do
           let ys ← mapE (structTy E n t) xs
           .ok (.list ys)
         | .obj _ => .error (.unspecified "sequence from a dict")
         | .str _ => .error (.unspecified "sequence from a str")
         | _ => .error (.typeError "not iterable"))
      | .dict k v =>
        (match j with
         | .obj kvs => do
           let ps ← mapE (dictEntry (structTy E n) k v) kvs
           .ok (.dict ps)
         | _ => .error (.typeError "no .items()"))
      | .tuple ts =>
        (match j with
         | .arr xs =>
           if xs.length != ts.length then .error (.typeError "tuple length")
           else do
             let ys ← mapE (fun (p : PyTy × Json) => structTy E n p.1 p.2) (ts.zip xs)
             .ok (.tuple ys)
         | _ => .error (.unspecified "tuple from a non-list"))
      | .union ts =>
        (match PyTy.optionalOf ts with
         | some x => (match j with | .null => .ok .none | _ => structTy E n x j)
         | Option.none =>
           if ts.all PyTy.isAttrsOrNone then
             match E.disambFor ty with
             | some h => h.run (structTy E n) j
             | Option.none => .error (.noHandler "union (no disambiguator extracted)")
           else .error (.noHandler "union"))
      | .unknown s => .error (.noHandler s)

/-! ### Unstructuring -/

def EnumVal.toJson : EnumVal → Json
  | .s v => .str v
  | .i v => .int v

/-- one item of a dict passed to `json.dumps`: the key must be a str (or a str-enum member) -/
def rawEntry (r : PyVal → Except Err Json) (kv : PyVal × PyVal) : Except Err (Name × Json) := do
  let k ← (match kv.1 with
    | .str s => Except.ok s
    | .enum _ (.s s) => .ok s
    | _ => .error (.unspecified "non-str dict key"))
  .ok (k, ← r kv.2)

/-- What `json.dumps` makes of a value the converter returned unchanged (identity handler). -/
def rawJson : Nat → PyVal → Except Err Json
  | 0, _ => .error .fuel
  | n + 1, v =>
    match v with
    | .none => .ok .null
    | .bool b => .ok (.bool b)
    | .int i => .ok (.int i)
    | .float x => .ok x
    | .str s => .ok (.str s)
    | .strOf _ => .error (.unspecified "text of str(x)")
    | .enum _ val => .ok val.toJson            -- str / int subclass: dumps as its value
    | .inst _ _ => .error (.typeError "attrs instance is not JSON serialisable")
    | .list xs => do .ok (.arr (← mapE (rawJson n) xs))
    | .tuple xs => do .ok (.arr (← mapE (rawJson n) xs))
    | .dict kvs => do
      let ps ← mapE (rawEntry (rawJson n)) kvs
      .ok (.obj ps)

def lookupAttr (fields : List (Name × PyVal)) (a : Name) : Option PyVal :=
  match fields with
  | [] => Option.none
  | (k, v) :: rest => if k == a then some v else lookupAttr rest a

/-- Whether `make_dict_unstructure_fn` writes the key of field f for attribute value v. -/
def Field.written (f : Field) (v : PyVal) : Bool :=
  match f.dflt.toVal with
  | some d => !(f.omitU && PyVal.beq v d)
  | Option.none => true

def dictKey : Json → Except Err Name
  | .str s => .ok s
  | _ => .error (.unspecified "non-str dict key")

/-- The dict function cattrs generates for unstructuring an attrs class; `recur (some T)` is the
    handler chosen for annotation T when the function was generated. -/
def unstructFields (recur : Option PyTy → PyVal → Except Err Json) (vals : List (Name × PyVal)) :
    List Field → Except Err (List (Name × Json))
  | [] => .ok []
  | f :: fs =>
    match lookupAttr vals f.name with
    | Option.none => .error (.typeError "AttributeError")
    | some v =>
      if f.written v then
        match recur (some f.ty) v with
        | .error e => .error e
        | .ok x =>
          match unstructFields recur vals fs with
          | .error e => .error e
          | .ok rest => .ok ((f.wireU, x) :: rest)
      else unstructFields recur vals fs

/-- one item of a mapping: key handler (its result must be a str), value handler -/
def unstructEntry (rk rv : PyVal → Except Err Json) (kv : PyVal × PyVal) : Except Err (Name × Json) := do
  let k ← dictKey (← rk kv.1)
  .ok (k, ← rv kv.2)

def PyVal.isNoneV : PyVal → Bool
  | .none => true
  | _ => false

/-- the handler `make_dict_unstructure_fn` / the Optional rule uses for an inner annotation:
    `Any` dispatches on the runtime class -/
def PyTy.handlerOf : PyTy → Option PyTy
  | .any => Option.none
  | x => some x

def zipE {α β γ} (f : α → β → Except Err γ) : List α → List β → Except Err (List γ)
  | a :: as, b :: bs => do
    let c ← f a b
    let cs ← zipE f as bs
    .ok (c :: cs)
  | _, _ => .ok []

/-- `converter.unstructure`.  `unstruct E n none v` dispatches on the runtime class of `v`
    (`converter.unstructure(v)`); `unstruct E n (some T) v` is the handler
    `make_dict_unstructure_fn` picked for an attribute annotated `T`. -/
def unstruct (E : Env) : Nat → Option PyTy → PyVal → Except Err Json
  | 0, _, _ => .error .fuel
  | n + 1, Option.none, v =>
    (match v with
     | .inst c fields =>
       (match E.pkg.findCls c with
        | Option.none => .error (.noHandler "class")
        | some cl => do .ok (.obj (← unstructFields (unstruct E n) fields cl.fields)))
     | .enum _ val => .ok val.toJson
     | .list xs => do .ok (.arr (← mapE (unstruct E n Option.none) xs))
     | .tuple xs => do .ok (.arr (← mapE (unstruct E n Option.none) xs))
     | .dict kvs => do
       let ps ← mapE (unstructEntry (unstruct E n Option.none) (unstruct E n Option.none)) kvs
       .ok (.obj ps)
     | _ => rawJson (n + 1) v)
  | n + 1, some ty, v =>
    match ty with
    | .union ts =>
      (match PyTy.optionalOf ts with
       | some x => if v.isNoneV then .ok .null else unstruct E n x.handlerOf v
       | Option.none => unstruct E n Option.none v)
    | .any => unstruct E n Option.none v
    | .seq t =>
      (match v with
       | .list xs => do .ok (.arr (← mapE (unstruct E n (some t)) xs))
       | .tuple xs => do .ok (.arr (← mapE (unstruct E n (some t)) xs))
       | _ => .error (.unspecified "sequence handler on a non-sequence"))
    | .dict kt vt =>
      (match v with
       | .dict kvs => do
         let ps ← mapE (unstructEntry (unstruct E n (some kt)) (unstruct E n (some vt))) kvs
         .ok (.obj ps)
       | _ => .error (.typeError "mapping handler on a non-dict"))
    | .tuple ts =>
      (match v with
       | .tuple xs => do .ok (.arr (← zipE (fun t x => unstruct E n (some t) x) ts xs))
       | .list xs => do .ok (.arr (← zipE (fun t x => unstruct E n (some t) x) ts xs))
       | _ => .error (.unspecified "tuple handler on a non-sequence"))
    | .cls c =>
      (match E.pkg.findCls c, v with
       | some cl, .inst _ fields => do .ok (.obj (← unstructFields (unstruct E n) fields cl.fields))
       | _, _ => .error (.typeError "attrs handler on a non-instance"))
    | .enum _ =>
      (match v with
       | .enum _ val => .ok val.toJson
       | _ => .error (.typeError "Enum handler: no .value"))
    | _ => rawJson (n + 1) v        -- identity handler (int, float, str, bool, None, Literal, LSPObject)

end LspVerif
