/-
  The dispatch checker: a syntactic (Bool, kernel-evaluated) analysis of the hook programs of
  `_hooks.py` and of the disambiguators cattrs built, deciding — for one union annotation `T0` and one
  of its alternatives `A` at a time — that on *every* JSON value with a typed reading as `A` the
  program raises nothing, takes a definite branch at every test, and ends in a result that is a typed
  reading of the same value as some alternative of `T0`.

  Abstract state `St`: the alternative the value is known to be readable as, plus what the tests
  passed so far have established about the value itself (keys present / absent, empty / non-empty).
  `split c st` evaluates a condition abstractly: the refined states in which it is true and those in
  which it is false (or `none`: cannot be decided / may raise).  `chk h T0 st` walks the program.

  Soundness of all of this is Props/Dispatch.lean; this file is definitions only.
-/
import LspVerif.Core.Rep
namespace LspVerif

structure St where
  ty : PyTy
  present : List Name := []
  absent : List Name := []
  len : Option Bool := Option.none      -- some true: the empty array; some false: a non-empty array
  deriving Inhabited

def allKinds : List Kind := [.none, .bool, .int, .float, .str, .list, .dict]

/-- the runtime kinds a JSON value readable as the annotation can have (over-approximation) -/
def kindsOf (E : Env) : Nat → PyTy → List Kind
  | 0, _ => allKinds
  | n + 1, ty =>
    match ty with
    | .int => [.int]
    | .float => [.int, .float]
    | .str => [.str]
    | .bool => [.bool]
    | .none => [.none]
    | .any => allKinds
    | .obj => [.dict]
    | .cls _ => [.dict]
    | .enum e =>
      (match E.pkg.findEnum e with
       | some pe => pe.members.map (fun m => match m.2 with | .s _ => Kind.str | .i _ => Kind.int)
       | Option.none => [])
    | .seq _ => [.list]
    | .tuple _ => [.list]
    | .dict _ _ => [.dict]
    | .literal _ => [.str]
    | .union ts => ts.flatMap (kindsOf E n)
    | .unknown _ => []

def kindsFuel : Nat := 6

/-- a reading as this class certainly has the key: no `None` default to fall back on -/
def Field.certain (f : Field) : Bool := !(f.dflt == Dflt.none)

/-- the abstract state of the value a path leads to; `none` if the path may raise or is not understood -/
def absPath (E : Env) (st : St) : Path → Option St
  | .self => some st
  | .idx p i =>
    (match absPath E st p with
     | some s =>
       (match s.ty, i with
        | .seq t, 0 => if s.len == some false then some { ty := t } else Option.none
        | _, _ => Option.none)
     | Option.none => Option.none)
  | .key p k =>
    (match absPath E st p with
     | some s =>
       (match s.ty with
        | .cls c =>
          (match E.pkg.findCls c with
           | some cl =>
             (match cl.fields.find? (·.wireS == k) with
              | some f => if f.certain || s.present.contains k then some { ty := f.ty } else Option.none
              | Option.none => Option.none)
           | Option.none => Option.none)
        | _ => Option.none)
     | Option.none => Option.none)

abbrev Split := Option (List St × List St)

def splitAll (f : St → Split) : List St → Split
  | [] => some ([], [])
  | s :: rest =>
    (match f s, splitAll f rest with
     | some (t, e), some (ts, es) => some (t ++ ts, e ++ es)
     | _, _ => Option.none)

/-- the states in which the condition is true, and those in which it is false -/
def split (E : Env) : Cond → St → Split
  | .tt, st => some ([st], [])
  | .ff, st => some ([], [st])
  | .isNone p, st =>
    (match absPath E st p with
     | some s =>
       let ks := kindsOf E kindsFuel s.ty
       if ks.all (· == Kind.none) then some ([st], [])
       else if !(ks.contains Kind.none) then some ([], [st])
       else Option.none
     | Option.none => Option.none)
  | .isInst p ks', st =>
    (match absPath E st p with
     | some s =>
       let ks := kindsOf E kindsFuel s.ty
       if ks.all (fun k => ks'.contains k) then some ([st], [])
       else if ks.all (fun k => !(ks'.contains k)) then some ([], [st])
       else Option.none
     | Option.none => Option.none)
  | .hasKey p k, st =>
    (match absPath E st p with
     | some s =>
       (match s.ty with
        | .cls c =>
          (match E.pkg.findCls c with
           | some cl =>
             if s.present.contains k then some ([st], [])
             else if s.absent.contains k then some ([], [st])
             else
               (match cl.fields.find? (·.wireS == k) with
                | Option.none => some ([], [st])                 -- not a declared key of the class
                | some f =>
                  if f.certain then some ([st], [])
                  else
                    (match p with
                     | .self => some ([{ st with present := k :: st.present }], [{ st with absent := k :: st.absent }])
                     | _ => Option.none))
           | Option.none => Option.none)
        | _ => Option.none)
     | Option.none => Option.none)
  | .keyEq p k s', st =>
    (match absPath E st p with
     | some s =>
       (match s.ty with
        | .cls c =>
          (match E.pkg.findCls c with
           | some cl =>
             (match cl.fields.find? (·.wireS == k) with
              | some f =>
                if f.certain || s.present.contains k then
                  (match f.ty, f.vld with
                   | .str, .inLit [l] => if l == s' then some ([st], []) else some ([], [st])
                   | _, _ => Option.none)
                else Option.none
              | Option.none => Option.none)
           | Option.none => Option.none)
        | _ => Option.none)
     | Option.none => Option.none)
  | .lenEq p n, st =>
    (match p, n with
     | .self, 0 =>
       (match st.ty with
        | .seq _ =>
          (match st.len with
           | some true => some ([st], [])
           | some false => some ([], [st])
           | Option.none => some ([{ st with len := some true }], [{ st with len := some false }]))
        | _ => Option.none)
     | _, _ => Option.none)
  | .not c, st => (split E c st).map (fun p => (p.2, p.1))
  | .and a b, st =>
    (match split E a st with
     | some (ta, fa) =>
       (match splitAll (split E b) ta with
        | some (tb, fb) => some (tb, fa ++ fb)
        | Option.none => Option.none)
     | Option.none => Option.none)
  | .or a b, st =>
    (match split E a st with
     | some (ta, fa) =>
       (match splitAll (split E b) fa with
        | some (tb, fb) => some (ta ++ tb, fb)
        | Option.none => Option.none)
     | Option.none => Option.none)

/-! ### leaves -/

def PyTy.isNoneTy : PyTy → Bool
  | .none => true
  | _ => false

def PyTy.isEnumTy : PyTy → Bool
  | .enum _ => true
  | _ => false

def altsOf : PyTy → List PyTy
  | .union ts => ts
  | t => [t]

/-- every reading of a present value (not `null` if `nn`) as `a` is a reading as `b` -/
def tyConv (bad : List PyTy) (nn : Bool) (a b : PyTy) : Bool :=
  PyTy.eqb a b ||
  (!(isBad bad b) && (match b with
     | .union bs =>
       (altsOf a).all (fun t => bs.any (PyTy.eqb t) || (nn && t.isNoneTy)) &&
       ((PyTy.optionalOf bs).isNone || !((altsOf a).any PyTy.isEnumTy))
     | _ => false)) ||
  (nn && (match a with
     | .union [t, .none] => PyTy.eqb t b && !t.isEnumTy
     | .union [.none, t] => PyTy.eqb t b && !t.isEnumTy
     | _ => false))

def Vld.isBase : Vld → Bool
  | .int32 | .uint31 | .instStr | .instBool | .instFloat | .inLit _ => true
  | _ => false

def vldConv (nn : Bool) (va vb : Vld) : Bool :=
  vb == Vld.none || va == vb ||
  (match va with | .opt w => nn && w == vb | _ => false) ||
  (match vb with | .opt w => w == va && va.isBase | _ => false)

def absentVldOK (E : Env) (f : Field) : Bool :=
  match runFieldVld E 0 f .none with
  | .ok _ => true
  | .error _ => false

/-- `None` is a typed value of the annotation (what an attribute without a key holds) -/
def nullReads (E : Env) (bad : List PyTy) (t : PyTy) : Bool := rep E bad 4 t .none .null

/-- the attribute `fb` of the target class can take over what the source class `ca` read under the same key -/
def fieldConv (E : Env) (bad : List PyTy) (st : St) (ca : Cls) (fb : Field) : Bool :=
  match ca.fields.find? (·.wireS == fb.wireS) with
  | Option.none => fb.dflt == Dflt.none && absentVldOK E fb && nullReads E bad fb.ty
  | some fa =>
    let nn := (fa.omitU && fa.dflt == Dflt.none && !fa.ty.anyNull) || !((kindsOf E kindsFuel fa.ty).contains Kind.none)
    let sure := fa.certain || st.present.contains fb.wireS
    tyConv bad nn fa.ty fb.ty && vldConv nn fa.vld fb.vld &&
    (sure || (fb.dflt == Dflt.none && absentVldOK E fb && nullReads E bad fb.ty)) &&
    (match fb.dflt with
     | .none => !fb.omitU || nn || fb.ty.anyNull
     | .str _ => !fb.omitU
     | _ => true)

/-- A value readable as the state's class (with what is known about its keys) is readable as `B`:
    the same annotation, or a class that declares every key the value can have, with attributes
    that can take over the values read. -/
def subOK (E : Env) (bad : List PyTy) (st : St) (B : PyTy) : Bool :=
  PyTy.eqb st.ty B ||
  (match st.ty, B with
   | .cls a, .cls b =>
     (match E.pkg.findCls a, E.pkg.findCls b with
      | some ca, some cb =>
        !(isBad bad B) && cb.fields.all (fieldConv E bad st ca) &&
        ca.fields.all (fun fa => st.absent.contains fa.wireS || cb.fields.any (·.wireS == fa.wireS))
      | _, _ => false)
   | _, _ => false)

/-- a reading as `B` is a reading as `T0` -/
def inTy (bad : List PyTy) (T0 B : PyTy) : Bool :=
  PyTy.eqb T0 B || (!(isBad bad T0) && (match T0 with | .union ts => ts.any (PyTy.eqb B) | _ => false))

def inUnion (bad : List PyTy) (T0 B : PyTy) : Bool :=
  !(isBad bad T0) && (match T0 with | .union ts => ts.any (PyTy.eqb B) && (PyTy.optionalOf ts).isNone | _ => false)

def PyTy.isIntTy : PyTy → Bool
  | .int => true
  | _ => false

/-- annotations at which the only typed reading of `j` is `json.loads`' own object -/
def selfRepF (bad : List PyTy) : Nat → PyTy → Bool
  | 0, _ => false
  | n + 1, ty =>
    match ty with
    | .int | .str | .bool | .none | .any | .obj => true
    | .literal _ => true
    | .unknown _ => true
    | .seq t => selfRepF bad n t
    | .union ts => ts.all (fun t => selfRepF bad n t || (match t with | .float => ts.any PyTy.isIntTy && !(isBad bad .int) | _ => false))
    | _ => false

def PyTy.isUnknownTy : PyTy → Bool
  | .unknown _ => true
  | _ => false

def PyTy.isUnionTy : PyTy → Bool
  | .union _ => true
  | _ => false

def elemTargets : PyTy → List PyTy
  | .union ts => ts.filterMap (fun t => match t with | .seq t' => some t' | _ => Option.none)
  | .seq t' => [t']
  | _ => []

/-- walk a hook program from an abstract state; `T0` is the annotation the result must be a reading of -/
def chk (E : Env) (bad : List PyTy) (ok : PyTy → Bool) (top : Bool) : HExpr → PyTy → St → Bool
  | .ite c a b, T0, st =>
    (match split E c st with
     | some (ts, fs) => ts.all (chk E bad ok top a T0) && fs.all (chk E bad ok top b T0)
     | Option.none => false)
  | .retNone, T0, st => (match st.ty with | .none => true | _ => false) && inTy bad T0 .none
  | .retSelf, T0, st =>
    (selfRepF bad 8 st.ty && inTy bad T0 st.ty) ||
    (match st.ty with
     | .enum _ => inUnion bad T0 st.ty
     | .float => inTy bad T0 .float && inTy bad T0 .int && !(isBad bad .int)
     | _ => false)
  | .retEmptyList, T0, st =>
    (match st.ty with
     | .seq _ => st.len == some true && inTy bad T0 st.ty
     | _ => false)
  | .strOf, T0, st => (match st.ty with | .str => true | _ => false) && inTy bad T0 .str
  | .structAs B, T0, st => ok B && subOK E bad st B && inTy bad T0 B && !(top && B.isUnionTy)
  | .mapEach e, T0, st =>
    (match st.ty with
     | .seq t =>
       (elemTargets T0).any (fun t' =>
         inTy bad T0 (.seq t') && !(isBad bad (.seq t')) && (altsOf t).all (fun a => chk E bad ok false e t' { ty := a }))
     | _ => false)
  | .tupleInts n, T0, st =>
    (match st.ty with
     | .tuple ts => ts.length == n && ts.all PyTy.isIntTy && inTy bad T0 st.ty
     | _ => false)
  | .raise _, _, _ => false

def HExpr.isRetSelf : HExpr → Bool
  | .retSelf => true
  | _ => false

/-- the program registered for annotation `T0` is correct on every value readable as `T0` -/
def dispatchOK (E : Env) (bad : List PyTy) (ok : PyTy → Bool) (T0 : PyTy) (h : HExpr) : Bool :=
  match T0 with
  | .union ts => ts.all (fun a => a.isUnknownTy || chk E bad ok true h T0 { ty := a })
  | _ => h.isRetSelf && selfRepF bad 8 T0

def simpleTyF : Nat → PyTy → Bool
  | 0, _ => false
  | n + 1, ty =>
    match ty with
    | .int | .str | .bool | .none | .float => true
    | .literal _ => true
    | .union ts => (match PyTy.optionalOf ts with | some x => simpleTyF n x | Option.none => false)
    | _ => false

/-- Annotations structuring can recur into, checked structurally.  `H` lists the annotations that
    are dispatched by a program (a registered hook or a disambiguator cattrs built); their programs
    are checked once each (`progsOK`), classes are checked through the class table (`clsesOK`). -/
def lightOK (E : Env) (bad H : List PyTy) : Nat → PyTy → Bool
  | 0, _ => false
  | n + 1, ty =>
    isBad bad ty ||
    (match E.hookFor ty with
     | some h =>
       (match ty with
        | .union _ => inU H ty
        | _ => h.isRetSelf && selfRepF bad 8 ty)
     | Option.none =>
       match ty with
       | .seq t => lightOK E bad H n t
       | .dict k v => lightOK E bad H n k && lightOK E bad H n v
       | .tuple ts => ts.all (lightOK E bad H n)
       | .union ts =>
         (match PyTy.optionalOf ts with
          | some x => lightOK E bad H n x && !x.isUnionTy
          | Option.none => ts.all PyTy.isAttrsOrNone && (E.disambFor ty).isSome && inU H ty)
       | .obj => false
       | _ => true)

def lightFuel : Nat := 8

/-- the program that dispatches annotation `ty` passes the dispatch checker -/
def progOK (E : Env) (bad H : List PyTy) (ty : PyTy) : Bool :=
  isBad bad ty ||
  (match E.hookFor ty with
   | some h => dispatchOK E bad (lightOK E bad H lightFuel) ty h
   | Option.none =>
     (match E.disambFor ty with
      | some h => dispatchOK E bad (lightOK E bad H lightFuel) ty h
      | Option.none => false))

def clsOK (E : Env) (bad H : List PyTy) (cl : Cls) : Bool :=
  cl.fields.all (fun f => lightOK E bad H lightFuel f.ty && (f.vld == Vld.none || simpleTyF 4 f.ty))

def progsOK (E : Env) (bad H : List PyTy) : Bool := H.all (progOK E bad H)
def clsesOK (E : Env) (bad H : List PyTy) : Bool := E.pkg.classes.all (clsOK E bad H)

/-- failure lists instead of a Bool, so that a broken obligation names the annotation / class -/
def progFailures (E : Env) (bad H : List PyTy) : List PyTy := H.filter (fun t => !(progOK E bad H t))
def clsFailures (E : Env) (bad H : List PyTy) : List Name :=
  (E.pkg.classes.filter (fun c => !(clsOK E bad H c))).map (·.name)

end LspVerif
