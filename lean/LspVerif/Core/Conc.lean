/-
  M9: first-use forward-reference resolution under thread interleaving.

  Threads are program counters over the once-only section of `_resolve_forward_references`, whose
  *shape* (fast path? lock? flag re-checked under the lock? list materialised before resolving?)
  is regenerated from the function's AST by tools/extract/x_conc.py.  One step = one thread runs
  to its next yield point (Python line granularity inside the traced frames; each dict-iteration
  step of `filter(...)` is a yield point because `_filter` is a Python frame).

  Shared state: the flag, the lock, and the registry dict, of which only its *version* matters
  (it changes when `attrs.resolve_types` inserts `__builtins__` the first time); a dict iterator
  raises RuntimeError when it is advanced after the version changed.
-/
namespace LspVerif.Conc

structure Shape where
  fastPath : Bool       -- `if flag: return` before taking the lock
  locked : Bool         -- the section runs under a lock
  recheck : Bool        -- the flag is tested again inside the locked section
  materialised : Bool   -- the filtered items are materialised (list(...)) before any resolve
  deriving DecidableEq, Repr, Inhabited

inductive PC
  | start | wantLock | check | iter | resolve | setFlag | unlock | done
  deriving DecidableEq, Repr, Inhabited

structure T where
  pc : PC := .start
  snap : Nat := 0        -- dict version when this thread's iterator was created
  rem : Nat := 0         -- loop steps remaining
  raised : Bool := false
  deriving DecidableEq, Repr, Inhabited

structure G where
  flag : Bool := false
  version : Nat := 0
  builtins : Bool := false      -- `__builtins__` already inserted into the registry
  lock : Option Nat := none
  allResolved : Bool := false   -- some thread has run the resolve loop over every registry entry to its end
  th : Nat → T := fun _ => {}

def G.set (g : G) (t : Nat) (s : T) : G := { g with th := fun u => if u = t then s else g.th u }

/-- One scheduling step of thread `t`; `K` = number of registry entries (iteration / resolve steps). -/
def step (sh : Shape) (K : Nat) (g : G) (t : Nat) : G :=
  let s := g.th t
  if s.raised then g else
  match s.pc with
  | .start =>
    if sh.fastPath && g.flag then g.set t { s with pc := .done }
    else if sh.locked then g.set t { s with pc := .wantLock }
    else g.set t { s with pc := .check }
  | .wantLock =>
    (match g.lock with
     | none => { (g.set t { s with pc := .check }) with lock := some t }
     | some _ => g)                       -- blocked
  | .check =>
    if (sh.recheck || !sh.locked) && g.flag then g.set t { s with pc := .unlock }
    else g.set t { s with pc := .iter, snap := g.version, rem := K }
  | .iter =>
    if s.snap ≠ g.version then g.set t { s with raised := true }   -- dictionary changed size during iteration
    else if s.rem = 0 then g.set t { s with pc := .resolve, rem := K }
    else g.set t { s with rem := s.rem - 1 }
  | .resolve =>
    if s.rem = 0 then { (g.set t { s with pc := .setFlag }) with allResolved := true }
    else { (g.set t { s with rem := s.rem - 1 }) with
             builtins := true, version := if g.builtins then g.version else g.version + 1 }
  | .setFlag => { (g.set t { s with pc := .unlock }) with flag := true }
  | .unlock =>
    if sh.locked then { (g.set t { s with pc := .done }) with lock := none }
    else g.set t { s with pc := .done }
  | .done => g

def run (sh : Shape) (K : Nat) (g : G) (sched : List Nat) : G := sched.foldl (step sh K) g

def init : G := {}

/-- The shape for which the theorem below holds. -/
def Shape.safe (sh : Shape) : Bool := sh.locked && sh.recheck && sh.materialised

end LspVerif.Conc
