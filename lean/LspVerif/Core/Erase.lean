/-
  Definitions for the global C15 theorem (Props/C15.lean): erasing a key from every object node of a
  JSON value, and the traversal condition `clean` that mirrors `structTy` and says the key never
  sits inside a part of the value consumed as content.  Definitions only, so that the line-protocol
  driver can evaluate them.
-/
import LspVerif.Core.Cattrs
namespace LspVerif

mutual
def eraseJ (k : Name) : Json → Json
  | .arr xs => .arr (eraseL k xs)
  | .obj kvs => .obj (eraseKvs k kvs)
  | .null => .null
  | .bool b => .bool b
  | .int i => .int i
  | .dec d => .dec d
  | .str s => .str s
def eraseL (k : Name) : List Json → List Json
  | [] => []
  | x :: xs => eraseJ k x :: eraseL k xs
def eraseKvs (k : Name) : List (Name × Json) → List (Name × Json)
  | [] => []
  | (w, v) :: rest => if w == k then eraseKvs k rest else (w, eraseJ k v) :: eraseKvs k rest
end

mutual
/-- `k` is not a key of any object node of the value -/
def kFreeJ (k : Name) : Json → Bool
  | .arr xs => kFreeL k xs
  | .obj kvs => kFreeKvs k kvs
  | _ => true
def kFreeL (k : Name) : List Json → Bool
  | [] => true
  | x :: xs => kFreeJ k x && kFreeL k xs
def kFreeKvs (k : Name) : List (Name × Json) → Bool
  | [] => true
  | (w, v) :: rest => !(w == k) && kFreeJ k v && kFreeKvs k rest
end


/-- the only test whose value depends on the *set* of keys of an object: `len(obj)` -/
def Cond.clean (k : Name) : Cond → Json → Bool
  | .lenEq p _, j => (match p.eval j with
    | .ok (.obj kvs) => !(Json.hasKey kvs k)
    | _ => true)
  | .not c, j => c.clean k j
  | .and a b, j => a.clean k j && b.clean k j
  | .or a b, j => a.clean k j && b.clean k j
  | _, _ => true


/-- `clean` for a hook program; `cl` is `clean` of the recursive `converter.structure` calls -/
def HExpr.clean (k : Name) (cl : PyTy → Json → Bool) : HExpr → Json → Bool
  | .retNone, _ => true
  | .retEmptyList, _ => true
  | .raise _, _ => true
  | .retSelf, j => kFreeJ k j
  | .strOf, j => kFreeJ k j
  | .tupleInts _, j => kFreeJ k j
  | .structAs t, j => cl t j
  | .mapEach e, j => (match j with
    | .arr xs => xs.all (e.clean k cl)
    | _ => true)
  | .ite c a b, j => c.clean k j && (match c.eval j with
    | .ok true => a.clean k cl j
    | .ok false => b.clean k cl j
    | .error _ => true)


/-- Walks `j` as `structTy E n ty j` does.  True iff key `k` does not occur inside any part of `j`
    that is consumed as content rather than as a protocol object. -/
def clean (E : Env) (k : Name) : Nat → PyTy → Json → Bool
  | 0, _, _ => true
  | n + 1, ty, j =>
    match E.hookFor ty with
    | some h => h.clean k (clean E k n) j
    | Option.none =>
      match ty with
      | .cls c =>
        (match E.pkg.findCls c, j with
         | some cl, .obj kvs => cl.fields.all (fun f => match Json.lookup kvs f.wireS with
           | some x => clean E k n f.ty x
           | Option.none => true)
         | _, _ => true)
      | .seq t => (match j with
        | .arr xs => xs.all (clean E k n t)
        | _ => true)
      | .dict _ vt => (match j with
        | .obj kvs => !(Json.hasKey kvs k) && kvs.all (fun kv => clean E k n vt kv.2)
        | _ => true)
      | .tuple ts => (match j with
        | .arr xs => (ts.zip xs).all (fun p => clean E k n p.1 p.2)
        | _ => true)
      | .union ts =>
        (match PyTy.optionalOf ts with
         | some x => (match j with
           | .null => true
           | _ => clean E k n x j)
         | Option.none =>
           if ts.all PyTy.isAttrsOrNone then
             (match E.disambFor ty with
              | some h => h.clean k (clean E k n) j
              | Option.none => true)
           else true)
      | _ => kFreeJ k j


end LspVerif
