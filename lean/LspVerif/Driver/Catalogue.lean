/- Line-protocol driver for the method catalogue (C09 correspondence). -/
import LspVerif.Spec.Messages
namespace LspVerif.Driver
open LspVerif

def catStep (P : Pkg) (line : String) : String :=
  match line.trimAscii.toString.splitOn " " with
  | ["dir", m] =>
    match P.directions.find? (·.1 == Name.ofString m) with
    | some d => d.2.toString
    | none => "KeyError"
  | ["m2t", m] =>
    match P.methodToTypes.find? (·.method == Name.ofString m) with
    | some e => e.req.toString ++ " " ++ (match e.resp with | some r => r.toString | none => "None")
    | none => "KeyError"
  | ["default-method", c] =>
    match P.findCls (Name.ofString c) with
    | some cl => (match cl.fields.find? (·.name == n!"method") with
      | some f => (match f.dflt with | .str s => s.toString | _ => "no-default")
      | none => "no-method-attr")
    | none => "no-class"
  | ["registered", n] => if P.registry.contains (Name.ofString n) then "yes" else "no"
  | _ => "bad-op"

partial def catLoop (P : Pkg) (h : IO.FS.Stream) : IO Unit := do
  let line ← h.getLine
  if line.isEmpty then return ()
  IO.println (catStep P line)
  catLoop P h

def catMain (P : Pkg) : IO Unit := do catLoop P (← IO.getStdin)

end LspVerif.Driver
