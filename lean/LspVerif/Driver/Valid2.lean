/- Line-protocol driver for strict validity (C17): `v <kind> <method> <json>` -> true|false -/
import LspVerif.Driver.Conv
import LspVerif.Spec.StrictValid
namespace LspVerif.Driver
open LspVerif

def strictStep (M : Model) (line : String) : String :=
  match line.trimAscii.toString.splitOn " " with
  | "v" :: kind :: method :: rest =>
    match Lean.Json.parse (" ".intercalate rest) with
    | .ok lj =>
      let j := ofLeanJson lj
      let m := Name.ofString method
      (match kind with
       | "request" => (match M.requests.find? (·.method == m) with | some r => toString (validRequest M r j) | none => "no-such-method")
       | "response" => (match M.requests.find? (·.method == m) with | some r => toString (validResponse M r j) | none => "no-such-method")
       | "notification" => (match M.notifications.find? (·.method == m) with | some r => toString (validNotification M r j) | none => "no-such-method")
       | _ => "bad-op")
    | .error _ => "bad-json"
  | _ => "bad-op"

partial def strictLoop (M : Model) (h : IO.FS.Stream) : IO Unit := do
  let line ← h.getLine
  if line.isEmpty then return ()
  IO.println (strictStep M line)
  strictLoop M h

def strictMain (M : Model) : IO Unit := do strictLoop M (← IO.getStdin)
end LspVerif.Driver
