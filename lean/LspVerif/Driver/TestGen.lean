/- Driver for the testdata-generator model (C17 correspondence): prints every vector of every message, in order. -/
import LspVerif.Driver.Conv
import LspVerif.Spec.TestGen
namespace LspVerif.Driver
open LspVerif LspVerif.TestGen

/-- JSON text with the key order of the value (the file content depends on it) -/
partial def showJsonO : Json → String
  | .null => "null"
  | .bool b => if b then "true" else "false"
  | .int i => toString i
  | .dec d => Name.toString d
  | .str s => quote s
  | .arr xs => "[" ++ ",".intercalate (xs.map showJsonO) ++ "]"
  | .obj kvs => "{" ++ ",".intercalate (kvs.map (fun kv => quote kv.1 ++ ":" ++ showJsonO kv.2)) ++ "}"

def emit (kind : String) (method : Name) (r : Option (List (Bool × Json))) : IO Unit := do
  match r with
  | none => IO.println s!"{kind}\t{method.toString}\tCRASH"
  | some vs => for p in vs do IO.println s!"{kind}\t{method.toString}\t{if p.1 then "True" else "False"}\t{showJsonO p.2}"

def testGenMain (M0 : Model) : IO Unit := do
  let M := withResponseError M0
  for r in M.requests do
    emit "request" r.method (genRequest M r)
    emit "response" r.method (genResponse M r)
  for n in M.notifications do
    emit "notification" n.method (genNotification M n)
end LspVerif.Driver
