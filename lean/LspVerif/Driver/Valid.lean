/- Line-protocol driver for validators and the two entry points (C12 correspondence). -/
import LspVerif.Core.Valid
namespace LspVerif.Driver
open LspVerif

def parsePV (s : String) : Option PV :=
  match s.splitOn ":" with
  | ["i", n] => n.toInt?.map .int
  | ["b", "1"] => some (.bool true)
  | ["b", "0"] => some (.bool false)
  | ["f", n] => n.toNat?.map .float
  | ["s", n] => n.toNat?.map (fun k => .str k)
  | ["n"] => some .none
  | ["o", n] => n.toNat?.map .other
  | _ => Option.none

def showVR : VR → String
  | .ok => "ok"
  | .valueError parts => "ValueError:" ++ (if parts.contains .cls then "1" else "0") ++ (if parts.contains .attr then "1" else "0")
  | .typeError => "TypeError"
  | .otherError => "Error"

def verdict : Option VR → String
  | some r => if r.accepted then "acc" else "rej"
  | Option.none => "unspecified"

def validStep (E : VldEnv) (P : Pkg) (line : String) : String :=
  match line.trimAscii.toString.splitOn " " with
  | ["val", which, v] =>
    match parsePV v with
    | some pv => (match which with
      | "int32" => showVR (E.int32 pv)
      | "uint31" => showVR (E.uint31 pv)
      | _ => "bad-op")
    | Option.none => "bad-op"
  | ["entry", cls, attr, v] =>
    match parsePV v, P.findCls (Name.ofString cls) with
    | some pv, some c =>
      (match c.fields.find? (·.name == Name.ofString attr) with
       | some f =>
         (match structureEntryInt E f pv with
          | Option.none => "unspecified"
          | some r => verdict (some (constructEntry E f pv)) ++ " " ++ verdict (some r))
       | Option.none => "no-such-attr")
    | _, _ => "bad-op"
  | _ => "bad-op"

partial def validLoop (E : VldEnv) (P : Pkg) (h : IO.FS.Stream) : IO Unit := do
  let line ← h.getLine
  if line.isEmpty then return ()
  IO.println (validStep E P line)
  validLoop E P h

def validMain (E : VldEnv) (P : Pkg) : IO Unit := do
  validLoop E P (← IO.getStdin)

end LspVerif.Driver
