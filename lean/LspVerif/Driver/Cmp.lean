/- Line-protocol driver for the comparison model (C20 correspondence). -/
import LspVerif.Core.Cmp
namespace LspVerif.Driver
open LspVerif.Cmp

def parseObj (s : String) : Option Obj :=
  match s.splitOn "," with
  | ["P", l, c] => do some (.pos ⟨← l.toInt?, ← c.toInt?⟩)
  | ["R", a, b, c, d] => do some (.rng ⟨⟨← a.toInt?, ← b.toInt?⟩, ⟨← c.toInt?, ← d.toInt?⟩⟩)
  | ["L", u, a, b, c, d] => do some (.loc ⟨u, ⟨⟨← a.toInt?, ← b.toInt?⟩, ⟨← c.toInt?, ← d.toInt?⟩⟩⟩)
  | ["O", n] => do some (.other (← n.toNat?))
  | _ => none

def parseOp : String → Option Op
  | "lt" => some .lt | "le" => some .le | "gt" => some .gt | "ge" => some .ge
  | "eq" => some .eq | "ne" => some .ne | _ => none

structure Reprs where
  pos : Pos → String
  rng : Rng → String
  loc : Loc → String

def cmpStep (E : Env) (rp : Reprs) (line : String) : String :=
  match line.trimAscii.toString.splitOn " " with
  | ["cmp", op, same, a, b] =>
    match parseOp op, parseObj a, parseObj b with
    | some op, some a, some b =>
      match pyOp E (same == "1") op a b with
      | .ok true => "true" | .ok false => "false" | .typeError => "TypeError"
    | _, _, _ => "bad-op"
  | ["repr", a] =>
    match parseObj a with
    | some (.pos p) => rp.pos p
    | some (.rng r) => rp.rng r
    | some (.loc l) => rp.loc l
    | _ => "bad-op"
  | _ => "bad-op"

partial def cmpLoop (E : Env) (rp : Reprs) (h : IO.FS.Stream) : IO Unit := do
  let line ← h.getLine
  if line.isEmpty then return ()
  IO.println (cmpStep E rp line)
  cmpLoop E rp h

def cmpMain (E : Env) (rp : Reprs) : IO Unit := do
  cmpLoop E rp (← IO.getStdin)

end LspVerif.Driver
