/- Line-protocol driver: does a generated (metamodel-valid) value have a typed reading in the sense of
   Core/Rep.lean, i.e. does it meet the hypothesis of T1/T2?  Input lines `ROOT JSON`.
   The reading tried is the one `structTy` itself produces. -/
import LspVerif.Driver.Conv
import LspVerif.Core.Rep
namespace LspVerif.Driver
open LspVerif

def repStep (E : Env) (bad : List PyTy) (line : String) : String :=
  let line := line.trimAscii.toString
  match line.splitOn " " with
  | ty :: rest =>
    let txt := " ".intercalate rest
    match resolveType E ty, Lean.Json.parse txt with
    | some t, .ok lj =>
      let j := ofLeanJson lj
      (match structTy E fuel t j with
       | .ok v =>
         if rep E bad fuel t v j then "rep:true"
         else if rep E [] fuel t v j then "rep:excluded"
         else "rep:false"
       | .error e => if isUnspec e then "unspecified" else "struct-err")
    | none, _ => "no-such-type"
    | _, .error _ => "bad-json"
  | _ => "bad-op"

partial def repLoop (E : Env) (bad : List PyTy) (h : IO.FS.Stream) : IO Unit := do
  let line ← h.getLine
  if line.isEmpty then return ()
  IO.println (repStep E bad line)
  repLoop E bad h

def repMain (E : Env) (bad : List PyTy) : IO Unit := do repLoop E bad (← IO.getStdin)

end LspVerif.Driver
