/- Line-protocol driver: does a generated (metamodel-valid) value have a typed reading in the sense of
   Core/Rep.lean, i.e. does it meet the hypothesis of T1/T2 — and, evaluated on it, the conclusion of T2
   (Core/Norm.lean)?  Input lines `ROOT JSON`.
   The reading tried is the one `structTy` itself produces. -/
import LspVerif.Driver.Conv
import LspVerif.Core.Rep
import LspVerif.Core.Norm
namespace LspVerif.Driver
open LspVerif

def repStep (E : Env) (bad : List PyTy) (line : String) : String :=
  let line := line.trimAscii.toString
  match line.splitOn " " with
  | ty :: rest =>
    let txt := " ".intercalate rest
    match resolveType E ty, Lean.Json.parse txt with
    | some t, .ok lj =>
      let j := ofLeanJson lj
      (match structTy E fuel t j with
       | .ok v =>
         if rep E bad fuel t v j then
           -- the conclusion of T2 evaluated on this value: the model's output is related to the input by
           -- the null rule and is read by the same typed value (the correspondence checks model output = real output)
           (match unstruct E fuel (some t) v with
            | .ok o => "rep:true nrel:" ++ toString (nrel E fuel t j o) ++ " outrep:" ++ toString (rep E bad fuel t v o)
            | .error _ => "rep:true unstruct-err")
         else if rep E [] fuel t v j then "rep:excluded"
         else "rep:false"
       | .error e => if isUnspec e then "unspecified" else "struct-err")
    | none, _ => "no-such-type"
    | _, .error _ => "bad-json"
  | _ => "bad-op"

partial def repLoop (E : Env) (bad : List PyTy) (h : IO.FS.Stream) : IO Unit := do
  let line ← h.getLine
  if line.isEmpty then return ()
  IO.println (repStep E bad line)
  repLoop E bad h

def repMain (E : Env) (bad : List PyTy) : IO Unit := do repLoop E bad (← IO.getStdin)

end LspVerif.Driver
