/- Line-protocol driver: does a generated (metamodel-valid) value have a typed reading in the sense of
   Core/Rep.lean, i.e. does it meet the hypothesis of T1/T2 — and, evaluated on it, the conclusion of T2
   (Core/Norm.lean)?  Input lines `ROOT JSON`.
   The reading tried is the one `structTy` itself produces. -/
import LspVerif.Driver.Conv
import LspVerif.Core.Rep
import LspVerif.Core.Norm
import LspVerif.Spec.Link
namespace LspVerif.Driver
open LspVerif

/-- `Json.wfF` with enough fuel, and closed metamodel validity of the value for the root (Spec/Link.lean): the hypothesis of the
    link theorem evaluated on the generated value -/
def validTag (M : Option Model) (E : Env) (ty : String) (j : Json) : String :=
  match M with
  | Option.none => ""
  | some M =>
    " wf:" ++ toString (Json.wfF 400 j) ++ " valid:" ++
      (match validRootC M E (Name.ofString ty) j with
       | some b => toString b
       | Option.none => "na")

def repStep (M : Option Model) (E : Env) (bad : List PyTy) (line : String) : String :=
  let line := line.trimAscii.toString
  match line.splitOn " " with
  | ty :: rest =>
    let txt := " ".intercalate rest
    match resolveType E ty, Lean.Json.parse txt with
    | some t, .ok lj =>
      let j := ofLeanJson lj
      (fun core => core ++ validTag M E ty j)
      (match structTy E fuel t j with
       | .ok v =>
         if rep E bad fuel t v j then
           -- the conclusion of T2 evaluated on this value: the model's output is related to the input by
           -- the null rule and is read by the same typed value (the correspondence checks model output = real output)
           (match unstruct E fuel (some t) v with
            | .ok o => "rep:true nrel:" ++ toString (nrel E fuel t j o) ++ " outrep:" ++ toString (rep E bad fuel t v o)
            | .error _ => "rep:true unstruct-err")
         else if rep E [] fuel t v j then "rep:excluded"
         else "rep:false"
       | .error e => if isUnspec e then "unspecified" else "struct-err")
    | none, _ => "no-such-type"
    | _, .error _ => "bad-json"
  | _ => "bad-op"

partial def repLoop (M : Option Model) (E : Env) (bad : List PyTy) (h : IO.FS.Stream) : IO Unit := do
  let line ← h.getLine
  if line.isEmpty then return ()
  IO.println (repStep M E bad line)
  repLoop M E bad h

def repMain (E : Env) (bad : List PyTy) (M : Option Model := Option.none) : IO Unit := do repLoop M E bad (← IO.getStdin)

end LspVerif.Driver
