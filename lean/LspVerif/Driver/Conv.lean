/- Line-protocol driver for the converter model (C01–C03, C10, C11, C13–C15 correspondence). -/
import Lean.Data.Json
import LspVerif.Core.Cattrs
import LspVerif.Core.Erase
namespace LspVerif.Driver
open LspVerif

partial def ofLeanJson : Lean.Json → Json
  | .null => .null
  | .bool b => .bool b
  | .num n => if n.exponent == 0 then .int n.mantissa else .dec (Name.ofString (toString n))
  | .str s => .str (Name.ofString s)
  | .arr xs => .arr (xs.toList.map ofLeanJson)
  | .obj kvs => .obj (kvs.toList.map (fun (k, v) => (Name.ofString k, ofLeanJson v)))

def escapeStr (s : String) : String :=
  s.foldl (fun acc c =>
    if c == '"' then acc ++ "\\\"" else if c == '\\' then acc ++ "\\\\" else acc.push c) ""

def quote (n : Name) : String := "\"" ++ escapeStr n.toString ++ "\""

def sortKvs (kvs : List (String × String)) : List (String × String) :=
  (kvs.toArray.qsort (fun a b => a.1 < b.1)).toList

/-- canonical JSON text: keys sorted, no spaces -/
partial def showJson : Json → String
  | .null => "null"
  | .bool b => if b then "true" else "false"
  | .int i => toString i
  | .dec d => Name.toString d
  | .str s => quote s
  | .arr xs => "[" ++ ",".intercalate (xs.map showJson) ++ "]"
  | .obj kvs =>
    "{" ++ ",".intercalate ((sortKvs (kvs.map (fun (k, v) => (quote k, showJson v)))).map (fun (k, v) => k ++ ":" ++ v)) ++ "}"

def showEnumVal : EnumVal → String
  | .s v => quote v
  | .i v => toString v

/-- canonical text of a structured value -/
partial def showVal : PyVal → String
  | .none => "None"
  | .bool b => if b then "True" else "False"
  | .int i => toString i
  | .float x => "float(" ++ showJson x ++ ")"
  | .str s => quote s
  | .strOf _ => "strOf"
  | .enum e v => e.toString ++ "(" ++ showEnumVal v ++ ")"
  | .inst c fs => c.toString ++ "{" ++ ",".intercalate (fs.map (fun (k, v) => k.toString ++ "=" ++ showVal v)) ++ "}"
  | .list xs => "[" ++ ",".intercalate (xs.map showVal) ++ "]"
  | .tuple xs => "(" ++ ",".intercalate (xs.map showVal) ++ ")"
  | .dict kvs => "{" ++ ",".intercalate ((sortKvs (kvs.map (fun (k, v) => (showVal k, showVal v)))).map (fun (k, v) => k ++ ":" ++ v)) ++ "}"

def resolveType (E : Env) (name : String) : Option PyTy :=
  let n := Name.ofString name
  match E.pkg.findCls n with
  | some _ => some (.cls n)
  | none => match E.pkg.findEnum n with
    | some _ => some (.enum n)
    | none => (E.pkg.aliases.find? (·.1 == n)).map (·.2)

def isUnspec : Err → Bool
  | .unspecified _ => true
  | .fuel => true
  | _ => false

def fuel : Nat := 400

/-- `clean ROOT k1,k2,.. JSON`: is the hypothesis of the global C15 theorem met for each listed key? -/
def cleanStep (E : Env) (ty keys txt : String) : String :=
  match resolveType E ty, Lean.Json.parse txt with
  | some t, .ok lj =>
    let j := ofLeanJson lj
    let ks := (keys.splitOn ",").filter (· != "")
    match ks.find? (fun k => !(clean E (Name.ofString k) fuel t j)) with
    | some k => "dirty:" ++ k
    | none => "clean"
  | none, _ => "no-such-type"
  | _, .error _ => "bad-json"

def convStep (E : Env) (line : String) : String :=
  let line := line.trimAscii.toString
  match line.splitOn " " with
  | "clean" :: ty :: keys :: rest => cleanStep E ty keys (" ".intercalate rest)
  | op :: ty :: rest =>
    let txt := " ".intercalate rest
    match resolveType E ty, Lean.Json.parse txt with
    | some t, .ok lj =>
      let j := ofLeanJson lj
      match op with
      | "structure" =>
        (match structTy E fuel t j with
         | .ok v => "ok " ++ showVal v
         | .error e => if isUnspec e then "unspecified" else "err")
      | "rt" =>
        (match structTy E fuel t j with
         | .ok v =>
           (match unstruct E fuel (some t) v with
            | .ok o => "ok " ++ showVal v ++ " => " ++ showJson o
            | .error e => if isUnspec e then "unspecified" else "ok " ++ showVal v ++ " => err")
         | .error e => if isUnspec e then "unspecified" else "err")
      | _ => "bad-op"
    | none, _ => "no-such-type"
    | _, .error _ => "bad-json"
  | _ => "bad-op"

partial def convLoop (E : Env) (h : IO.FS.Stream) : IO Unit := do
  let line ← h.getLine
  if line.isEmpty then return ()
  IO.println (convStep E line)
  convLoop E h

def convMain (E : Env) : IO Unit := do convLoop E (← IO.getStdin)

end LspVerif.Driver
