/-
  Wire-schema and message-metadata specification for the emitted C# sources (C08).
-/
import LspVerif.Spec.Wire
namespace LspVerif.Dotnet
open LspVerif LspVerif.Wire

structure DMember where
  wire : Name            -- [DataMember(Name = "...")]
  prop : Name            -- C# property name
  ty : XTy
  nullable : Bool        -- `T?`
  nullIgnore : Bool      -- [JsonProperty(NullValueHandling = NullValueHandling.Ignore)]
  assigned : Bool        -- assigned in the [JsonConstructor]
  proposed : Bool := false
  deriving Repr, Inhabited

structure DRecord where
  name : Name
  members : List DMember
  lspRequest : Option (Name × Name) := none   -- [LSPRequest("method", typeof(Response))]
  lspResponse : Option Name := none           -- [LSPResponse(typeof(Request))]
  direction : Option Name := none             -- [Direction(MessageDirection.X)]
  proposed : Bool := false
  deriving Repr, Inhabited

structure DPkg where
  records : List DRecord
  enums : List (Name × List EnumVal)
  methods : List (Name × Name)                -- LSPMethods catalogue: (C# name, method string)
  deriving Repr, Inhabited

def csBase : Base → XTy
  | .string | .regExp => T n!"string"
  | .documentUri | .uri => T n!"Uri"
  | .decimal => T n!"float"
  | .integer => T n!"int"
  | .uinteger => T n!"long"
  | .boolean => T n!"bool"
  | .null => T n!"object"

def csTyOf (M : Model) : Nat → Ty → XTy
  | 0, _ => T n!"?fuel"
  | k + 1, t =>
    match t with
    | .base b => csBase b
    | .ref r =>
      (match M.findEnum r with
       | some e => if e.custom then (if e.base == .string then T n!"string" else T n!"int") else T r
       | none => if r == n!"Command" then T n!"CommandAction" else T r)
    | .array e => .n n!"ImmutableArray" [csTyOf M k e]
    | .map a b =>
      let v := match b with
        | .or items => (match items.filter (fun i => !isNullTy i) with
            | [x] => csTyOf M k x
            | _ => generated)
        | _ => csTyOf M k b
      .n n!"ImmutableDictionary" [csTyOf M k a, v]
    | .tuple items => .tup ((items.filter (fun i => !isNullTy i)).map (csTyOf M k))
    | .or items =>
      (match items.filter (fun i => !isNullTy i) with
       | [x] => csTyOf M k x
       | xs => .n n!"OrType" (xs.map (csTyOf M k)))
    | .strLit _ => T n!"string"
    | .lit _ => generated
    | _ => T n!"?unsupported"

def isCollection : XTy → Bool
  | .n nm _ => nm == n!"ImmutableArray" || nm == n!"ImmutableDictionary"
  | _ => false

def upperCamel (s : Name) : Name :=
  match nameBytes s with
  | [] => s
  | b :: rest => nameOfBytes (upperAscii b :: rest)

/-- clientToServer ↦ ClientToServer -/
def dirName (d : Name) : Name := upperCamel d

/-- names starting with `_` are the metamodel's internal base structures (flattened into their
    users); the .NET plugin emits no class for them, by design -/
def isInternal (n : Name) : Bool := (nameBytes n).head? == some 95

def recordMismatches (M : Model) (D : DPkg) (s : Struct) : List Mismatch :=
  let cname := if s.name == n!"Command" then n!"CommandAction" else s.name
  if isInternal s.name then [] else
  match D.records.find? (·.name == cname) with
  | none => if (flatten M s).isEmpty then [] else [⟨s.name.toString, "record-missing", cname.toString, ""⟩]
  | some r =>
    let props := flatten M s
    props.flatMap (fun p =>
      match r.members.filter (·.wire == p.name) with
      | [m] =>
        let site := s.name.toString ++ "." ++ p.name.toString
        let exp := csTyOf M tyFuel p.ty
        let coll := isCollection m.ty
        (if eqW 12 m.ty exp then [] else [⟨site, "cs-type", showX exp, showX m.ty⟩]) ++
        (if m.nullable == ((p.optional || p.ty.nullAdmitting) && !coll) then [] else [⟨site, "nullable", toString ((p.optional || p.ty.nullAdmitting) && !coll), toString m.nullable⟩]) ++
        (if m.nullIgnore == (p.optional && !p.ty.nullAdmitting && !coll) then [] else [⟨site, "null-ignoring", toString (p.optional && !p.ty.nullAdmitting && !coll), toString m.nullIgnore⟩]) ++
        (if m.assigned then [] else [⟨site, "assigned-in-json-constructor", "true", "false"⟩])
      | [] => [⟨s.name.toString ++ "." ++ p.name.toString, "member-missing", p.name.toString, ""⟩]
      | _ => [⟨s.name.toString ++ "." ++ p.name.toString, "member-duplicate", p.name.toString, ""⟩]) ++
    r.members.flatMap (fun m =>
      if props.any (·.name == m.wire) then [] else [⟨s.name.toString ++ "." ++ m.wire.toString, "member-extra", "", m.prop.toString⟩])

def dEnumMismatches (D : DPkg) (e : Enum) : List Mismatch :=
  match D.enums.find? (·.1 == e.name) with
  | none => [⟨e.name.toString, "enum-missing", e.name.toString, ""⟩]
  | some (_, vals) =>
    if vals == e.values.map (·.value) then [] else [⟨e.name.toString, "enum-values", showVals (e.values.map (·.value)), showVals vals⟩]

def requestMetaMismatches (D : DPkg) (r : Request) : List Mismatch :=
  match (some (withSuffix r.baseName n!"Request") : Option Name) with
  | none => []
  | some tn =>
    let respName := (if tn.endsWith n!"Request" then tn.dropSuffix n!"Request" else tn).append n!"Response"
    (match D.records.find? (·.name == tn) with
     | none => [⟨r.method.toString, "request-class-missing", tn.toString, ""⟩]
     | some rc =>
       (if rc.lspRequest == some (r.method, respName) then []
        else [⟨r.method.toString, "request-attribute", "[LSPRequest(\"" ++ r.method.toString ++ "\", typeof(" ++ respName.toString ++ "))]", toString (repr rc.lspRequest)⟩]) ++
       (if rc.direction == some (dirName r.direction) then []
        else [⟨r.method.toString, "request-direction", (dirName r.direction).toString, toString (rc.direction.map Name.toString)⟩])) ++
    (match D.records.find? (·.name == respName) with
     | none => [⟨r.method.toString, "response-class-missing", respName.toString, ""⟩]
     | some rc =>
       if rc.lspResponse == some tn then [] else [⟨r.method.toString, "response-attribute", "[LSPResponse(typeof(" ++ tn.toString ++ "))]", toString (rc.lspResponse.map Name.toString)⟩]) ++
    (if (D.methods.filter (·.2 == r.method)).length == 1 then [] else [⟨r.method.toString, "method-catalogue", "one LSPMethods entry", ""⟩])

def notificationMetaMismatches (D : DPkg) (n : Notification) : List Mismatch :=
  match (some (withSuffix n.baseName n!"Notification") : Option Name) with
  | none => []
  | some tn =>
    (match D.records.find? (·.name == tn) with
     | none => [⟨n.method.toString, "notification-class-missing", tn.toString, ""⟩]
     | some rc =>
       if rc.direction == some (dirName n.direction) then []
       else [⟨n.method.toString, "notification-direction", (dirName n.direction).toString, toString (rc.direction.map Name.toString)⟩]) ++
    (if (D.methods.filter (·.2 == n.method)).length == 1 then [] else [⟨n.method.toString, "method-catalogue", "one LSPMethods entry", ""⟩])

/-- The one thing the emitted notification classes lack (recorded finding): the class itself
    carries no method string (requests carry it in [LSPRequest("...")]). -/
def notificationClassesCarryMethod (D : DPkg) (M : Model) : Bool :=
  M.notifications.all (fun n => match (some (withSuffix n.baseName n!"Notification") : Option Name) with
    | some tn => (match D.records.find? (·.name == tn) with | some rc => (rc.lspRequest.map (·.1)) == some n.method | none => false)
    | none => false)

def dotnetRest (M : Model) (D : DPkg) : List Mismatch :=
  M.enumerations.flatMap (dEnumMismatches D) ++ M.requests.flatMap (requestMetaMismatches D) ++
  M.notifications.flatMap (notificationMetaMismatches D)

end LspVerif.Dotnet
