/-
  The documented metamodel -> Python mapping as a *specification function*, written from the
  package documentation and the property statements (C04, C09, C10, C13), not from the generator:
  what a faithful Python image of a metamodel looks like.  The checkers compare regenerated
  tables against it and return the list of mismatches (never a Bool) so a failed obligation
  names its site.
-/
import LspVerif.Core.Meta
import LspVerif.Core.Py
namespace LspVerif

structure Mismatch where
  site : String
  aspect : String
  expected : String
  actual : String
  deriving Repr, Inhabited

/-- The documented customisation: CompletionItemKind accepts custom values. -/
def customize (M : Model) : Model :=
  { M with enumerations := M.enumerations.map (fun e => if e.name == n!"CompletionItemKind" then { e with custom := true } else e) }

def basePy : Base → PyTy
  | .decimal => .float
  | .boolean => .bool
  | .integer | .uinteger => .int
  | .string | .documentUri | .uri => .str
  | .null => .none
  | .regExp => .unknown "RegExp"

/-- The mapped annotation of a metamodel type (fuel bounds alias expansion + nesting). -/
def pyTyOf (M : Model) : Nat → Ty → PyTy
  | 0, _ => .unknown "fuel"
  | n + 1, t =>
    match t with
    | .base b => basePy b
    | .ref r =>
      if r == n!"LSPAny" then PyTy.mkUnion [.any, .none]
      else if r == n!"LSPObject" then .obj
      else match M.findEnum r with
        | some e => if e.custom then PyTy.mkUnion [.enum r, basePy e.base] else .enum r
        | none => match M.findStruct r with
          | some _ => .cls r
          | none => match M.findAlias r with
            | some a => pyTyOf M n a.ty
            | none => .unknown (Name.toString r)
    | .array e => .seq (pyTyOf M n e)
    | .map k v => .dict (pyTyOf M n k) (pyTyOf M n v)
    | .tuple ts => .tuple (ts.map (pyTyOf M n))
    | .or ts => PyTy.mkUnion (ts.map (pyTyOf M n))
    | .and _ => .unknown "and"
    | .strLit _ => .str
    | .intLit _ => .int
    | .boolLit _ => .bool
    | .lit [] => .any
    | .lit _ => .unknown "anonymous literal"

def tyFuel : Nat := 16

def baseVld : Base → Vld
  | .integer => .int32
  | .uinteger => .uint31
  | .string | .documentUri | .uri => .instStr
  | .boolean => .instBool
  | .decimal => .instFloat
  | _ => .none

structure ExpField where
  wire : Name
  ty : PyTy
  required : Bool
  dflt : Dflt
  vld : Vld
  omitDflt : Bool      -- omit_if_default expected for the unstructure function (C10)
  deriving Repr, Inhabited

/-- A property is "optional on the wire" when marked optional or null-admitting. -/
def Prp.opt (p : Prp) : Bool := p.optional || p.ty.nullAdmitting

def expectedDflt (ty : Ty) (opt : Bool) : Dflt :=
  match ty with
  | .strLit s => .str s
  | _ => if opt then .none else .nothing

theorem expectedDflt_nonlit (ty : Ty) (o : Bool) (h : ty.isStrLit = false) :
    expectedDflt ty o = if o then .none else .nothing := by
  cases ty <;> simp_all [expectedDflt, Ty.isStrLit]

def expectedField (M : Model) (p : Prp) : ExpField :=
  let t := pyTyOf M tyFuel p.ty
  let v := match p.ty with
    | .strLit s => Vld.inLit [s]
    | .base b => (match baseVld b with | .none => Vld.none | v => if p.opt then .opt v else v)
    | _ => Vld.none
  { wire := p.name
    ty := if p.opt then t.optional else t
    required := !p.opt && !p.ty.isStrLit
    dflt := expectedDflt p.ty p.opt
    vld := v
    -- written even when unset iff null-admitting or a string literal
    omitDflt := !(p.ty.nullAdmitting || p.ty.isStrLit) }

def expectedFields (M : Model) (s : Struct) : List ExpField := (flatten M s).map (expectedField M)

def showTy (t : PyTy) : String := toString (repr t)

/-- Mismatches between one expected field and the (unique) class field with that wire name. -/
def fieldMismatches (site : String) (e : ExpField) (f : Field) : List Mismatch :=
  (if f.wireU == e.wire then [] else [⟨site, "wire-name-written", e.wire.toString, f.wireU.toString⟩]) ++
  (if PyTy.beq f.ty e.ty then [] else [⟨site, "annotation", showTy e.ty, showTy f.ty⟩]) ++
  (if (f.dflt == .nothing) == e.required then [] else [⟨site, "required", toString e.required, toString (repr f.dflt)⟩]) ++
  (if f.dflt == e.dflt then [] else [⟨site, "default", toString (repr e.dflt), toString (repr f.dflt)⟩]) ++
  (if f.vld == e.vld then [] else [⟨site, "validator", toString (repr e.vld), toString (repr f.vld)⟩]) ++
  (if f.plain then [] else [⟨site, "plain-attrs-field", "true", "false"⟩])

def classMismatches (cname : String) (exp : List ExpField) (c : Cls) : List Mismatch :=
  exp.flatMap (fun e =>
    match c.fields.filter (·.wireS == e.wire) with
    | [f] => fieldMismatches (cname ++ "." ++ e.wire.toString) e f
    | [] => [⟨cname ++ "." ++ e.wire.toString, "missing", e.wire.toString, ""⟩]
    | _ => [⟨cname ++ "." ++ e.wire.toString, "duplicate", e.wire.toString, ""⟩]) ++
  c.fields.flatMap (fun f =>
    if exp.any (·.wire == f.wireS) then [] else [⟨cname ++ "." ++ f.wireS.toString, "extra", "", f.name.toString⟩])

def structMismatches (M : Model) (P : Pkg) (s : Struct) : List Mismatch :=
  match P.findCls s.name with
  | none => [⟨s.name.toString, "class-missing", s.name.toString, ""⟩]
  | some c => classMismatches s.name.toString (expectedFields M s) c

def enumBase : Base → Name
  | .string => n!"str"
  | .integer | .uinteger => n!"int"
  | _ => n!""

def enumMismatches (P : Pkg) (e : Enum) : List Mismatch :=
  match P.findEnum e.name with
  | none => [⟨e.name.toString, "enum-missing", e.name.toString, ""⟩]
  | some pe =>
    (if pe.base == enumBase e.base then [] else [⟨e.name.toString, "enum-base", (enumBase e.base).toString, pe.base.toString⟩]) ++
    (if pe.members.map (·.2) == e.values.map (·.value) then []
     else [⟨e.name.toString, "enum-values", toString (repr (e.values.map (·.value))), toString (repr (pe.members.map (·.2)))⟩])

def aliasMismatches (M : Model) (P : Pkg) (a : Alias) : List Mismatch :=
  match P.aliases.find? (·.1 == a.name) with
  | none => [⟨a.name.toString, "alias-missing", a.name.toString, ""⟩]
  | some (_, t) =>
    let e := pyTyOf M tyFuel (.ref a.name)
    if PyTy.beq t e then [] else [⟨a.name.toString, "alias-type", showTy e, showTy t⟩]

/-- Both readings of "nearest declaration wins" select the same declaration for every name. -/
def nearestMismatches (M : Model) (s : Struct) : List Mismatch :=
  let a := flatten M s
  let b := flattenBFS M s
  a.flatMap (fun p =>
    match b.find? (·.name == p.name) with
    | none => [⟨s.name.toString ++ "." ++ p.name.toString, "nearest-reading", "present", "absent"⟩]
    | some q => if p.ty == q.ty && p.optional == q.optional then [] else [⟨s.name.toString ++ "." ++ p.name.toString, "nearest-reading", "same declaration", "different"⟩]) ++
  (if a.length == b.length then [] else [⟨s.name.toString, "nearest-reading-count", toString a.length, toString b.length⟩])

/-- Slices, so that the table obligations can be discharged in parallel files. -/
def slice {α} (xs : List α) (k n : Nat) : List α := (xs.drop (k * n)).take n

def conformsStructs (M : Model) (P : Pkg) (ss : List Struct) : List Mismatch :=
  ss.flatMap (fun s => structMismatches M P s ++ nearestMismatches M s)

def conformsEnums (M : Model) (P : Pkg) : List Mismatch := M.enumerations.flatMap (enumMismatches P)
def conformsAliases (M : Model) (P : Pkg) : List Mismatch := M.aliases.flatMap (aliasMismatches M P)

end LspVerif
