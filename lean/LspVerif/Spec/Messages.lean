/-
  Specification of the JSON-RPC message classes and of the method catalogue (C09), of the
  omit-or-write rule per attribute (C10), and of enum use sites (C13).  Stated as decidable
  propositions over the tables, so the instance obligations *are* the property statements,
  evaluated by the kernel on regenerated tables.
-/
import LspVerif.Spec.PySpec
namespace LspVerif

/-! ### Name arithmetic on the byte encoding (suffix tests, concatenation) -/

def Name.byteLen (n : Name) : Nat := Nat.log2 n / 8

def Name.append (a b : Name) : Name :=
  let k := b.byteLen
  a * 256 ^ k + (b - 256 ^ k)

def Name.endsWith (a s : Name) : Bool :=
  let k := s.byteLen
  a.byteLen ≥ k && a % 256 ^ k == s - 256 ^ k

def Name.dropSuffix (a s : Name) : Name := a / 256 ^ s.byteLen

example : Name.append n!"ab" n!"cd" = n!"abcd" := by decide
example : Name.endsWith n!"FooRequest" n!"Request" = true := by decide
example : Name.endsWith n!"Request" n!"FooRequest" = false := by decide
example : Name.dropSuffix n!"FooRequest" n!"Request" = n!"Foo" := by decide
example : Name.append n!"" n!"x" = n!"x" := by decide

/-! ### Message class names -/

def nmBytesOf : Nat → Nat → List Nat → List Nat
  | 0, _, acc => acc
  | k + 1, n, acc => nmBytesOf k (n / 256) ((n % 256) :: acc)
def nmBytes (n : Name) : List Nat := nmBytesOf (Name.byteLen n) n []
def nmOfBytes (bs : List Nat) : Name := bs.foldl (fun acc b => acc * 256 + b) 1
def isUpperB (b : Nat) : Bool := 65 ≤ b && b ≤ 90
def isLowerB (b : Nat) : Bool := 97 ≤ b && b ≤ 122
def isDigitB (b : Nat) : Bool := 48 ≤ b && b ≤ 57
def toUpperB (b : Nat) : Nat := if isLowerB b then b - 32 else b
def toLowerB (b : Nat) : Nat := if isUpperB b then b + 32 else b

/-- The documented class-name convention for a message without `typeName`: the method with a
    leading `$/` dropped, split at `/`, `_` and lower/digit→Upper boundaries, each part
    capitalised (first letter upper, rest lower): textDocument/didSave ↦ TextDocumentDidSave. -/
def camelParts : Bool → Option Nat → List Nat → List Nat
  | _, _, [] => []
  | start, prev, b :: rest =>
    if b == 47 || b == 95 then camelParts true none rest            -- '/' or '_'
    else
      let boundary := start || (isUpperB b && (match prev with | some p => isLowerB p || isDigitB p | none => false))
      (if boundary then toUpperB b else toLowerB b) :: camelParts false (some b) rest

def deriveClassBase (method : Name) : Name :=
  let bs := nmBytes method
  let bs := match bs with | 36 :: 47 :: rest => rest | _ => bs      -- "$/"
  nmOfBytes (camelParts true none bs)

example : deriveClassBase n!"textDocument/didSave" = n!"TextDocumentDidSave" := by decide +kernel
example : deriveClassBase n!"$/cancelRequest" = n!"CancelRequest" := by decide +kernel


def withSuffix (t s : Name) : Name := if t.endsWith s then t else t.append s

/-- Request class name: the metamodel's `typeName`, suffixed with `Request` when it lacks it. -/
def Request.baseName (r : Request) : Name := match r.typeName with | some t => t | none => deriveClassBase r.method
def Notification.baseName (n : Notification) : Name := match n.typeName with | some t => t | none => deriveClassBase n.method
def Request.cls (r : Request) : Option Name := some (withSuffix r.baseName n!"Request")
def Request.respCls (r : Request) : Option Name :=
  r.cls.map (fun c => (c.dropSuffix n!"Request").append n!"Response")
def Notification.cls (n : Notification) : Option Name := some (withSuffix n.baseName n!"Notification")

/-- Mapped annotation of a params / registration-options type; an `and` type is the generated
    class named after the message class. -/
def msgTyOf (M : Model) (cls suffix : Name) : Ty → PyTy
  | .and _ => .cls (cls.append suffix)
  | t => pyTyOf M tyFuel t

def idTy : PyTy := .union [.int, .str]

def envelopeJsonrpc : ExpField :=
  { wire := n!"jsonrpc", ty := .str, required := false, dflt := .str n!"2.0", vld := .none, omitDflt := false }

def expectedRequestFields (M : Model) (r : Request) (cls : Name) : List ExpField :=
  [ { wire := n!"id", ty := idTy, required := true, dflt := .nothing, vld := .none, omitDflt := true },
    (match r.params with
     | some t => { wire := n!"params", ty := msgTyOf M cls n!"Params" t, required := true, dflt := .nothing, vld := .none, omitDflt := true }
     | none => { wire := n!"params", ty := .none, required := false, dflt := .none, vld := .none, omitDflt := true }),
    { wire := n!"method", ty := .literal [r.method], required := false, dflt := .str r.method, vld := .none, omitDflt := false },
    envelopeJsonrpc ]

def expectedResponseFields (M : Model) (r : Request) : List ExpField :=
  [ { wire := n!"id", ty := idTy.optional, required := true, dflt := .nothing, vld := .none, omitDflt := true },
    { wire := n!"result", ty := pyTyOf M tyFuel r.result, required := false, dflt := .none, vld := .none, omitDflt := false },
    envelopeJsonrpc ]

def expectedNotificationFields (M : Model) (n : Notification) (cls : Name) : List ExpField :=
  [ (match n.params with
     | some t => { wire := n!"params", ty := msgTyOf M cls n!"Params" t, required := true, dflt := .nothing, vld := .none, omitDflt := true }
     | none => { wire := n!"params", ty := .none, required := false, dflt := .none, vld := .none, omitDflt := true }),
    { wire := n!"method", ty := .literal [n.method], required := false, dflt := .str n.method, vld := .inLit [n.method], omitDflt := false },
    envelopeJsonrpc ]

/-! ### C09: the catalogue -/

def optTyEq : Option PyTy → Option PyTy → Bool
  | none, none => true
  | some a, some b => PyTy.beq a b
  | _, _ => false

/-- Everything C09 states about one request. -/
def RequestCatalogued (M : Model) (P : Pkg) (r : Request) : Prop :=
  ∃ cls resp, r.cls = some cls ∧ r.respCls = some resp ∧
    -- the method maps to exactly one entry, which names the request class, the response class,
    -- the params type and the registration-options type the metamodel declares
    (∃ e, P.methodToTypes.filter (·.method == r.method) = [e] ∧
      e.req = cls ∧ e.resp = some resp ∧
      optTyEq e.params (r.params.map (msgTyOf M cls n!"Params")) = true ∧
      optTyEq e.regOpts (r.regOpts.map (msgTyOf M cls n!"Options")) = true) ∧
    -- the request / response classes exist with the envelope shape; the request class's default
    -- method is the method string
    (∃ c, P.findCls cls = some c ∧ classMismatches "" (expectedRequestFields M r cls) c = []) ∧
    (∃ c, P.findCls resp = some c ∧ classMismatches "" (expectedResponseFields M r) c = []) ∧
    -- direction and exported constant
    P.directions.filter (·.1 == r.method) = [(r.method, r.direction)] ∧
    (P.constants.filter (·.2 == r.method)).length = 1

def NotificationCatalogued (M : Model) (P : Pkg) (n : Notification) : Prop :=
  ∃ cls, n.cls = some cls ∧
    (∃ e, P.methodToTypes.filter (·.method == n.method) = [e] ∧
      e.req = cls ∧ e.resp = none ∧
      optTyEq e.params (n.params.map (msgTyOf M cls n!"Params")) = true ∧
      optTyEq e.regOpts (n.regOpts.map (msgTyOf M cls n!"Options")) = true) ∧
    (∃ c, P.findCls cls = some c ∧ classMismatches "" (expectedNotificationFields M n cls) c = []) ∧
    P.directions.filter (·.1 == n.method) = [(n.method, n.direction)] ∧
    (P.constants.filter (·.2 == n.method)).length = 1

def Model.methods (M : Model) : List Name := M.requests.map (·.method) ++ M.notifications.map (·.method)

/-- "... and for nothing else": every catalogue entry, direction entry and method constant
    belongs to a method of the metamodel. -/
def NothingElse (M : Model) (P : Pkg) : Prop :=
  (∀ e ∈ P.methodToTypes, e.method ∈ M.methods) ∧
  (∀ d ∈ P.directions, d.1 ∈ M.methods) ∧
  (∀ c ∈ P.constants, c.2 ∈ M.methods)

mutual
def PyTy.hasUnknown : PyTy → Bool
  | .unknown _ => true
  | .seq t => t.hasUnknown
  | .dict k v => k.hasUnknown || v.hasUnknown
  | .tuple ts => PyTy.anyUnknown ts
  | .union ts => PyTy.anyUnknown ts
  | _ => false
def PyTy.anyUnknown : List PyTy → Bool
  | [] => false
  | t :: ts => t.hasUnknown || PyTy.anyUnknown ts
end

/-- Every protocol type the module defines is in the registry, and every annotation of every
    class resolved (no forward reference left unresolved by the registry). -/
def RegistryComplete (P : Pkg) : Prop :=
  (∀ n ∈ P.defined, n ∈ P.registry) ∧
  (∀ c ∈ P.classes, ∀ f ∈ c.fields, f.ty.hasUnknown = false) ∧
  (∀ a ∈ P.aliases, a.2.hasUnknown = false)

/-! ### Executable checkers and their soundness -/

def theOnly {α} : List α → Option α
  | [x] => some x
  | _ => none

theorem theOnly_some {α} {xs : List α} {x : α} (h : theOnly xs = some x) : xs = [x] := by
  match xs, h with
  | [y], h => simp [theOnly] at h; simp [h]

def catalogueEntryOK (P : Pkg) (method cls : Name) (resp : Option Name) (params regOpts : Option PyTy) : Bool :=
  match theOnly (P.methodToTypes.filter (·.method == method)) with
  | some e => e.req == cls && e.resp == resp && optTyEq e.params params && optTyEq e.regOpts regOpts
  | none => false

def classOK (P : Pkg) (cls : Name) (exp : List ExpField) : Bool :=
  match P.findCls cls with
  | some c => (classMismatches "" exp c).isEmpty
  | none => false

def dirConstOK (P : Pkg) (method direction : Name) : Bool :=
  (match theOnly (P.directions.filter (·.1 == method)) with
   | some d => d.1 == method && d.2 == direction
   | none => false) &&
  (P.constants.filter (·.2 == method)).length == 1

def requestCatalogued (M : Model) (P : Pkg) (r : Request) : Bool :=
  match r.cls, r.respCls with
  | some cls, some resp =>
    catalogueEntryOK P r.method cls (some resp) (r.params.map (msgTyOf M cls n!"Params")) (r.regOpts.map (msgTyOf M cls n!"Options")) &&
    classOK P cls (expectedRequestFields M r cls) &&
    classOK P resp (expectedResponseFields M r) &&
    dirConstOK P r.method r.direction
  | _, _ => false

def notificationCatalogued (M : Model) (P : Pkg) (n : Notification) : Bool :=
  match n.cls with
  | some cls =>
    catalogueEntryOK P n.method cls none (n.params.map (msgTyOf M cls n!"Params")) (n.regOpts.map (msgTyOf M cls n!"Options")) &&
    classOK P cls (expectedNotificationFields M n cls) &&
    dirConstOK P n.method n.direction
  | none => false

def nothingElse (M : Model) (P : Pkg) : Bool :=
  P.methodToTypes.all (fun e => M.methods.contains e.method) &&
  P.directions.all (fun d => M.methods.contains d.1) &&
  P.constants.all (fun c => M.methods.contains c.2)

/-- Subset test by merging (linear when both lists are sorted ascending, which is how the
    translator emits them; soundness below needs no sortedness). -/
def subMerge : Nat → List Name → List Name → Bool
  | _, [], _ => true
  | _, _ :: _, [] => false
  | 0, _ :: _, _ :: _ => false
  | fuel + 1, a :: as, b :: bs =>
    if a == b then subMerge fuel as (b :: bs)
    else if b < a then subMerge fuel (a :: as) bs
    else false

theorem subMerge_sound : ∀ (fuel : Nat) (xs ys : List Name), subMerge fuel xs ys = true → ∀ x ∈ xs, x ∈ ys
  | _, [], _, _, x, hx => by simp at hx
  | _, _ :: _, [], h, _, _ => by simp [subMerge] at h
  | 0, _ :: _, _ :: _, h, _, _ => by simp [subMerge] at h
  | fuel + 1, a :: as, b :: bs, h, x, hx => by
    unfold subMerge at h
    by_cases hab : (a == b) = true
    · simp only [hab, if_true] at h
      have ih := subMerge_sound fuel as (b :: bs) h
      rcases List.mem_cons.mp hx with rfl | hx'
      · have : x = b := by simpa using hab
        simp [this]
      · exact ih x hx'
    · simp only [hab] at h
      by_cases hlt : b < a
      · simp only [hlt, if_true] at h
        have ih := subMerge_sound fuel (a :: as) bs h x hx
        exact List.mem_cons_of_mem _ ih
      · simp [hlt] at h

def registryComplete (P : Pkg) : Bool :=
  subMerge (P.defined.length + P.registry.length) P.defined P.registry &&
  P.classes.all (fun c => c.fields.all (fun f => !f.ty.hasUnknown)) &&
  P.aliases.all (fun a => !a.2.hasUnknown)

theorem catalogueEntryOK_sound {P : Pkg} {method cls : Name} {resp : Option Name} {params regOpts : Option PyTy}
    (h : catalogueEntryOK P method cls resp params regOpts = true) :
    ∃ e, P.methodToTypes.filter (·.method == method) = [e] ∧ e.req = cls ∧ e.resp = resp ∧
      optTyEq e.params params = true ∧ optTyEq e.regOpts regOpts = true := by
  unfold catalogueEntryOK at h
  split at h
  · rename_i e he
    simp only [Bool.and_eq_true, beq_iff_eq] at h
    exact ⟨e, theOnly_some he, h.1.1.1, h.1.1.2, h.1.2, h.2⟩
  · simp at h

theorem classOK_sound {P : Pkg} {cls : Name} {exp : List ExpField} (h : classOK P cls exp = true) :
    ∃ c, P.findCls cls = some c ∧ classMismatches "" exp c = [] := by
  unfold classOK at h
  split at h
  · rename_i c hc
    exact ⟨c, hc, by simpa using h⟩
  · simp at h

theorem dirConstOK_sound {P : Pkg} {method direction : Name} (h : dirConstOK P method direction = true) :
    P.directions.filter (·.1 == method) = [(method, direction)] ∧ (P.constants.filter (·.2 == method)).length = 1 := by
  unfold dirConstOK at h
  simp only [Bool.and_eq_true, beq_iff_eq] at h
  obtain ⟨h1, h2⟩ := h
  split at h1
  · rename_i d hd
    simp only [Bool.and_eq_true, beq_iff_eq] at h1
    refine ⟨?_, h2⟩
    rw [theOnly_some hd]
    obtain ⟨a, b⟩ := d
    simp at h1
    simp [h1.1, h1.2]
  · simp at h1

theorem requestCatalogued_sound {M : Model} {P : Pkg} {r : Request} (h : requestCatalogued M P r = true) :
    RequestCatalogued M P r := by
  unfold requestCatalogued at h
  split at h
  · rename_i cls resp hc hr
    simp only [Bool.and_eq_true] at h
    obtain ⟨⟨⟨h1, h2⟩, h3⟩, h4⟩ := h
    obtain ⟨d1, d2⟩ := dirConstOK_sound h4
    exact ⟨cls, resp, hc, hr, catalogueEntryOK_sound h1, classOK_sound h2, classOK_sound h3, d1, d2⟩
  · simp at h

theorem notificationCatalogued_sound {M : Model} {P : Pkg} {n : Notification} (h : notificationCatalogued M P n = true) :
    NotificationCatalogued M P n := by
  unfold notificationCatalogued at h
  split at h
  · rename_i cls hc
    simp only [Bool.and_eq_true] at h
    obtain ⟨⟨h1, h2⟩, h4⟩ := h
    obtain ⟨d1, d2⟩ := dirConstOK_sound h4
    exact ⟨cls, hc, catalogueEntryOK_sound h1, classOK_sound h2, d1, d2⟩
  · simp at h

theorem nothingElse_sound {M : Model} {P : Pkg} (h : nothingElse M P = true) : NothingElse M P := by
  unfold nothingElse at h
  simp only [Bool.and_eq_true, List.all_eq_true, List.contains_iff_mem] at h
  exact ⟨fun e he => h.1.1 e he, fun d hd => h.1.2 d hd, fun c hc => h.2 c hc⟩

theorem registryComplete_sound {P : Pkg} (h : registryComplete P = true) : RegistryComplete P := by
  unfold registryComplete at h
  simp only [Bool.and_eq_true, List.all_eq_true, Bool.not_eq_true'] at h
  exact ⟨fun n hn => subMerge_sound _ _ _ h.1.1 n hn, fun c hc f hf => h.1.2 c hc f hf, fun a ha => h.2 a ha⟩

end LspVerif
