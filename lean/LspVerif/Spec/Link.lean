/-
  The link between the property's own notion of validity and the hypothesis of T1/T2:

      metamodel-valid (strictly, closed)  ⇒  has a typed reading (`rep`)

  Definitions (kernel-evaluable):

  * `validTyC` — validity of a JSON value against a metamodel type, as `validTy` of
    Spec/StrictValid.lean (declared properties only, required ones present, integer ranges, closed
    enumerations, literal values) but *closed*: a structure without properties admits only the
    object without members (Spec/StrictValid treats it as an extension point).  `validTyC ⇒ validTy`.
  * `annOK M E bad n T A` — the Python annotation `A` (as read from the generated package) *covers*
    the metamodel type `T`: each alternative of `T` has a matching alternative in `A`, recursively
    through arrays, maps, tuples and aliases; a referenced closed enumeration exists in the package
    with every metamodel value among its members; nothing on the way is an excluded annotation.
  * `clsCovers M E bad n props cl` — the generated class `cl` covers an object type with property
    list `props`: every property has an attribute with that wire name and vice versa, the attribute's
    annotation covers the property's type, an optional property has a `None` default and `None` is
    a typed value of the annotation, a value that may be `null` is not dropped on the way back, the
    attrs validator accepts every valid value (and `None` where the property may be absent).
  * `structsCover`, `messagesCover` — the above for every structure (flattened properties) and for
    the request / response / notification classes (JSON-RPC envelope properties).

  The theorem is in Props/Link.lean; the table facts are kernel-evaluated per run on the
  regenerated metamodel and package.
-/
import LspVerif.Core.Dispatch
import LspVerif.Spec.StrictValid
namespace LspVerif

/-! ### closed validity -/

def validPropsC (recur : Ty → Json → Bool) (props : List (Name × Bool × Ty)) (kvs : List (Name × Json)) : Bool :=
  kvs.all (fun kv => props.any (fun p => p.1 == kv.1)) &&
  props.all (fun p => match Json.lookup kvs p.1 with
    | some v => recur p.2.2 v
    | Option.none => p.2.1)

/-- the property list of an `and` type: the flattened properties of the referenced structures, in order -/
def andProps (M : Model) (ts : List Ty) : List (Name × Bool × Ty) :=
  ts.flatMap (fun a => match a with
    | .ref r => (match M.findStruct r with | some s => propsOf (flatten M s) | Option.none => [])
    | _ => [])

def validTyC (M : Model) : Nat → Ty → Json → Bool
  | 0, _, _ => false
  | n + 1, t, j =>
    match t with
    | .base b => validBase b j
    | .strLit s => (match j with | .str x => x == s | _ => false)
    | .intLit i => (match j with | .int x => x == i | _ => false)
    | .boolLit b => (match j with | .bool x => x == b | _ => false)
    | .ref r =>
      if r == n!"LSPAny" then true
      else if r == n!"LSPObject" then (match j with | .obj _ => true | _ => false)
      else if r == n!"LSPArray" then (match j with | .arr _ => true | _ => false)
      else match M.findEnum r with
        | some e => if e.custom then validBase e.base j else enumHas e j
        | Option.none => match M.findStruct r with
          | some s => (match j with
            | .obj kvs => validPropsC (validTyC M n) (propsOf (flatten M s)) kvs
            | _ => false)
          | Option.none => match M.findAlias r with
            | some a => validTyC M n a.ty j
            | Option.none => false
    | .array e => (match j with | .arr xs => xs.all (validTyC M n e) | _ => false)
    | .map _ v => (match j with | .obj kvs => kvs.all (fun kv => validTyC M n v kv.2) | _ => false)
    | .tuple ts => (match j with
      | .arr xs => xs.length == ts.length && (ts.zip xs).all (fun p => validTyC M n p.1 p.2)
      | _ => false)
    | .or ts => ts.any (fun a => validTyC M n a j)
    | .and ts =>
      (match j with
       | .obj kvs => validPropsC (validTyC M n) (andProps M ts) kvs
       | _ => false)
    | .lit props =>
      (match j with
       | .obj kvs => if props.isEmpty then true else validPropsC (validTyC M n) props kvs
       | _ => false)

/-- keys distinct at every object node (what a Python dict is) -/
def Json.wfF : Nat → Json → Bool
  | 0, _ => false
  | n + 1, j =>
    match j with
    | .arr xs => xs.all (Json.wfF n)
    | .obj kvs => keysNodup kvs && kvs.all (fun kv => Json.wfF n kv.2)
    | _ => true

/-! ### nullability and validators (used by the class-level coverage) -/

/-- may `null` be a valid value of the type?  (conservative: `true` when the fuel runs out) -/
def nullish (M : Model) : Nat → Ty → Bool
  | 0, _ => true
  | n + 1, T =>
    match T with
    | .base b => (match b with | .null => true | _ => false)
    | .ref r =>
      if r == n!"LSPAny" then true
      else if r == n!"LSPObject" then false
      else if r == n!"LSPArray" then false
      else match M.findEnum r with
        | some e => e.custom && (match e.base with | .null => true | _ => false)
        | Option.none => match M.findStruct r with
          | some _ => false
          | Option.none => match M.findAlias r with
            | some a => nullish M n a.ty
            | Option.none => false
    | .or ts => ts.any (nullish M n)
    | _ => false

def Vld.acceptsNone : Vld → Bool
  | .none => true
  | .opt _ => true
  | _ => false

def Vld.core : Vld → Vld
  | .opt w => w
  | w => w

def Ty.isInt32 : Ty → Bool
  | .base .integer => true
  | .base .uinteger => true
  | _ => false
def Ty.isUInt31 : Ty → Bool
  | .base .uinteger => true
  | _ => false
def Ty.isStrLike : Ty → Bool
  | .base .string => true
  | .base .documentUri => true
  | .base .uri => true
  | .strLit _ => true
  | _ => false
def Ty.isBoolean : Ty → Bool
  | .base .boolean => true
  | _ => false
def Ty.isDecimal : Ty → Bool
  | .base .decimal => true
  | _ => false
def Ty.litIn (vs : List Name) : Ty → Bool
  | .strLit s => vs.contains s
  | _ => false

def vldCoreOK (T : Ty) : Vld → Bool
  | .none => true
  | .int32 => T.isInt32
  | .uint31 => T.isUInt31
  | .instStr => T.isStrLike
  | .instBool => T.isBoolean
  | .instFloat => T.isDecimal
  | .inLit vs => T.litIn vs
  | _ => false

/-- the attrs validator accepts every valid value of the type (and `None` where the property may be absent) -/
def vldOKFor (T : Ty) (optional : Bool) (vl : Vld) : Bool :=
  (!optional || vl.acceptsNone) && vldCoreOK T vl.core && (match vl with | .opt .none => false | _ => true)

/-! ### coverage of a metamodel type by an annotation -/

def alts : PyTy → List PyTy
  | .union us => us
  | t => [t]

def hasAlt (bad : List PyTy) (A t : PyTy) : Bool := !(isBad bad t) && (alts A).any (PyTy.eqb t)

def Base.mapped : Base → Bool
  | .regExp => false
  | _ => true

def enumCovered (M : Model) (E : Env) (r : Name) : Bool :=
  match M.findEnum r, E.pkg.findEnum r with
  | some e, some pe => e.values.all (fun ev => pe.members.any (·.2 == ev.value))
  | _, _ => false

def fieldCoversW (ann : Ty → PyTy → Bool) (M : Model) (E : Env) (bad : List PyTy) (nf : Nat) (p : Name × Bool × Ty) (f : Field) : Bool :=
  ann p.2.2 f.ty &&
  (!p.2.1 || (f.dflt == Dflt.none && nullReads E bad f.ty)) &&
  (match f.dflt with
   | .none => !(nullish M nf p.2.2) || !f.omitU || f.ty.anyNull
   | .str _ => !f.omitU
   | _ => true) &&
  vldOKFor p.2.2 p.2.1 f.vld

def clsCoversW (ann : Ty → PyTy → Bool) (M : Model) (E : Env) (bad : List PyTy) (nf : Nat) (props : List (Name × Bool × Ty)) (cl : Cls) : Bool :=
  !(isBad bad (.cls cl.name)) &&
  props.all (fun p => cl.fields.any (·.wireS == p.1)) &&
  cl.fields.all (fun f => match props.find? (fun p => p.1 == f.wireS) with
    | some p => fieldCoversW ann M E bad nf p f
    -- an attribute without a property (the `params` of a message that has none): never fed, must default to a typed None
    | Option.none => f.dflt == Dflt.none && nullReads E bad f.ty && f.vld.acceptsNone)

/-- an object type with an explicit (non-empty) property list — an anonymous literal, an `and` type — is covered by a generated class -/
def objCovered (ann : Ty → PyTy → Bool) (M : Model) (E : Env) (bad : List PyTy) (nf : Nat) (props : List (Name × Bool × Ty)) (A : PyTy) : Bool :=
  (alts A).any (fun u => match u with
    | .cls c => !(isBad bad u) && (match E.pkg.findCls c with
      | some cl => clsCoversW ann M E bad nf props cl
      | Option.none => false)
    | _ => false)

def annOK (M : Model) (E : Env) (bad : List PyTy) : Nat → Ty → PyTy → Bool
  | 0, _, _ => false
  | n + 1, T, A =>
    !(isBad bad A) &&
    (match T with
     | .base b => b.mapped && hasAlt bad A (basePy b)
     | .strLit s => hasAlt bad A .str || (alts A).any (fun u => match u with
       | .literal vs => !(isBad bad u) && vs.contains s
       | _ => false)
     | .ref r =>
       if r == n!"LSPAny" then hasAlt bad A .any
       else if r == n!"LSPObject" then hasAlt bad A .obj
       else if r == n!"LSPArray" then (alts A).any (fun u => match u with
         | .seq x => !(isBad bad u) && !(isBad bad x) && hasAlt bad x .any
         | _ => false)
       else match M.findEnum r with
         | some e => if e.custom then e.base.mapped && hasAlt bad A (basePy e.base) else hasAlt bad A (.enum r) && enumCovered M E r
         | Option.none => match M.findStruct r with
           | some _ => hasAlt bad A (.cls r)
           | Option.none => match M.findAlias r with
             | some a => annOK M E bad n a.ty A
             | Option.none => false
     | .array e => (alts A).any (fun u => match u with
       | .seq x => !(isBad bad u) && annOK M E bad n e x
       | _ => false)
     | .map _ v => (alts A).any (fun u => match u with
       | .dict .str x => !(isBad bad u) && annOK M E bad n v x
       | _ => false)
     | .tuple ts => (alts A).any (fun u => match u with
       | .tuple us => !(isBad bad u) && all2 (annOK M E bad n) ts us
       | _ => false)
     | .or ts => ts.all (fun a => annOK M E bad n a A)
     | .lit props => if props.isEmpty then hasAlt bad A .any else objCovered (annOK M E bad n) M E bad n props A
     | .and ts => !(andProps M ts).isEmpty && objCovered (annOK M E bad n) M E bad n (andProps M ts) A
     | _ => false)

def linkFuel : Nat := 24

def fieldCovers (M : Model) (E : Env) (bad : List PyTy) (p : Name × Bool × Ty) (f : Field) : Bool :=
  fieldCoversW (annOK M E bad linkFuel) M E bad linkFuel p f

def clsCovers (M : Model) (E : Env) (bad : List PyTy) (props : List (Name × Bool × Ty)) (cl : Cls) : Bool :=
  clsCoversW (annOK M E bad linkFuel) M E bad linkFuel props cl

def structCovers (M : Model) (E : Env) (bad : List PyTy) (s : Struct) : Bool :=
  match E.pkg.findCls s.name with
  | some cl => clsCovers M E bad (propsOf (flatten M s)) cl
  | Option.none => false

def structsCover (M : Model) (E : Env) (bad : List PyTy) : Bool := M.structures.all (structCovers M E bad)

/-- structures the package does not cover, for the report -/
def structFailures (M : Model) (E : Env) (bad : List PyTy) : List Name :=
  (M.structures.filter (fun s => !(structCovers M E bad s))).map (·.name)

/-! ### message classes (JSON-RPC envelope) -/

def requestProps (r : Request) : List (Name × Bool × Ty) :=
  [(n!"jsonrpc", false, .strLit n!"2.0"), (n!"id", false, idTyJ), (n!"method", false, .strLit r.method)] ++
  (match r.params with | some t => [(n!"params", false, t)] | Option.none => [])

/-- a response answers a request id, or `null` when the request could not be read (JSON-RPC) -/
def responseIdTy : Ty := .or [.base .integer, .base .string, .base .null]

def responseProps (r : Request) : List (Name × Bool × Ty) :=
  [(n!"jsonrpc", false, .strLit n!"2.0"), (n!"id", false, responseIdTy), (n!"result", false, r.result)]

def notificationProps (nt : Notification) : List (Name × Bool × Ty) :=
  [(n!"jsonrpc", false, .strLit n!"2.0"), (n!"method", false, .strLit nt.method)] ++
  (match nt.params with | some t => [(n!"params", false, t)] | Option.none => [])

def entryOf (E : Env) (method : Name) : Option MethodEntry := E.pkg.methodToTypes.find? (·.method == method)

def requestCovered (M : Model) (E : Env) (bad : List PyTy) (r : Request) : Bool :=
  match entryOf E r.method with
  | some e => (match E.pkg.findCls e.req with | some cl => clsCovers M E bad (requestProps r) cl | Option.none => false)
  | Option.none => false

def responseCovered (M : Model) (E : Env) (bad : List PyTy) (r : Request) : Bool :=
  match entryOf E r.method with
  | some e => (match e.resp with
    | some rn => (match E.pkg.findCls rn with | some cl => clsCovers M E bad (responseProps r) cl | Option.none => false)
    | Option.none => false)
  | Option.none => false

def notificationCovered (M : Model) (E : Env) (bad : List PyTy) (nt : Notification) : Bool :=
  match entryOf E nt.method with
  | some e => (match E.pkg.findCls e.req with | some cl => clsCovers M E bad (notificationProps nt) cl | Option.none => false)
  | Option.none => false

/-- closed validity of a message / of a structure by name (what the theorems of Props/C01.lean quantify over) -/
def validRequestC (M : Model) (r : Request) (j : Json) : Bool := validTyC M vFuel (.lit (requestProps r)) j
def validResponseC (M : Model) (r : Request) (j : Json) : Bool := validTyC M vFuel (.lit (responseProps r)) j
def validNotificationC (M : Model) (nt : Notification) (j : Json) : Bool := validTyC M vFuel (.lit (notificationProps nt)) j
def validStructC (M : Model) (s : Struct) (j : Json) : Bool :=
  match j with
  | .obj kvs => validPropsC (validTyC M vFuel) (propsOf (flatten M s)) kvs
  | _ => false

/-- closed validity of a value for a root type given by the name of its Python class / alias:
    a structure, a request / response / notification class (through the method catalogue), or an alias -/
def validRootC (M : Model) (E : Env) (name : Name) (j : Json) : Option Bool :=
  match M.findStruct name with
  | some s => some (validStructC M s j)
  | Option.none =>
    match E.pkg.methodToTypes.find? (fun e => e.req == name) with
    | some e =>
      (match M.requests.find? (·.method == e.method) with
       | some r => some (validRequestC M r j)
       | Option.none => (M.notifications.find? (·.method == e.method)).map (fun nt => validNotificationC M nt j))
    | Option.none =>
      match E.pkg.methodToTypes.find? (fun e => e.resp == some name) with
      | some e => (M.requests.find? (·.method == e.method)).map (fun r => validResponseC M r j)
      | Option.none => (M.findAlias name).map (fun a => validTyC M vFuel a.ty j)

/-- a type alias as a root type: the alias object the package exports covers the alias, and is inside the universe T1 was checked on -/
def aliasCovered (M : Model) (E : Env) (bad H : List PyTy) (a : Alias) : Bool :=
  match E.pkg.aliases.find? (·.1 == a.name) with
  | some p => annOK M E bad linkFuel (.ref a.name) p.2 && lightOK E bad H lightFuel p.2
  | Option.none => false

/-- message classes that are NOT covered (each must be explained by an excluded annotation) -/
def messageFailures (M : Model) (E : Env) (bad : List PyTy) : List (Name × Name) :=
  (M.requests.filter (fun r => !(requestCovered M E bad r))).map (fun r => (n!"request", r.method)) ++
  (M.requests.filter (fun r => !(responseCovered M E bad r))).map (fun r => (n!"response", r.method)) ++
  (M.notifications.filter (fun nt => !(notificationCovered M E bad nt))).map (fun nt => (n!"notification", nt.method))

end LspVerif
