/-
  A model of the testdata plugin's generation algorithm
  (generator/plugins/testdata/testdata_generator.py): for every type of the metamodel the list of
  (label, value) pairs it yields, in order; the envelope variants; the per-message vectors.
  `none` stands for the Python exceptions of the algorithm (ZeroDivisionError of `extend` on an empty
  variant list, `max()` of an empty sequence, unknown reference, a non-dict member of an `and`), or
  for fuel exhaustion (the real recursion is bounded by the `visited` list: at most two occurrences
  of a reference name on a path).

  The model is tied to the code by the correspondence of tools/props/c17.py: the driver
  (Driver/TestGen.lean) prints every vector of every message class for the metamodel of the run and the
  stream is compared, in order and with key order, with what `generate()` of the current tree yields.
  The theorems about it are in Props/C17Gen.lean.
-/
import LspVerif.Spec.StrictValid
namespace LspVerif.TestGen
open LspVerif

/-- a generated value, or the `Ignore()` marker (an optional property / absent member left out) -/
inductive GV
  | ignore
  | val (j : Json)
  deriving Inhabited

abbrev Vs := List (Bool × GV)

def GV.isIgnore : GV → Bool
  | .ignore => true
  | .val _ => false

def LSP_MAX_INT : Int := 2147483647
def LSP_MIN_INT : Int := -2147483648
def LSP_OVER_MAX_INT : Int := 2147483648
def LSP_UNDER_MIN_INT : Int := -2147483649
def LSP_OVER_MAX_UINT : Int := 4294967297
def LSP_UNDER_MIN_UINT : Int := -1

def someString : Name := n!"some string 🐍🐜"
def one0 : Json := .dec n!"1.0"

def v (b : Bool) (j : Json) : Bool × GV := (b, .val j)

def genBase : Base → Vs
  | .string => [v true (.str someString), v true (.str n!"")]
  | .integer => [v true (.int 1), v true (.int LSP_MAX_INT), v true (.int LSP_MIN_INT), v false (.int LSP_OVER_MAX_INT), v false (.int LSP_UNDER_MIN_INT)]
  | .decimal => [v true one0]
  | .boolean => [v true (.bool true), v true (.bool false)]
  | .null => [v true .null]
  | .uinteger => [v true (.int 1), v true (.int LSP_MAX_INT), v true (.int 0), v false (.int LSP_OVER_MAX_UINT), v false (.int LSP_UNDER_MIN_UINT)]
  | .uri | .documentUri => [v true (.str n!"file:///some/path")]
  | .regExp => [v true (.str n!".*")]

/-- `zip(*extend_all(lists))`: row k takes element k mod len of every list, for k below min(1000, longest) -/
def rows {α} (lists : List (List α)) : Option (List (List α)) :=
  if lists.isEmpty || lists.any (·.isEmpty) then none
  else
    let maxLen := min 1000 (lists.foldl (fun m l => max m l.length) 0)
    some ((List.range maxLen).map (fun k => lists.filterMap (fun l => l[k % l.length]?)))

/-- `d.update(e)` on insertion-ordered dicts -/
def dictSet (kvs : List (Name × Json)) (k : Name) (x : Json) : List (Name × Json) :=
  if kvs.any (·.1 == k) then kvs.map (fun kv => if kv.1 == k then (k, x) else kv) else kvs ++ [(k, x)]

def dictUpdate (a b : List (Name × Json)) : List (Name × Json) := b.foldl (fun acc kv => dictSet acc kv.1 kv.2) a

/-- a dict literal / comprehension with possibly repeated keys -/
def dictOf (kvs : List (Name × Json)) : List (Name × Json) := dictUpdate [] kvs

/-- get_all_extends -/
def allExtends (M : Model) : Nat → Struct → Option (List Struct)
  | 0, _ => none
  | f + 1, s =>
    s.exts.foldlM (fun acc e => do
      let es ← M.findStruct e
      let sub ← allExtends M f es
      let acc := acc ++ [es]
      pure (sub.foldl (fun a x => if a.any (·.name == x.name) then a else a ++ [x]) acc)) []

def addProps (acc more : List Prp) : List Prp :=
  more.foldl (fun a p => if a.any (·.name == p.name) then a else a ++ [p]) acc

/-- get_all_properties: own, then those of every (transitive) base, then those of the mixins; first declaration wins -/
def allProps (M : Model) : Nat → Struct → Option (List Prp)
  | 0, _ => none
  | f + 1, s => do
    let exts ← allExtends M (f + 1) s
    let acc ← exts.foldlM (fun acc e => do pure (addProps acc (← allProps M f e))) (addProps [] s.props)
    s.mixins.foldlM (fun acc m => do
      let ms ← M.findStruct m
      pure (addProps acc (← allProps M f ms))) acc

def keyOf : Json → Option Name
  | .str s => some s
  | .int i => some (Name.ofString (toString i))
  | _ => none

def isNullTy : Ty → Bool
  | .base .null => true
  | _ => false

def objOfRow (names : List Name) (row : List (Bool × GV)) : Json :=
  .obj (dictOf ((names.zip row).filterMap (fun p => match p.2.2 with | .val j => some (p.1, j) | .ignore => none)))

def rowValid (row : List (Bool × GV)) : Bool := row.all (·.1)

def propFuel : Nat := 64

/-- generate_for_type (with generate_for_reference etc. inlined); `vis` is the `visited` list -/
def genTy (M : Model) : Nat → List Name → Ty → Option Vs
  | 0, _, _ => none
  | f + 1, vis, t =>
    match t with
    | .base b => some (genBase b)
    | .strLit s => some [v true (.str s)]
    | .intLit _ | .boolLit _ => some []          -- no such branch in generate_for_type: nothing is yielded
    | .array e => do
      let g ← genTy M f vis e
      let singles := g.filterMap (fun p => match p.2 with | .val j => some (v p.1 (.arr [j])) | .ignore => none)
      let g100 := g.take 100
      let pairs := g100.flatMap (fun a => g100.filterMap (fun b =>
        match a.2, b.2 with
        | .val x, .val y => some (v (a.1 && b.1) (.arr [x, y]))
        | _, _ => none))
      pure (v true (.arr []) :: singles ++ pairs)
    | .tuple ts => do
      let gs ← ts.mapM (genTy M f vis)
      let rs ← rows gs
      pure (rs.map (fun row => v (rowValid row) (.arr (row.filterMap (fun p => match p.2 with | .val j => some j | .ignore => none)))))
    | .map k x => do
      let ks ← genTy M f vis k
      let xs ← genTy M f vis x
      let pairs := ks.flatMap (fun a => xs.filterMap (fun b =>
        match a.2, b.2 with
        | .val kj, .val xj => some (a.1 && b.1, kj, xj)
        | _, _ => none))
      pairs.mapM (fun p => (keyOf p.2.1).map (fun key => v p.1 (.obj [(key, p.2.2)])))
    | .or ts => do
      let gs ← (ts.filter (fun t => !isNullTy t)).mapM (genTy M f vis)
      pure ((if ts.any isNullTy then [v true .null] else []) ++ gs.flatten)
    | .and ts => do
      let gs ← ts.mapM (genTy M f vis)
      let rs ← rows gs
      rs.mapM (fun row => do
        let ds ← row.mapM (fun p => match p.2 with | .val (.obj kvs) => some kvs | _ => none)
        pure (v (rowValid row) (.obj (ds.foldl dictUpdate []))))
    | .lit props =>
      if props.isEmpty then some [v true (.obj [(n!"lspExtension", .str n!"some value")]), v true (.obj [])]
      else do
        let gs ← props.mapM (fun p => genTy M f vis p.2.2)
        let rs ← rows gs
        pure (rs.map (fun row => v (rowValid row) (objOfRow (props.map (·.1)) row)))
    | .ref r =>
      let vis := vis ++ [r]
      if (vis.filter (· == r)).length > 2 then some []
      else match M.findStruct r with
        | some s => do
          let props ← allProps M propFuel s
          if props.isEmpty then pure [v true (.obj [(n!"lspExtension", .str n!"some value")]), v true (.obj [])]
          else
            let gs ← props.mapM (fun p => do
              let g ← genTy M f vis p.ty
              pure (if p.optional then (true, GV.ignore) :: g else g))
            let rs ← rows gs
            pure (rs.map (fun row => v (rowValid row) (objOfRow (props.map (·.name)) row)))
        | none => match M.findAlias r with
          | some a => do
            let g ← genTy M f vis a.ty
            if r == n!"LSPObject" || r == n!"LSPAny" || r == n!"LSPArray" then pure (g.map (fun p => (true, p.2))) else pure g
          | none => match M.findEnum r with
            | some e => match e.values.head? with
              | none => none                               -- enum.values[0]: IndexError
              | some e0 => (match e0.value with
                | .i i => some [v true (.int i), v e.custom (.int 12345)]
                | .s s => some [v true (.str s), v e.custom (.str n!"testCustomValue")])
            | none => none                                 -- ValueError: unknown reference

/-- one below the fuel at which `validRequest` … read the `params` / `result` member (vFuel - 2): see Props/C17Gen.lean -/
def genFuel : Nat := 58

def idVariants : List (Bool × Json) :=
  [(true, .int 1), (true, .int LSP_MAX_INT), (true, .int LSP_MIN_INT), (true, .str n!"string-id-1"),
   (false, .int LSP_OVER_MAX_INT), (false, .int LSP_UNDER_MIN_INT), (false, one0), (false, .bool true), (false, .null)]

def jsonrpc : Name × Json := (n!"jsonrpc", .str n!"2.0")

def requestVariants (method : Name) : List (Bool × List (Name × Json)) :=
  idVariants.map (fun p => (p.1, [jsonrpc, (n!"id", p.2), (n!"method", .str method)])) ++
  [(false, [jsonrpc, (n!"method", .str method)]), (false, [jsonrpc, (n!"id", .int 1)]), (false, [(n!"id", .int 1), (n!"method", .str method)])]

def responseVariants : List (Bool × List (Name × Json)) :=
  idVariants.map (fun p => (p.1, [jsonrpc, (n!"id", p.2)])) ++ [(false, [jsonrpc]), (false, [(n!"id", .int 1)])]

def notifyVariants (method : Name) : List (Bool × List (Name × Json)) :=
  [(true, [jsonrpc, (n!"method", .str method)]), (false, [jsonrpc, (n!"id", .int 1), (n!"method", .str method)])]

def genOpt (M : Model) : Option Ty → Option Vs
  | none => some [(true, .ignore)]
  | some t => genTy M genFuel [] t

/-- an envelope variant paired with a generated member -/
inductive Part
  | env (kvs : List (Name × Json))
  | gv (g : GV)
  deriving Inhabited

def withParams (envs : List (Bool × List (Name × Json))) (ps : Vs) : Option (List (Bool × Json)) := do
  let rs ← rows [envs.map (fun e => (e.1, Part.env e.2)), ps.map (fun p => (p.1, Part.gv p.2))]
  rs.mapM (fun row => match row with
    | [(b1, .env base), (b2, .gv (.val p))] => some (b1 && b2, .obj (dictUpdate base [(n!"params", p)]))
    | [(b1, .env base), (b2, .gv .ignore)] => some (b1 && b2, .obj base)
    | _ => none)

def genRequest (M : Model) (r : Request) : Option (List (Bool × Json)) := do
  withParams (requestVariants r.method) (← genOpt M r.params)

def genNotification (M : Model) (n : Notification) : Option (List (Bool × Json)) := do
  withParams (notifyVariants n.method) (← genOpt M n.params)

def responseError : Struct :=
  { name := n!"ResponseError",
    props := [{ name := n!"code", ty := .base .integer }, { name := n!"message", ty := .base .string },
              { name := n!"data", ty := .ref n!"LSPObject", optional := true }] }

/-- `spec.structures.append(RESPONSE_ERROR)` -/
def withResponseError (M : Model) : Model := { M with structures := M.structures ++ [responseError] }

def genResponse (M : Model) (r : Request) : Option (List (Bool × Json)) := do
  let res ← genTy M genFuel [] r.result
  let err ← genTy M genFuel [] (.ref n!"ResponseError")
  let rs ← rows [responseVariants.map (fun e => (e.1, Part.env e.2)), res.map (fun p => (p.1, Part.gv p.2)), err.map (fun p => (p.1, Part.gv p.2))]
  rs.mapM (fun row => match row with
    | [(b1, .env base), (b2, .gv (.val x)), (b3, .gv (.val e))] => some (b1 && b2 && b3, .obj (dictUpdate (dictUpdate base [(n!"result", x)]) [(n!"error", e)]))
    | [(b1, .env base), (b2, .gv .ignore), (b3, _)] => some (b1 && b2 && b3, .obj base)
    | _ => none)

end LspVerif.TestGen
