/-
  Wire-schema specification for the emitted Rust source (C07): tables parsed from the rust
  plugin's output (x_rust.py), the documented metamodel → Rust mapping as a specification
  function, serde's `rename_all = "camelCase"` rule, and checkers that return mismatch lists.
-/
import LspVerif.Spec.Messages
namespace LspVerif.Wire
open LspVerif

/-- Target-language type expressions: `Name<args>` or a tuple. -/
inductive XTy
  | n (name : Name) (args : List XTy)
  | tup (items : List XTy)
  deriving Repr, Inhabited

def XTy.beqF : Nat → XTy → XTy → Bool
  | 0, _, _ => false
  | k + 1, .n a as, .n b bs => a == b && as.length == bs.length && (as.zip bs).all (fun p => XTy.beqF k p.1 p.2)
  | k + 1, .tup as, .tup bs => as.length == bs.length && (as.zip bs).all (fun p => XTy.beqF k p.1 p.2)
  | _, _, _ => false

def XTy.beq (a b : XTy) : Bool := XTy.beqF 12 a b

/-- `Box<T>` is transparent for serde. -/
def XTy.unbox : Nat → XTy → XTy
  | 0, t => t
  | k + 1, .n nm [a] => if nm == n!"Box" then XTy.unbox k a else .n nm [XTy.unbox k a]
  | k + 1, .n nm as => .n nm (as.map (XTy.unbox k))
  | k + 1, .tup as => .tup (as.map (XTy.unbox k))

structure RField where
  ident : Name
  rename : Option Name := none
  ty : XTy
  gated : Bool := false
  skipNone : Bool := false
  wireHint : Name := 1      -- the serde wire name as computed by the translator; checked by `wireHintsOK`
  deriving Repr, Inhabited

structure RStruct where
  name : Name
  renameAll : Option Name := none
  gated : Bool := false
  fields : List RField
  deriving Repr, Inhabited

structure RVariant where
  ident : Name
  rename : Option Name := none
  disc : Option Int := none
  payload : Option XTy := none
  gated : Bool := false
  deriving Repr, Inhabited

structure REnum where
  name : Name
  untagged : Bool := false
  gated : Bool := false
  variants : List RVariant
  serArms : List (Name × Int) := []
  deArms : List (Int × Name) := []
  deriving Repr, Inhabited

structure RPkg where
  structs : List RStruct
  enums : List REnum
  aliases : List (Name × XTy × Bool)
  deriving Repr, Inhabited

def T (nm : Name) : XTy := .n nm []

/-- a class the plugin names from its context (anonymous literal, map with a union value) -/
def generated : XTy := T n!"?generated"

/-- equality where `generated` on the expected side matches any plain name -/
def eqW : Nat → XTy → XTy → Bool
  | 0, _, _ => false
  | k + 1, .n a as, .n b bs =>
    if b == n!"?generated" then as.isEmpty
    else a == b && as.length == bs.length && (as.zip bs).all (fun p => eqW k p.1 p.2)
  | k + 1, .tup as, .tup bs => as.length == bs.length && (as.zip bs).all (fun p => eqW k p.1 p.2)
  | _, _, _ => false

/-! ### serde's camelCase rule on the byte encoding of names -/

def bytesOf : Nat → Nat → List Nat → List Nat
  | 0, _, acc => acc
  | k + 1, n, acc => bytesOf k (n / 256) ((n % 256) :: acc)

def nameBytes (n : Name) : List Nat := bytesOf (Name.byteLen n) n []
def nameOfBytes (bs : List Nat) : Name := bs.foldl (fun acc b => acc * 256 + b) 1

def upperAscii (b : Nat) : Nat := if 97 ≤ b && b ≤ 122 then b - 32 else b
def lowerAscii (b : Nat) : Nat := if 65 ≤ b && b ≤ 90 then b + 32 else b

/-- serde `RenameRule::PascalCase.apply_to_field`: drop '_', upper-case the first char and each char after '_'. -/
def pascalBytes : Bool → List Nat → List Nat
  | _, [] => []
  | cap, b :: rest =>
    if b == 95 then pascalBytes true rest
    else if cap then upperAscii b :: pascalBytes false rest
    else b :: pascalBytes false rest

/-- serde `RenameRule::CamelCase.apply_to_field`: PascalCase with the first char lower-cased. -/
def serdeCamel (n : Name) : Name :=
  match pascalBytes true (nameBytes n) with
  | [] => nameOfBytes []
  | b :: rest => nameOfBytes (lowerAscii b :: rest)

example : serdeCamel n!"additional_text_edits" = n!"additionalTextEdits" := by decide +kernel
example : serdeCamel n!"uri" = n!"uri" := by decide +kernel
example : nameOfBytes (nameBytes n!"héllo") = n!"héllo" := by decide +kernel

/-- the name serde uses for a field on the wire -/
def RField.wire (s : RStruct) (f : RField) : Name :=
  match f.rename with
  | some r => r
  | none => if s.renameAll == some n!"camelCase" then serdeCamel f.ident else f.ident

/-- the translator's wire-name hints are what serde's rule gives (one evaluation per field) -/
def wireHintsOK (ss : List RStruct) : Bool := ss.all (fun s => s.fields.all (fun f => f.wireHint == f.wire s))

/-! ### the documented metamodel → Rust mapping -/

def rustBase : Base → XTy
  | .string | .regExp => T n!"String"
  | .documentUri | .uri => T n!"Url"
  | .decimal => T n!"Decimal"
  | .integer => T n!"i32"
  | .uinteger => T n!"u32"
  | .boolean => T n!"bool"
  | .null => T n!"LSPNull"

def isNullTy : Ty → Bool
  | .base .null => true
  | _ => false

def orName (k : Nat) : Name :=
  match k with
  | 2 => n!"OR2" | 3 => n!"OR3" | 4 => n!"OR4" | 5 => n!"OR5" | 6 => n!"OR6" | 7 => n!"OR7" | _ => n!"OR?"

/-- mapped Rust type, without the `Option` wrapper -/
def rustTyOf (M : Model) : Nat → Ty → XTy
  | 0, _ => T n!"?fuel"
  | k + 1, t =>
    match t with
    | .base b => rustBase b
    | .ref r =>
      (match M.findEnum r with
       | some e => if e.custom then (if e.base == .string then .n n!"CustomStringEnum" [T r] else .n n!"CustomIntEnum" [T r]) else T r
       | none => T r)
    | .array e => .n n!"Vec" [rustTyOf M k e]
    | .map a b => .n n!"HashMap" [rustTyOf M k a, rustTyOf M k b]
    | .or items =>
      let sub := (items.filter (fun i => !isNullTy i)).map (rustTyOf M k)
      (match sub with
       | [x] => x
       | xs => .n (orName xs.length) xs)
    | .tuple items =>
      let sub := (items.filter (fun i => !isNullTy i)).map (rustTyOf M k)
      (match sub with
       | [x] => x
       | xs => .tup xs)
    | .strLit _ => T n!"String"
    | .lit [] => T n!"LSPObject"
    | .lit _ => generated
    | _ => T n!"?unsupported"

/-- `or` / `tuple` with a null member -/
def specialNull : Ty → Bool
  | .or items => items.any isNullTy
  | .tuple items => items.any isNullTy
  | _ => false

def rustFieldTy (M : Model) (p : Prp) : XTy :=
  let t := rustTyOf M tyFuel p.ty
  if p.optional || specialNull p.ty then .n n!"Option" [t] else t

/-! ### checkers -/

def showXF : Nat → XTy → String
  | 0, _ => "…"
  | k + 1, .n a [] => a.toString
  | k + 1, .n a as => a.toString ++ "<" ++ ", ".intercalate (as.map (showXF k)) ++ ">"
  | k + 1, .tup as => "(" ++ ", ".intercalate (as.map (showXF k)) ++ ")"

/-- readable rendering for replay files only (never used in a checker's verdict) -/
def showX (t : XTy) : String := showXF 32 t

def rustStructMismatches (M : Model) (R : RPkg) (s : Struct) : List Mismatch :=
  match R.structs.find? (·.name == s.name) with
  | none => [⟨s.name.toString, "struct-missing", s.name.toString, ""⟩]
  | some rs =>
    let props := flatten M s
    (if rs.gated == s.proposed then [] else [⟨s.name.toString, "feature-gate", toString s.proposed, toString rs.gated⟩]) ++
    props.flatMap (fun p =>
      match rs.fields.filter (fun f => f.wireHint == p.name) with
      | [f] =>
        let site := s.name.toString ++ "." ++ p.name.toString
        (if eqW 12 (XTy.unbox 8 f.ty) (rustFieldTy M p) then [] else [⟨site, "rust-type", showX (rustFieldTy M p), showX f.ty⟩]) ++
        (if f.gated == p.proposed then [] else [⟨site, "feature-gate", toString p.proposed, toString f.gated⟩])
      | [] => [⟨s.name.toString ++ "." ++ p.name.toString, "field-missing", p.name.toString, ""⟩]
      | _ => [⟨s.name.toString ++ "." ++ p.name.toString, "field-duplicate", p.name.toString, ""⟩]) ++
    rs.fields.flatMap (fun f =>
      if props.any (·.name == f.wireHint) then [] else [⟨s.name.toString ++ "." ++ f.wireHint.toString, "field-extra", "", f.ident.toString⟩])

def showVals (vs : List EnumVal) : String := toString (repr vs)

def rustEnumMismatches (R : RPkg) (e : Enum) : List Mismatch :=
  match R.enums.find? (·.name == e.name) with
  | none => [⟨e.name.toString, "enum-missing", e.name.toString, ""⟩]
  | some re =>
    let vals := e.values.map (·.value)
    (if re.gated == e.proposed then [] else [⟨e.name.toString, "feature-gate", toString e.proposed, toString re.gated⟩]) ++
    (if re.variants.map (·.gated) == e.values.map (·.proposed) then [] else [⟨e.name.toString, "variant-feature-gates", "", ""⟩]) ++
    (if e.base == .string then
       (if re.variants.map (fun v => v.rename.map EnumVal.s) == vals.map some then []
        else [⟨e.name.toString, "string-discriminants", showVals vals, toString (repr (re.variants.map (·.rename)))⟩])
     else
       (if re.variants.map (fun v => v.disc.map EnumVal.i) == vals.map some then []
        else [⟨e.name.toString, "int-discriminants", showVals vals, toString (repr (re.variants.map (·.disc)))⟩]) ++
       (if re.serArms == re.variants.filterMap (fun v => v.disc.map (fun d => (v.ident, d))) then []
        else [⟨e.name.toString, "serialize-arms", "", ""⟩]) ++
       (if re.deArms == re.variants.filterMap (fun v => v.disc.map (fun d => (d, v.ident))) then []
        else [⟨e.name.toString, "deserialize-arms", "", ""⟩]))

/-- every payload of `as` equals the payload at the same position of `bs` -/
def sameTypes (as bs : List XTy) : Bool := as.length == bs.length && (as.zip bs).all (fun p => XTy.beq p.1 p.2)

def rustAliasMismatches (M : Model) (R : RPkg) (a : Alias) : List Mismatch :=
  if a.name == n!"LSPAny" || a.name == n!"LSPObject" then [] else   -- documented special cases
  match a.ty with
  | .or items =>
    (match R.enums.find? (·.name == a.name) with
     | none => [⟨a.name.toString, "or-alias-enum-missing", a.name.toString, ""⟩]
     | some re =>
       let alts := (items.filter (fun i => !isNullTy i)).map (rustTyOf M tyFuel)
       (if re.untagged then [] else [⟨a.name.toString, "or-alias-not-untagged", "untagged", ""⟩]) ++
       (if re.gated == a.proposed then [] else [⟨a.name.toString, "feature-gate", toString a.proposed, toString re.gated⟩]) ++
       (if sameTypes (re.variants.filterMap (·.payload)) alts && re.variants.all (·.payload.isSome) then []
        else [⟨a.name.toString, "or-alias-variants", toString (repr alts), toString (repr (re.variants.map (·.payload)))⟩]))
  | t =>
    (match R.aliases.find? (·.1 == a.name) with
     | none => [⟨a.name.toString, "alias-missing", a.name.toString, ""⟩]
     | some (_, ty, g) =>
       (if XTy.beq ty (rustTyOf M tyFuel t) then [] else [⟨a.name.toString, "alias-type", showX (rustTyOf M tyFuel t), showX ty⟩]) ++
       (if g == a.proposed then [] else [⟨a.name.toString, "feature-gate", toString a.proposed, toString g⟩]))

def methodEnumMismatches (R : RPkg) (enumName : Name) (methods : List Name) : List Mismatch :=
  match R.enums.find? (·.name == enumName) with
  | none => [⟨enumName.toString, "method-enum-missing", "", ""⟩]
  | some re =>
    if re.variants.map (·.rename) == methods.map some then []
    else [⟨enumName.toString, "method-enum-variants", toString (methods.map Name.toString), toString (re.variants.map (fun v => v.rename.map Name.toString))⟩]

def fieldTyIs (rs : RStruct) (wire : Name) (t : XTy) : Bool :=
  match rs.fields.filter (fun f => f.wireHint == wire) with
  | [f] => XTy.beq f.ty t
  | _ => false

def requestStructMismatches (R : RPkg) (r : Request) : List Mismatch :=
  match (some (withSuffix r.baseName n!"Request") : Option Name) with
  | none => []
  | some tn =>
    let base := if tn.endsWith n!"Request" then tn.dropSuffix n!"Request" else tn
    let respName := base.append n!"Response"
    (match R.structs.find? (·.name == tn) with
     | none => [⟨r.method.toString, "request-struct-missing", tn.toString, ""⟩]
     | some rs =>
       (if fieldTyIs rs n!"method" (T n!"LSPRequestMethods") && fieldTyIs rs n!"jsonrpc" (T n!"String") && fieldTyIs rs n!"id" (T n!"LSPId") then []
        else [⟨r.method.toString, "request-struct-envelope", "jsonrpc: String, method: LSPRequestMethods, id: LSPId", ""⟩]) ++
       (if rs.gated == r.proposed then [] else [⟨r.method.toString, "feature-gate", toString r.proposed, toString rs.gated⟩])) ++
    (match R.structs.find? (·.name == respName) with
     | none => [⟨r.method.toString, "response-struct-missing", respName.toString, ""⟩]
     | some rs =>
       if fieldTyIs rs n!"id" (T n!"LSPIdOptional") && fieldTyIs rs n!"jsonrpc" (T n!"String") then []
       else [⟨r.method.toString, "response-struct-envelope", "jsonrpc: String, id: LSPIdOptional", ""⟩])

def notificationStructMismatches (R : RPkg) (n : Notification) : List Mismatch :=
  match (some (withSuffix n.baseName n!"Notification") : Option Name) with
  | none => []
  | some tn =>
    match R.structs.find? (·.name == tn) with
    | none => [⟨n.method.toString, "notification-struct-missing", tn.toString, ""⟩]
    | some rs =>
      (if fieldTyIs rs n!"method" (T n!"LSPNotificationMethods") && fieldTyIs rs n!"jsonrpc" (T n!"String") then []
       else [⟨n.method.toString, "notification-struct-envelope", "jsonrpc: String, method: LSPNotificationMethods", ""⟩]) ++
      (if rs.gated == n.proposed then [] else [⟨n.method.toString, "feature-gate", toString n.proposed, toString rs.gated⟩])

def rustStructsOK (M : Model) (R : RPkg) (ss : List Struct) : List Mismatch := ss.flatMap (rustStructMismatches M R)
def rustRestOK (M : Model) (R : RPkg) : List Mismatch :=
  M.enumerations.flatMap (rustEnumMismatches R) ++ M.aliases.flatMap (rustAliasMismatches M R) ++
  methodEnumMismatches R n!"LSPRequestMethods" (M.requests.map (·.method)) ++
  methodEnumMismatches R n!"LSPNotificationMethods" (M.notifications.map (·.method)) ++
  M.requests.flatMap (requestStructMismatches R) ++ M.notifications.flatMap (notificationStructMismatches R)

end LspVerif.Wire
