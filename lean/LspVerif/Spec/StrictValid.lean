/-
  Metamodel validity of a JSON value, read strictly (declared properties only, required ones
  present, integer ranges, closed enumerations, literal values), and the JSON-RPC envelope reading
  of C17: request id integer-or-string, `jsonrpc: "2.0"`, the method literal, declared envelope
  properties only.  Structures / literals without any declared property are extension points
  (any object), as the metamodel documents for `{}` literals.
-/
import LspVerif.Core.Json
import LspVerif.Spec.PySpec
namespace LspVerif

def inInt32 (i : Int) : Bool := decide (-2147483648 ≤ i) && decide (i ≤ 2147483647)
def inUInt31 (i : Int) : Bool := decide (0 ≤ i) && decide (i ≤ 2147483647)

def validBase : Base → Json → Bool
  | .string, .str _ | .documentUri, .str _ | .uri, .str _ | .regExp, .str _ => true
  | .integer, .int i => inInt32 i
  | .uinteger, .int i => inUInt31 i
  | .decimal, .int _ | .decimal, .dec _ => true
  | .boolean, .bool _ => true
  | .null, .null => true
  | _, _ => false

def enumHas (e : Enum) (j : Json) : Bool :=
  match j with
  | .str s => e.values.any (fun v => v.value == .s s)
  | .int i => e.values.any (fun v => v.value == .i i)
  | _ => false

/-- object validity against a property list; `recur` validates a value against a type -/
def validProps (recur : Ty → Json → Bool) (props : List (Name × Bool × Ty)) (kvs : List (Name × Json)) : Bool :=
  if props.isEmpty then true else
  kvs.all (fun kv => props.any (fun p => p.1 == kv.1)) &&
  props.all (fun p => match Json.lookup kvs p.1 with
    | some v => recur p.2.2 v
    | none => p.2.1)

def propsOf (ps : List Prp) : List (Name × Bool × Ty) := ps.map (fun p => (p.name, p.optional, p.ty))

def validTy (M : Model) : Nat → Ty → Json → Bool
  | 0, _, _ => false
  | n + 1, t, j =>
    match t with
    | .base b => validBase b j
    | .strLit s => (match j with | .str x => x == s | _ => false)
    | .intLit i => (match j with | .int x => x == i | _ => false)
    | .boolLit b => (match j with | .bool x => x == b | _ => false)
    | .ref r =>
      if r == n!"LSPAny" then true
      else if r == n!"LSPObject" then (match j with | .obj _ => true | _ => false)
      else if r == n!"LSPArray" then (match j with | .arr _ => true | _ => false)
      else match M.findEnum r with
        | some e => if e.custom then validBase e.base j else enumHas e j
        | none => match M.findStruct r with
          | some s => (match j with
            | .obj kvs => validProps (validTy M n) (propsOf (flatten M s)) kvs
            | _ => false)
          | none => match M.findAlias r with
            | some a => validTy M n a.ty j
            | none => false
    | .array e => (match j with | .arr xs => xs.all (validTy M n e) | _ => false)
    | .map _ v => (match j with | .obj kvs => kvs.all (fun kv => validTy M n v kv.2) | _ => false)
    | .tuple ts => (match j with
      | .arr xs => xs.length == ts.length && (ts.zip xs).all (fun p => validTy M n p.1 p.2)
      | _ => false)
    | .or ts => ts.any (fun a => validTy M n a j)
    | .and ts =>
      (match j with
       | .obj kvs =>
         let props := ts.flatMap (fun a => match a with
           | .ref r => (match M.findStruct r with | some s => propsOf (flatten M s) | none => [])
           | _ => [])
         validProps (validTy M n) props kvs
       | _ => false)
    | .lit props => (match j with | .obj kvs => validProps (validTy M n) props kvs | _ => false)

def vFuel : Nat := 60

def idTyJ : Ty := .or [.base .integer, .base .string]

/-- request message: exactly jsonrpc, id, method and (when the metamodel declares them) params -/
def validRequest (M : Model) (r : Request) (j : Json) : Bool :=
  let props : List (Name × Bool × Ty) :=
    [(n!"jsonrpc", false, .strLit n!"2.0"), (n!"id", false, idTyJ), (n!"method", false, .strLit r.method)] ++
    (match r.params with | some t => [(n!"params", false, t)] | none => [])
  validTy M vFuel (.lit props) j

/-- response message, as the response class declares it: jsonrpc, id (of the request), result -/
def validResponse (M : Model) (r : Request) (j : Json) : Bool :=
  validTy M vFuel (.lit [(n!"jsonrpc", false, .strLit n!"2.0"), (n!"id", false, idTyJ), (n!"result", false, r.result)]) j

def validNotification (M : Model) (nt : Notification) (j : Json) : Bool :=
  let props : List (Name × Bool × Ty) :=
    [(n!"jsonrpc", false, .strLit n!"2.0"), (n!"method", false, .strLit nt.method)] ++
    (match nt.params with | some t => [(n!"params", false, t)] | none => [])
  validTy M vFuel (.lit props) j

/-- validity composes by conjunction over object members: what makes the generator's
    "label = conjunction of the members' labels" correct for objects -/
theorem validProps_cons (recur : Ty → Json → Bool) (p : Name × Bool × Ty) (ps : List (Name × Bool × Ty)) (kvs : List (Name × Json))
    (h : validProps recur (p :: ps) kvs = true) :
    (match Json.lookup kvs p.1 with | some v => recur p.2.2 v = true | none => p.2.1 = true) := by
  simp only [validProps, List.isEmpty_cons, Bool.false_eq_true, if_false, Bool.and_eq_true, List.all_cons] at h
  obtain ⟨_, h2, _⟩ := h
  split at h2 <;> simp_all

theorem validTy_array (M : Model) (n : Nat) (e : Ty) (xs : List Json) :
    validTy M (n + 1) (.array e) (.arr xs) = xs.all (validTy M n e) := by
  simp [validTy]

theorem validTy_or (M : Model) (n : Nat) (ts : List Ty) (j : Json) :
    validTy M (n + 1) (.or ts) j = ts.any (fun a => validTy M n a j) := by
  simp [validTy]

end LspVerif
