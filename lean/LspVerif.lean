import LspVerif.Core.Cmp
import LspVerif.Props.C20
import LspVerif.Driver.Cmp
