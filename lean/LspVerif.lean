import LspVerif.Core.Name
import LspVerif.Core.Cmp
import LspVerif.Core.Meta
import LspVerif.Core.Py
import LspVerif.Spec.PySpec
import LspVerif.Props.C20
import LspVerif.Driver.Cmp
import LspVerif.Props.C04
