"""Operation streams for the converter properties (C01-C03, C10, C11, C13-C15): structured,
mostly-valid inputs generated from the metamodel, plus a separate malformed stream.  Pure stdlib.
Every random choice derives from the seed."""
from __future__ import annotations

import copy
import json
import random

import valuegen
from valuegen import Meta, ValueGen, type_sig


def dumps(j) -> str:
    return json.dumps(j, ensure_ascii=False, separators=(",", ":"))


class Streams:
    def __init__(self, meta: Meta, seed: int, thorough: bool):
        self.m = meta
        self.rnd = random.Random(seed)
        self.thorough = thorough
        self.vg = ValueGen(meta, self.rnd, max_depth=6 if thorough else 4)
        self.roots = list(meta.roots())
        self.root_type = {n: t for n, _, t in self.roots}
        self.root_kind = {n: k for n, k, _ in self.roots}

    # ---- helpers
    def first_or(self, t, depth=0):
        """The first `or` met from t through aliases / arrays / map values; returns (wrap, or_type)."""
        if depth > 12:
            return None
        k = t["kind"]
        if k == "or":
            return (lambda v: v, t)
        if k == "reference" and t["name"] in self.m.aliases and t["name"] not in ("LSPAny", "LSPObject", "LSPArray"):
            return self.first_or(self.m.aliases[t["name"]]["type"], depth + 1)
        if k == "array":
            r = self.first_or(t["element"], depth + 1)
            if r:
                w, o = r
                return (lambda v, w=w: [w(v)], o)
        if k == "map":
            r = self.first_or(t["value"], depth + 1)
            if r:
                w, o = r
                return (lambda v, w=w: {"file:///k": w(v)}, o)
        return None

    def valid_stream(self):
        """(root, tag, json) — all metamodel-valid."""
        n_rand = 12 if self.thorough else 2
        for name, kind, t in self.roots:
            yield (name, "min", self.vg.value(t, "min"))
            yield (name, "max", self.vg.value(t, "max"))
            for _ in range(n_rand):
                yield (name, "rand", self.vg.value(t, "rand"))
        # each alternative of each union occurrence, placed in its minimal surrounding
        for name, kind, t in self.roots:
            if kind == "structure":
                props = self.m.flatten(name)
            elif t["kind"] == "literal":
                props = t["value"]["properties"]
            else:
                props = None
            if props is None:
                r = self.first_or(t)
                if r:
                    w, o = r
                    for i, alt in enumerate(o["items"]):
                        for mode in ("min", "max"):
                            yield (name, f"alt{i}:{mode}", w(self.vg.value(alt, mode, depth=1)))
                continue
            base = self.vg.value(t, "min")
            for p in props:
                r = self.first_or(p["type"])
                if not r:
                    continue
                w, o = r
                for i, alt in enumerate(o["items"]):
                    for mode in ("min", "max"):
                        j = dict(base)
                        j[p["name"]] = w(self.vg.value(alt, mode, depth=2))
                        yield (name, f"{p['name']}=alt{i}:{mode}", j)
                # heterogeneous arrays: one element per alternative that is an element type
                if p["type"]["kind"] == "array" and p["type"]["element"]["kind"] in ("or", "reference"):
                    ro = self.first_or(p["type"]["element"])
                    if ro:
                        w2, o2 = ro
                        j = dict(base)
                        j[p["name"]] = [w2(self.vg.value(alt, "min", depth=2)) for alt in o2["items"]]
                        yield (name, f"{p['name']}=hetero", j)

        # nested unions (a union inside an array / map / alternative of another union): force each
        # alternative of each, placed in the minimal surrounding value
        for name, kind, t in self.roots:
            if t["kind"] == "literal":
                cands = [(p["name"], p["type"]) for p in t["value"]["properties"] if p["name"] in ("params", "result")]
            elif kind == "alias":
                cands = [(None, t)]
            else:
                cands = [(p["name"], p["type"]) for p in self.m.flatten(name)]
            base = self.vg.value(t, "min") if kind != "alias" else None
            for pname, pt in cands:
                for depth_tag, w, o in self.all_ors(pt, lambda v: v, 0):
                    if depth_tag == 0:
                        continue  # outermost union: done above
                    for i, alt in enumerate(o["items"]):
                        for mode in ("min", "max"):
                            v = w(self.vg.value(alt, mode, depth=3))
                            if pname is None:
                                yield (name, f"nested-alt{i}:{mode}", v)
                            else:
                                j = dict(base)
                                j[pname] = v
                                yield (name, f"{pname}=nested-alt{i}:{mode}", j)
                # arrays of a union element type, wherever they sit (also as one alternative of an outer
                # union): every alternative in one array, in both orders, and every ordered pair — a
                # decision taken on the first element (or on emptiness) must not be applied to the rest
                for w, o in self.all_union_arrays(pt, lambda v: v, 0):
                    alts = [self.vg.value(a, "min", depth=3) for a in o["items"] if a["kind"] != "base" or a["name"] != "null"]
                    arrs = [("hetero-all", alts), ("hetero-rev", list(reversed(alts)))]
                    if len(alts) <= 4:
                        arrs += [(f"hetero-{a}-{b}", [alts[a], alts[b]]) for a in range(len(alts)) for b in range(len(alts)) if a != b]
                    for tag, arr in arrs:
                        if len(arr) < 2:
                            continue
                        v = w(arr)
                        if pname is None:
                            yield (name, tag, v)
                        else:
                            j = dict(base)
                            j[pname] = v
                            yield (name, f"{pname}={tag}", j)
                # arrays whose elements are the same structure but differ in the alternative taken by
                # one of its union-typed properties (a probe of the first element cannot decide for all)
                for w, el in self.all_struct_arrays(pt, lambda v: v, 0):
                    for p in self.m.flatten(el["name"]):
                        ro = self.first_or(p["type"])
                        if not ro:
                            continue
                        w2, o = ro
                        elems = []
                        for a in o["items"]:
                            e = self.vg.value(el, "min", depth=3)
                            e[p["name"]] = w2(self.vg.value(a, "min", depth=4))
                            elems.append(e)
                        if len(elems) > 1:
                            for tag, arr in (("mixed", elems), ("mixed-rev", list(reversed(elems)))):
                                v = w(arr)
                                if pname is None:
                                    yield (name, f"{tag}:{el['name']}.{p['name']}", v)
                                else:
                                    j = dict(base)
                                    j[pname] = v
                                    yield (name, f"{pname}={tag}:{el['name']}.{p['name']}", j)

    def all_ors(self, t, wrap, depth):
        """(nesting, wrap, or_type) for every union reachable from t without entering a structure."""
        if depth > 6:
            return
        k = t["kind"]
        if k == "or":
            yield (depth, wrap, t)
            for alt in t["items"]:
                if alt["kind"] in ("array", "map", "or") or (alt["kind"] == "reference" and alt["name"] in self.m.aliases):
                    yield from ((d, w, o) for d, w, o in self.all_ors(alt, wrap, depth + 1))
        elif k == "reference" and t["name"] in self.m.aliases and t["name"] not in ("LSPAny", "LSPObject", "LSPArray"):
            yield from self.all_ors(self.m.aliases[t["name"]]["type"], wrap, depth)
        elif k == "array":
            yield from self.all_ors(t["element"], lambda v, w=wrap: w([v]), depth + 1)
        elif k == "map":
            yield from self.all_ors(t["value"], lambda v, w=wrap: w({"file:///k": v}), depth + 1)

    def resolve_or(self, t, depth=0):
        """the `or` type t is (through aliases), else None"""
        if depth > 8:
            return None
        if t["kind"] == "or":
            return t
        if t["kind"] == "reference" and t["name"] in self.m.aliases and t["name"] not in ("LSPAny", "LSPObject", "LSPArray"):
            return self.resolve_or(self.m.aliases[t["name"]]["type"], depth + 1)
        return None

    def all_union_arrays(self, t, wrap, depth):
        """(wrap_of_the_array, element or-type) for every array whose element type is a union, reachable
        from t through union alternatives, aliases, arrays and map values without entering a structure."""
        if depth > 6:
            return
        k = t["kind"]
        if k == "or":
            for alt in t["items"]:
                yield from self.all_union_arrays(alt, wrap, depth + 1)
        elif k == "reference" and t["name"] in self.m.aliases and t["name"] not in ("LSPAny", "LSPObject", "LSPArray"):
            yield from self.all_union_arrays(self.m.aliases[t["name"]]["type"], wrap, depth + 1)
        elif k == "array":
            o = self.resolve_or(t["element"])
            if o is not None:
                yield (wrap, o)
            yield from self.all_union_arrays(t["element"], lambda v, w=wrap: w([v]), depth + 1)
        elif k == "map":
            yield from self.all_union_arrays(t["value"], lambda v, w=wrap: w({"file:///k": v}), depth + 1)

    def all_struct_arrays(self, t, wrap, depth):
        """(wrap, element struct ref) for every array-of-structure reachable from t without entering a structure."""
        if depth > 6:
            return
        k = t["kind"]
        if k == "or":
            for alt in t["items"]:
                yield from self.all_struct_arrays(alt, wrap, depth + 1)
        elif k == "reference" and t["name"] in self.m.aliases and t["name"] not in ("LSPAny", "LSPObject", "LSPArray"):
            yield from self.all_struct_arrays(self.m.aliases[t["name"]]["type"], wrap, depth + 1)
        elif k == "array":
            el = t["element"]
            if el["kind"] == "reference" and el["name"] in self.m.structs:
                yield (wrap, el)
            else:
                yield from self.all_struct_arrays(el, lambda v, w=wrap: w([v]), depth + 1)

    def extras_stream(self):
        """(root, tag, json_without, json_with) for C15: every value of the valid stream (all root
        types; min / max / random; every forced union alternative, nested, mixed arrays) together
        with a copy in which fresh undeclared keys are injected at every protocol-object node."""
        for name, tag, a in self.valid_stream():
            b = self.inject(self.root_type[name], copy.deepcopy(a))
            if b is not None and b != a:
                yield (name, tag.split(":")[-1] if tag in ("min", "max", "rand") else tag, a, b)

    def inject(self, t, j, depth=0):
        """Add undeclared keys at every protocol-object node of j (type-directed). For `or` nodes
        the node is treated as a protocol object of every object alternative: a key is only
        added when no object alternative declares it (fresh names never are)."""
        if depth > 40:
            return j
        k = t["kind"]
        if k == "reference":
            n = t["name"]
            if n in ("LSPAny", "LSPObject", "LSPArray") or n in self.m.enums:
                return j
            if n in self.m.structs:
                return self.inject_props(self.m.flatten(n), j, depth)
            if n in self.m.aliases:
                return self.inject(self.m.aliases[n]["type"], j, depth + 1)
            return j
        if k == "array" and isinstance(j, list):
            return [self.inject(t["element"], x, depth + 1) for x in j]
        if k == "map" and isinstance(j, dict):
            return {kk: self.inject(t["value"], v, depth + 1) for kk, v in j.items()}
        if k == "tuple" and isinstance(j, list):
            return [self.inject(i, x, depth + 1) for i, x in zip(t["items"], j)]
        if k == "literal" and isinstance(j, dict):
            return self.inject_props(t["value"]["properties"], j, depth)
        if k == "and" and isinstance(j, dict):
            props = []
            for i in t["items"]:
                if i["kind"] == "reference" and i["name"] in self.m.structs:
                    props += self.m.flatten(i["name"])
            return self.inject_props(props, j, depth)
        if k == "or":
            import mmvalid as validate
            for alt in t["items"]:
                if validate.valid(self.m, alt, j):
                    return self.inject(alt, j, depth + 1)
            return j
        return j

    def inject_props(self, props, j, depth):
        if not isinstance(j, dict) or not props:
            return j  # the empty literal `{}` maps to Any: an uninterpreted payload position
        out = {}
        byname = {p["name"]: p for p in props}
        for kk, v in j.items():
            out[kk] = self.inject(byname[kk]["type"], v, depth + 1) if kk in byname else v
        for _ in range(self.rnd.choice([1, 1, 2])):
            nk = self.rnd.choice(["xUnknown", "_vendorExt", "zz9", "futureProperty"]) + str(self.rnd.randint(0, 9))
            if nk not in byname:
                out[nk] = self.rnd.choice(valuegen.ANY_PAYLOADS)
        # Python dict order: put one extra first sometimes
        if self.rnd.random() < 0.5:
            items = list(out.items())
            items = items[-1:] + items[:-1]
            out = dict(items)
        return out

    def malformed_stream(self):
        """(structure, edit kind, property, json) — the four single-field deviations of C11 at the
        top-level object of each structure, in minimal and maximal surroundings."""
        for s in self.m.doc["structures"]:
            name = s["name"]
            if name == "LSPObject":
                continue
            t = {"kind": "reference", "name": name}
            props = self.m.flatten(name)
            for mode in ("min", "max"):
                base = self.vg.value(t, mode)
                for p in props:
                    pt = p["type"]
                    opt = bool(p.get("optional"))
                    if not opt and not Meta.null_admitting(pt) and pt["kind"] != "stringLiteral" and p["name"] in base:
                        j = dict(base)
                        del j[p["name"]]
                        yield (name, "missing-required", p["name"], j)
                    if pt["kind"] == "base" and pt["name"] in ("integer", "uinteger"):
                        lo = -(2**31) if pt["name"] == "integer" else 0
                        for bad in (lo - 1, 2**31, 2**40, -(2**40)):
                            j = dict(base)
                            j[p["name"]] = bad
                            yield (name, "out-of-range", p["name"], j)
                    if pt["kind"] == "reference" and pt["name"] in self.m.enums and not self.m.enum_custom(self.m.enums[pt["name"]]):
                        e = self.m.enums[pt["name"]]
                        vals = [v["value"] for v in e["values"]]
                        bads = ["no-such-member", ""] if e["type"]["name"] == "string" else [max(vals) + 1, min(vals) - 1, 10**6]
                        for bad in bads:
                            if bad not in vals:
                                j = dict(base)
                                j[p["name"]] = bad
                                yield (name, "not-a-member", p["name"], j)
                    if pt["kind"] == "stringLiteral":
                        for bad in (pt["value"] + "x", "", pt["value"][:-1], pt["value"].upper()):
                            if bad != pt["value"]:
                                j = dict(base)
                                j[p["name"]] = bad
                                yield (name, "wrong-literal", p["name"], j)

    # ---- the same four single-field deviations at NESTED protocol-object nodes of a valid root value
    def nested_malformed_stream(self, per_root=6):
        """(root, edit kind, path, json): a valid value of a root type (message class or structure) in which ONE nested object node
        (a structure reached through properties, arrays, maps, tuples, aliases and union alternatives) got one of the four C11 edits,
        and the edited root is no longer valid under the metamodel even when undeclared properties are ignored (an edit that turns a
        union member into something another alternative accepts is skipped).  Integer ranges, closed enumerations, literals and required properties must be enforced wherever the
        class is structured, not only when it is the root."""
        import copy
        import mmvalid
        m = self.m

        def nodes(t, j, path, depth=0):
            """(structure name, path) of nested dict nodes typed by a structure"""
            if depth > 30:
                return
            k = t["kind"]
            if k == "reference":
                n = t["name"]
                if n in ("LSPAny", "LSPObject", "LSPArray") or n in m.enums:
                    return
                if n in m.structs and isinstance(j, dict):
                    if path:
                        yield (n, path)
                    for p in m.flatten(n):
                        if p["name"] in j:
                            yield from nodes(p["type"], j[p["name"]], path + [p["name"]], depth + 1)
                elif n in m.aliases:
                    yield from nodes(m.aliases[n]["type"], j, path, depth + 1)
            elif k == "array" and isinstance(j, list):
                for i, x in enumerate(j[:2]):
                    yield from nodes(t["element"], x, path + [i], depth + 1)
            elif k == "map" and isinstance(j, dict):
                for kk, v in list(j.items())[:2]:
                    yield from nodes(t["value"], v, path + [kk], depth + 1)
            elif k == "tuple" and isinstance(j, list):
                for i, (it, x) in enumerate(zip(t["items"], j)):
                    yield from nodes(it, x, path + [i], depth + 1)
            elif k == "literal" and isinstance(j, dict):
                for p in t["value"]["properties"]:
                    if p["name"] in j:
                        yield from nodes(p["type"], j[p["name"]], path + [p["name"]], depth + 1)
            elif k == "or":
                for alt in t["items"]:
                    if mmvalid.valid(m, alt, j):
                        yield from nodes(alt, j, path, depth + 1)
                        break

        def at(j, path):
            for p in path:
                j = j[p]
            return j

        for name, kind, t in self.roots:
            base = self.vg.value(t, "max")
            found = list(nodes(t, base, []))
            self.rnd.shuffle(found)
            emitted = 0
            for sname, path in found:
                if emitted >= per_root:
                    break
                node = at(base, path)
                for p in m.flatten(sname):
                    pt = p["type"]
                    pn = p["name"]
                    edits = []
                    if not p.get("optional") and not Meta.null_admitting(pt) and pt["kind"] != "stringLiteral" and pn in node:
                        edits.append(("missing-required", None))
                    if pt["kind"] == "base" and pt["name"] in ("integer", "uinteger") and pn in node:
                        lo = -(2**31) if pt["name"] == "integer" else 0
                        edits += [("out-of-range", lo - 1), ("out-of-range", 2**31)]
                    if pt["kind"] == "reference" and pt["name"] in m.enums and not m.enum_custom(m.enums[pt["name"]]) and pn in node:
                        e = m.enums[pt["name"]]
                        vals = [v["value"] for v in e["values"]]
                        edits.append(("not-a-member", "no-such-member" if e["type"]["name"] == "string" else max(vals) + 1))
                    if pt["kind"] == "stringLiteral" and pn in node:
                        edits.append(("wrong-literal", pt["value"] + "x"))
                    for edit, bad in edits:
                        j = copy.deepcopy(base)
                        nd = at(j, path)
                        if edit == "missing-required":
                            del nd[pn]
                        else:
                            nd[pn] = bad
                        if mmvalid.valid_lenient(m, t, j):
                            continue        # still readable as a valid value once undeclared properties are ignored (e.g. as another
                                            # union alternative, C15): nothing to reject
                        emitted += 1
                        yield (name, edit, "/".join(str(x) for x in path) + "." + pn, j)
                        if emitted >= per_root:
                            break
                    if emitted >= per_root:
                        break

