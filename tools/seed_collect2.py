#!/usr/bin/env python3
"""Collect the two seeded changes a round-2 sub-agent left in /tmp/mut2-<ID> into seeded/<ID>-2A, seeded/<ID>-2B and remove the worktree."""
import json
import pathlib
import shutil
import subprocess
import sys

V = pathlib.Path(__file__).resolve().parent.parent
pid = sys.argv[1]
src = pathlib.Path(f"/tmp/mut2-{pid}")
notes = json.load(open(src / "notes.json")) if (src / "notes.json").exists() else {}
for v in ("A", "B"):
    if not (src / f"{v}.diff").exists():
        print("missing", v)
        continue
    d = V / "seeded" / f"{pid}-2{v}"
    d.mkdir(parents=True, exist_ok=True)
    shutil.copy(src / f"{v}.diff", d / "patch.diff")
    shutil.copy(src / f"demo_{v}.py", d / f"demo_{pid}_{v}.py")
    n = notes.get(v, {})
    json.dump({"seeded_id": f"{pid}-2{v}", "property": pid, "author": "fresh sub-agent (round 2) given only the property text and a scratch worktree",
               "description": n.get("description", ""), "needs_to_manifest": n.get("needs_to_manifest", "")}, open(d / "meta.json", "w"), indent=1)
subprocess.run(["git", "-C", "/repo", "worktree", "remove", "--force", str(src)])
shutil.rmtree(src, ignore_errors=True)
shutil.rmtree(str(src) + "-scratch", ignore_errors=True)
print("collected", pid)
