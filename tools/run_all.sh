#!/bin/bash
# Run every claimed check (quick tier) on the current tree; refreshes evidence/. Usage: tools/run_all.sh [seed]
cd "$(dirname "$0")/.."
export VERIF_SEED=${1:-0}
rc=0
for p in $(python3 -c "import json;print(' '.join(c['property_id'] for c in json.load(open('MANIFEST.json'))['checks']))"); do
  out=$(./check $p 2>&1); r=$?
  echo "$out" | grep -E "^\[|VIOLATION|KNOWN" | tail -4
  if [ $r -ne 0 ]; then rc=1; echo "   -> exit $r"; fi
done
exit $rc
