"""Shared infrastructure for the /verif checks (see DESIGN.md section 2).

Everything a check does goes through here: running the real code of /repo in a subprocess,
compiling regenerated Lean files against the hand-written library, auditing axioms, writing
evidence, and reporting violations / known findings.
"""
from __future__ import annotations

import fcntl
import hashlib
import json
import os
import pathlib
import re
import shutil
import subprocess
import sys
import tempfile
import threading
import time
from concurrent.futures import ThreadPoolExecutor

VERIF = pathlib.Path(__file__).resolve().parent.parent
REPO = pathlib.Path(os.environ.get("VERIF_REPO", "/repo"))
LEAN_DIR = VERIF / "lean"
LIB_OUT = LEAN_DIR / ".lake" / "build" / "lib" / "lean"
WORK = VERIF / ".work"
EVIDENCE = VERIF / "evidence"
REPLAYS = VERIF / "replays"
PY = os.environ.get("VERIF_PYTHON", "/venv/bin/python")
GUARD = "LSPROTOCOL_VERIF"
ALLOWED_AXIOMS = {"propext", "Classical.choice", "Quot.sound"}
FORBIDDEN = re.compile(
    r"\bsorry\b|\badmit\b|^\s*axiom\s|native_decide|bv_decide|implemented_by|\bunsafe\s|maxHeartbeats\s+0\b",
    re.M,
)
NCPU = min(16, os.cpu_count() or 4)


class Broken(Exception):
    """The machinery itself failed (exit 2): never a verdict about the property."""


def sha(s: str) -> str:
    return hashlib.sha256(s.encode()).hexdigest()[:12]


# ----------------------------------------------------------------------------------------------
# running the real code


def repo_env(hashseed: int | str = 0, extra: dict | None = None) -> dict:
    env = dict(os.environ)
    env["PYTHONPATH"] = f"{REPO}/packages/python:{REPO}:{VERIF}/tools"
    env["PYTHONDONTWRITEBYTECODE"] = "1"
    env["PYTHONHASHSEED"] = str(hashseed)
    env[GUARD] = "1"
    env["VERIF_REPO"] = str(REPO)
    if extra:
        env.update(extra)
    return env


def run_py(script: str | pathlib.Path, args: list[str] = (), *, stdin: str | None = None,
           hashseed: int | str = 0, timeout: int = 1800, extra_env: dict | None = None,
           check: bool = True, cwd: str | None = None) -> subprocess.CompletedProcess:
    """Run a helper script with the repo's interpreter; the repo is imported from its path."""
    p = subprocess.run([PY, "-B", str(script), *args], input=stdin, capture_output=True, text=True,
                       env=repo_env(hashseed, extra_env), timeout=timeout, cwd=cwd or str(VERIF))
    if check and p.returncode != 0:
        raise Broken(f"helper {script} {list(args)} failed ({p.returncode}):\n{p.stderr[-4000:]}")
    return p


def scratch_dir(prefix: str) -> pathlib.Path:
    """A directory outside /repo and /verif for copies of repo output; caller removes it."""
    return pathlib.Path(tempfile.mkdtemp(prefix=f"lspverif-{prefix}-"))


# ----------------------------------------------------------------------------------------------
# Lean


def ensure_lib() -> None:
    """(Re)build the hand-written library; a no-op when up to date. Serialised by a file lock."""
    WORK.mkdir(exist_ok=True)
    with open(WORK / ".lake.lock", "w") as lk:
        fcntl.flock(lk, fcntl.LOCK_EX)
        p = subprocess.run(["lake", "build"], cwd=LEAN_DIR, capture_output=True, text=True)
        if p.returncode != 0:
            raise Broken("lake build of the hand-written library failed:\n" + (p.stdout + p.stderr)[-6000:])


def lean_env(workdir: pathlib.Path) -> dict:
    env = dict(os.environ)
    env["LEAN_PATH"] = f"{LIB_OUT}:{workdir}"
    return env


def strip_comments(src: str) -> str:
    src = re.sub(r"/-.*?-/", "", src, flags=re.S)
    return re.sub(r"--.*", "", src)


def audit_sources(paths) -> list[str]:
    hits = []
    for p in paths:
        txt = strip_comments(pathlib.Path(p).read_text())
        for m in FORBIDDEN.finditer(txt):
            hits.append(f"{p}: {m.group(0).strip()}")
    return hits


class LeanResult:
    def __init__(self, name, ok, out, secs):
        self.name, self.ok, self.out, self.secs = name, ok, out, secs
        self.axioms: dict[str, list[str]] = {}
        for m in re.finditer(r"'([^']+)' depends on axioms: \[([^\]]*)\]", out):
            self.axioms[m.group(1)] = [a.strip() for a in m.group(2).split(",") if a.strip()]
        for m in re.finditer(r"'([^']+)' does not depend on any axioms", out):
            self.axioms[m.group(1)] = []


_LIB_HASH = None


def lib_hash() -> str:
    """content hash of the built hand-written library (every .olean) and the toolchain version"""
    global _LIB_HASH
    if _LIB_HASH is None:
        h = hashlib.sha256()
        h.update(subprocess.run(["lean", "--version"], capture_output=True, text=True).stdout.encode())
        root = LEAN_DIR / ".lake" / "build" / "lib" / "lean"
        for f in sorted(root.rglob("*.olean")):
            h.update(str(f.relative_to(root)).encode())
            h.update(hashlib.sha256(f.read_bytes()).digest())
        _LIB_HASH = h.hexdigest()
    return _LIB_HASH


def _closure_hash(workdir: pathlib.Path, name: str, seen: dict) -> str | None:
    """hash of the source text of module `name` and, transitively, of every module it imports from the work directory"""
    if name in seen:
        return seen[name]
    src = workdir / (name.replace(".", "/") + ".lean")
    if not src.exists():
        return None
    text = src.read_text()
    h = hashlib.sha256()
    h.update(name.encode() + b"\0" + text.encode())
    seen[name] = "cycle"
    for m in re.findall(r"^import\s+(\S+)", text, re.M):
        if m.startswith("LspVerif") or m.split(".")[0] in ("Init", "Lean", "Std", "Mathlib", "Batteries"):
            continue
        d = _closure_hash(workdir, m, seen)
        if d is None:
            return None
        h.update(m.encode() + b"\0" + d.encode())
    seen[name] = h.hexdigest()
    return seen[name]


def _cache_key(workdir: pathlib.Path, name: str, text: str):
    """Key of a compiled obligation module: toolchain + library build + module name + its exact text + the exact text of
    every work-directory module it imports, transitively.  Identical key = the kernel already accepted exactly this module
    in exactly this context.  None when an imported module is missing (then no caching)."""
    c = _closure_hash(workdir, name, {})
    if c is None:
        return None
    return hashlib.sha256((lib_hash() + c).encode()).hexdigest()


def lean_compile_one(workdir: pathlib.Path, name: str, timeout: int = 1200) -> LeanResult:
    """Compile module `name` (file workdir/<name with / for .>.lean) to an .olean beside it.
    Successful compilations are kept in a content-addressed cache (.work/cache) shared by all checks: the same regenerated
    tables and obligations are used by several properties (C01, C02, C03, C14)."""
    src = workdir / (name.replace(".", "/") + ".lean")
    t0 = time.time()
    key = None
    if os.environ.get("VERIF_NO_CACHE") != "1":
        try:
            key = _cache_key(workdir, name, src.read_text())
        except OSError:
            key = None
    cdir = WORK / "cache" / key if key else None
    if cdir is not None and (cdir / "ok").exists():
        try:
            shutil.copyfile(cdir / "m.olean", src.with_suffix(".olean"))
            return LeanResult(name, True, (cdir / "out.txt").read_text() + "\n-- (cached: identical module text and dependencies were compiled before)", time.time() - t0)
        except OSError:
            pass
    try:
        p = subprocess.run(["lean", "-o", str(src.with_suffix(".olean")), str(src)],
                           capture_output=True, text=True, env=lean_env(workdir), timeout=timeout,
                           cwd=str(workdir))
        ok, out = p.returncode == 0, p.stdout + p.stderr
    except subprocess.TimeoutExpired:
        ok, out = False, f"TIMEOUT after {timeout}s"
    if ok and cdir is not None:
        try:
            tmp = WORK / "cache" / f".tmp-{os.getpid()}-{threading.get_ident()}"
            tmp.mkdir(parents=True, exist_ok=True)
            shutil.copyfile(src.with_suffix(".olean"), tmp / "m.olean")
            (tmp / "out.txt").write_text(out)
            (tmp / "ok").write_text("1")
            if not cdir.exists():
                os.rename(tmp, cdir)
            else:
                shutil.rmtree(tmp, ignore_errors=True)
        except OSError:
            pass
    return LeanResult(name, ok, out, time.time() - t0)


def _prune_cache(limit: int = 300) -> None:
    try:
        ents = [d for d in (WORK / "cache").iterdir() if d.is_dir()]
        if len(ents) > limit:
            ents.sort(key=lambda d: d.stat().st_mtime)
            for d in ents[: len(ents) - limit // 2]:
                shutil.rmtree(d, ignore_errors=True)
    except OSError:
        pass


def lean_compile(workdir: pathlib.Path, layers: list[list[str]], timeout: int = 1200) -> dict[str, LeanResult]:
    """Compile modules layer by layer (modules of one layer in parallel)."""
    _prune_cache()
    res: dict[str, LeanResult] = {}
    for layer in layers:
        with ThreadPoolExecutor(max_workers=NCPU) as ex:
            for r in ex.map(lambda n: lean_compile_one(workdir, n, timeout), layer):
                res[r.name] = r
    if os.environ.get("VERIF_TIER") == "thorough" and os.environ.get("VERIF_LEANCHECKER", "1") != "0":
        # independent re-check of the compiled obligation modules (and, transitively loaded, what they import)
        # by the toolchain's stand-alone kernel re-checker
        last = [n for n in layers[-1] if res[n].ok]
        if last:
            try:
                p = subprocess.run(["leanchecker", *last], capture_output=True, text=True, env=lean_env(workdir), timeout=1800, cwd=str(workdir))
                ok, out = p.returncode == 0, (p.stdout + p.stderr)[-1500:]
            except subprocess.TimeoutExpired:
                ok, out = False, "leanchecker TIMEOUT"
            for n in last:
                res[n].leanchecker = ok
                if not ok:
                    res[n].ok = False
                    res[n].out += "\nleanchecker: " + out
    return res


def lean_run(workdir: pathlib.Path, main_file: pathlib.Path, stdin: str, timeout: int = 1800) -> str:
    """Run a line-protocol driver:  lean --run Main.lean < ops."""
    p = subprocess.run(["lean", "--run", str(main_file)], input=stdin, capture_output=True, text=True,
                       env=lean_env(workdir), timeout=timeout, cwd=str(workdir))
    if p.returncode != 0:
        raise Broken(f"Lean driver {main_file} failed:\n{(p.stdout + p.stderr)[-4000:]}")
    return p.stdout


def write_module(workdir: pathlib.Path, name: str, text: str) -> pathlib.Path:
    f = workdir / (name.replace(".", "/") + ".lean")
    f.parent.mkdir(parents=True, exist_ok=True)
    f.write_text(text)
    return f


def lean_str(s: str) -> str:
    """A Lean string literal."""
    out = ['"']
    for ch in s:
        o = ord(ch)
        if ch == "\\":
            out.append("\\\\")
        elif ch == '"':
            out.append('\\"')
        elif ch == "\n":
            out.append("\\n")
        elif ch == "\t":
            out.append("\\t")
        elif ch == "\r":
            out.append("\\r")
        elif o < 32 or o == 127:
            out.append("\\x%02x" % o)
        else:
            out.append(ch)
    out.append('"')
    return "".join(out)


def lean_name(s: str) -> str:
    """A `Name` literal (LspVerif.Core.Name): 0x01 followed by the UTF-8 bytes, as a hex numeral."""
    tag = re.sub(r"[^A-Za-z0-9_.$ ]", "?", s)[:40]
    return "(0x01" + s.encode("utf-8").hex() + " /- " + tag + " -/)"


def lean_int(i: int) -> str:
    return str(i) if i >= 0 else f"({i})"


def lean_bool(b: bool) -> str:
    return "true" if b else "false"


def lean_list(items) -> str:
    return "[" + ", ".join(items) + "]"


def lean_opt(x) -> str:
    return "none" if x is None else f"(some {x})"


# ----------------------------------------------------------------------------------------------
# the check context: evidence, violations, known findings


class Ctx:
    def __init__(self, pid: str, tier: str, seed: int):
        self.pid, self.tier, self.seed = pid, tier, seed
        self.t0 = time.time()
        self.work = WORK / pid
        if self.work.exists():
            shutil.rmtree(self.work)
        self.work.mkdir(parents=True)
        self.obligations: list[dict] = []     # {"name","ok","kind"}
        self.axioms: dict[str, list[str]] = {}
        self.corr = {"evaluations": 0, "distinct_nontrivial": 0, "skipped": 0, "disagreements": 0}
        self.dist: dict = {}
        self.samples: list = []
        self.notes: list[str] = []
        self.assumptions: list[str] = []
        self.trusted: list[str] = [
            "Lean 4.33.0 kernel",
            "axioms: subset of {propext, Classical.choice, Quot.sound} (audited by #print axioms on every run)",
        ]
        self.violations: list[dict] = []
        self.known_hits: list[dict] = []
        self.level = "proof"
        self.rule = ""
        self.checker_cmd = "lean -o <module>.olean <module>.lean  (LEAN_PATH = hand-written library + regenerated modules); #print axioms audit"
        self.extra: dict = {}
        kf = VERIF / "known_findings.json"
        self.known = json.loads(kf.read_text()) if kf.exists() else []

    # -- bookkeeping
    def thorough(self) -> bool:
        return self.tier == "thorough"

    def obligation(self, name: str, ok: bool, kind: str = "kernel", detail: str = "") -> None:
        self.obligations.append({"name": name, "ok": bool(ok), "kind": kind, "detail": detail[-1500:]})

    def add_lean_results(self, res: dict[str, LeanResult], *, theorems_expected: dict[str, list[str]] | None = None) -> list[LeanResult]:
        """Record compilation results. Every module is one obligation per theorem it audits with
        `#print axioms` (or one for the module when it prints none). Returns failed modules."""
        failed = []
        rechecked = [n for n, r in res.items() if getattr(r, "leanchecker", None) is True]
        if rechecked:
            self.notes.append("leanchecker re-checked: " + ", ".join(rechecked))
        cached = [n for n, r in res.items() if r.ok and "-- (cached:" in r.out]
        if cached:
            self.notes.append(f"{len(cached)} obligation module(s) taken from the content-addressed cache (.work/cache: identical text of the module and of "
                              "everything it imports, same library build and toolchain, accepted by the kernel earlier; VERIF_NO_CACHE=1 recompiles): "
                              + ", ".join(cached[:12]) + (" ..." if len(cached) > 12 else ""))
        for name, r in res.items():
            exp = (theorems_expected or {}).get(name)
            if r.ok:
                for thm, ax in r.axioms.items():
                    self.axioms[thm] = ax
                    bad = [a for a in ax if a not in ALLOWED_AXIOMS]
                    if bad:
                        raise Broken(f"theorem {thm} depends on axioms outside the trusted set: {bad}")
                    self.obligation(f"{name}:{thm}", True, "theorem")
                if exp:
                    missing = [t for t in exp if t not in r.axioms]
                    if missing:
                        raise Broken(f"module {name} compiled but did not audit theorems {missing}")
                if not r.axioms:
                    self.obligation(name, True, "module")
            else:
                failed.append(r)
                for thm in (exp or [name]):
                    self.obligation(f"{name}:{thm}", False, "theorem", r.out)
        return failed

    def sample(self, x) -> None:
        if len(self.samples) < 8:
            self.samples.append(x)

    # -- verdicts
    def known_match(self, key: str):
        for k in self.known:
            if k.get("property") == self.pid and k.get("status") == "open" and k.get("key") == key:
                return k
        return None

    def violation(self, key: str, what: str, replay: dict, *, no_input: bool = False) -> None:
        """Record a violation at site `key`; suppressed to KNOWN-FINDING iff the key is listed open."""
        k = self.known_match(key)
        if k is not None and not no_input:
            if not any(h["key"] == key for h in self.known_hits):
                self.known_hits.append({"key": key, "what": k.get("what", what)})
            return
        if any(v["key"] == key for v in self.violations):
            return
        self.violations.append({"key": key, "what": what, "replay": replay, "no_input": no_input})

    def finish(self) -> int:
        EVIDENCE.mkdir(exist_ok=True)
        wall = time.time() - self.t0
        n_obl = len(self.obligations)
        n_ok = sum(1 for o in self.obligations if o["ok"])
        for h in self.known_hits:
            print(f"KNOWN-FINDING: property={self.pid} {h['what']}")
        rc = 0
        if len(self.violations) > 12:
            print(f"[{self.pid}] {len(self.violations)} violating sites; reporting the first 12")
        for v in self.violations[:12]:
            d = REPLAYS / self.pid
            d.mkdir(parents=True, exist_ok=True)
            body = {"property": self.pid, "site": v["key"], "what": v["what"], **v["replay"]}
            f = d / (sha(json.dumps(body, sort_keys=True, default=str)) + ".json")
            f.write_text(json.dumps(body, indent=1, default=str))
            tail = " no-failing-input-found" if v["no_input"] else ""
            print(f"VIOLATION property={self.pid} replay={f}{tail}")
            rc = 1
        cov = {
            "obligations": n_obl,
            "discharged": n_ok,
            "checker_cmd": self.checker_cmd,
            "trusted_base": self.trusted,
            "evaluations": self.corr["evaluations"],
            "distinct_nontrivial": self.corr["distinct_nontrivial"],
            "rule": self.rule,
            "samples": self.samples or [o["name"] for o in self.obligations[:5]],
            "correspondence": self.corr,
            "input_distribution": self.dist,
            "axioms": {k: v for k, v in list(self.axioms.items())[:60]},
            "failed_obligations": [o for o in self.obligations if not o["ok"]][:20],
            "known_findings_hit": self.known_hits,
            "notes": self.notes,
        }
        cov.update(self.extra)
        ev = {
            "property_id": self.pid,
            "tier": self.tier,
            "seed": self.seed,
            "level": self.level,
            "coverage": cov,
            "assumptions": self.assumptions,
            "wall_s": round(wall, 2),
            "violations": len(self.violations),
        }
        (EVIDENCE / f"{self.pid}.json").write_text(json.dumps(ev, indent=1, default=str))
        status = "ok" if rc == 0 else "VIOLATED"
        print(f"[{self.pid}] {status}: obligations {n_ok}/{n_obl}, correspondence {self.corr['evaluations']} evals "
              f"({self.corr['distinct_nontrivial']} distinct non-trivial, {self.corr['disagreements']} disagreements), "
              f"known findings {len(self.known_hits)}, {wall:.1f}s")
        return rc


def diff_streams(ctx: Ctx, ops: list[str], model_out: list[str], impl_out: list[str], *,
                 nontrivial=lambda op, out: True, skip_token: str = "unspecified") -> list[tuple[str, str, str]]:
    """Compare the model's and the implementation's answers line by line."""
    if not (len(ops) == len(model_out) == len(impl_out)):
        raise Broken(f"line protocol out of step: {len(ops)} ops, {len(model_out)} model lines, {len(impl_out)} impl lines")
    dis = []
    seen = set()
    for op, m, i in zip(ops, model_out, impl_out):
        ctx.corr["evaluations"] += 1
        if m == skip_token:
            ctx.corr["skipped"] += 1
            continue
        if op not in seen:
            seen.add(op)
            if nontrivial(op, i):
                ctx.corr["distinct_nontrivial"] += 1
        if m != i:
            dis.append((op, m, i))
    ctx.corr["disagreements"] += len(dis)
    return dis
