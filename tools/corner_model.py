"""A small synthetic, schema-valid metamodel that reaches the branches of the testdata generation algorithm which neither the committed
metamodel nor its evolutions reach in a generated position: `and` types, integer-keyed maps (integer / boolean literal types are rejected by the loader: C18 finding), tuples with
repeated element types, self-recursive structures (the `visited` cut-off), property-less structures, a re-declared inherited property,
diamond inheritance through extends and mixins, open and closed enumerations of both bases, notifications without params.
Used by the C17 correspondence (model == generate()) only; no package is generated from it."""
import json
import sys


def B(n):
    return {"kind": "base", "name": n}


def R(n):
    return {"kind": "reference", "name": n}


def doc():
    any_items = [R("LSPObject"), R("LSPArray"), B("string"), B("integer"), B("uinteger"), B("decimal"), B("boolean"), B("null")]
    structures = [
        {"name": "Base0", "properties": [{"name": "kind", "type": B("string")}, {"name": "b0", "type": B("uinteger"), "optional": True}]},
        {"name": "Mix0", "properties": [{"name": "m0", "type": B("boolean")}, {"name": "b0", "type": B("string")}]},
        {"name": "Mid", "extends": [R("Base0")], "mixins": [R("Mix0")], "properties": [{"name": "mid", "type": B("DocumentUri")}]},
        {"name": "Leaf", "extends": [R("Mid"), R("Base0")], "mixins": [R("Mix0")],
         "properties": [{"name": "kind", "type": {"kind": "stringLiteral", "value": "leaf"}}, {"name": "n", "type": B("integer")}]},
        {"name": "Other", "properties": [{"name": "z", "type": B("decimal")}, {"name": "n", "type": B("string"), "optional": True}]},
        {"name": "Empty", "properties": []},
        {"name": "Node", "properties": [{"name": "child", "type": R("Node"), "optional": True}, {"name": "kids", "type": {"kind": "array", "element": R("Node")}},
                                        {"name": "tag", "type": R("Color")}]},
        {"name": "Holder", "properties": [
            {"name": "pair", "type": {"kind": "tuple", "items": [B("uinteger"), B("uinteger"), B("string")]}},
            {"name": "byInt", "type": {"kind": "map", "key": B("integer"), "value": B("boolean")}},
            {"name": "byAlias", "type": {"kind": "map", "key": R("Key"), "value": {"kind": "array", "element": B("RegExp")}}, "optional": True},
            {"name": "lit", "type": {"kind": "literal", "value": {"properties": [{"name": "a", "type": B("URI")}, {"name": "b", "type": R("Level"), "optional": True}]}}},
            {"name": "emptyLit", "type": {"kind": "literal", "value": {"properties": []}}},
            {"name": "five", "type": {"kind": "or", "items": [{"kind": "stringLiteral", "value": "five"}, B("uinteger"), B("null")]}},
            {"name": "anything", "type": R("LSPAny"), "optional": True}]},
    ]
    enums = [
        {"name": "Color", "type": B("string"), "values": [{"name": "Red", "value": "red"}, {"name": "Blue", "value": "blue"}]},
        {"name": "Level", "type": B("uinteger"), "supportsCustomValues": True, "values": [{"name": "Low", "value": 1}, {"name": "High", "value": 2}]},
        {"name": "Word", "type": B("string"), "supportsCustomValues": True, "values": [{"name": "Empty", "value": ""}]},
        {"name": "Num", "type": B("integer"), "values": [{"name": "Minus", "value": -1}, {"name": "Zero", "value": 0}]},
    ]
    aliases = [
        {"name": "LSPAny", "type": {"kind": "or", "items": any_items}},
        {"name": "LSPObject", "type": {"kind": "map", "key": B("string"), "value": R("LSPAny")}},
        {"name": "LSPArray", "type": {"kind": "array", "element": R("LSPAny")}},
        {"name": "Key", "type": B("string")},
        {"name": "LeafOrOther", "type": {"kind": "or", "items": [R("Leaf"), R("Other"), {"kind": "array", "element": R("Num")}]}},
    ]
    requests = [
        {"method": "corner/and", "messageDirection": "clientToServer", "params": {"kind": "and", "items": [R("Leaf"), R("Other")]}, "result": {"kind": "tuple", "items": [B("integer"), B("string")]}},
        {"method": "corner/holder", "typeName": "CornerHolderRequest", "messageDirection": "both", "params": R("Holder"), "result": {"kind": "or", "items": [R("LeafOrOther"), B("null")]}},
        {"method": "corner/node", "messageDirection": "serverToClient", "params": R("Node"), "result": B("null")},
        {"method": "corner/empty", "messageDirection": "clientToServer", "params": R("Empty"), "result": R("LSPObject")},
        {"method": "$/corner/noParams", "messageDirection": "clientToServer", "result": {"kind": "array", "element": R("Word")}},
        {"method": "corner/arr", "messageDirection": "clientToServer", "params": {"kind": "array", "element": {"kind": "or", "items": [R("Other"), B("null")]}}, "result": R("LSPArray")},
    ]
    notifications = [
        {"method": "corner/didLevel", "messageDirection": "clientToServer", "params": R("Level")},
        {"method": "$/corner/tick", "messageDirection": "both"},
        {"method": "corner/didMid", "typeName": "CornerMidNotification", "messageDirection": "serverToClient", "params": R("Mid")},
    ]
    return {"metaData": {"version": "3.17.0"}, "requests": requests, "notifications": notifications, "structures": structures,
            "enumerations": enums, "typeAliases": aliases}


if __name__ == "__main__":
    json.dump(doc(), sys.stdout)
