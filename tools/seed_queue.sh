#!/bin/bash
# tools/seed_queue.sh C15b C19:b ...   run confirmations one after another (never concurrently: they patch /repo)
# "C19:b" = ingest from /tmp/seed2_C19/_seed as C19b first; "C15b" = just confirm seeded/C15b
cd /verif
for a in "$@"; do
  if [[ "$a" == *:* ]]; then P=${a%%:*}; S=${a##*:}; flock /tmp/seed.lock tools/seed_ingest.sh $P $S; else flock /tmp/seed.lock python3 tools/seed_confirm.py $a; fi
done
