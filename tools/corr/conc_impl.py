"""C19 schedule replay on the real code, one schedule per fresh process.

  python conc_impl.py preempt <k>     thread A is paused after its k-th line event inside
                                      _resolve_forward_references / _filter (sys.settrace gating),
                                      thread B then runs get_converter() to completion, A resumes.
  python conc_impl.py count           number of line events A executes there when running alone
  python conc_impl.py stress <n> <i>  n threads released by a barrier, tiny switch interval
Prints one JSON line: {"events": .., "a": "ok"|"<Exception>", "b": .., "flag": bool, "same": bool}
"""
import json
import sys
import threading

mode = sys.argv[1]
from lsprotocol import _hooks, converters, types  # noqa: E402

TARGET = {"_resolve_forward_references", "_filter"}
HAND = [
    (types.Position, {"line": 1, "character": 2}),
    (types.InitializeParams, {"capabilities": {}, "processId": None, "rootUri": None}),
    (types.CompletionItem, {"label": "x", "kind": 3, "textEdit": {"range": {"start": {"line": 0, "character": 0}, "end": {"line": 0, "character": 1}}, "newText": "y"}}),
    (types.WorkspaceEdit, {"documentChanges": [{"kind": "create", "uri": "file:///a"}]}),
]


def _generated():
    """one battery for every protocol type and message class: the minimal and maximal valid value and one value per
    alternative of every union occurrence (the generator of the converter correspondence), built before any converter exists"""
    import os
    import typing
    sys.path.insert(0, os.path.dirname(os.path.dirname(os.path.abspath(__file__))))
    import convops
    import valuegen
    repo = os.environ.get("VERIF_REPO", "/repo")
    meta = valuegen.Meta.load([os.path.join(repo, "generator/lsp.json")])
    out = []
    for name, tag, j in convops.Streams(meta, 0, False).valid_stream():
        if tag == "rand":
            continue
        t = getattr(types, name, None)
        if t is None:
            continue
        out.append((name, j))
    return out


GEN = _generated()


def _rt(name):
    import typing
    t = getattr(types, name)
    return t if isinstance(t, type) else typing._eval_type(t, dict(types.ALL_TYPES_MAP), {})


BATTERY = HAND


def battery(conv):
    out = []
    for t, j in BATTERY:
        try:
            v = conv.structure(j, t)
            out.append(repr(v) + "|" + json.dumps(conv.unstructure(v, t), sort_keys=True, default=str))
        except Exception as e:  # noqa: BLE001
            out.append("ERR " + type(e).__name__)
    for name, j in GEN:
        try:
            t = _rt(name)
            v = conv.structure(j, t)
            out.append(name + "|" + repr(v)[:400] + "|" + json.dumps(conv.unstructure(v, t), sort_keys=True, default=str)[:2000])
        except Exception as e:  # noqa: BLE001
            out.append(name + "|ERR " + type(e).__name__)
    return out


def run_thread(res, key, tracer=None):
    def body():
        if tracer is not None:
            sys.settrace(tracer)
        try:
            c = converters.get_converter()
            res[key] = ("ok", battery(c))
        except BaseException as e:  # noqa: BLE001
            res[key] = (type(e).__name__ + ": " + str(e)[:80], None)
        finally:
            sys.settrace(None)
    t = threading.Thread(target=body)
    t.start()
    return t


def main():
    res = {}
    if mode in ("preempt", "count"):
        k = int(sys.argv[2]) if mode == "preempt" else -1
        count = [0]
        paused, resume = threading.Event(), threading.Event()

        def local(frame, event, arg):
            if event == "line":
                count[0] += 1
                if count[0] == k:
                    paused.set()
                    resume.wait(30)
            return local

        def tracer(frame, event, arg):
            if event == "call" and frame.f_code.co_name in TARGET and frame.f_code.co_filename == _hooks.__file__:
                return local
            return None

        ta = run_thread(res, "a", tracer)
        if mode == "preempt":
            # wait until A is paused or finished
            while not paused.is_set() and ta.is_alive():
                paused.wait(0.01)
            tb = run_thread(res, "b")
            tb.join(1.0)          # B runs until it completes or blocks (e.g. on a lock A holds)
            resume.set()
            tb.join(60)
        ta.join(60)
        a = res.get("a", ("missing", None))
        b = res.get("b", ("ok", a[1])) if mode == "preempt" else ("ok", a[1])
        same = a[1] is not None and a[1] == b[1] and a[1] == battery(converters.get_converter())
        print(json.dumps({"events": count[0], "a": a[0], "b": b[0], "flag": bool(_hooks._resolved_forward_references), "same": same}))
    elif mode == "stress":
        n = int(sys.argv[2])
        sys.setswitchinterval(1e-6)
        bar = threading.Barrier(n)
        out = {}

        def body(i):
            bar.wait()
            try:
                c = converters.get_converter()
                out[i] = ("ok", battery(c))
            except BaseException as e:  # noqa: BLE001
                out[i] = (type(e).__name__ + ": " + str(e)[:80], None)
        ts = [threading.Thread(target=body, args=(i,)) for i in range(n)]
        for t in ts:
            t.start()
        for t in ts:
            t.join(60)
        errs = [v[0] for v in out.values() if v[0] != "ok"]
        same = len({json.dumps(v[1]) for v in out.values()}) == 1 and not errs
        print(json.dumps({"events": 0, "a": errs[0] if errs else "ok", "b": "ok", "flag": bool(_hooks._resolved_forward_references), "same": same}))


main()
