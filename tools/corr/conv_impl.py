"""Real-code side of the converter line protocol:  structure / rt <TypeName> <json>."""
import enum
import json
import sys
import typing

import attrs
from lsprotocol import converters, types

CONV = converters.get_converter()


def q(s):
    return '"' + s.replace("\\", "\\\\").replace('"', '\\"') + '"'


def subvalues(j, strs, others):
    if isinstance(j, str):
        strs.add(j)
    elif isinstance(j, dict):
        others.add(str(j))
        for k, v in j.items():
            strs.add(k)
            subvalues(v, strs, others)
    elif isinstance(j, list):
        others.add(str(j))
        for v in j:
            subvalues(v, strs, others)
    else:
        others.add(str(j))


def show(v, strof):
    if v is None:
        return "None"
    if isinstance(v, enum.Enum):
        val = v.value
        return f"{type(v).__name__}({q(val) if isinstance(val, str) else val})"
    if isinstance(v, bool):
        return "True" if v else "False"
    if isinstance(v, int):
        return str(v)
    if isinstance(v, float):
        return "float(%s)" % (int(v) if v.is_integer() else repr(v))
    if isinstance(v, str):
        return "strOf" if v in strof else q(v)
    if attrs.has(type(v)):
        return type(v).__name__ + "{" + ",".join(f"{f.name}={show(getattr(v, f.name), strof)}" for f in attrs.fields(type(v))) + "}"
    if isinstance(v, list):
        return "[" + ",".join(show(x, strof) for x in v) + "]"
    if isinstance(v, tuple):
        return "(" + ",".join(show(x, strof) for x in v) + ")"
    if isinstance(v, dict):
        items = sorted((show(k, strof), show(x, strof)) for k, x in v.items())
        return "{" + ",".join(f"{k}:{x}" for k, x in items) + "}"
    return f"<{type(v).__name__}>"


def canon_json(o):
    if isinstance(o, enum.Enum):
        return canon_json(o.value)
    if o is None:
        return "null"
    if isinstance(o, bool):
        return "true" if o else "false"
    if isinstance(o, int):
        return str(o)
    if isinstance(o, float):
        return str(int(o)) if o.is_integer() else repr(o)
    if isinstance(o, str):
        return q(o)
    if isinstance(o, (list, tuple)):
        return "[" + ",".join(canon_json(x) for x in o) + "]"
    if isinstance(o, dict):
        items = sorted((q(k) if isinstance(k, str) else q(str(k)), canon_json(v)) for k, v in o.items())
        return "{" + ",".join(f"{k}:{v}" for k, v in items) + "}"
    raise TypeError(type(o))


def resolve(name):
    t = getattr(types, name, None)
    if t is None:
        return None
    if isinstance(t, type):
        return t
    return typing._eval_type(t, dict(types.ALL_TYPES_MAP), {})


def erase(j, keys):
    if isinstance(j, dict):
        return {k: erase(v, keys) for k, v in j.items() if k not in keys}
    if isinstance(j, list):
        return [erase(v, keys) for v in j]
    return j


def outcome(j, t):
    strs, others = set(), set()
    subvalues(j, strs, others)
    try:
        return "ok " + show(CONV.structure(j, t), others - strs)
    except Exception:  # noqa: BLE001
        return "err"


def clean_step(line):
    """`clean ROOT k1,k2 JSON`: the real-code side of the global C15 theorem - structuring the value with the
    listed keys erased from every object gives what structuring the value gives."""
    _, ty, keys, txt = line.split(" ", 3)
    t = resolve(ty)
    if t is None:
        return "no-such-type"
    j = json.loads(txt)
    ks = {k for k in keys.split(",") if k}
    a, b = outcome(j, t), outcome(erase(j, ks), t)
    return "clean" if a == b else "differs"


def step(line):
    if line.startswith("clean "):
        return clean_step(line)
    op, ty, txt = line.split(" ", 2)
    t = resolve(ty)
    if t is None:
        return "no-such-type"
    j = json.loads(txt)
    strs, others = set(), set()
    subvalues(j, strs, others)
    strof = others - strs
    try:
        v = CONV.structure(j, t)
    except Exception:  # noqa: BLE001
        return "err"
    if op == "structure":
        return "ok " + show(v, strof)
    if op == "rt":
        try:
            o = CONV.unstructure(v, t)
            return "ok " + show(v, strof) + " => " + canon_json(o)
        except Exception:  # noqa: BLE001
            return "ok " + show(v, strof) + " => err"
    return "bad-op"


def main():
    out = []
    for line in sys.stdin:
        line = line.rstrip("\n")
        if not line:
            continue
        try:
            out.append(step(line))
        except Exception as e:  # noqa: BLE001
            out.append("raise:" + type(e).__name__ + ":" + str(e)[:80])
    sys.stdout.write("\n".join(out) + "\n")


if __name__ == "__main__":
    main()
