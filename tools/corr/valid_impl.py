"""Real-code side of the C12 line protocol (validators and the two entry points)."""
import json
import os
import random
import sys

import attrs
from lsprotocol import converters, types, validators

import valuegen

REPO = os.environ.get("VERIF_REPO", "/repo")
FLOATS = [1.5, 0.0, -0.5, 2.0**31, float("inf"), float("nan"), 1e300]
STRS = ["", "0", "12", "abc", "٣"]
OTHERS = [[], {}, object(), (1,), 1 + 2j, [1], b"1", {"a": 1}]


class DummyCls:
    pass


ATTR = attrs.fields(types.Position).line
META = valuegen.Meta.load([os.path.join(REPO, "generator", "lsp.json")])
VG = valuegen.ValueGen(META, random.Random(0))
CONV = converters.get_converter()
_min = {}


def pv(s):
    p = s.split(":")
    if p[0] == "i":
        return int(p[1])
    if p[0] == "b":
        return p[1] == "1"
    if p[0] == "f":
        return FLOATS[int(p[1]) % len(FLOATS)]
    if p[0] == "s":
        return STRS[int(p[1]) % len(STRS)]
    if p[0] == "n":
        return None
    if p[0] == "o":
        return OTHERS[int(p[1]) % len(OTHERS)]
    raise ValueError(s)


def step(line):
    w = line.split(" ")
    if w[0] == "val":
        fn = {"int32": validators.integer_validator, "uint31": validators.uinteger_validator}[w[1]]
        v = pv(w[2])
        try:
            r = fn(DummyCls(), ATTR, v)
        except ValueError as e:
            m = str(e)
            return "ValueError:" + ("1" if "DummyCls" in m else "0") + ("1" if "line" in m else "0")
        except TypeError:
            return "TypeError"
        except Exception:  # noqa: BLE001
            return "Error"
        return "ok" if r is True else "returned:" + repr(r)
    if w[0] == "entry":
        _, cn, attr, venc = w
        cls = getattr(types, cn)
        v = pv(venc)
        if cn not in _min:
            mj = VG.value({"kind": "reference", "name": cn}, "min")
            _min[cn] = (mj, CONV.structure(mj, cls))
        mj, o = _min[cn]
        kwargs = {f.name: getattr(o, f.name) for f in attrs.fields(cls)}
        kwargs[attr] = v
        try:
            cls(**kwargs)
            c = "acc"
        except Exception:  # noqa: BLE001
            c = "rej"
        so = getattr(CONV.get_structure_hook(cls), "overrides", {}) or {}
        ov = so.get(attr)
        wire = ov.rename if ov is not None and ov.rename else attr
        j = dict(mj)
        j[wire] = v
        try:
            CONV.structure(j, cls)
            s = "acc"
        except Exception:  # noqa: BLE001
            s = "rej"
        return c + " " + s
    return "bad-op"


def main():
    out = []
    for line in sys.stdin:
        line = line.strip()
        if not line:
            continue
        try:
            out.append(step(line))
        except Exception as e:  # noqa: BLE001
            out.append("raise:" + type(e).__name__ + ":" + str(e)[:80])
    sys.stdout.write("\n".join(out) + "\n")


if __name__ == "__main__":
    main()
