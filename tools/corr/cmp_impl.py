"""Real-code side of the C20 line protocol: reads ops on stdin, answers one line each."""
import operator
import sys

from lsprotocol import types as T

OPS = {"lt": operator.lt, "le": operator.le, "gt": operator.gt, "ge": operator.ge, "eq": operator.eq, "ne": operator.ne}


def unrelated(n):
    k = n % 6
    if k == 0:
        return 5 + n
    if k == 1:
        return "x%d" % n
    if k == 2:
        return None
    if k == 3:
        return object()
    if k == 4:
        return T.Color(red=0.0, green=0.0, blue=0.0, alpha=float(n))
    return (1, n)


def mk(s):
    p = s.split(",")
    if p[0] == "P":
        return T.Position(line=int(p[1]), character=int(p[2]))
    if p[0] == "R":
        return T.Range(start=T.Position(line=int(p[1]), character=int(p[2])), end=T.Position(line=int(p[3]), character=int(p[4])))
    if p[0] == "L":
        return T.Location(uri=p[1], range=T.Range(start=T.Position(line=int(p[2]), character=int(p[3])), end=T.Position(line=int(p[4]), character=int(p[5]))))
    if p[0] == "O":
        return unrelated(int(p[1]))
    raise ValueError(s)


def step(line):
    w = line.split(" ")
    if w[0] == "cmp":
        _, op, same, a, b = w
        x = mk(a)
        y = x if same == "1" else mk(b)
        try:
            r = OPS[op](x, y)
        except TypeError:
            return "TypeError"
        if r is True:
            return "true"
        if r is False:
            return "false"
        return "nonbool:" + repr(r)
    if w[0] == "repr":
        return repr(mk(w[1]))
    return "bad-op"


def main():
    out = []
    for line in sys.stdin:
        line = line.strip()
        if not line:
            continue
        try:
            out.append(step(line))
        except Exception as e:  # noqa: BLE001
            out.append("raise:" + type(e).__name__)
    sys.stdout.write("\n".join(out) + "\n")


if __name__ == "__main__":
    main()
