"""Real-code side of the C09 line protocol."""
import sys

import attrs
from lsprotocol import types


def step(line):
    w = line.split(" ")
    if w[0] == "dir":
        try:
            return types.message_direction(w[1])
        except KeyError:
            return "KeyError"
    if w[0] == "m2t":
        e = types.METHOD_TO_TYPES.get(w[1])
        if e is None:
            return "KeyError"
        return e[0].__name__ + " " + (e[1].__name__ if e[1] is not None else "None")
    if w[0] == "default-method":
        c = getattr(types, w[1], None)
        if c is None or not attrs.has(c):
            return "no-class"
        f = {a.name: a for a in attrs.fields(c)}.get("method")
        if f is None:
            return "no-method-attr"
        return f.default if isinstance(f.default, str) else "no-default"
    if w[0] == "registered":
        return "yes" if w[1] in types.ALL_TYPES_MAP else "no"
    return "bad-op"


out = []
for line in sys.stdin:
    line = line.strip()
    if line:
        try:
            out.append(step(line))
        except Exception as e:  # noqa: BLE001
            out.append("raise:" + type(e).__name__)
sys.stdout.write("\n".join(out) + "\n")
