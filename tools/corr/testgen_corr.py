"""Correspondence between the Lean model of the testdata generation algorithm (Spec/TestGen.lean, run through
Driver/TestGen.lean) and `generate()` of the current tree.

  python testgen_corr.py --lean-out FILE [--model FILE]  -> JSON {files_real, files_model, only_real, only_model, differing, first}

The model's stream (`kind \\t method \\t label \\t json`, in generation order, key order kept) is turned into the file table exactly as
generate() does (content = json.dumps(value, indent=4, ensure_ascii=False); name = <Class>-<label>-<sha256(content)>.json; first
occurrence of a name wins; class name by the real get_name — the name derivation is not part of the model) and compared with the
table generate() returns: same file names, same contents, same insertion order.
"""
import hashlib
import json
import logging
import os
import pathlib
import sys

REPO = pathlib.Path(os.environ.get("VERIF_REPO", "/repo"))
sys.path.insert(0, str(REPO))
from generator import model  # noqa: E402
from generator.plugins.testdata import testdata_generator as tg  # noqa: E402

args = sys.argv[1:]
MODEL = args[args.index("--model") + 1] if "--model" in args else str(REPO / "generator/lsp.json")
LEAN = args[args.index("--lean-out") + 1]


def main():
    doc = json.load(open(MODEL))
    spec = model.create_lsp_model([json.loads(json.dumps(doc))])
    crashed = None
    try:
        real = tg.generate(spec, logging.getLogger("testgen_corr"))
    except Exception as e:  # noqa: BLE001
        real, crashed = {}, f"{type(e).__name__}: {e}"
    names = {}
    spec2 = model.create_lsp_model([json.loads(json.dumps(doc))])
    for r in spec2.requests:
        n = tg.get_name(r)
        if not n.endswith("Request"):
            n = f"{n}Request"
        names[("request", r.method)] = n
        names[("response", r.method)] = n.replace("Request", "") + "Response"
    for r in spec2.notifications:
        n = tg.get_name(r)
        if not n.endswith("Notification"):
            n = f"{n}Notification"
        names[("notification", r.method)] = n
    mod = {}
    origin = {}
    model_crash = []
    nlines = 0
    with open(LEAN, encoding="utf-8") as f:
        for line in f:
            parts = line.rstrip("\n").split("\t")
            if len(parts) == 3 and parts[2] == "CRASH":
                model_crash.append(f"{parts[0]} {parts[1]}")
                continue
            if len(parts) != 4:
                continue
            nlines += 1
            kind, method, label, js = parts
            value = json.loads(js)
            content = json.dumps(value, indent=4, ensure_ascii=False)
            name = f"{names.get((kind, method), kind + ':' + method)}-{label}-{hashlib.sha256(content.encode('utf-8')).hexdigest()}.json"
            if name in mod:
                continue
            mod[name] = content
            origin[name] = (kind, method)
    only_real = [n for n in real if n not in mod]
    only_model = [n for n in mod if n not in real]
    differing = [n for n in real if n in mod and real[n] != mod[n]]
    order_same = list(real) == list(mod)
    first = None
    if only_real:
        n = only_real[0]
        first = {"file": n, "side": "only generate()", "content": json.loads(real[n]) if len(real[n]) < 3000 else real[n][:3000]}
    elif only_model:
        n = only_model[0]
        first = {"file": n, "side": "only the model", "message": list(origin[n]), "content": json.loads(mod[n]) if len(mod[n]) < 3000 else mod[n][:3000]}
    per_kind = {}
    for n in mod:
        per_kind[origin[n][0]] = per_kind.get(origin[n][0], 0) + 1
    json.dump({"files_real": len(real), "files_model": len(mod), "model_lines": nlines, "only_real": len(only_real), "only_model": len(only_model),
               "differing": len(differing), "same_order": order_same, "first": first, "generate_crashed": crashed, "model_crashes": model_crash[:5],
               "per_kind": per_kind, "true_files": len([n for n in mod if "-True-" in n])}, sys.stdout)


main()
