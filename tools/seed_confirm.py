#!/usr/bin/env python3
"""Confirm a seeded change and record which checks catch it.

  tools/seed_confirm.py C11 [--checks C11,C04]   (default: the property's own check + related ones)

1. scratch worktree of /repo HEAD outside /repo and /verif: demo passes without the patch, the
   patch applies, the 122 baseline tests pass with it, the demo fails with it; worktree removed.
2. the patch is applied to /repo itself, the checks run, the patch is undone (git checkout -- .).
Writes seeded/<id>/meta.json.
"""
import json
import os
import pathlib
import re
import shutil
import subprocess
import sys
import tempfile

VERIF = pathlib.Path(__file__).resolve().parent.parent
REPO = pathlib.Path("/repo")
PY = "/venv/bin/python"
RELATED = {
    "C01": ["C01", "C14", "C03"], "C02": ["C02", "C10"], "C03": ["C03", "C14"], "C04": ["C04", "C11", "C05"], "C05": ["C05"],
    "C06": ["C06"], "C07": ["C07", "C05"], "C08": ["C08"], "C09": ["C09", "C05"], "C10": ["C10", "C05"], "C11": ["C11", "C04"],
    "C12": ["C12", "C11"], "C13": ["C13", "C01"], "C14": ["C14", "C01"], "C15": ["C15"], "C16": ["C16"], "C17": ["C17"],
    "C18": ["C18"], "C19": ["C19"], "C20": ["C20", "C06", "C05"],
}


def sh(cmd, cwd=None, env=None, timeout=3600):
    return subprocess.run(cmd, cwd=cwd, env=env, capture_output=True, text=True, timeout=timeout)


def main():
    sid = sys.argv[1]
    d = VERIF / "seeded" / sid
    pid = re.match(r"C\d+", sid).group(0)
    checks = sys.argv[sys.argv.index("--checks") + 1].split(",") if "--checks" in sys.argv else RELATED.get(pid, [pid])
    patch = d / "patch.diff"
    demo = next(d.glob("demo_*.py"))
    meta = {"seeded_id": sid, "property": pid, "patch": "patch.diff", "demo": demo.name}
    if (d / "meta.json").exists():
        meta.update({k: v for k, v in json.load(open(d / "meta.json")).items() if k in ("needs_to_manifest", "description", "author")})
    wt = pathlib.Path(tempfile.mkdtemp(prefix=f"lspverif-seed-{sid}-"))
    shutil.rmtree(wt)
    try:
        r = sh(["git", "-C", str(REPO), "worktree", "add", "-q", "--detach", str(wt), "HEAD"])
        if r.returncode != 0:
            print(r.stderr)
            return 2
        env = dict(os.environ)
        env["PYTHONPATH"] = f"{wt}:{wt}/packages/python"
        env["PYTHONDONTWRITEBYTECODE"] = "1"
        shutil.copy(demo, wt / demo.name)
        a = sh([PY, "-B", demo.name], cwd=str(wt), env=env)
        meta["demo_without_patch_exit"] = a.returncode
        ap = sh(["git", "-C", str(wt), "apply", str(patch)])
        meta["patch_applies_to_head"] = ap.returncode == 0
        if ap.returncode == 0:
            t = sh([PY, "-m", "pytest", "-q", "-p", "no:cacheprovider", "--timeout=900"], cwd=str(wt), env=env)
            m = re.search(r"(\d+) passed", t.stdout)
            meta["baseline_tests_with_patch"] = t.stdout.strip().splitlines()[-1] if t.stdout.strip() else t.stderr[-200:]
            meta["baseline_tests_pass_with_patch"] = bool(m and int(m.group(1)) >= 122 and " failed" not in t.stdout)
            b = sh([PY, "-B", demo.name], cwd=str(wt), env=env)
            meta["demo_with_patch_exit"] = b.returncode
            meta["demo_with_patch_output"] = (b.stdout + b.stderr)[-400:]
    finally:
        sh(["git", "-C", str(REPO), "worktree", "remove", "--force", str(wt)])
        shutil.rmtree(wt, ignore_errors=True)
    meta["confirmed"] = bool(meta.get("patch_applies_to_head") and meta.get("demo_without_patch_exit") == 0
                             and meta.get("demo_with_patch_exit", 0) != 0 and meta.get("baseline_tests_pass_with_patch"))
    # run the checks against /repo with the patch applied
    caught = {}
    if meta.get("patch_applies_to_head"):
        st = sh(["git", "-C", str(REPO), "status", "--porcelain", "--untracked-files=no"])
        if st.stdout.strip():
            print("refusing: /repo has uncommitted changes")
            return 2
        try:
            sh(["git", "-C", str(REPO), "apply", str(patch)])
            for c in checks:
                r = sh([str(VERIF / "check"), c], cwd=str(VERIF))
                lines = [l for l in r.stdout.splitlines() if l.startswith("VIOLATION")]
                caught[c] = {"exit": r.returncode, "violations": len(lines),
                             "with_concrete_replay": sum(1 for l in lines if "no-failing-input-found" not in l),
                             "first": lines[0] if lines else "", "summary": (r.stdout.strip().splitlines() or [""])[-1]}
        finally:
            sh(["git", "-C", str(REPO), "checkout", "--", "."])
    meta["checks_run_against_patched_repo"] = caught
    meta["caught_by"] = [c for c, v in caught.items() if v["exit"] == 1]
    meta["what_was_run"] = ("scratch worktree of /repo HEAD: demo (exit 0) ; git apply patch.diff ; pytest baseline ; demo (non-zero) ; worktree removed. "
                            "Then: git -C /repo apply patch.diff ; ./check <ids> ; git -C /repo checkout -- .")
    json.dump(meta, open(d / "meta.json", "w"), indent=1)
    print(json.dumps({k: meta[k] for k in ("seeded_id", "confirmed", "caught_by")}, indent=None))
    return 0


if __name__ == "__main__":
    sys.exit(main())
