#!/usr/bin/env python3
"""Regenerate the table of seeded changes in DESIGN.md (between the seeded-table markers) from seeded/*/meta.json."""
import json
import pathlib
import re

V = pathlib.Path(__file__).resolve().parent.parent
rows = ["| id | change (file) | needs, to manifest | tests pass / demo fails | caught by (exit 1) | concrete replay |", "|---|---|---|---|---|---|"]
for d in sorted((V / "seeded").iterdir()):
    m = json.load(open(d / "meta.json"))
    patch = (d / "patch.diff").read_text()
    files = sorted(set(re.findall(r"^\+\+\+ b/(\S+)", patch, re.M)))
    runs = m.get("checks_run_against_patched_repo", {})
    caught = ", ".join(m.get("caught_by", [])) or "— (missed)"
    missed = [c for c, v in runs.items() if v["exit"] == 0]
    conc = ", ".join(f"{c}: {v['with_concrete_replay']}/{v['violations']}" for c, v in runs.items() if v["exit"] == 1)
    desc = (m.get("description") or "").replace("|", "\\|")
    needs = (m.get("needs_to_manifest") or "").replace("|", "\\|")
    ok = "yes / yes" if m.get("confirmed") else f"tests={m.get('baseline_tests_pass_with_patch')} demo={m.get('demo_with_patch_exit')}"
    rows.append(f"| {m['seeded_id']} | {desc} (`{'`, `'.join(f.split('/')[-1] for f in files)}`) | {needs} | {ok} | {caught}" + (f"; also run, silent: {', '.join(missed)}" if missed else "") + f" | {conc} |")
txt = (V / "DESIGN.md").read_text()
block = "<!-- seeded-table:begin -->\n" + "\n".join(rows) + "\n<!-- seeded-table:end -->"
if "@@SEEDED_TABLE@@" in txt:
    txt = txt.replace("@@SEEDED_TABLE@@", block)
else:
    txt = re.sub(r"<!-- seeded-table:begin -->.*?<!-- seeded-table:end -->", lambda _: block, txt, flags=re.S)
(V / "DESIGN.md").write_text(txt)
print(len(rows) - 2, "rows")
