"""C12 — LSP integer ranges are enforced exactly at construction and parse time.

Theorems over *all* values: the two validators translated from validators.py (x_valid) accept
exactly the ints (bools included, as isinstance does) inside [-2^31, 2^31-1] / [0, 2^31-1], and
otherwise raise ValueError with a message naming class and attribute; both entry points run the
same validator on an int (generic lemma); every directly integer-typed property carries the
matching validator (kernel-evaluated table obligation).  Correspondence + oracle on the boundary
set and seeded ints for every integer attribute, at both entry points of the real code.
"""
import json
import random
import re

import common
import tables
import valuegen
from common import Broken

THEOREMS = ["C12_int32_exact", "C12_uint31_exact", "C12_int32_total", "C12_uint31_total",
            "C12_fields", "C12_sites", "C12_entry_points"]

INST = r'''import LspVerif.Props.C12
import GenValid
import GenMeta
import GenPkg
open LspVerif

set_option linter.unusedSimpArgs false
set_option linter.unusedVariables false

/-- integer_validator accepts exactly the ints in [-2^31, 2^31-1] (bool counted as int, as isinstance does). -/
theorem C12_int32_exact (v : PV) :
    Gen.integer_validator v = .ok ↔ ∃ i, v.asInt = some i ∧ -2147483648 ≤ i ∧ i ≤ 2147483647 := by
  cases v <;> simp [Gen.integer_validator, PV.asInt] <;> (try split) <;> (try omega) <;> grind

/-- uinteger_validator accepts exactly the ints in [0, 2^31-1]. -/
theorem C12_uint31_exact (v : PV) :
    Gen.uinteger_validator v = .ok ↔ ∃ i, v.asInt = some i ∧ 0 ≤ i ∧ i ≤ 2147483647 := by
  cases v <;> simp [Gen.uinteger_validator, PV.asInt] <;> (try split) <;> (try omega) <;> grind

/-- For any argument the validator returns True or raises ValueError naming class and attribute. -/
theorem C12_int32_total (v : PV) :
    Gen.integer_validator v = .ok ∨ ∃ m, Gen.integer_validator v = .valueError m ∧ .cls ∈ m ∧ .attr ∈ m := by
  cases v <;> simp [Gen.integer_validator] <;> (try split) <;> simp_all <;> omega
theorem C12_uint31_total (v : PV) :
    Gen.uinteger_validator v = .ok ∨ ∃ m, Gen.uinteger_validator v = .valueError m ∧ .cls ∈ m ∧ .attr ∈ m := by
  cases v <;> simp [Gen.uinteger_validator] <;> (try split) <;> simp_all <;> omega

/-- Every directly integer / uinteger typed flattened property carries the matching validator. -/
theorem C12_fields : intFieldsOK (customize Gen.model) Gen.pkg = [] := by decide +kernel
theorem C12_sites : (intSites (customize Gen.model)).length = @NSITES@ := by decide +kernel

/-- The property: for every structure, every directly (u)integer-typed flattened property and every
    int i, the constructor and the converter give the same verdict, which is "inside the range". -/
theorem C12_entry_points :
    ∀ s ∈ (customize Gen.model).structures, ∃ c, Gen.pkg.findCls s.name = some c ∧
      ∀ p ∈ flatten (customize Gen.model) s, ∀ b v, p.ty = .base b → intVldOf b = some v →
        ∃ f, c.fields.filter (·.wireS == p.name) = [f] ∧ ∀ i : Int,
          structureEntryInt Gen.vldEnv f (.int i) = some (constructEntry Gen.vldEnv f (.int i)) ∧
          ((constructEntry Gen.vldEnv f (.int i)).accepted = true ↔
            (if b = .integer then (-2147483648 : Int) else 0) ≤ i ∧ i ≤ 2147483647) := by
  intro s hs
  obtain ⟨c, hc, h⟩ := intFieldsOK_sound C12_fields s hs
  refine ⟨c, hc, ?_⟩
  intro p hp b v hty hv
  obtain ⟨f, hf, hvld, hty'⟩ := h p hp b v hty hv
  refine ⟨f, hf, ?_⟩
  intro i
  constructor
  · apply entry_points_agree
    by_cases ho : p.opt = true
    · right; simpa [ho] using hty'
    · left; simpa [ho] using hty'
  · have e1 := C12_int32_exact (.int i)
    have e2 := C12_uint31_exact (.int i)
    simp only [PV.asInt, Option.some.injEq, exists_eq_left'] at e1 e2
    cases b <;> simp [intVldOf] at hv <;> subst hv <;>
      by_cases ho : p.opt = true <;>
      simp [constructEntry, hvld, ho, runVld, Gen.vldEnv, VR.accepted_iff] <;>
      first | exact e1 | exact e2

/-- Non-vacuity. -/
example : Gen.integer_validator (.int 2147483647) = .ok ∧ Gen.integer_validator (.int 2147483648) ≠ .ok ∧
          Gen.uinteger_validator (.int (-1)) ≠ .ok ∧ Gen.uinteger_validator (.bool true) = .ok := by decide

#print axioms C12_int32_exact
#print axioms C12_uint31_exact
#print axioms C12_int32_total
#print axioms C12_uint31_total
#print axioms C12_fields
#print axioms C12_sites
#print axioms C12_entry_points
'''

MAIN = '''import LspVerif.Driver.Valid
import GenValid
import GenPkg
def main : IO Unit := LspVerif.Driver.validMain Gen.vldEnv Gen.pkg
'''

EVAL = '''import LspVerif.Props.C12
import GenMeta
import GenPkg
open LspVerif
#eval do
  for m in intFieldsOK (customize Gen.model) Gen.pkg do
    IO.println ("MISMATCH\\t" ++ m.site ++ "\\t" ++ m.aspect ++ "\\t" ++ m.expected ++ "\\t" ++ m.actual)
'''

IMIN, IMAX = -(2**31), 2**31 - 1
BOUNDARY = [IMIN - 1, IMIN, IMIN + 1, -1, 0, 1, IMAX - 1, IMAX, IMAX + 1, 2**32, -(2**32), 2**63, -(2**63)]


def snake(meta, cls, wire):
    """python attribute name for a wire name: read from the live package by the impl; here we
    only need it for the op text, so ask the package tables written by x_pkg."""
    return None


def int_sites(meta):
    out = []
    for s in meta.doc["structures"]:
        for p in meta.flatten(s["name"]):
            t = p["type"]
            if t["kind"] == "base" and t["name"] in ("integer", "uinteger"):
                out.append((s["name"], p["name"], t["name"], bool(p.get("optional"))))
    return out


def attr_names(ctx):
    """(class, wire) -> python attribute name, parsed from the regenerated package table."""
    txt = (ctx.work / "GenPkg.lean").read_text()
    names = {}
    for m in re.finditer(r"def c\d+ : Cls := \{ name := \(0x01([0-9a-f]*) /-.*?-/\), forbidExtra := \w+, fields := \[(.*)\] \}", txt):
        cn = bytes.fromhex(m.group(1)).decode()
        for fm in re.finditer(r"\{ name := \(0x01([0-9a-f]*) /-.*?-/\), wireS := \(0x01([0-9a-f]*) /-", m.group(2)):
            names[(cn, bytes.fromhex(fm.group(2)).decode())] = bytes.fromhex(fm.group(1)).decode()
    return names


def run(ctx):
    ctx.rule = ("ops: (a) `val` = each range validator on boundary ints, seeded ints, bools, floats, strings, None, "
                "containers; (b) `entry` = every directly (u)integer-typed attribute x boundary set + seeded ints at both "
                "entry points (constructor, converter.structure) of the real code; distinct = distinct op; non-trivial = all")
    ctx.trusted += [
        "translators x_valid.py (validators.py AST -> Lean), x_meta.py, x_pkg.py",
        "model of the two entry points for an int-annotated attribute (attrs __init__ runs the validator; cattrs calls int(x) first), validated by the `entry` correspondence",
    ]
    rnd = random.Random(ctx.seed)
    meta = valuegen.Meta.load([common.REPO / "generator/lsp.json"])
    sites = int_sites(meta)
    mod, err = tables.gen_meta(ctx)
    if mod is None:
        raise Broken("x_meta failed: " + err)
    broken = []
    pk, err = tables.gen_pkg(ctx)
    if pk is None:
        broken.append("x_pkg failed: " + err[-800:])
        ctx.obligation("x_pkg", False, "translator", err)
    p = common.run_py(common.VERIF / "tools/extract/x_valid.py", check=False)
    have_valid = p.returncode == 0
    if not have_valid:
        broken.append("x_valid: " + p.stderr.strip()[-800:])
        ctx.obligation("x_valid:translate", False, "translator", p.stderr)
    # ops
    ops = []
    vals = [f"i:{b}" for b in BOUNDARY] + [f"i:{rnd.randint(-2**33, 2**33)}" for _ in range(300 if ctx.thorough() else 60)]
    vals += ["b:0", "b:1", "n"] + [f"f:{k}" for k in range(7)] + [f"s:{k}" for k in range(5)] + [f"o:{k}" for k in range(8)]
    for which in ("int32", "uint31"):
        for v in vals:
            ops.append(f"val {which} {v}")
    names = attr_names(ctx) if pk else {}
    entry_ops = []
    for (cn, wire, base, opt) in sites:
        attr = names.get((cn, wire))
        if attr is None:
            continue
        ints = BOUNDARY + [rnd.randint(-2**33, 2**33) for _ in range(20 if ctx.thorough() else 3)]
        for i in ints:
            entry_ops.append((f"entry {cn} {attr} i:{i}", base, i))
        entry_ops.append((f"entry {cn} {attr} b:1", base, 1))
    ops += [e[0] for e in entry_ops]
    impl = common.run_py(common.VERIF / "tools/corr/valid_impl.py", stdin="\n".join(ops) + "\n").stdout.split("\n")[:-1]
    if len(impl) != len(ops):
        raise Broken("valid_impl answered a different number of lines")
    # Lean
    if have_valid and pk:
        common.write_module(ctx.work, "GenValid", p.stdout)
        common.write_module(ctx.work, "Inst", INST.replace("@NSITES@", str(len(sites))))
        main = common.write_module(ctx.work, "Main", MAIN)
        res = common.lean_compile(ctx.work, [["GenValid"], ["Inst"]])
        hits = common.audit_sources([ctx.work / "GenValid.lean", ctx.work / "Inst.lean"])
        if hits:
            raise Broken(f"forbidden constructs: {hits}")
        failed = ctx.add_lean_results(res, theorems_expected={"Inst": THEOREMS})
        for r in failed:
            broken.append(f"{r.name}: {r.out[-1200:]}")
        if res["GenValid"].ok:
            model = common.lean_run(ctx.work, main, "\n".join(ops) + "\n").split("\n")[:-1]
            dis = common.diff_streams(ctx, ops, model, impl)
            for op, m, i in dis[:5]:
                ctx.notes.append(f"correspondence disagreement: {op}: model={m} impl={i}")
            if dis:
                broken.append(f"correspondence: {len(dis)} disagreements, first {dis[0]}")
    # oracle: the property stated directly
    def in_range(which, i):
        lo = IMIN if which in ("int32", "integer") else 0
        return lo <= i <= IMAX
    kinds = {}
    for op, got in zip(ops, impl):
        w = op.split(" ")
        kinds[w[0]] = kinds.get(w[0], 0) + 1
        if w[0] == "val":
            venc = w[2]
            if venc.startswith("i:") or venc.startswith("b:"):
                i = int(venc[2:])
                exp = "ok" if in_range(w[1], i) else "ValueError:11"
            else:
                exp = "ValueError:11"
            if got != exp:
                ctx.violation(f"C12|validator|{w[1]}", f"{op}: expected {exp}, real code gave {got}",
                              {"op": op, "expected": exp, "observed": got})
    for (op, base, i), got in zip(entry_ops, impl[len(ops) - len(entry_ops):]):
        exp = "acc acc" if in_range(base, i) else "rej rej"
        if got != exp:
            w = op.split(" ")
            ctx.violation(f"C12|entry|{w[1]}.{w[2]}", f"{op}: expected (constructor, converter) = {exp}, real code gave {got}",
                          {"op": op, "expected": exp, "observed": got})
    # the converter entry point IN CONTEXT: an out-of-range int at an integer property of a nested object (inside arrays, maps, union
    # alternatives, message envelopes) of an otherwise valid value must make structuring of the whole value raise, as it does when the
    # class is structured directly (the nested stream of the C11 oracle, restricted to the range edit)
    q = common.run_py(common.VERIF / "tools/search/convcheck.py", ["C11", "--seed", str(ctx.seed), "--nested-only"], check=False)
    if q.returncode != 0:
        broken.append("nested range oracle crashed: " + q.stderr[-400:])
    else:
        o = json.loads(q.stdout)
        ctx.corr["evaluations"] += o.get("evaluations", 0)
        ctx.corr["distinct_nontrivial"] += o.get("distinct", 0)
        kinds["nested"] = o.get("evaluations", 0)
        for m in o["mismatches"]:
            if m["aspect"] == "nested-out-of-range":
                ctx.violation(f"C12|nested|{m['site']}", f"out-of-range integer accepted inside {m['site']}: {m['observed'][:160]}",
                              {"root": m.get("root"), "input": m.get("input"), "expected": "structuring raises", "observed": m["observed"]})
    ctx.dist = {"ops_by_kind": kinds, "integer_attribute_sites": len(sites)}
    for o in ops[:: max(1, len(ops) // 6)]:
        ctx.sample(o)
    if broken and not ctx.violations:
        # localise table failures for the report
        ctx.violation("C12|proof", "C12 theorems / obligations / correspondence no longer check; no failing input found on the real code",
                      {"broken": broken, "theorems": THEOREMS}, no_input=True)


def replay(path):
    d = json.load(open(path))
    if "op" not in d:
        print(json.dumps(d, indent=1))
        return 1
    got = common.run_py(common.VERIF / "tools/corr/valid_impl.py", stdin=d["op"] + "\n").stdout.strip()
    print(f"op: {d['op']}\nexpected by the property: {d['expected']}\nreal code now gives: {got}")
    return 0 if got == d["expected"] else 1
