"""C08 — .NET classes declare the metamodel's wire schema and message metadata.

The dotnet plugin of the current tree is run on every check and its ~650 .cs files parsed into
tables (x_dotnet.py, with self-check); the documented metamodel -> C# mapping is a specification
function in Lean (Spec/Dotnet.lean); the kernel evaluates the checkers: per structure one
[DataMember(Name = wire)] per flattened property with the mapped C# type, `?` iff optional or
null-admitting, NullValueHandling.Ignore iff optional and not null-admitting (immutable
collections excepted, as the plugin documents), assigned in the [JsonConstructor]; enum values;
[LSPRequest("m", typeof(Resp))] / [LSPResponse(typeof(Req))] / [Direction(...)] per message class
and one LSPMethods entry per method.  Internal base structures (names starting with `_`) have no
class by design.  Nothing is compiled (no .NET toolchain offline): statements about emitted text.
Known finding: notification classes carry no method string of their own.
"""
import json
import re
import subprocess

import common
import tables
import tableprop
from common import Broken

HDR = "import LspVerif.Spec.Dotnet\nimport LspVerif.Props.C04\nimport GenMeta\nimport GenDotnet\nopen LspVerif LspVerif.Wire LspVerif.Dotnet\n"

EVAL = HDR + """#eval do
  let ms := Gen.model.structures.flatMap (recordMismatches Gen.model Gen.dotnet) ++ dotnetRest Gen.model Gen.dotnet
  for m in ms do IO.println s!"MISMATCH\\t{m.site}\\t{m.aspect}\\t{m.expected.replace "\\n" " "}\\t{m.actual.replace "\\n" " "}"
"""

KF_KEY = "C08|notification-classes|no-method-string"


def run(ctx):
    ctx.rule = ("obligations: kernel evaluation of the C# conformance checkers per slice of structures + enumerations + the metadata of all 95 methods; "
                "the mismatch list of the same checkers is the witness search (class, member, aspect)")
    ctx.trusted += ["translator x_dotnet.py (line/brace parser of the emitted C# subset with self-check: every [DataMember] accounted for)",
                    "the metamodel -> C# mapping of Spec/Dotnet.lean; Newtonsoft attribute semantics are not modelled, only their presence"]
    mod, err = tables.gen_meta(ctx)
    if mod is None:
        raise Broken("x_meta failed: " + err)
    doc = json.load(open(common.REPO / "generator/lsp.json"))
    p = common.run_py(common.VERIF / "tools/extract/x_dotnet.py", check=False, timeout=900)
    problems = []
    if p.returncode == 4:
        ctx.violation("C08|plugin-fails", "the dotnet plugin fails on the committed model: " + p.stderr[-300:],
                      {"error": p.stderr[-1500:], "how": "python -m generator --plugin dotnet --output-dir <scratch>"})
        return
    if p.returncode != 0:
        problems.append("x_dotnet: " + p.stderr[-800:])
        ctx.obligation("x_dotnet", False, "translator", p.stderr)
    else:
        r = tables.compile_cached(ctx, "GenDotnet", p.stdout)
        if not r.ok:
            raise Broken("GenDotnet does not elaborate: " + r.out[-2000:])
        layer, lemma, imports = tableprop.sliced_all(HDR, "C08s", "Gen.model.structures", "fun s => (recordMismatches Gen.model Gen.dotnet s).isEmpty", 25, len(doc["structures"]), "C08_structs_chk")
        layer.append(("C08rest", HDR + "theorem C08_rest_chk : dotnetRest Gen.model Gen.dotnet = [] := by decide +kernel\n"
                                         "/-- recorded finding: the notification classes themselves carry no method string -/\n"
                                         "theorem C08_notification_classes_lack_method : notificationClassesCarryMethod Gen.dotnet Gen.model = false := by decide +kernel\n"))
        final = imports + "import C08rest\n" + HDR + lemma + """
/-- C08 (partial: see the recorded finding about notification classes): every structure's data
    members, every enumeration's values, and the request / response / direction / catalogue metadata
    of every method conform. -/
theorem C08_partial : (∀ s ∈ Gen.model.structures, recordMismatches Gen.model Gen.dotnet s = []) ∧ dotnetRest Gen.model Gen.dotnet = [] := by
  refine ⟨fun s hs => ?_, C08_rest_chk⟩
  have := List.all_eq_true.mp C08_structs_chk s hs
  simpa using this
#print axioms C08_partial
#print axioms C08_notification_classes_lack_method
"""
        for mn, text in layer + [("Inst", final)]:
            common.write_module(ctx.work, mn, text)
        res = common.lean_compile(ctx.work, [[m for m, _ in layer], ["Inst"]])
        # the finding theorem failing means the finding is gone (or changed): not a violation by itself
        rest = res.get("C08rest")
        failed = ctx.add_lean_results(res, theorems_expected={"Inst": ["C08_partial"]})
        ctx.corr["evaluations"] = sum(len(s["properties"]) for s in doc["structures"]) + len(doc["enumerations"]) + (len(doc["requests"]) * 4 + len(doc["notifications"]) * 2)
        ctx.corr["distinct_nontrivial"] = ctx.corr["evaluations"]
        nrec = len(re.findall(r"^def dr\d+ : DRecord", p.stdout, re.M))
        ctx.sample({"records_parsed": nrec, "obligation": "recordMismatches Gen.model Gen.dotnet s = [] for s in slice 0"})
        if failed:
            f = common.write_module(ctx.work, "Eval", EVAL)
            q = subprocess.run(["lean", str(f)], capture_output=True, text=True, env=common.lean_env(ctx.work), cwd=str(ctx.work))
            mm = [(l.split("\t")[1:] + ["", "", "", ""])[:4] for l in q.stdout.splitlines() if l.startswith("MISMATCH\t")]
            for site, aspect, exp, act in mm[:40]:
                ctx.violation(f"C08|{site}|{aspect}", f".cs files as emitted by the dotnet plugin: {site} {aspect}: expected {exp[:160]}, found {act[:160]}",
                              {"item": site, "aspect": aspect, "expected": exp, "found": act,
                               "how": "python -m generator --plugin dotnet --output-dir <scratch>; open the named class"})
            still_only_finding = not mm
            if still_only_finding:
                for r2 in failed:
                    if "C08_notification_classes_lack_method" in r2.out and "C08_rest_chk" not in r2.out.split("error")[1] if "error" in r2.out else False:
                        ctx.notes.append("the recorded finding about notification classes no longer holds (repaired?)")
                    else:
                        problems.append(f"{r2.name}: {r2.out[-1000:]}")
        # the recorded finding, demonstrated on the emitted text
        js = common.run_py(common.VERIF / "tools/extract/x_dotnet.py", ["--json"], check=False, timeout=900)
        if js.returncode == 0:
            d = json.loads(js.stdout)
            recs = {r["name"]: r for r in d["records"]}
            lacking = [n["typeName"] for n in doc["notifications"] if n.get("typeName") in recs and not (recs[n["typeName"]]["lsp_request"] and recs[n["typeName"]]["lsp_request"][0] == n["method"])]
            if lacking:
                ctx.violation(KF_KEY, f"{len(lacking)} of {len(doc['notifications'])} generated notification classes carry no method string (e.g. {lacking[0]}); requests carry it in [LSPRequest(\"...\")]",
                              {"classes": lacking[:5], "how": "python -m generator --plugin dotnet; open <Name>Notification.cs: no attribute holds the method string"})
    problems += evolved_pass(ctx, doc)
    if ctx.thorough():
        # thorough tier: the obligations proved for further evolved metamodels, seeded edit sequences (VERIF_SEED)
        import random
        import evolve
        for i, (tag, sdesc, sdoc) in enumerate(evolve.seeded(doc, random.Random(ctx.seed * 7919 + 17), 3, length=(3, 6))):
            if evolve.discipline_problems(sdoc):
                continue
            problems += evolved_pass(ctx, doc, sfx=f"S{i}", given=(sdoc, sdesc))
    if problems and not ctx.violations:
        ctx.violation("C08|proof", "C08 obligations no longer check and the checker lists no mismatch", {"broken": problems}, no_input=True)


def evolved_pass(ctx, doc, sfx="E", given=None):
    """The same obligations, proved for one composite evolved metamodel of C06's family (every listed edit kind applied once):
    the property quantifies over the committed metamodel and the evolved ones; C06 explores many more with the mismatch list."""
    import shutil
    import props.c07 as c07
    problems = []
    edoc, desc = given if given else c07.evolved_model(doc)
    what = ("the evolved metamodel [" if sfx == "E" else f"seeded evolved metamodel {sfx} [") + desc[:300] + " ...]"
    d = common.scratch_dir("c08-evolved")
    try:
        mf = d / "model.json"
        mf.write_text(json.dumps(edoc))
        sv = common.run_py(common.VERIF / "tools/search/schema_ok.py", [str(mf)], check=False)
        if sv.stdout.strip() != "ok":
            raise Broken("the evolved metamodel is not schema-valid (tools/evolve.py): " + sv.stdout[:300] + sv.stderr[-300:])
        mod, err = tables.gen_meta(ctx, [mf], modname="GenMeta" + sfx, ns="Gen" + sfx)
        if mod is None:
            raise Broken("x_meta failed (evolved): " + err)
        p = common.run_py(common.VERIF / "tools/extract/x_dotnet.py", ["--model", str(mf)], check=False, timeout=900)
    finally:
        shutil.rmtree(d, ignore_errors=True)
    if p.returncode == 4:
        ctx.violation("C08|plugin-fails|evolved" + sfx, f"the dotnet plugin fails on {what}: " + p.stderr[-300:],
                      {"error": p.stderr[-1500:], "model": what, "how": "python -m generator --plugin dotnet --output-dir <scratch> --model <evolved model: tools/props/c07.py evolved_model>"})
        return problems
    if p.returncode != 0:
        ctx.obligation("x_dotnet" + sfx, False, "translator", p.stderr)
        return ["x_dotnet (evolved): " + p.stderr[-800:]]
    H = HDR.replace("GenMeta", "GenMeta" + sfx).replace("GenDotnet", "GenDotnet" + sfx)
    text = p.stdout.replace("namespace Gen", "namespace Gen" + sfx).replace("end Gen", "end Gen" + sfx).replace("import GenMeta", "import GenMeta" + sfx).replace("Gen.model", f"Gen{sfx}.model")
    r = tables.compile_cached(ctx, "GenDotnet" + sfx, text)
    if not r.ok:
        raise Broken(f"GenDotnet{sfx} does not elaborate: " + r.out[-2000:])
    layer, lemma, imports = tableprop.sliced_all(H, f"C08{sfx}s", f"Gen{sfx}.model.structures", f"fun s => (recordMismatches Gen{sfx}.model Gen{sfx}.dotnet s).isEmpty", 25, len(edoc["structures"]), f"C08{sfx}_structs_chk")
    layer.append((f"C08{sfx}rest", H + f"theorem C08{sfx}_rest_chk : dotnetRest Gen{sfx}.model Gen{sfx}.dotnet = [] := by decide +kernel\n"))
    thm = "C08_evolved_partial" if sfx == "E" else f"C08_evolved_{sfx}_partial"
    final = imports + f"import C08{sfx}rest\n" + H + lemma + f"""
/-- C08 for {'the evolved metamodel' if sfx == 'E' else 'a seeded evolved metamodel'} (partial in the same way as C08_partial). -/
theorem {thm} : (∀ s ∈ Gen{sfx}.model.structures, recordMismatches Gen{sfx}.model Gen{sfx}.dotnet s = []) ∧ dotnetRest Gen{sfx}.model Gen{sfx}.dotnet = [] := by
  refine ⟨fun s hs => ?_, C08{sfx}_rest_chk⟩
  have := List.all_eq_true.mp C08{sfx}_structs_chk s hs
  simpa using this
#print axioms {thm}
"""
    for mn, t in layer + [("Inst" + sfx, final)]:
        common.write_module(ctx.work, mn, t)
    res = common.lean_compile(ctx.work, [[m for m, _ in layer], ["Inst" + sfx]])
    failed = ctx.add_lean_results(res, theorems_expected={"Inst" + sfx: [thm]})
    ctx.corr["evaluations"] += sum(len(s["properties"]) for s in edoc["structures"]) + len(edoc["enumerations"]) + (len(edoc["requests"]) * 4 + len(edoc["notifications"]) * 2)
    ctx.corr["distinct_nontrivial"] = ctx.corr["evaluations"]
    if failed:
        f = common.write_module(ctx.work, "Eval" + sfx, EVAL.replace("GenMeta", "GenMeta" + sfx).replace("GenDotnet", "GenDotnet" + sfx).replace("Gen.", f"Gen{sfx}."))
        q = subprocess.run(["lean", str(f)], capture_output=True, text=True, env=common.lean_env(ctx.work), cwd=str(ctx.work))
        mm = [(l.split("\t")[1:] + ["", "", "", ""])[:4] for l in q.stdout.splitlines() if l.startswith("MISMATCH\t")]
        for site, aspect, exp, act in mm[:40]:
            ctx.violation(f"C08|{site}|{aspect}|evolved" + ("" if sfx == "E" else sfx), f".cs files as emitted by the dotnet plugin for {what}: {site} {aspect}: expected {exp[:160]}, found {act[:160]}",
                          {"item": site, "aspect": aspect, "expected": exp, "found": act, "model": what,
                           "how": "python -m generator --plugin dotnet --output-dir <scratch> --model <evolved model: tools/props/c07.py evolved_model>; open the named class"})
        if not mm:
            problems += [f"{r2.name}: {r2.out[-1000:]}" for r2 in failed]
    return problems


def replay(path):
    d = json.load(open(path))
    print(json.dumps(d, indent=1)[:2500])
    return 1
