"""C16 — generation is a deterministic function of the model files alone.

Lean (Props/C16.lean): permutations sort to the same list (`sort_perm`: what `sorted(set(...))`
relies on under any hash seed); the output discipline "remove what the plugin owns, then write what
the model yields" makes the owned part of the directory independent of its history
(`owned_indep_history`, `rerun_idempotent`).  Kernel obligations on a scan of generator/ regenerated
every run: every source of nondeterminism (sets, directory listings, uuids, hash/id, randomness,
clock, environment; every read of a model `id_`; interpreter-level state that would outlive a
generation: mutated module/class-level containers, `global` rebinding, memoising decorators, mutable
defaults, stateful module-level objects) is one of the accounted sites with its neutraliser, and every plugin follows its expected output discipline (cleanup glob == written
suffix, or fixed file names).  The link from these to byte-identical output is the oracle: real
runs of the four plugins under several hash seeds x {fresh dir, re-run, after a different model,
with hand-placed stale owned files, after a generation of a different model in the same interpreter}, owned files compared byte for byte (testdata: reduced model on
disk, full model in process).
"""
import json

import common
from common import Broken

THEOREMS = ["C16_sites_accounted", "C16_disciplines", "C16_sorted_independent_of_hash_order", "C16_owned_part_independent_of_history",
            "C16_independent_of_earlier_generations_in_the_process"]

INST = """import LspVerif.Props.C16
import GenNondet
open LspVerif LspVerif.C16

theorem C16_sites_accounted : sitesAccounted Gen.nondetSites = true := by decide +kernel
theorem C16_disciplines : disciplinesOK Gen.disciplines = true := by decide +kernel
theorem C16_sorted_independent_of_hash_order (l₁ l₂ : List Nat) (h : l₁.Perm l₂) :
    l₁.mergeSort (fun a b => decide (a ≤ b)) = l₂.mergeSort (fun a b => decide (a ≤ b)) := sort_perm_nat l₁ l₂ h
theorem C16_owned_part_independent_of_history (owns : Name → Bool) (emit fs₁ fs₂ : FS) (he : ∀ f ∈ emit, owns f.1 = true) :
    ownedPart owns (runPlugin owns emit fs₁) = ownedPart owns (runPlugin owns emit fs₂) ∧
    (∀ emit', ownedPart owns (runPlugin owns emit (runPlugin owns emit' fs₁)) = emit) :=
  ⟨owned_indep_history' owns emit fs₁ fs₂ he, fun emit' => rerun_idempotent owns emit emit' fs₁ he⟩
/-- what `C16_sites_accounted` buys for generations that share an interpreter: no module-level container is mutated, no name is rebound
    through `global`, no memoising decorator, no mutable default argument, no stateful module-level object (the scan lists every such site)
    — so the interpreter-level state is the same before and after a generation, and then earlier generations cannot matter -/
theorem C16_independent_of_earlier_generations_in_the_process {σ M O : Type} (g : σ → M → O × σ) (h : ∀ s m, (g s m).2 = s)
    (s : σ) (ms : List M) (m : M) : (g (ms.foldl (fun s m' => (g s m').2) s) m).1 = (g s m).1 :=
  stateless_history_independent g h s ms m
example : ownedPart (fun p => p == n!"a.cs") (runPlugin (fun p => p == n!"a.cs") [(n!"a.cs", n!"new")] [(n!"a.cs", n!"stale"), (n!"README", n!"x")]) = [(n!"a.cs", n!"new")] := by decide
#eval (Gen.nondetSites.filter (fun s => !accounted.contains s)).map (fun s => (s.1.toString, s.2.1.toString, s.2.2.1.toString, s.2.2.2.toString))
""" + "".join(f"#print axioms {t}\n" for t in THEOREMS)


def run(ctx):
    ctx.rule = ("real plugin runs: 4 plugins x hash seeds x {fresh directory, re-run, after a different (evolved) model, hand-placed stale owned files, "
                "after a generation of a different model in the same interpreter (both orders) vs fresh process}; "
                "owned files compared byte for byte; testdata full model compared in process across seeds; distinct = distinct run")
    ctx.trusted += ["scanner x_nondet.py (syntactic; a nondeterminism source reached through an alias or a helper outside generator/ is not seen - the seed runs are what would expose it)",
                    "abstract file-system model of a plugin run (delete owned, write emitted)"]
    problems = []
    p = common.run_py(common.VERIF / "tools/extract/x_nondet.py", check=False)
    if p.returncode != 0:
        problems.append("x_nondet: " + p.stderr[-600:])
        ctx.obligation("x_nondet", False, "translator", p.stderr)
    else:
        txt = p.stdout.replace("end Gen\nnamespace Gen\n", "")
        common.write_module(ctx.work, "GenNondet", txt)
        common.write_module(ctx.work, "Inst", INST)
        res = common.lean_compile(ctx.work, [["GenNondet"], ["Inst"]])
        failed = ctx.add_lean_results(res, theorems_expected={"Inst": THEOREMS})
        for r in failed:
            problems.append(f"{r.name}: {r.out[-1200:]}")
        for line in res["Inst"].out.splitlines():
            if line.startswith("[(") and len(line) > 4:
                ctx.notes.append("unaccounted nondeterminism sites: " + line[:600])
    args = ["--seed", str(ctx.seed)] + (["--thorough"] if ctx.thorough() else [])
    o = common.run_py(common.VERIF / "tools/search/c16_oracle.py", args, check=False, timeout=7200)
    if o.returncode != 0:
        problems.append("oracle crashed: " + o.stderr[-800:])
    else:
        out = json.loads(o.stdout)
        ctx.corr["evaluations"] += out["evaluations"]
        ctx.corr["distinct_nontrivial"] += out["distinct"]
        for s in out["samples"]:
            ctx.sample(s)
        for m in out["mismatches"]:
            ctx.violation(f"C16|{m['site']}|{m['aspect']}", f"{m['site']} {m['aspect']}: {m['observed'][:240]}",
                          {"input": m.get("input"), "expected": m["expected"], "observed": m["observed"],
                           "how": "PYTHONHASHSEED=<seed> python -m generator --plugin <p> --output-dir <dir>  (see input) | ./check C16 --replay <this file>"})
    if problems and not ctx.violations:
        ctx.violation("C16|proof", "C16 obligations no longer check (a nondeterminism site or an output discipline is not accounted for) and the seed/history runs found no differing output",
                      {"broken": problems, "theorems": THEOREMS}, no_input=True)


def replay(path):
    d = json.load(open(path))
    print(json.dumps(d, indent=1)[:2500])
    o = common.run_py(common.VERIF / "tools/search/c16_oracle.py", [], check=False, timeout=7200)
    out = json.loads(o.stdout)
    hit = [m for m in out["mismatches"] if f"C16|{m['site']}|{m['aspect']}" == d.get("site")]
    print("still failing:" if hit else "no longer failing", hit[:1])
    return 1 if hit else 0
