"""C04 — the generated Python package is a complete, faithful image of the metamodel.

Generic theorem (Props/C04.lean): an empty mismatch list from the conformance checker implies the
∀∃ statement (every flattened property has exactly one agreeing attribute, no attribute is extra;
enums carry exactly the values; aliases map as documented).  Instance obligations: the checker
evaluated by the Lean kernel on tables regenerated from lsp.json and from the imported package
(committed, and freshly emitted by the current generator).  Oracle: the same property in plain
Python over the live attrs.fields.
"""
import json
import re
import shutil

import common
import tables
from common import Broken

SLICE = 25


def inst_slice(k, ns, pkgmod, suffix):
    return f"""import LspVerif.Props.C04
import GenMeta
import {pkgmod}
open LspVerif
theorem C04{suffix}_structs_{k} : conformsStructs (customize Gen.model) {ns}.pkg (slice (customize Gen.model).structures {k} {SLICE}) = [] := by
  decide +kernel
#print axioms C04{suffix}_structs_{k}
"""


def inst_ea(ns, pkgmod, suffix, nstruct):
    return f"""import LspVerif.Props.C04
import GenMeta
import {pkgmod}
open LspVerif
theorem C04{suffix}_enums : conformsEnums (customize Gen.model) {ns}.pkg = [] := by decide +kernel
theorem C04{suffix}_aliases : conformsAliases (customize Gen.model) {ns}.pkg = [] := by decide +kernel
theorem C04{suffix}_nstructs : (customize Gen.model).structures.length = {nstruct} := by decide +kernel
#print axioms C04{suffix}_enums
#print axioms C04{suffix}_aliases
#print axioms C04{suffix}_nstructs
"""


def inst_all(ns, pkgmod, suffix, nslices):
    imports = "\n".join(f"import InstS{suffix}{k}" for k in range(nslices))
    cases = "\n".join(f"    | {k}, _, hk => exact conformsStructs_sound C04{suffix}_structs_{k} s hk" for k in range(nslices))
    return f"""import LspVerif.Props.C04
import GenMeta
import {pkgmod}
import InstEA{suffix}
{imports}
open LspVerif

/-- C04, structures: every structure of the (customised) metamodel has a same-named class with
    exactly one agreeing attribute per flattened property and no further attribute. -/
theorem C04{suffix}_structures :
    ∀ s ∈ (customize Gen.model).structures, StructFaithful (customize Gen.model) {ns}.pkg s := by
  intro s hs
  obtain ⟨k, hk⟩ := mem_slice_of_mem _ {SLICE} (by decide) s hs
  by_cases hlt : k < {nslices}
  · match k, hlt, hk with
{cases}
    | n + {nslices}, h, _ => omega
  · have : slice (customize Gen.model).structures k {SLICE} = [] := by
      apply slice_eq_nil
      rw [C04{suffix}_nstructs]
      have : {nslices} * {SLICE} ≤ k * {SLICE} := Nat.mul_le_mul_right _ (by omega)
      omega
    rw [this] at hk
    simp at hk

/-- C04, enumerations and aliases. -/
theorem C04{suffix}_enumerations : ∀ e ∈ (customize Gen.model).enumerations, EnumFaithful {ns}.pkg e :=
  conformsEnums_sound C04{suffix}_enums
theorem C04{suffix}_type_aliases : ∀ a ∈ (customize Gen.model).aliases, AliasFaithful (customize Gen.model) {ns}.pkg a :=
  conformsAliases_sound C04{suffix}_aliases

#print axioms C04{suffix}_structures
#print axioms C04{suffix}_enumerations
#print axioms C04{suffix}_type_aliases
"""


EVAL = """import LspVerif.Props.C04
import GenMeta
import {pkgmod}
open LspVerif
def fmt (m : Mismatch) : String := m.site ++ "\\t" ++ m.aspect ++ "\\t" ++ m.expected ++ "\\t" ++ m.actual
#eval do
  let M := customize Gen.model
  for m in conformsStructs M {ns}.pkg M.structures ++ conformsEnums M {ns}.pkg ++ conformsAliases M {ns}.pkg do
    IO.println ("MISMATCH\\t" ++ fmt m)
"""


def one_package(ctx, ns, pkgmod, suffix, nstruct, label):
    """Instance obligations for one package table. Returns (ok, lean_mismatches)."""
    nslices = (nstruct + SLICE - 1) // SLICE
    layer = []
    for k in range(nslices):
        common.write_module(ctx.work, f"InstS{suffix}{k}", inst_slice(k, ns, pkgmod, suffix))
        layer.append(f"InstS{suffix}{k}")
    common.write_module(ctx.work, f"InstEA{suffix}", inst_ea(ns, pkgmod, suffix, nstruct))
    layer.append(f"InstEA{suffix}")
    common.write_module(ctx.work, f"InstAll{suffix}", inst_all(ns, pkgmod, suffix, nslices))
    res = common.lean_compile(ctx.work, [layer])
    exp = {f"InstS{suffix}{k}": [f"C04{suffix}_structs_{k}"] for k in range(nslices)}
    exp[f"InstEA{suffix}"] = [f"C04{suffix}_enums", f"C04{suffix}_aliases", f"C04{suffix}_nstructs"]
    failed = ctx.add_lean_results(res, theorems_expected=exp)
    if not failed:
        res2 = common.lean_compile(ctx.work, [[f"InstAll{suffix}"]])
        failed = ctx.add_lean_results(res2, theorems_expected={f"InstAll{suffix}": [f"C04{suffix}_structures", f"C04{suffix}_enumerations", f"C04{suffix}_type_aliases"]})
        if failed:
            raise Broken(f"combination theorem failed although every slice was discharged:\n{failed[0].out[-2000:]}")
        return True, []
    # localise: evaluate the checker (diagnosis only)
    f = common.write_module(ctx.work, f"Eval{suffix}", EVAL.format(pkgmod=pkgmod, ns=ns))
    import subprocess
    p = subprocess.run(["lean", str(f)], capture_output=True, text=True, env=common.lean_env(ctx.work), cwd=str(ctx.work))
    mm = [l.split("\t")[1:] for l in p.stdout.splitlines() if l.startswith("MISMATCH\t")]
    ctx.notes.append(f"{label}: Lean checker reports {len(mm)} mismatches; first: {mm[:3]}")
    return False, mm


def run_oracle(pkgdir=None):
    args = ["--pkgdir", str(pkgdir)] if pkgdir else []
    p = common.run_py(common.VERIF / "tools/search/c04_oracle.py", args, check=False)
    if p.returncode != 0:
        return None, p.stderr[-2000:]
    return json.loads(p.stdout), ""


def strip_header(t):
    return "\n".join(l for l in t.splitlines() if not l.startswith("-- generated"))


def run(ctx):
    ctx.rule = ("obligations = kernel evaluation of the conformance checker per slice of 25 structures (all "
                "flattened properties x {wire name read/written, annotation, required, default, validator, plain field}), "
                "all enumerations, all aliases, for the committed and the freshly generated package; "
                "evaluations = (structure property, aspect) pairs re-checked by the Python oracle on the live classes")
    ctx.trusted += [
        "translators x_meta.py (lsp.json -> Gen.model) and x_pkg.py (live attrs.fields / enum members / cattrs overrides -> Gen.pkg)",
        "the specification function pyTyOf/expectedField in Spec/PySpec.lean is the documented mapping, written independently of the generator",
    ]
    ctx.assumptions += ["'null-admitting' = the property's type is an `or` with a direct `null` member (the package's documented rule)"]
    mod, err = tables.gen_meta(ctx)
    if mod is None:
        raise Broken("x_meta failed on the committed lsp.json: " + err)
    meta_doc = json.load(open(common.REPO / "generator/lsp.json"))
    nstruct = len(meta_doc["structures"])
    problems = []
    # committed package
    pk, err = tables.gen_pkg(ctx)
    if pk is None:
        problems.append(("committed", "x_pkg failed (package does not import?): " + err[-1500:], []))
        ctx.obligation("x_pkg:committed", False, "translator", err)
    else:
        ok, mm = one_package(ctx, "Gen", "GenPkg", "", nstruct, "committed package")
        if not ok:
            problems.append(("committed", "instance obligations failed", mm))
    # freshly generated package
    fresh, err = tables.fresh_python_package()
    try:
        if fresh is None:
            problems.append(("fresh", "the python plugin failed on the committed model: " + err[-1500:], []))
            ctx.obligation("generator:python-plugin", False, "translator", err)
        else:
            pkf, err = tables.gen_pkg(ctx, pkgdir=fresh, modname="GenPkgF", ns="GenF")
            if pkf is None:
                problems.append(("fresh", "x_pkg failed on the freshly generated package: " + err[-1500:], []))
                ctx.obligation("x_pkg:fresh", False, "translator", err)
            else:
                a = strip_header((ctx.work / "GenPkg.lean").read_text()) if pk else ""
                b = strip_header((ctx.work / "GenPkgF.lean").read_text()).replace("namespace GenF", "namespace Gen").replace("end GenF", "end Gen")
                if pk and a == b:
                    ctx.obligation("fresh-package-tables-identical-to-committed", True, "translator-output-equality",
                                   "the tables extracted from the freshly generated package are byte-identical to those of the committed package; the same theorems cover both")
                else:
                    ok, mm = one_package(ctx, "GenF", "GenPkgF", "F", nstruct, "freshly generated package")
                    if not ok:
                        problems.append(("fresh", "instance obligations failed", mm))
            # oracle on both
        for label, d in (("committed", None), ("fresh", fresh)):
            if label == "fresh" and fresh is None:
                continue
            mism, oerr = run_oracle(d)
            if mism is None:
                ctx.notes.append(f"oracle could not run on the {label} package: {oerr[-300:]}")
                continue
            ctx.corr["evaluations"] += sum(len(s["properties"]) for s in meta_doc["structures"]) * 6
            for m in mism:
                ctx.violation(f"C04|{m['site']}|{m['aspect']}",
                              f"{label} package: {m['site']} {m['aspect']}: expected {m['expected']}, observed {m['observed']}",
                              {"package": label, **m, "how": "./check C04 --replay <this file>"})
    finally:
        if fresh is not None:
            shutil.rmtree(fresh, ignore_errors=True)
    ctx.corr["distinct_nontrivial"] = ctx.corr["evaluations"] // 2
    ctx.sample({"obligation": "conformsStructs (customize Gen.model) Gen.pkg (slice structures 0 25) = []"})
    ctx.sample({"oracle": "Position.line: wire=line annotation=int required validator=uinteger"})
    if problems and not ctx.violations:
        ctx.violation("C04|proof", "C04 obligations no longer check and the oracle found no mismatch on the live package",
                      {"broken": [(a, b, c[:5]) for a, b, c in problems]}, no_input=True)


def replay(path):
    d = json.load(open(path))
    print(json.dumps(d, indent=1))
    if d.get("package") == "fresh":
        fresh, err = tables.fresh_python_package()
        try:
            mism, _ = run_oracle(fresh)
        finally:
            if fresh:
                shutil.rmtree(fresh, ignore_errors=True)
    else:
        mism, _ = run_oracle(None)
    hit = [m for m in (mism or []) if m["site"] == d.get("site") and m["aspect"] == d.get("aspect")]
    print("still failing on the real package:" if hit else "no longer failing", hit)
    return 1 if hit else 0
