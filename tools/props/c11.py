"""C11 — spec-invalid single-field deviations are rejected, never silently repaired.

Theorems for every structure, every eligible property and EVERY surrounding object (Props/C11.lean):
removing a required property, an out-of-range (u)integer, a closed-enum value outside the
enumeration, a different string at a string-literal property — each makes structuring the object
as the class raise.  Side conditions are kernel-evaluated table facts on the regenerated tables
(required => no default; (u)integer => int annotation + range validator; closed enum => the enum
itself as annotation; literal => in_ validator; no hook registered for int / str / closed enums),
and the range theorems use the exactness theorems of the validators translated from validators.py
(C12).  Correspondence + oracle: the four edits on every eligible property of every structure in
minimal and maximal surroundings.
"""
import json

import common
import convprop
import tableprop

HDR = "import LspVerif.Props.C11\nimport LspVerif.Props.C04\nimport GenMeta\nimport GenEnv\nopen LspVerif\n"


def inst_fn(doc):
    M = "(customize Gen.model)"
    layer, lemma, imports = tableprop.sliced_all(HDR, "C11s", f"{M}.structures", f"c11StructOK {M} Gen.env.pkg", 25, len(doc["structures"]), "C11_structs_chk")
    final = imports + HDR + lemma + f"""
theorem C11_env : c11EnvOK {M} Gen.env = true := by decide +kernel

theorem C11_validators_reject (i : Int) :
    ((i < -2147483648 ∨ 2147483647 < i) → (Gen.env.vld.int32 (.int i)).accepted = false) ∧
    ((i < 0 ∨ 2147483647 < i) → (Gen.env.vld.uint31 (.int i)).accepted = false) := by
  constructor <;> intro h <;>
    simp [Gen.env, Gen.vldEnv, Gen.integer_validator, Gen.uinteger_validator, VR.accepted] <;>
    (try split) <;> simp_all <;> omega

/-- C11: the four single-field edits, for every structure of the metamodel. -/
theorem C11 : ∀ s ∈ {M}.structures,
    (∃ c, Gen.env.pkg.findCls s.name = some c ∧ ∀ p ∈ flatten {M} s, p.opt = false → p.ty.isStrLit = false →
      ∀ (recur : PyTy → Json → Except Err PyVal) (kvs : List (Name × Json)), Json.lookup kvs p.name = Option.none →
        ∃ e, structCls Gen.env recur c (.obj kvs) = .error e) ∧
    (∃ c, Gen.env.pkg.findCls s.name = some c ∧ ∀ p ∈ flatten {M} s, p.opt = false →
      ∀ (n : Nat) (kvs : List (Name × Json)) (i : Int), Json.lookup kvs p.name = some (.int i) →
        ((p.ty == .base .integer) = true → (i < -2147483648 ∨ 2147483647 < i) →
          ∃ e, structCls Gen.env (structTy Gen.env (n + 1)) c (.obj kvs) = .error e) ∧
        ((p.ty == .base .uinteger) = true → (i < 0 ∨ 2147483647 < i) →
          ∃ e, structCls Gen.env (structTy Gen.env (n + 1)) c (.obj kvs) = .error e)) ∧
    (∃ c, Gen.env.pkg.findCls s.name = some c ∧ ∀ p ∈ flatten {M} s, p.opt = false → ∀ l, p.ty = .strLit l →
      ∀ (n : Nat) (kvs : List (Name × Json)) (x : Name), Json.lookup kvs p.name = some (.str x) → (x == l) = false →
        ∃ err, structCls Gen.env (structTy Gen.env (n + 1)) c (.obj kvs) = .error err) := by
  intro s hs
  have h := List.all_eq_true.mp C11_structs_chk s hs
  refine ⟨C11_missing_required {M} Gen.env s h, ?_, C11_wrong_literal {M} Gen.env s h C11_env⟩
  obtain ⟨c, hc, hr⟩ := C11_out_of_range {M} Gen.env s h C11_env
  refine ⟨c, hc, ?_⟩
  intro p hp hopt n kvs i hl
  obtain ⟨h1, h2⟩ := hr p hp hopt n kvs i hl
  exact ⟨fun ht hb => h1 ht ((C11_validators_reject i).1 hb), fun ht hb => h2 ht ((C11_validators_reject i).2 hb)⟩

/-- C11, closed enumerations. -/
theorem C11_enums : ∀ s ∈ {M}.structures,
    ∃ c, Gen.env.pkg.findCls s.name = some c ∧ ∀ p ∈ flatten {M} s, p.opt = false →
      ∀ r e, p.ty = .ref r → {M}.findEnum r = some e → e ∈ {M}.enumerations → e.name = r → e.custom = false →
      ∃ pe, Gen.env.pkg.findEnum r = some pe ∧
      ∀ (n : Nat) (kvs : List (Name × Json)),
        (∀ x : Name, Json.lookup kvs p.name = some (.str x) → pe.members.any (·.2 == .s x) = false →
          ∃ err, structCls Gen.env (structTy Gen.env (n + 1)) c (.obj kvs) = .error err) ∧
        (∀ x : Int, Json.lookup kvs p.name = some (.int x) → pe.members.any (·.2 == .i x) = false →
          ∃ err, structCls Gen.env (structTy Gen.env (n + 1)) c (.obj kvs) = .error err) :=
  fun s hs => C11_not_a_member {M} Gen.env s (List.all_eq_true.mp C11_structs_chk s hs) C11_env

/-- Non-vacuity: a concrete object of a real class meets the hypotheses and is rejected. -/
example : (structTy Gen.env 8 (.cls n!"Position") (.obj [(n!"line", .int 2147483648), (n!"character", .int 0)])).toOption.isSome = false ∧
          (structTy Gen.env 8 (.cls n!"Position") (.obj [(n!"line", .int 2147483647), (n!"character", .int 0)])).toOption.isSome = true := by decide +kernel

#print axioms C11
#print axioms C11_enums
#print axioms C11_env
"""
    return [layer, [("Inst", final)]]


def ops_fn(S):
    ops = []
    for name, edit, prop, j in S.malformed_stream():
        ops.append(f"structure {name} " + json.dumps(j, ensure_ascii=False, separators=(",", ":")))
    # the same deviations at nested object nodes of valid root values (model and real converter must both fail)
    for name, edit, where, j in S.nested_malformed_stream():
        ops.append(f"structure {name} " + json.dumps(j, ensure_ascii=False, separators=(",", ":")))
    return ops


def run(ctx):
    doc = json.load(open(common.REPO / "generator/lsp.json"))
    ctx.rule = ("every structure x every property eligible for one of the four edits x {minimal, maximal} surrounding value; "
                "model vs real converter (structure must fail on both); oracle: structure() of the real converter must raise; "
                "distinct = distinct (structure, edit, property, JSON)")
    convprop.run(ctx, "C11", ops_fn=ops_fn, inst_fn=lambda: inst_fn(doc), theorems=["C11", "C11_enums", "C11_env"],
                 assumptions=["edits at the top-level object of the structure (theorems) and, in the correspondence and the oracle, at nested object nodes of valid root values; theorems cover required (non-optional) properties; optional ones are covered by the generic validator lemma + correspondence"])


def replay(path):
    return convprop.replay("C11", path)
