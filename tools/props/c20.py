"""C20 — Position order is lexicographic and total; Range/Location equality is structural.

Proof: the dunder-method bodies are translated from /repo's types.py into Lean on every run
(x_pos), composed with the hand-written model of CPython's comparison protocol and
functools.total_ordering (Core/Cmp.lean), and the property theorems below are proved for all
integers.  Correspondence: the same model is run against the interpreter on a boundary grid and
seeded random objects.  Oracle: the property stated directly in Python on the real objects.
"""
import json
import random
import re

import common
from common import Broken

THEOREMS = ["C20_ops_lex", "C20_trichotomy", "C20_range_eq", "C20_location_eq", "C20_unrelated", "C20_repr"]

INST = r'''import LspVerif.Props.C20
import Gen
open LspVerif.Cmp

set_option linter.unusedSimpArgs false
set_option linter.unusedVariables false

macro "c20_unfold" : tactic => `(tactic|
  simp [pyOp, callOrd, implOf, srcCall, Methods.get, @GENDEFS@,
    opEq, opNe, callEq, callNe, lexOp, lexLt, pyTupGt, pyTupLt, pyTupGe, pyTupLe, pyTupEq, Op.reflected])

/-- All six operators on two positions agree with the lexicographic order of (line, character). -/
theorem C20_ops_lex (a b : Pos) (same : Bool) (hs : same = true → a = b) (op : Op) :
    pyOp Gen.env same op (.pos a) (.pos b) = .ok (lexOp op a b) := by
  obtain ⟨al, ac⟩ := a
  obtain ⟨bl, bc⟩ := b
  cases op <;> c20_unfold <;> grind

/-- Exactly one of a<b, a==b, a>b. -/
theorem C20_trichotomy (a b : Pos) (same : Bool) (hs : same = true → a = b) :
    let lt := pyOp Gen.env same .lt (.pos a) (.pos b)
    let eq := pyOp Gen.env same .eq (.pos a) (.pos b)
    let gt := pyOp Gen.env same .gt (.pos a) (.pos b)
    (lt = .ok true ∧ eq = .ok false ∧ gt = .ok false) ∨
    (lt = .ok false ∧ eq = .ok true ∧ gt = .ok false) ∨
    (lt = .ok false ∧ eq = .ok false ∧ gt = .ok true) := by
  simp only [C20_ops_lex a b same hs, Out.ok.injEq]
  exact lex_trichotomy a b

/-- Range equality is structural. -/
theorem C20_range_eq (r s : Rng) (same : Bool) (hs : same = true → r = s) :
    pyOp Gen.env same .eq (.rng r) (.rng s) = .ok (decide (r = s)) ∧
    pyOp Gen.env same .ne (.rng r) (.rng s) = .ok (!decide (r = s)) := by
  obtain ⟨⟨a, b⟩, ⟨c, d⟩⟩ := r
  obtain ⟨⟨e, f⟩, ⟨g, h⟩⟩ := s
  constructor <;> c20_unfold <;> grind

/-- Location equality is structural. -/
theorem C20_location_eq (l m : Loc) (same : Bool) (hs : same = true → l = m) :
    pyOp Gen.env same .eq (.loc l) (.loc m) = .ok (decide (l = m)) ∧
    pyOp Gen.env same .ne (.loc l) (.loc m) = .ok (!decide (l = m)) := by
  obtain ⟨u, ⟨⟨a, b⟩, ⟨c, d⟩⟩⟩ := l
  obtain ⟨v, ⟨⟨e, f⟩, ⟨g, h⟩⟩⟩ := m
  constructor <;> c20_unfold <;> grind

/-- Against an unrelated object (and against an object of another of the three classes):
    `==` is False, `!=` is True, every ordering operator raises TypeError — in both operand orders. -/
theorem C20_unrelated (x y : Obj) (hx : x.related = true) (hk : x.sameKind y = false) (op : Op) :
    (op = .eq → pyOp Gen.env false op x y = .ok false ∧ pyOp Gen.env false op y x = .ok false) ∧
    (op = .ne → pyOp Gen.env false op x y = .ok true ∧ pyOp Gen.env false op y x = .ok true) ∧
    (op.isOrdering = true → pyOp Gen.env false op x y = .typeError ∧ pyOp Gen.env false op y x = .typeError) := by
  cases x <;> cases y <;> cases op <;> simp [Obj.related, Obj.sameKind, Op.isOrdering] at hx hk ⊢ <;> c20_unfold

/-- repr forms: line:character, start-end, uri:range. -/
theorem C20_repr (p : Pos) (r : Rng) (l : Loc) :
    Gen.Position.__repr__ p = pyIntStr p.line ++ ":" ++ pyIntStr p.character ∧
    Gen.Range.__repr__ r = (pyIntStr r.start.line ++ ":" ++ pyIntStr r.start.character) ++ "-" ++
                           (pyIntStr r.end.line ++ ":" ++ pyIntStr r.end.character) ∧
    Gen.Location.__repr__ l = l.uri ++ ":" ++ ((pyIntStr l.range.start.line ++ ":" ++ pyIntStr l.range.start.character) ++ "-" ++
                           (pyIntStr l.range.end.line ++ ":" ++ pyIntStr l.range.end.character)) := by
  simp [Gen.Position.__repr__, Gen.Range.__repr__, Gen.Location.__repr__, String.append_assoc]

/-- Non-vacuity: concrete objects meet the hypotheses and exercise both components. -/
example : pyOp Gen.env false .lt (.pos ⟨3, 7⟩) (.pos ⟨3, 9⟩) = .ok true ∧
          pyOp Gen.env false .ge (.pos ⟨4, 0⟩) (.pos ⟨3, 9⟩) = .ok true ∧
          pyOp Gen.env false .lt (.pos ⟨3, 7⟩) (.other 0) = .typeError := by decide

#print axioms C20_ops_lex
#print axioms C20_trichotomy
#print axioms C20_range_eq
#print axioms C20_location_eq
#print axioms C20_unrelated
#print axioms C20_repr
'''

MAIN = '''import LspVerif.Driver.Cmp
import Gen
def main : IO Unit := LspVerif.Driver.cmpMain Gen.env ⟨Gen.Position.__repr__, Gen.Range.__repr__, Gen.Location.__repr__⟩
'''

OPS = ["lt", "le", "gt", "ge", "eq", "ne"]
GRID = [0, 1, 2, 2**31 - 2, 2**31 - 1]


def gen_ops(ctx):
    rnd = random.Random(ctx.seed)
    ops = []
    pts = [(l, c) for l in GRID for c in GRID]
    P = lambda p: f"P,{p[0]},{p[1]}"
    for a in pts:
        for b in pts:
            for op in OPS:
                ops.append(f"cmp {op} 0 {P(a)} {P(b)}")
        for op in OPS:
            ops.append(f"cmp {op} 1 {P(a)} {P(a)}")
    n_rand = 20000 if ctx.thorough() else 1500
    for _ in range(n_rand):
        m = rnd.choice([3, 10, 2**31 - 1])
        a = (rnd.randint(0, m), rnd.randint(0, m))
        b = rnd.choice([a, (a[0], rnd.randint(0, m)), (rnd.randint(0, m), a[1]), (rnd.randint(0, m), rnd.randint(0, m))])
        ops.append(f"cmp {rnd.choice(OPS)} 0 {P(a)} {P(b)}")
    # ranges and locations from a small set of positions: all pairs
    small = [(0, 0), (0, 1), (1, 0), (2**31 - 1, 2**31 - 1)]
    rngs = [(s, e) for s in small for e in small]
    R = lambda r: f"R,{r[0][0]},{r[0][1]},{r[1][0]},{r[1][1]}"
    for r in rngs:
        for s in rngs:
            ops.append(f"cmp eq 0 {R(r)} {R(s)}")
            ops.append(f"cmp ne 0 {R(r)} {R(s)}")
        ops.append(f"cmp eq 1 {R(r)} {R(r)}")
    uris = ["file:///a", "file:///b", "", "é:ü"]
    locs = [(u, r) for u in uris for r in rngs[::3]]
    L = lambda l: f"L,{l[0]},{l[1][0][0]},{l[1][0][1]},{l[1][1][0]},{l[1][1][1]}"
    for l in locs:
        for m in locs:
            ops.append(f"cmp eq 0 {L(l)} {L(m)}")
            ops.append(f"cmp ne 0 {L(l)} {L(m)}")
    # unrelated and cross-kind, both orders, all ops
    reps = [P((1, 2)), R(rngs[5]), L(locs[3])]
    others = [f"O,{n}" for n in range(12)] + reps
    for x in reps:
        for y in others:
            if x.split(",")[0] == y.split(",")[0]:
                continue
            for op in OPS:
                ops.append(f"cmp {op} 0 {x} {y}")
                ops.append(f"cmp {op} 0 {y} {x}")
    # Range/Location ordering among themselves (TypeError; not part of the property, part of the model)
    for op in ["lt", "ge"]:
        ops.append(f"cmp {op} 0 {R(rngs[1])} {R(rngs[2])}")
        ops.append(f"cmp {op} 0 {L(locs[1])} {L(locs[2])}")
    for p in pts:
        ops.append(f"repr {P(p)}")
    for r in rngs:
        ops.append(f"repr {R(r)}")
    for l in locs:
        ops.append(f"repr {L(l)}")
    return ops


def oracle(op_line):
    """The property, stated directly. None = the property says nothing about this op."""
    w = op_line.split(" ")
    def dec(s):
        p = s.split(",")
        return (p[0], tuple(p[1:]) if p[0] in ("O",) else tuple(int(x) if i or p[0] != "L" else x for i, x in enumerate(p[1:])))
    if w[0] == "cmp":
        _, op, same, a, b = w
        ka, va = dec(a)
        kb, vb = dec(b)
        if same == "1":
            kb, vb = ka, va
        b2s = lambda v: "true" if v else "false"
        if ka == kb == "P":
            import operator
            return b2s(getattr(operator, op)(va, vb))
        if ka == kb and ka in ("R", "L"):
            if op == "eq":
                return b2s(va == vb)
            if op == "ne":
                return b2s(va != vb)
            return None
        if ka != kb and (ka in "PRL" or kb in "PRL"):
            if op == "eq":
                return "false"
            if op == "ne":
                return "true"
            return "TypeError"
        return None
    if w[0] == "repr":
        k, v = dec(w[1])
        if k == "P":
            return f"{v[0]}:{v[1]}"
        if k == "R":
            return f"{v[0]}:{v[1]}-{v[2]}:{v[3]}"
        if k == "L":
            return f"{v[0]}:{v[1]}:{v[2]}-{v[3]}:{v[4]}"
    return None


def run(ctx):
    ctx.rule = ("ops = comparison/repr requests on Position/Range/Location objects from the boundary grid "
                "{0,1,2,2^31-2,2^31-1}^2, seeded random pairs, unrelated objects; distinct = distinct op line; "
                "non-trivial = the real code answered true/false/TypeError or a repr (every op)")
    ctx.trusted += [
        "translator tools/extract/x_pos.py (Python AST of the dunder bodies -> Lean definitions)",
        "hand-written model of CPython's rich-comparison protocol and functools.total_ordering (Core/Cmp.lean), validated by the correspondence run",
    ]
    ctx.assumptions += [
        "attribute values are well-typed (ints, str, Position, Range) as the validators and annotations require",
        "identity of component objects is abstracted in nested == (sound because the three classes define __eq__)",
    ]
    ops = gen_ops(ctx)
    impl = common.run_py(common.VERIF / "tools/corr/cmp_impl.py", stdin="\n".join(ops) + "\n").stdout.split("\n")[:-1]
    if len(impl) != len(ops):
        raise Broken("cmp_impl answered a different number of lines")
    # 1. translate
    p = common.run_py(common.VERIF / "tools/extract/x_pos.py", check=False)
    proof_ok = True
    broken_what = []
    if p.returncode == 3:
        proof_ok = False
        broken_what.append("translator: " + p.stderr.strip())
        ctx.obligation("x_pos:translate", False, "translator", p.stderr)
    elif p.returncode != 0:
        # the module does not import / some other crash: search still runs on whatever answered
        proof_ok = False
        broken_what.append("translator crashed: " + p.stderr.strip()[-500:])
        ctx.obligation("x_pos:translate", False, "translator", p.stderr)
    else:
        gen = p.stdout
        common.write_module(ctx.work, "Gen", gen)
        defs = ["Gen." + d for d in re.findall(r"^def (\S+)", gen, re.M)]
        common.write_module(ctx.work, "Inst", INST.replace("@GENDEFS@", ", ".join(defs)))
        main = common.write_module(ctx.work, "Main", MAIN)
        res = common.lean_compile(ctx.work, [["Gen"], ["Inst"]])
        hits = common.audit_sources([ctx.work / "Gen.lean", ctx.work / "Inst.lean"] + list((common.LEAN_DIR / "LspVerif").rglob("*.lean")))
        if hits:
            raise Broken(f"forbidden constructs in Lean sources: {hits}")
        failed = ctx.add_lean_results(res, theorems_expected={"Inst": THEOREMS})
        if failed:
            proof_ok = False
            broken_what += [f"{r.name}: {r.out[-800:]}" for r in failed]
        if res["Gen"].ok:
            model = common.lean_run(ctx.work, main, "\n".join(ops) + "\n").split("\n")[:-1]
            dis = common.diff_streams(ctx, ops, model, impl)
            for op, m, i in dis[:5]:
                ctx.notes.append(f"correspondence disagreement: {op}: model={m} impl={i}")
            if dis:
                proof_ok = False
                broken_what.append(f"correspondence: {len(dis)} disagreements, first: {dis[0]}")
    # 2. direct oracle on the real answers (always; it is the search when something broke)
    kinds = {}
    for op, got in zip(ops, impl):
        exp = oracle(op)
        k = op.split(" ")[0] + ":" + "".join(x.split(",")[0] for x in op.split(" ")[-2:] if "," in x)
        kinds[k] = kinds.get(k, 0) + 1
        if exp is not None and exp != got:
            ctx.violation("C20|" + k, f"{op}: expected {exp}, real code gave {got}",
                          {"op": op, "expected": exp, "observed": got, "how": "./check C20 --replay <this file>"})
    ctx.dist = {"ops_by_kind": kinds}
    for o in ops[:: max(1, len(ops) // 6)]:
        ctx.sample(o)
    if not proof_ok and not ctx.violations:
        ctx.violation("C20|proof", "the C20 theorems / correspondence no longer check and no failing input was found",
                      {"broken": broken_what, "theorems": THEOREMS}, no_input=True)


def replay(path):
    d = json.load(open(path))
    if "op" not in d:
        print(json.dumps(d, indent=1))
        return 1
    got = common.run_py(common.VERIF / "tools/corr/cmp_impl.py", stdin=d["op"] + "\n").stdout.strip()
    print(f"op: {d['op']}\nexpected by the property: {d['expected']}\nreal code now gives: {got}")
    return 0 if got == d["expected"] else 1
