"""C15 — unknown properties are ignored (forward compatibility).

Theorem (all inputs, all classes): structuring an object as a class reads only the class's wire
names, so keys outside them never change success, value or error (`structCls_ignores_undeclared`,
`C15_class_nodes`), provided no generated function forbids extra keys — a kernel-checked table fact
read from the live generated functions.  Hook level: every key any hook / disambiguator probes is a
declared metamodel property name and no program takes `len` of a dict (kernel-checked on the
programs translated from _hooks.py), and a top-level key test depends only on that key
(`hasKey_self_congr`, `keyEq_self_congr`).  The composition over arbitrarily nested values is NOT
proved in Lean (stated in DESIGN.md as C15_partial); it is exercised by the correspondence stream
and the oracle, which inject fresh keys at every protocol-object node of valid values of every root
type and compare structure() / unstructure() of the real converter with and without them.
"""
import json

import convprop

INST = """import LspVerif.Props.ConvTables
import GenMeta
import GenEnv
open LspVerif

theorem C15_no_forbid : noForbidExtra Gen.env.pkg = true := by decide +kernel
theorem C15_probes_declared : probesDeclared (customize Gen.model) Gen.env = true := by decide +kernel

/-- C15 at every class node, for every object, every extra key that is not a wire name of the class. -/
theorem C15_nodes : ∀ c ∈ Gen.env.pkg.classes, ∀ (recur : PyTy → Json → Except Err PyVal) (kvs : List (Name × Json)) (k : Name) (v : Json),
      (∀ f ∈ c.fields, (k == f.wireS) = false) →
      structCls Gen.env recur c (.obj ((k, v) :: kvs)) = structCls Gen.env recur c (.obj kvs) :=
  C15_class_nodes Gen.env C15_no_forbid

/-- Non-vacuity / model evaluation in the kernel: an extra key on a real class of the package. -/
example : (structTy Gen.env 8 (.cls n!"Position") (.obj [(n!"xUnknown1", .arr [.int 1]), (n!"line", .int 1), (n!"character", .int 2)])).toOption.isSome = true ∧
          (structTy Gen.env 8 (.cls n!"Position") (.obj [(n!"line", .int 1)])).toOption.isSome = false := by decide +kernel

#print axioms C15_no_forbid
#print axioms C15_probes_declared
#print axioms C15_nodes
"""


def ops_fn(S):
    ops = []
    for name, mode, a, b in S.extras_stream():
        ops.append(f"structure {name} " + json.dumps(b, ensure_ascii=False, separators=(",", ":")))
        if mode in ("min", "max"):
            ops.append(f"structure {name} " + json.dumps(a, ensure_ascii=False, separators=(",", ":")))
    return ops


def run(ctx):
    ctx.rule = ("valid values of every root type (min, max, seeded random) with fresh undeclared keys (arbitrary JSON payloads) "
                "injected at every protocol-object node; correspondence = structure() of model vs real converter on them; oracle = "
                "structure()/unstructure() of the real converter with vs without the extras; distinct = distinct JSON text")
    convprop.run(ctx, "C15", ops_fn=ops_fn, inst_fn=lambda: [[("Inst", INST)]],
                 theorems=["C15_no_forbid", "C15_probes_declared", "C15_nodes"],
                 assumptions=["'unknown property' = a name no structure of the metamodel declares (fresh); payload positions (LSPAny/LSPObject/map nodes) are not protocol objects"])


def replay(path):
    return convprop.replay("C15", path)
