"""C15 — unknown properties are ignored (forward compatibility).

Theorem (all inputs, all classes): structuring an object as a class reads only the class's wire
names, so keys outside them never change success, value or error (`structCls_ignores_undeclared`,
`C15_class_nodes`), provided no generated function forbids extra keys — a kernel-checked table fact
read from the live generated functions.  Hook level: every key any hook / disambiguator probes is a
declared metamodel property name and no program takes `len` of a dict (kernel-checked on the
programs translated from _hooks.py), and a top-level key test depends only on that key
(`hasKey_self_congr`, `keyEq_self_congr`).  The composition over arbitrarily nested values is NOT
proved in Lean (stated in DESIGN.md as C15_partial); it is exercised by the correspondence stream
and the oracle, which inject fresh keys at every protocol-object node of valid values of every root
type and compare structure() / unstructure() of the real converter with and without them.
"""
import json
import re

import convprop

HDR = "import LspVerif.Props.ConvTables\nimport LspVerif.Props.C15\nimport LspVerif.Props.C04\nimport GenMeta\nimport GenEnv\nimport C15Names\nopen LspVerif\n"
NAMES = """import LspVerif.Props.ConvTables
import GenMeta
open LspVerif
/-- the names a reader of the protocol would call declared: every property name of the metamodel and the JSON-RPC envelope -/
def declaredNames : List Name := (customize Gen.model).propNames ++ [n!"jsonrpc", n!"id", n!"method", n!"params", n!"result", n!"error"]
"""
INST = """

theorem C15_no_forbid : noForbidExtra Gen.env.pkg = true := by decide +kernel
theorem C15_probes_declared : probesDeclared (customize Gen.model) Gen.env = true := by decide +kernel

/-- C15 at every class node, for every object, every extra key that is not a wire name of the class. -/
theorem C15_nodes : ∀ c ∈ Gen.env.pkg.classes, ∀ (recur : PyTy → Json → Except Err PyVal) (kvs : List (Name × Json)) (k : Name) (v : Json),
      (∀ f ∈ c.fields, (k == f.wireS) = false) →
      structCls Gen.env recur c (.obj ((k, v) :: kvs)) = structCls Gen.env recur c (.obj kvs) :=
  C15_class_nodes Gen.env C15_no_forbid

/-- Non-vacuity / model evaluation in the kernel: an extra key on a real class of the package. -/
example : (structTy Gen.env 8 (.cls n!"Position") (.obj [(n!"xUnknown1", .arr [.int 1]), (n!"line", .int 1), (n!"character", .int 2)])).toOption.isSome = true ∧
          (structTy Gen.env 8 (.cls n!"Position") (.obj [(n!"line", .int 1)])).toOption.isSome = false := by decide +kernel

theorem C15_program_keys : (Gen.env.hooks ++ Gen.env.disamb).all (fun h => h.2.keys.all (fun w => declaredNames.contains w)) = true := by decide +kernel
theorem C15_keys_declared : Gen.env.declaredKeys.all (fun w => declaredNames.contains w) = true :=
  declaredKeys_all Gen.env declaredNames C15_class_keys C15_program_keys

/-- **C15, whole package, all inputs.**  For every key that is no declared name, every type of the package, every JSON value
    (valid or not) in which that key sits at protocol-object nodes only (`clean`): erasing the key from every object of the value
    does not change what structuring gives - same value or same error, at any depth, through every hook and disambiguator. -/
theorem C15 : ∀ (k : Name), declaredNames.contains k = false → ∀ (n : Nat) (ty : PyTy) (j : Json),
    clean Gen.env k n ty j = true → structTy Gen.env n ty (eraseJ k j) = structTy Gen.env n ty j :=
  C15_env Gen.env declaredNames C15_no_forbid C15_keys_declared

/-- Non-vacuity on the real package: a nested value with an undeclared key at three protocol-object nodes meets the hypothesis,
    and the same key under an LSPAny-typed position does not. -/
example : clean Gen.env n!"xUnknown1" 12 (.cls n!"Location")
    (.obj [(n!"xUnknown1", .int 1), (n!"uri", .str n!"file:///a"), (n!"range", .obj [(n!"start", .obj [(n!"line", .int 1), (n!"character", .int 2), (n!"xUnknown1", .null)]),
      (n!"end", .obj [(n!"line", .int 1), (n!"character", .int 3)]), (n!"xUnknown1", .arr [])])]) = true ∧
    declaredNames.contains n!"xUnknown1" = false := by decide +kernel

#print axioms C15_keys_declared
#print axioms C15
#print axioms C15_no_forbid
#print axioms C15_probes_declared
#print axioms C15_nodes
"""


INJECTED = re.compile(r"^(xUnknown|_vendorExt|zz9|futureProperty)\d$")


def injected_keys(j, acc):
    if isinstance(j, dict):
        for k, v in j.items():
            if INJECTED.match(k):
                acc.add(k)
            injected_keys(v, acc)
    elif isinstance(j, list):
        for v in j:
            injected_keys(v, acc)
    return acc


def ops_fn(S):
    ops = []
    for name, mode, a, b in S.extras_stream():
        ops.append(f"structure {name} " + json.dumps(b, ensure_ascii=False, separators=(",", ":")))
        # hypothesis of the global theorem (model) / its conclusion on the real converter (implementation)
        ks = sorted(injected_keys(b, set()))
        if ks:
            ops.append(f"clean {name} {','.join(ks)} " + json.dumps(b, ensure_ascii=False, separators=(",", ":")))
        if mode in ("min", "max"):
            ops.append(f"structure {name} " + json.dumps(a, ensure_ascii=False, separators=(",", ":")))
    return ops


def run(ctx):
    ctx.rule = ("valid values of every root type (min, max, seeded random) with fresh undeclared keys (arbitrary JSON payloads) "
                "injected at every protocol-object node; correspondence = structure() of model vs real converter on them; oracle = "
                "structure()/unstructure() of the real converter with vs without the extras; distinct = distinct JSON text")
    def inst_fn():
        import re as _re
        import tableprop
        n_cls = len(_re.findall(r"^def c\d+ : Cls", (ctx.work / "GenPkg.lean").read_text(), _re.M))
        layer, lemma, imports = tableprop.sliced_all(HDR, "C15k", "Gen.env.pkg.classes", "fun c => c.fields.all (fun f => declaredNames.contains f.wireS)",
                                                     36, n_cls, "C15_class_keys")
        return [[("C15Names", NAMES)], layer, [("Inst", imports + HDR + lemma + INST)]]

    convprop.run(ctx, "C15", ops_fn=ops_fn, inst_fn=inst_fn,
                 theorems=["C15_no_forbid", "C15_probes_declared", "C15_nodes", "C15_keys_declared", "C15"],
                 assumptions=["'unknown property' = a name no structure of the metamodel declares (fresh); payload positions (LSPAny/LSPObject/map nodes) are not protocol objects"])


def replay(path):
    return convprop.replay("C15", path)
