"""C14 — every union in the protocol can be parsed in each of its alternatives.

Kernel-checked table fact on the regenerated environment: every union annotation that structuring
can reach through the generated class functions has parsing support — a registered hook, the
Optional rule, or a disambiguator cattrs could actually build (`allUnionsSupported`), with the
dispatch lemma `supported_union_dispatch`.  That the program run there picks an alternative the
value is valid for is NOT proved for all inputs in Lean (C14_partial, DESIGN.md); it is decided on
each alternative of each union occurrence x representative shapes (minimal, maximal, nested,
heterogeneous arrays, arrays mixing sub-alternatives) by the correspondence stream (model = real
converter) and by the oracle on the real converter.
"""
import json

import common
import convprop
import tableprop

HDR = "import LspVerif.Props.ConvTables\nimport LspVerif.Props.C04\nimport GenMeta\nimport GenEnv\nopen LspVerif\n"


def inst_fn(ncls):
    layer, lemma, imports = tableprop.sliced_all(HDR, "C14c", "Gen.env.pkg.classes", "fun c => (classUnsupported Gen.env c).isEmpty", 40, ncls, "C14_classes_chk")
    final = imports + HDR + lemma + """
/-- No union annotation reachable through the generated class functions is left without parsing support. -/
theorem C14_supported : allUnionsSupported Gen.env = true := C14_classes_chk

#print axioms C14_supported
"""
    return [layer, [("Inst", final)]]


def ops_fn(S):
    return [f"rt {name} " + json.dumps(j, ensure_ascii=False, separators=(",", ":")) for name, tag, j in S.valid_stream()
            if tag not in ("rand",) or S.thorough]


def run(ctx):
    import re
    ctx.rule = ("for every root type: each alternative of each union occurrence (outer and nested) in minimal and maximal shape, "
                "heterogeneous arrays, arrays mixing sub-alternatives of one element type; round trip through model and real converter; "
                "distinct = distinct (root, JSON)")
    problems = None
    def inst():
        txt = (ctx.work / "GenPkg.lean").read_text()
        ncls = len(re.findall(r"^def c\d+ : Cls", txt, re.M))
        return inst_fn(ncls)
    convprop.run(ctx, "C14", ops_fn=ops_fn, inst_fn=inst, theorems=["C14_supported"], total=True)


def replay(path):
    return convprop.replay("C14", path)
