"""C02 — objects built with the public constructors serialise to the exact spec JSON.

Proved in Lean for ALL inputs, instantiated per run: `C02_constructor_path` (Props/C01.lean): the
constructor-built object is a typed reading `v` of `j` (the class of the intended alternative at each union);
`unstructure(v)` succeeds with `j'`, `nrel T j j'` (keys are the declared wire names, shapes kept, unset
optional properties omitted, null-admitting and literal ones present); `v` is a typed reading of `j'` too, so
`j'` structures successfully (T1) into a typed reading whose serialisation `j''` satisfies `nrel T j' j''`.
Kernel obligations per run as for C01.  Partial: `j'' = j'` literally (not only up to `nrel`) and the tie of
`rep` to metamodel validity are decided by the correspondence stream and the constructor-path oracle.
"""
import json

import convprop

INST = """import LspVerif.Props.ConvTables
import GenMeta
import GenEnv
open LspVerif

theorem C02_probes_declared : probesDeclared (customize Gen.model) Gen.env = true := by decide +kernel
theorem C02_no_forbid : noForbidExtra Gen.env.pkg = true := by decide +kernel

/-- Model evaluation in the kernel (a test, labelled as a test): round trip of a concrete value. -/
def C02_sample : Json := .obj [(n!"start", .obj [(n!"line", .int 1), (n!"character", .int 2)]), (n!"end", .obj [(n!"line", .int 3), (n!"character", .int 4)])]
example : (do let v ← structTy Gen.env 30 (.cls n!"Range") C02_sample
              unstruct Gen.env 30 (some (.cls n!"Range")) v).toOption.map (Json.beq C02_sample) = some true := by decide +kernel

#print axioms C02_probes_declared
#print axioms C02_no_forbid
"""


def ops_fn(S):
    return [f"rt {name} " + json.dumps(j, ensure_ascii=False, separators=(",", ":")) for name, tag, j in S.valid_stream()]


def run(ctx):
    ctx.level = "proof"
    ctx.extra["explanation"] = ("Lean proof of the round-trip theorem for all values with a typed reading (T1, T2; kernel-checked table obligations per run) "
                                "+ model-vs-implementation correspondence + direct oracle on the real converter; see level_note")
    ctx.rule = ("metamodel-valid values of every root type (387 structures, 22 aliases, 164 message classes): minimal, maximal, "
                "seeded random (optional subsets, union alternatives, custom enum values, LSPAny payloads, boundary integers, non-ASCII), "
                "every alternative of every union occurrence incl. nested, heterogeneous and sub-alternative-mixing arrays; "
                "round trip through Lean model and real converter compared; oracle = type-directed comparison up to the null rule; "
                "distinct = distinct (root, JSON text); non-trivial = all (each reaches at least one class function)")
    convprop.run(ctx, "C02", ops_fn=ops_fn, inst_fn=lambda: [[("Inst", INST)]],
                 theorems=["C02_probes_declared", "C02_no_forbid"], total=True,
                 assumptions=["an explicit JSON null for an optional property whose type is not null-admitting reads as unset and is left out (forced by C10); JSON numbers compare numerically (1 == 1.0)"])


def replay(path):
    return convprop.replay("C02", path)
