"""C06 — the generator is correct on every schema-valid evolution of the metamodel.

What this check does is a decision PER EVOLVED MODEL over a corpus (one model per edit kind the
property lists, plus the awkward cases: messages without typeName, Python-keyword names, anonymous
literals as property / array element / union member, a structure extending a structure with a
mixin, removal of the optional `id` the provider hooks probe) and seeded edit sequences, each
re-validated against lsp.schema.json:
  * all four plugins must terminate successfully on it;
  * python: the emitted module must import next to the unchanged runtime files; the C04 and C09
    oracles and the C01 / C03 / C10 / C14 / C20 oracles run on the evolved package;
  * rust / dotnet: the emitted text is parsed (x_rust / x_dotnet) and the Lean conformance
    checkers of C07 / C08 are evaluated on the evolved tables (`lean` evaluation of the same
    definitions whose kernel evaluation C07 / C08 use for the committed model);
  * testdata: the C17 oracle over all vectors of the evolved model.
  * the whole theorem stack of C01-C03 / C14 (T1, T2, link theorem: every structure and message class of the
    evolved metamodel is covered by the emitted package, every hook / disambiguator passes the dispatch checker,
    hence every value valid under the EVOLVED metamodel round-trips) is instantiated by the kernel on the package
    emitted for the model with every edit kind applied (thorough: for each corpus model too).
This is a sample of programs, reported as such (evidence lists the edit sequences).  The statement
over ALL evolutions (an induction over edits on a Lean model of the four generators) is not
proved: the generators are not modelled in Lean (DESIGN.md, C06).
"""
import json
import os
import pathlib
import random
import shutil
import subprocess
from concurrent.futures import ThreadPoolExecutor

import common
import evolve
import tables
from common import Broken

KNOWN_ELSEWHERE = {
    "C01": ["or(SymbolInformation[],WorkspaceSymbol[],null)|valid:WorkspaceSymbol[]|got:-"],
    "C14": ["or(SymbolInformation[],WorkspaceSymbol[],null)|valid:WorkspaceSymbol[]|got:-"],
    "C17": ["response-vectors"],
    "C08": ["notification-classes"],
}

EVAL = """import LspVerif.Spec.Dotnet
import {meta}
import {rust}
import {dotnet}
open LspVerif LspVerif.Wire LspVerif.Dotnet
#eval do
  let M := {ns}.model
  for m in rustStructsOK M {ns}.rust M.structures ++ rustRestOK M {ns}.rust do
    IO.println s!"MISMATCH\\trust\\t{{m.site}}\\t{{m.aspect}}\\t{{m.expected}}\\t{{m.actual}}"
  for s in {ns}.rust.structs do
    for f in s.fields do
      if f.wireHint != f.wire s then IO.println s!"MISMATCH\\trust\\t{{s.name.toString}}.{{f.ident.toString}}\\twire-hint\\t{{(f.wire s).toString}}\\t{{f.wireHint.toString}}"
  for m in M.structures.flatMap (recordMismatches M {ns}.dotnet) ++ dotnetRest M {ns}.dotnet do
    IO.println s!"MISMATCH\\tdotnet\\t{{m.site}}\\t{{m.aspect}}\\t{{m.expected}}\\t{{m.actual}}"
"""


def py(script, args, timeout=1800):
    return common.run_py(common.VERIF / script, args, check=False, timeout=timeout)


def one_model(ctx, idx, tag, desc, doc, seed, schema):
    """returns list of failures: (stage, site, detail, input)"""
    fails = []
    d = common.scratch_dir(f"c06-{idx}")
    try:
        mf = d / "model.json"
        mf.write_text(json.dumps(doc))
        sv = py("tools/search/schema_ok.py", [str(mf)])
        if sv.stdout.strip() != "ok":
            return [("evolve", "schema-invalid-evolved-model", sv.stdout[:200] + sv.stderr[-200:], None, True)]
        ns = f"E{idx}"
        # ---- python
        p = subprocess.run([common.PY, "-B", "-m", "generator", "--model", str(mf), "--plugin", "python", "--output-dir", str(d / "py")],
                           cwd=str(common.REPO), capture_output=True, text=True, env=common.repo_env(seed))
        if p.returncode != 0:
            fails.append(("python", "plugin-fails", (p.stdout + p.stderr)[-400:], None))
        else:
            for f in ("__init__.py", "_hooks.py", "converters.py", "validators.py"):
                shutil.copy(common.REPO / "packages/python/lsprotocol" / f, d / "py/lsprotocol" / f)
            imp = subprocess.run([common.PY, "-B", "-c", "from lsprotocol import converters, types; converters.get_converter()"], capture_output=True, text=True,
                                 env=common.repo_env(seed, {"PYTHONPATH": f"{d / 'py'}:{common.REPO}"}))
            if imp.returncode != 0:
                fails.append(("python", "generated-module-does-not-import", imp.stderr[-400:], None))
            else:
                for prop, script, extra in (("C04", "tools/search/c04_oracle.py", []), ("C09", "tools/search/c09_oracle.py", []),
                                            ("C01", "tools/search/convcheck.py", ["C01", "--seed", str(seed)]),
                                            ("C03", "tools/search/convcheck.py", ["C03", "--seed", str(seed)]),
                                            ("C10", "tools/search/convcheck.py", ["C10", "--seed", str(seed)]),
                                            ("C14", "tools/search/convcheck.py", ["C14", "--seed", str(seed)])):
                    q = py(script, extra + ["--pkgdir", str(d / "py"), "--model", str(mf)])
                    if q.returncode != 0:
                        fails.append((prop, "oracle-crashed-on-evolved-package", q.stderr[-400:], None))
                        continue
                    out = json.loads(q.stdout)
                    mism = out["mismatches"] if isinstance(out, dict) else out
                    for m in mism:
                        if any(k in m["site"] for k in KNOWN_ELSEWHERE.get(prop, [])):
                            continue
                        fails.append((prop, f"{m['site']}|{m['aspect']}", f"expected {m['expected'][:150]}, observed {m['observed'][:150]}", m.get("input")))
                # C20 on the evolved package: the comparison / repr of Position, Range, Location, stated directly (the C20 oracle) on the
                # classes the current generator emits for this model
                import props.c20 as c20
                ops = c20.gen_ops(ctx)
                q = common.run_py(common.VERIF / "tools/corr/cmp_impl.py", stdin="\n".join(ops) + "\n", check=False,
                                  extra_env={"PYTHONPATH": f"{d / 'py'}:{common.REPO}"})
                got = q.stdout.split("\n")[:-1]
                if q.returncode != 0 or len(got) != len(ops):
                    fails.append(("C20", "comparison-harness-crashed-on-evolved-package", q.stderr[-400:], None))
                else:
                    bad20 = [(o, c20.oracle(o), g) for o, g in zip(ops, got) if c20.oracle(o) is not None and c20.oracle(o) != g]
                    for o, e, g in bad20[:3]:
                        fails.append(("C20", "Position/Range/Location|" + o.split(" ")[0], f"{o}: expected {e}, observed {g}", o))
        # ---- rust / dotnet text -> tables -> Lean checkers
        r = py("tools/extract/x_rust.py", ["--model", str(mf)])
        n = py("tools/extract/x_dotnet.py", ["--model", str(mf)])
        if r.returncode == 4:
            fails.append(("rust", "plugin-fails", r.stderr[-400:], None))
        elif r.returncode != 0:
            fails.append(("rust", "output-does-not-parse", r.stderr[-400:], None))
        if n.returncode == 4:
            fails.append(("dotnet", "plugin-fails", n.stderr[-400:], None))
        elif n.returncode != 0:
            fails.append(("dotnet", "output-does-not-parse", n.stderr[-400:], None))
        if r.returncode == 0 and n.returncode == 0:
            mm = py("tools/extract/x_meta.py", [str(mf)])
            if mm.returncode != 0:
                fails.append(("meta", "x_meta-fails", mm.stderr[-300:], None, True))
            else:
                w = ctx.work / ns
                w.mkdir(exist_ok=True)

                def ren(t):
                    return t.replace("namespace Gen", f"namespace {ns}").replace("end Gen", f"end {ns}")
                mods = {f"Meta{ns}": ren(mm.stdout), f"Rust{ns}": ren(r.stdout), f"Dotnet{ns}": ren(n.stdout)}
                for k, t in mods.items():
                    common.write_module(w, k, t)
                res = common.lean_compile(w, [list(mods)])
                bad = [x for x in res.values() if not x.ok]
                if bad:
                    fails.append(("lean", "evolved-tables-do-not-elaborate", bad[0].out[-400:], None, True))
                else:
                    f = common.write_module(w, "Eval", EVAL.format(meta=f"Meta{ns}", rust=f"Rust{ns}", dotnet=f"Dotnet{ns}", ns=ns))
                    q = subprocess.run(["lean", str(f)], capture_output=True, text=True, env=common.lean_env(w), cwd=str(w))
                    if q.returncode != 0:
                        fails.append(("lean", "checker-evaluation-failed", (q.stdout + q.stderr)[-400:], None, True))
                    for l in q.stdout.splitlines():
                        if l.startswith("MISMATCH\t"):
                            _, lang, site, aspect, exp, act = (l.split("\t") + [""] * 6)[:6]
                            fails.append(("C07" if lang == "rust" else "C08", f"{site}|{aspect}", f"expected {exp[:150]}, found {act[:150]}", None))
                shutil.rmtree(w, ignore_errors=True)
        # ---- testdata
        t = py("tools/search/c17_oracle.py", ["--model", str(mf)], timeout=3600)
        if t.returncode != 0:
            fails.append(("testdata", "plugin-fails-or-oracle-crashed", t.stderr[-400:], None))
        else:
            for m in json.loads(t.stdout)["mismatches"]:
                if any(k in m["site"] for k in KNOWN_ELSEWHERE["C17"]):
                    continue
                fails.append(("C17", f"{m['site']}|{m['aspect']}", f"expected {m['expected'][:150]}, observed {m['observed'][:150]}", m.get("input")))
    finally:
        shutil.rmtree(d, ignore_errors=True)
    return fails


def run(ctx):
    ctx.level = "exploration"
    ctx.rule = ("programs = evolved metamodels: one per edit kind of the property (corpus) + seeded edit sequences, each schema-validated; per model: 4 plugins "
                "terminate, emitted python module imports, C04/C09/C01/C03/C10/C14/C20 oracles on the evolved package, C07/C08 Lean checkers on the parsed rust / C# output, "
                "C17 oracle on all evolved vectors; distinct = distinct evolved model; non-trivial = all (each differs from the committed model)")
    ctx.assumptions += ["a sample of the unbounded family of evolutions, not the for-all claim: the four generators are not modelled in Lean"]
    doc = json.load(open(common.REPO / "generator/lsp.json"))
    schema = json.load(open(common.REPO / "generator/lsp.schema.json"))
    rnd = random.Random(ctx.seed)
    models = evolve.corpus(doc) + evolve.seeded(doc, rnd, 24 if ctx.thorough() else 2)
    machinery = []
    for tag, desc, d in models:
        bad = evolve.discipline_problems(d)
        if bad:  # the edit generator's mistake, never the repository's
            raise Broken(f"evolved model {tag} is outside the input discipline: {bad[:3]}")

    def job(i):
        tag, desc, d = models[i]
        return i, tag, desc, one_model(ctx, i, tag, desc, d, ctx.seed, schema)

    # The whole theorem stack of C01-C03 / C14 (T1, T2, link theorem, metamodel-level round trip: tools/convprop.py) instantiated on the
    # package the current generator emits for an evolved metamodel: kernel obligations over the evolved tables.  Quick tier: the model with
    # every edit kind applied; thorough tier: additionally each corpus model.  Runs beside the per-model oracles.
    import copy
    import threading
    import convprop
    rich = copy.deepcopy(doc)
    rich_desc = []
    for e in evolve.EDITS:
        try:
            rich_desc.append(e(rich, random.Random(ctx.seed)))
        except (StopIteration, IndexError):
            pass
    if evolve.discipline_problems(rich):
        raise Broken(f"the all-edits evolved model is outside the input discipline: {evolve.discipline_problems(rich)[:3]}")
    deep = ("extends_and_mixins", "literal_property", "keyword_properties", "new_properties", "request_without_typename", "reorder_properties")
    stack_models = [("all-edits", "; ".join(rich_desc)[:600], rich)] + ([(t, ds, d) for t, ds, d in models[:len(evolve.EDITS)] if t in deep] if ctx.thorough() else [])
    stack_results = []

    def run_stack():
        for k, (tag, desc, d) in enumerate(stack_models):
            tmp = common.scratch_dir(f"c06-stack-{k}")
            try:
                mf = tmp / "model.json"
                mf.write_text(json.dumps(d))
                p = subprocess.run([common.PY, "-B", "-m", "generator", "--model", str(mf), "--plugin", "python", "--output-dir", str(tmp / "py"), "--test-dir", str(tmp / "t")],
                                   cwd=str(common.REPO), capture_output=True, text=True, env=common.repo_env(ctx.seed))
                if p.returncode != 0:
                    stack_results.append((tag, desc, ["python plugin fails: " + (p.stdout + p.stderr)[-300:]], []))
                    continue
                for f in ("__init__.py", "_hooks.py", "converters.py", "validators.py"):
                    shutil.copy(common.REPO / "packages/python/lsprotocol" / f, tmp / "py/lsprotocol" / f)
                sctx = common.Ctx("C06", ctx.tier, ctx.seed)
                sctx.work = common.WORK / "C06stack"
                sctx.work.mkdir(exist_ok=True)
                try:
                    problems, loc = convprop.stack_on(sctx, "C06", tmp / "py", mf)
                except Broken as e:
                    problems, loc = [f"tables of the evolved package do not build: {e}"], []
                # C17 on the evolved metamodel beyond the oracle: the Lean model of the generation algorithm equals generate() on it, and the
                # label-soundness / has-a-True-vector theorems are instantiated for it (modelOK kernel-evaluated)
                try:
                    import props.c17 as c17
                    p17 = []
                    c17.generator_model(sctx, f"R{k}", mf, f"evolved metamodel [{tag}]", p17)
                    problems = list(problems) + p17
                    ctx.extra.setdefault("generator_model_correspondence", {}).update(sctx.extra.get("generator_model_correspondence", {}))
                except Broken as e:
                    problems = list(problems) + [f"testdata generator model on the evolved metamodel: {e}"]
                stack_results.append((tag, desc, problems, loc, sctx))
            finally:
                shutil.rmtree(tmp, ignore_errors=True)

    th = threading.Thread(target=run_stack)
    th.start()

    with ThreadPoolExecutor(max_workers=6) as ex:
        for i, tag, desc, fails in ex.map(job, range(len(models))):
            ctx.corr["evaluations"] += 1
            ctx.corr["distinct_nontrivial"] += 1
            ctx.sample({"evolved_model": tag, "edits": desc})
            for f in fails:
                stage, site, detail, inp = f[:4]
                if len(f) > 4:
                    machinery.append(f"{tag}: {stage} {site}: {detail}")
                    continue
                ctx.violation(f"C06|{tag}|{stage}|{site}", f"evolved model [{desc}]: {stage}: {site}: {detail}",
                              {"edits": desc, "edit_kind": tag, "stage": stage, "site": site, "detail": detail, "input": inp,
                               "how": "tools/evolve.py corpus entry '" + tag + "' applied to generator/lsp.json; python -m generator --model <evolved> --plugin <p>"})
    th.join()
    stack_broken = []
    for res in stack_results:
        tag, desc, problems, loc = res[:4]
        if len(res) > 4:
            for o in res[4].obligations:
                ctx.obligation(f"[{tag}] {o['name']}", o["ok"], o.get("kind", "theorem"), o.get("detail", ""))
            ctx.axioms.update({f"[{tag}] {k}": v for k, v in res[4].axioms.items()})
        else:
            ctx.obligation(f"theorem stack on evolved model [{tag}]", False, "theorem", problems[0][-600:])
        ctx.corr["evaluations"] += 1
        ctx.corr["distinct_nontrivial"] += 1
        if problems:
            stack_broken.append({"evolved_model": tag, "edits": desc, "rejected": loc[:12], "first_failed_module": problems[0][-800:]})
    if stack_broken and not ctx.violations:
        ctx.violation("C06|stack", "the round-trip theorem stack (T1, T2, link theorem) no longer instantiates on the package generated for an evolved metamodel and the "
                      "oracles found no failing input: " + json.dumps(stack_broken[0]["rejected"])[:400],
                      {"broken": stack_broken, "how": "tools/evolve.py edits applied to generator/lsp.json; python -m generator --plugin python; tools/convprop.py stack_on"}, no_input=True)
    ctx.dist = {"evolved_models": [(t, d[:80]) for t, d, _ in models], "theorem_stack_on": [t for t, _, _ in stack_models]}
    ctx.samples = ctx.samples[:8]
    if machinery:
        raise Broken("machinery failures: " + "; ".join(machinery)[:1500])


def replay(path):
    d = json.load(open(path))
    print(json.dumps(d, indent=1)[:3000])
    return 1
