"""C19 — converters are independent of creation order, count, configuration and threads.

Schedules (Lean, Props/C19.lean): the once-only section of `_resolve_forward_references` is
translated to a shape (fast path / lock / re-check under the lock / materialised snapshot) on every
run; for the safe shape the invariant theorem `C19_schedules` holds for EVERY number of threads,
EVERY registry size and EVERY schedule: no thread raises, a finished thread has seen the flag set.
For the unlocked shape of the pinned tree the negation is proved at a concrete 3-switch schedule
(`unlocked_races`) — that defect was repaired (fix: dea48c9).  Yield points are Python line
boundaries inside the section and each dict-iteration step; C-level atomicity of single dict
operations is assumed.
Histories / configurations: decided on the real code by the oracle (all histories of length <= 2
over {fresh, user-supplied, detailed_validation off, same user converter registered twice}, seeded
longer ones, 25-100 fresh converters in a row; every converter answers a fixed battery like a
single fresh one after every later creation).  The schedule theorem is tied to the code by
replaying model schedules on the real code: 2-thread preemption at line granularity via
sys.settrace gating, one fresh process per schedule, plus barrier-released stress runs.
"""
import json

import common
from common import Broken

THEOREMS = ["C19_safe_shape", "C19_schedules_current", "C19_pinned_tree_raced", "C19_module_state", "C19_histories"]

INST = """import LspVerif.Props.C19
import GenConc
import GenHist
open LspVerif.Conc

theorem C19_safe_shape : Gen.shape.safe = true := by decide

/-- every number of threads, every registry size, every schedule -/
theorem C19_schedules_current (K : Nat) (sched : List Nat) :
    (∀ t, ((run Gen.shape K init sched).th t).raised = false) ∧
    (∀ t, ((run Gen.shape K init sched).th t).pc = .done →
      (run Gen.shape K init sched).flag = true ∧ (run Gen.shape K init sched).allResolved = true) :=
  C19_schedules Gen.shape C19_safe_shape K sched

/-- the unsynchronised section of the pinned tree raced (kept as the negation witness) -/
theorem C19_pinned_tree_raced : ((run unlockedShape 1 init [0, 0, 1, 1, 1, 1, 1, 0]).th 0).raised = true := unlocked_races

/-- the two modules keep no state besides the resolved-once flag, and every hook closure captures only the converter it is
    registered on and local helper functions (scan regenerated from converters.py / _hooks.py) -/
theorem C19_module_state : Gen.hist.ok = true := by decide +kernel

/-- hence (model of a creation justified by `C19_module_state`): any history of earlier creations, any configurations -/
theorem C19_histories {Cfg Conv : Type} (regs : Cfg → Conv) (hist : List Cfg) (cfg : Cfg) :
    (LspVerif.Hist.create regs cfg (LspVerif.Hist.after regs hist {})).1 = (LspVerif.Hist.create regs cfg {}).1 :=
  LspVerif.Hist.history_independent regs hist cfg {}

#print axioms C19_module_state
#print axioms C19_histories
#print axioms C19_safe_shape
#print axioms C19_schedules_current
#print axioms C19_pinned_tree_raced
"""


def run(ctx):
    ctx.rule = ("schedules: preemption of thread A after line event k of the once-only section for k in {1..15, quartiles, end, seeded}, "
                "B runs to completion or block, A resumes; stress: 8 threads released by a barrier; histories: all of length<=2 over 4 "
                "creation kinds + seeded longer + many fresh; each in a fresh process; distinct = distinct schedule / history")
    ctx.trusted += ["translator x_conc.py (AST pattern of a 15-line function -> Shape)",
                    "thread model: yield points = Python line boundaries in the traced frames and dict-iteration steps; single dict operations atomic (GIL)"]
    ctx.trusted += ["scanner x_hist.py (module-level bindings, globals, caches, non-local writes, closure captures of converters.py / _hooks.py)"]
    ctx.assumptions += ["histories: the Lean statement is about a creation modelled as a function of its argument and the resolved-once flag; that model is justified by the kernel-checked scan "
                        "(no other module state, closures capture only the converter) - state kept inside cattrs itself is not scanned; the history oracle runs the real code"]
    problems = []
    p = common.run_py(common.VERIF / "tools/extract/x_conc.py", check=False)
    if p.returncode != 0:
        problems.append("x_conc: " + p.stderr.strip()[-600:])
        ctx.obligation("x_conc", False, "translator", p.stderr)
    h = common.run_py(common.VERIF / "tools/extract/x_hist.py", check=False)
    if h.returncode != 0:
        problems.append("x_hist: " + h.stderr.strip()[-600:])
        ctx.obligation("x_hist", False, "translator", h.stderr)
    if p.returncode == 0 and h.returncode == 0:
        common.write_module(ctx.work, "GenConc", p.stdout)
        common.write_module(ctx.work, "GenHist", h.stdout)
        common.write_module(ctx.work, "Inst", INST)
        res = common.lean_compile(ctx.work, [["GenConc", "GenHist"], ["Inst"]])
        failed = ctx.add_lean_results(res, theorems_expected={"Inst": THEOREMS})
        for r in failed:
            problems.append(f"{r.name}: {r.out[-800:]}")
        ctx.notes.append("shape: " + [l for l in p.stdout.splitlines() if l.startswith("def shape")][0])
    args = ["--seed", str(ctx.seed)] + (["--thorough"] if ctx.thorough() else [])
    o = common.run_py(common.VERIF / "tools/search/c19_oracle.py", args, check=False, timeout=3600)
    if o.returncode != 0:
        problems.append("oracle crashed: " + o.stderr[-800:])
    else:
        out = json.loads(o.stdout)
        ctx.corr["evaluations"] += out["evaluations"]
        ctx.corr["distinct_nontrivial"] += out["distinct"]
        ctx.extra["traces_validated_against_impl"] = out["evaluations"]
        for s in out["samples"]:
            ctx.sample(s)
        for m in out["mismatches"]:
            ctx.violation(f"C19|{m['site']}|{m['aspect']}", f"{m['site']} {m['aspect']}: {m['observed'][:240]}",
                          {"input": m.get("input"), "expected": m["expected"], "observed": m["observed"],
                           "how": "PYTHONPATH=/repo/packages/python python tools/corr/conc_impl.py preempt <k>  |  ./check C19 --replay <this file>"})
    if problems and not ctx.violations:
        ctx.violation("C19|proof", "C19 schedule theorem no longer applies to the section's shape and no failing schedule / history was found",
                      {"broken": problems, "theorems": THEOREMS}, no_input=True)


def replay(path):
    d = json.load(open(path))
    print(json.dumps(d, indent=1)[:2500])
    inp = d.get("input") or {}
    if isinstance(inp, dict) and "k" in inp:
        q = common.run_py(common.VERIF / "tools/corr/conc_impl.py", ["preempt", str(inp["k"])], check=False)
        print("real code now:", q.stdout.strip())
        r = json.loads(q.stdout)
        return 0 if (r["a"] == "ok" and r["b"] == "ok" and r["same"]) else 1
    return 1
