"""C18 — model loading is lossless, merge is concatenation, invalid models write nothing.

Lean (Props/C18.lean): for every loader table whose __eq__ methods read existing attributes only,
`==` between well-formed loaded values never raises (`eqVal_total`) and a value equals itself
(`eqVal_refl`; two loads of a document are the same value, ids not being content); the gate as a
trace property over the event order extracted from __main__ (`gate_blocks`).  Kernel obligations on
tables regenerated from model.py / __main__.py / lsp.schema.json: every __eq__ reads existing
attributes, every structural field is compared, merge extends exactly the five declaration lists
in order, validate-every-file precedes create precedes generate, and every schema construct has a
loader counterpart (the gaps must lie within the recorded known findings).  Losslessness itself
(load then read back = document) is decided by the oracle on the committed document, on
schema-valid feature documents and on seeded schema-valid edits; the gate by running the real CLI
on schema-violating models x 4 plugins.
"""
import json

import common
from common import Broken

THEOREMS = ["C18_reads_exist", "C18_eq_covers", "C18_merge", "C18_gate", "C18_schema_gaps_known", "C18_eq_total", "C18_eq_refl", "C18_gate_blocks",
            "C18_eq_distinguishes"]

KNOWN_GAPS = {
    "C18|load|kind:integerLiteral|schema-valid-document-fails-to-load": ("kind", "integerLiteral"),
    "C18|load|kind:booleanLiteral|schema-valid-document-fails-to-load": ("kind", "booleanLiteral"),
    "C18|load|literal-annotations|schema-valid-document-fails-to-load": None,
}


def run(ctx):
    ctx.rule = ("oracle: committed lsp.json + schema-valid feature documents + seeded schema-valid edits (lossless read-back, "
                "two-load equality, structural edits compare unequal, merge of 2-3 files), CLI on schema-violating models x 4 plugins; "
                "obligations: kernel-evaluated table facts about model.py / __main__.py / schema")
    ctx.trusted += ["translator x_loader.py (introspection of generator.model, ast of __eq__ / convert_to_lsp_type / create_lsp_model / main)",
                    "model of `==` between loaded models (Core/Loader.lean: class check, short-circuit conjunction over the attributes read, list equality)",
                    "jsonschema.validate as the meaning of 'schema-valid'"]
    p = common.run_py(common.VERIF / "tools/extract/x_loader.py", check=False)
    problems = []
    if p.returncode != 0:
        problems.append("x_loader: " + p.stderr[-800:])
        ctx.obligation("x_loader", False, "translator", p.stderr)
    else:
        common.write_module(ctx.work, "GenLoader", p.stdout)
        known = [k for k in ctx.known if k.get("property") == "C18" and k.get("status") == "open"]
        gaps = []
        for k in known:
            gaps += [tuple(g) for g in k.get("schema_gaps", [])]
        glist = "[" + ", ".join(f"({common.lean_name(a)}, {common.lean_name(b)})" for a, b in gaps) + "]"
        inst = f"""import LspVerif.Props.C18
import GenLoader
open LspVerif LspVerif.Loader

theorem C18_reads_exist : readsExist Gen.spec = true := by decide +kernel
theorem C18_eq_covers : eqCovers Gen.spec = true := by decide +kernel
theorem C18_merge : mergeOK Gen.spec = true := by decide +kernel
theorem C18_gate : gateOK Gen.spec = true := by decide +kernel
/-- every schema construct has a loader counterpart, except the recorded known findings -/
theorem C18_schema_gaps_known : gapsWithin (schemaGaps Gen.spec Gen.schemaDefs Gen.schemaKinds) {glist} = true := by decide +kernel

/-- comparing loaded models never raises; two loads of one document compare equal -/
theorem C18_eq_total : ∀ (n : Nat) (v w : Val), wfVal Gen.spec n v = true → wfVal Gen.spec n w = true → eqVal Gen.spec n v w ≠ .raise :=
  eqVal_total Gen.spec C18_reads_exist
theorem C18_eq_refl : ∀ (n : Nat) (v : Val), wfVal Gen.spec n v = true → eqVal Gen.spec n v v = .t :=
  eqVal_refl Gen.spec C18_reads_exist
/-- an invalid model file stops the command before any plugin runs -/
theorem C18_gate_blocks : runMain false Gen.spec.mainOrder = (false, false) := gate_blocks Gen.spec C18_gate

/-- non-vacuity: a well-formed value of a real node class -/
example : wfVal Gen.spec 4 (.node n!"BaseType" [(n!"kind", .atom (.str n!"base")), (n!"name", .atom (.str n!"string"))]) = true := by decide +kernel

#eval (schemaGaps Gen.spec Gen.schemaDefs Gen.schemaKinds).map (fun g => (g.1.toString, g.2.toString))

/-- loads of structurally different documents compare unequal: if `==` answers True the two models have the same structure
    (`strip`: every attribute an `__eq__` reads, at every depth; by `C18_eq_covers` only annotation fields are not read) -/
theorem C18_eq_distinguishes (n : Nat) (a b : Val) (h : eqVal Gen.spec n a b = .t) : strip Gen.spec n a = strip Gen.spec n b :=
  eqVal_strip Gen.spec n a b h
""" + "".join(f"#print axioms {t}\n" for t in THEOREMS)
        common.write_module(ctx.work, "Inst", inst)
        res = common.lean_compile(ctx.work, [["GenLoader"], ["Inst"]])
        hits = common.audit_sources([ctx.work / "Inst.lean", ctx.work / "GenLoader.lean"])
        if hits:
            raise Broken(f"forbidden constructs: {hits}")
        failed = ctx.add_lean_results(res, theorems_expected={"Inst": THEOREMS})
        for r in failed:
            problems.append(f"{r.name}: {r.out[-1500:]}")
        if res["Inst"].ok:
            for line in res["Inst"].out.splitlines():
                if line.startswith("[("):
                    ctx.notes.append("schema constructs without a loader counterpart: " + line[:400])
    args = ["--seed", str(ctx.seed)] + (["--thorough"] if ctx.thorough() else [])
    o = common.run_py(common.VERIF / "tools/search/c18_oracle.py", args, check=False, timeout=3600)
    if o.returncode != 0:
        problems.append("oracle crashed: " + o.stderr[-800:])
    else:
        out = json.loads(o.stdout)
        ctx.corr["evaluations"] += out["evaluations"]
        ctx.corr["distinct_nontrivial"] += out["distinct"]
        for s in out["samples"]:
            ctx.sample(s)
        for m in out["mismatches"]:
            ctx.violation(f"C18|{m['site']}|{m['aspect']}", f"{m['site']} {m['aspect']}: expected {m['expected'][:120]}, observed {m['observed'][:200]}",
                          {"input": m.get("input"), "aspect": m["aspect"], "expected": m["expected"], "observed": m["observed"],
                           "how": "./check C18 --replay <this file>"})
    if problems and not ctx.violations:
        ctx.violation("C18|proof", "C18 obligations no longer check and the oracle found no failing document",
                      {"broken": problems, "theorems": THEOREMS}, no_input=True)


def replay(path):
    d = json.load(open(path))
    print(json.dumps(d, indent=1)[:3000])
    o = common.run_py(common.VERIF / "tools/search/c18_oracle.py", [], check=False)
    out = json.loads(o.stdout)
    hit = [m for m in out["mismatches"] if f"C18|{m['site']}|{m['aspect']}" == d.get("site")]
    print("still failing:" if hit else "no longer failing", hit[:1])
    return 1 if hit else 0
