"""C10 — null-versus-omitted rule for every property of every class.

Generic theorems (Props/Conv.lean, Props/C10.lean), for every class table and every attribute
value: the keys the generated unstructure function writes are exactly the wire names of the
attributes whose value differs from an omit-if-default default (`unstructFields_keys`,
`Field.written_iff`); with the table facts that becomes the property's iff
(`written_iff_property`); an absent key reads as the attribute's default (`fieldVal_absent`).
Instance obligations (kernel): for every flattened property of every structure and every envelope
field of every message class, the *effective* omit_if_default / default / wire name read from the
functions cattrs generated equal the specification's.  Correspondence + oracle: every attribute of
every class toggled unset/set on the real converter.
"""
import json

import common
import convprop
import tableprop

HDR = "import LspVerif.Props.C10\nimport GenMeta\nimport GenPkg\nopen LspVerif\n"


def inst_fn(doc):
    M, P = "(customize Gen.model)", "Gen.pkg"
    ls, lem_s, imp_s = tableprop.sliced_all(HDR, "C10s", f"{M}.structures", f"structOmitOK {M} {P}", 25, len(doc["structures"]), "C10_structs_chk")
    lr, lem_r, imp_r = tableprop.sliced_all(HDR, "C10r", f"{M}.requests", f"requestOmitOK {M} {P}", 12, len(doc["requests"]), "C10_requests_chk")
    ln, lem_n, imp_n = tableprop.sliced_all(HDR, "C10n", f"{M}.notifications", f"notificationOmitOK {M} {P}", 12, len(doc["notifications"]), "C10_notifications_chk")
    final = imp_s + imp_r + imp_n + HDR + lem_s + lem_r + lem_n + f"""
/-- C10 for structures: each flattened property has exactly one attribute; its key is written under
    the metamodel name; it is left out iff the value is None, the property is optional, its type
    does not admit null and it is not a string literal — for every attribute value; and an absent
    null-admitting (resp. literal) property reads as None (resp. its literal). -/
theorem C10_structures : ∀ s ∈ {M}.structures, ∃ c, {P}.findCls s.name = some c ∧
    ∀ p ∈ flatten {M} s, ∃ f, c.fields.filter (·.wireS == p.name) = [f] ∧ f.wireU = p.name ∧
      (∀ v : PyVal, f.written v = false ↔
        (p.optional = true ∧ p.ty.nullAdmitting = false ∧ p.ty.isStrLit = false ∧ PyVal.beq v .none = true)) ∧
      (∀ (recur : PyTy → Json → Except Err PyVal) (cls : Name) (kvs : List (Name × Json)),
        Json.lookup kvs f.wireS = Option.none →
          (p.ty.nullAdmitting = true → p.ty.isStrLit = false → fieldVal recur cls kvs f = .ok .none) ∧
          (∀ l, p.ty = .strLit l → fieldVal recur cls kvs f = .ok (.str l))) := by
  intro s hs
  obtain ⟨c, hc, hall⟩ := classOmitOK_sound (List.all_eq_true.mp C10_structs_chk s hs)
  refine ⟨c, hc, ?_⟩
  intro p hp
  obtain ⟨f, hf, ho, hd, hw⟩ := hall (expectedField {M} p) (List.mem_map.mpr ⟨p, hp, rfl⟩)
  refine ⟨f, by simpa [expectedField] using hf, by simpa [expectedField] using hw, ?_, ?_⟩
  · intro v
    exact written_iff_property {M} p f v ho hd
  · intro recur cls kvs hl
    constructor
    · intro hna hnl
      apply fieldVal_absent recur cls kvs f .none hl
      rw [hd]
      simp only [expectedField, Prp.opt, hna, Bool.or_true]
      rw [expectedDflt_nonlit _ _ hnl]
      simp [Dflt.toVal]
    · intro l hl'
      apply fieldVal_absent recur cls kvs f (.str l) hl
      rw [hd]
      simp [expectedField, hl', expectedDflt, Dflt.toVal]

/-- C10 for the JSON-RPC envelopes: method, jsonrpc and a response's result are never omitted
    (their unstructure override is omit_if_default = False), the other envelope fields follow the
    specification of Spec/Messages.lean. -/
theorem C10_envelopes :
    (∀ r ∈ {M}.requests, requestOmitOK {M} {P} r = true) ∧
    (∀ n ∈ {M}.notifications, notificationOmitOK {M} {P} n = true) :=
  ⟨fun r hr => List.all_eq_true.mp C10_requests_chk r hr, fun n hn => List.all_eq_true.mp C10_notifications_chk n hn⟩

theorem C10_always_written (f : Field) (v : PyVal) (h : f.omitU = false) : f.written v = true := by
  unfold Field.written
  cases f.dflt.toVal <;> simp [h]

/-- Non-vacuity: a concrete attribute meeting the hypotheses in both directions. -/
example : (⟨n!"a", n!"a", n!"a", true, true, .none, .none, .none, true⟩ : Field).written .none = false ∧
          (⟨n!"a", n!"a", n!"a", true, false, .none, .none, .none, true⟩ : Field).written .none = true := by decide +kernel

#print axioms C10_structures
#print axioms C10_envelopes
#print axioms C10_always_written
"""
    return [ls + lr + ln, [("Inst", final)]]


def ops_fn(S):
    # the correspondence stream: round trips of minimal / maximal values of every root (keys written
    # by the real unstructure functions vs the model's)
    ops = []
    for name, tag, j in S.valid_stream():
        if tag in ("min", "max"):
            ops.append(f"rt {name} " + json.dumps(j, ensure_ascii=False, separators=(",", ":")))
    return ops


def run(ctx):
    doc = json.load(open(common.REPO / "generator/lsp.json"))
    ctx.rule = ("obligations: kernel evaluation of the omit/default/wire-name table check per slice of structures, requests, "
                "notifications (every attribute incl. envelopes); correspondence: min/max round trips of every root type; "
                "oracle evaluations: (class, attribute, surrounding) toggles of unset/set on the real converter; distinct = distinct toggle")
    convprop.run(ctx, "C10", ops_fn=ops_fn, inst_fn=lambda: inst_fn(doc),
                 theorems=["C10_structures", "C10_envelopes", "C10_always_written"],
                 assumptions=["instances are well-typed; an attribute whose annotation does not admit None is not toggled to None (serialising such an object raises in the real code: nothing is written)"])


def replay(path):
    return convprop.replay("C10", path)
