"""C17 — every generated test vector is labelled with its true metamodel validity.

For the committed metamodel the quantifier is finite (73,988 vectors): the check enumerates ALL of
them (the plugin's generate() in process) and decides, per vector, name shape, content hash,
label == strict validity, at least one True vector per message class, every True vector accepted by
the Python converter.  Strict validity is defined twice, independently: in Lean
(Spec/StrictValid.lean, with the compositionality lemmas the generator's "label = conjunction of the
members' labels" rests on) and in Python (tools/mmvalid.py); the Lean definition is run through a
driver on every vector and must agree with the Python one (cross-validation), and the labels are
compared with it.
The generation algorithm itself is modelled in Lean (Spec/TestGen.lean) and tied to the code on every run: the model's driver
prints every vector of every message class, and the file table built from that stream must equal — names, contents, order — what
generate() of the current tree returns, for the committed metamodel and for a composite evolved one.  Over that model
`gen_sound` (Props/C17Gen*.lean) proves, for EVERY metamodel passing the decidable check `modelOK`, that a True label implies
strict validity; it is instantiated per run for both metamodels (`C17_request_labels_sound`, ...).  The converse (False label =>
invalid) is false in general and is decided per metamodel by the enumeration.
Known finding F1: every response vector carries an `error` object next to `result`.
"""
import json

import common
import tables
from common import Broken

MAIN = """import LspVerif.Driver.Valid2
import GenMeta
def main : IO Unit := LspVerif.Driver.strictMain Gen.model
"""

INST = """import LspVerif.Spec.StrictValid
import GenMeta
open LspVerif
/-- model evaluation in the kernel (tests): strict validity of concrete messages of the committed metamodel -/
example : (match Gen.model.requests.find? (·.method == n!"shutdown") with
  | some r => validRequest Gen.model r (.obj [(n!"jsonrpc", .str n!"2.0"), (n!"id", .int 1), (n!"method", .str n!"shutdown")]) &&
              !validRequest Gen.model r (.obj [(n!"jsonrpc", .str n!"2.0"), (n!"id", .int 2147483648), (n!"method", .str n!"shutdown")]) &&
              !validRequest Gen.model r (.obj [(n!"jsonrpc", .str n!"2.0"), (n!"id", .int 1), (n!"method", .str n!"shutdown"), (n!"params", .null)])
  | none => false) = true := by decide +kernel
theorem C17_validity_composes_arrays (n : Nat) (e : Ty) (xs : List Json) :
    validTy Gen.model (n + 1) (.array e) (.arr xs) = xs.all (validTy Gen.model n e) := validTy_array Gen.model n e xs
theorem C17_validity_of_unions (n : Nat) (ts : List Ty) (j : Json) :
    validTy Gen.model (n + 1) (.or ts) j = ts.any (fun a => validTy Gen.model n a j) := validTy_or Gen.model n ts j
#print axioms C17_validity_composes_arrays
#print axioms C17_validity_of_unions
"""

GEN_MAIN = """import LspVerif.Driver.TestGen
import GenMeta{sfx}
def main : IO Unit := LspVerif.Driver.testGenMain Gen{sfx}.model
"""

GEN_INST = """import LspVerif.Props.C17Gen4
import GenMeta{sfx}
open LspVerif LspVerif.TestGen

/-- the metamodel of this run, with the ResponseError structure appended as generate() does -/
def C17M{sfx} : Model := withResponseError Gen{sfx}.model

theorem C17{sfx}_modelOK : modelOK C17M{sfx} = true := by decide +kernel

def messageTypesOK{sfx} (M : Model) : Bool :=
  M.requests.all (fun r => (match r.params with | some t => tyOK t | none => true) && tyOK r.result) &&
  M.notifications.all (fun r => match r.params with | some t => tyOK t | none => true)

theorem C17{sfx}_message_types_ok : messageTypesOK{sfx} C17M{sfx} = true := by decide +kernel

/-- every True-labelled request vector the generation algorithm yields for this metamodel is a valid request message -/
theorem C17{sfx}_request_labels_sound : ∀ r ∈ C17M{sfx}.requests, ∀ out, genRequest C17M{sfx} r = some out →
    ∀ m ∈ out, m.1 = true → validRequest C17M{sfx} r m.2 = true := by
  intro r hr out h
  have := List.all_eq_true.mp (by have := C17{sfx}_message_types_ok; simp only [messageTypesOK{sfx}, Bool.and_eq_true] at this; exact this.1) r hr
  simp only [Bool.and_eq_true] at this
  exact request_sound C17M{sfx} C17{sfx}_modelOK r (fun t ht => by rw [ht] at this; exact this.1) out h

theorem C17{sfx}_notification_labels_sound : ∀ r ∈ C17M{sfx}.notifications, ∀ out, genNotification C17M{sfx} r = some out →
    ∀ m ∈ out, m.1 = true → validNotification C17M{sfx} r m.2 = true := by
  intro r hr out h
  have := List.all_eq_true.mp (by have := C17{sfx}_message_types_ok; simp only [messageTypesOK{sfx}, Bool.and_eq_true] at this; exact this.2) r hr
  exact notification_sound C17M{sfx} C17{sfx}_modelOK r (fun t ht => by rw [ht] at this; exact this) out h

/-- the `result` member of the response vectors (they also carry an `error` member: recorded finding F1) -/
theorem C17{sfx}_result_labels_sound : ∀ r ∈ C17M{sfx}.requests, ∀ g, genTy C17M{sfx} genFuel [] r.result = some g →
    ∀ x ∈ g, ∃ p, x.2 = GV.val p ∧ (x.1 = true → validTy C17M{sfx} (genFuel + 1) r.result p = true) := by
  intro r hr g h
  have := List.all_eq_true.mp (by have := C17{sfx}_message_types_ok; simp only [messageTypesOK{sfx}, Bool.and_eq_true] at this; exact this.1) r hr
  simp only [Bool.and_eq_true] at this
  exact response_result_sound C17M{sfx} C17{sfx}_modelOK r this.2 g h

/-- response vectors: envelope + `result` is a valid response message, the `error` member next to it (finding F1) a valid ResponseError -/
theorem C17{sfx}_response_labels_sound_partial : ∀ r ∈ C17M{sfx}.requests, ∀ out, genResponse C17M{sfx} r = some out → ∀ m ∈ out, m.1 = true →
    ∃ base x e, m.2 = Json.obj (base ++ [(n!"result", x), (n!"error", e)]) ∧ validResponse C17M{sfx} r (.obj (base ++ [(n!"result", x)])) = true ∧
      validTy C17M{sfx} 59 (.ref n!"ResponseError") e = true := by
  intro r hr out h
  have := List.all_eq_true.mp (by have := C17{sfx}_message_types_ok; simp only [messageTypesOK{sfx}, Bool.and_eq_true] at this; exact this.1) r hr
  simp only [Bool.and_eq_true] at this
  exact response_sound_partial C17M{sfx} C17{sfx}_modelOK r this.2 out h

/-- every message class for which the generation succeeds (it does for this metamodel: the driver run of the same definitions prints no
    CRASH, and its output equals generate()'s) receives a True vector, which is a valid message -/
theorem C17{sfx}_every_class_has_true_vector :
    (∀ r ∈ C17M{sfx}.requests, ∀ out, genRequest C17M{sfx} r = some out → ∃ m ∈ out, m.1 = true ∧ validRequest C17M{sfx} r m.2 = true) ∧
    (∀ r ∈ C17M{sfx}.requests, ∀ out, genResponse C17M{sfx} r = some out → ∃ m ∈ out, m.1 = true) ∧
    (∀ r ∈ C17M{sfx}.notifications, ∀ out, genNotification C17M{sfx} r = some out → ∃ m ∈ out, m.1 = true ∧ validNotification C17M{sfx} r m.2 = true) := by
  have hreq := fun r hr => List.all_eq_true.mp (by have := C17{sfx}_message_types_ok; simp only [messageTypesOK{sfx}, Bool.and_eq_true] at this; exact this.1) r hr
  have hnot := fun r hr => List.all_eq_true.mp (by have := C17{sfx}_message_types_ok; simp only [messageTypesOK{sfx}, Bool.and_eq_true] at this; exact this.2) r hr
  refine ⟨fun r hr out h => ?_, fun r hr out h => ?_, fun r hr out h => ?_⟩
  · have := hreq r hr
    simp only [Bool.and_eq_true] at this
    exact request_has_true_vector C17M{sfx} C17{sfx}_modelOK r (fun t ht => by rw [ht] at this; exact this.1) out h
  · have := hreq r hr
    simp only [Bool.and_eq_true] at this
    exact response_has_true_vector C17M{sfx} C17{sfx}_modelOK r this.2 out h
  · have := hnot r hr
    exact notification_has_true_vector C17M{sfx} C17{sfx}_modelOK r (fun t ht => by rw [ht] at this; exact this) out h

#print axioms C17{sfx}_response_labels_sound_partial
#print axioms C17{sfx}_every_class_has_true_vector
#print axioms C17{sfx}_request_labels_sound
#print axioms C17{sfx}_notification_labels_sound
#print axioms C17{sfx}_result_labels_sound
"""

F1 = "C17|response-vectors|result-and-error-together"


def generator_model(ctx, sfx, model_path, what, problems, theorems=True):
    """Tie the Lean model of the generation algorithm to generate() of the current tree for one metamodel, and instantiate the
    label-soundness theorems for it."""
    import subprocess
    mod, err = tables.gen_meta(ctx, [model_path] if model_path else None, modname="GenMeta" + sfx, ns="Gen" + sfx)
    if mod is None:
        raise Broken(f"x_meta failed ({what}): " + err)
    thms = [f"C17{sfx}_request_labels_sound", f"C17{sfx}_notification_labels_sound", f"C17{sfx}_result_labels_sound",
            f"C17{sfx}_response_labels_sound_partial", f"C17{sfx}_every_class_has_true_vector"]
    main = common.write_module(ctx.work, "MainT" + sfx, GEN_MAIN.replace("{sfx}", sfx))
    if theorems:
        common.write_module(ctx.work, "InstG" + sfx, GEN_INST.replace("{sfx}", sfx))
        res = common.lean_compile(ctx.work, [["InstG" + sfx]])
        failed = ctx.add_lean_results(res, theorems_expected={"InstG" + sfx: thms})
        for r in failed:
            problems.append(f"{r.name} ({what}): {r.out[-800:]}")
    outf = ctx.work / f"testgen{sfx}.out"
    with open(outf, "w", encoding="utf-8") as fh:
        p = subprocess.run(["lean", "--run", str(main)], stdout=fh, stderr=subprocess.PIPE, text=True, env=common.lean_env(ctx.work), cwd=str(ctx.work), timeout=3600)
    if p.returncode != 0:
        raise Broken(f"Lean driver MainT{sfx} failed: " + p.stderr[-2000:])
    q = common.run_py(common.VERIF / "tools/corr/testgen_corr.py", ["--lean-out", str(outf)] + (["--model", str(model_path)] if model_path else []), check=False, timeout=3600)
    outf.unlink(missing_ok=True)
    if q.returncode != 0:
        problems.append(f"generator correspondence harness crashed ({what}): " + q.stderr[-800:])
        return
    c = json.loads(q.stdout)
    ctx.extra.setdefault("generator_model_correspondence", {})[what] = {k: c[k] for k in ("files_real", "files_model", "only_real", "only_model", "differing", "same_order", "per_kind", "true_files")}
    ctx.corr["evaluations"] = ctx.corr.get("evaluations", 0) + c["files_real"]
    ctx.corr["distinct_nontrivial"] = ctx.corr.get("distinct_nontrivial", 0) + c["files_real"]
    agree = not c["generate_crashed"] and not c["model_crashes"] and c["only_real"] == 0 and c["only_model"] == 0 and c["differing"] == 0 and c["same_order"]
    if not agree:
        ctx.corr["disagreements"] = ctx.corr.get("disagreements", 0) + c["only_real"] + c["only_model"] + c["differing"] + (0 if c["same_order"] else 1)
        problems.append(f"the Lean model of the generation algorithm and generate() differ for {what}: only generate(): {c['only_real']}, only the model: {c['only_model']}, "
                        f"different content: {c['differing']}, same order: {c['same_order']}, generate() raised: {c['generate_crashed']}, model crashes: {c['model_crashes']}; first: {json.dumps(c['first'])[:600]}")



def run(ctx):
    ctx.level = "proof"
    ctx.extra["explanation"] = ("Lean model of the generation algorithm tied to generate() by whole-output correspondence (committed + evolved metamodel); gen_sound: True label => "
                                "strictly valid, for every metamodel passing modelOK (kernel-evaluated per run); exhaustive enumeration of the finite vector set of the committed metamodel "
                                "for the rest: label compared with strict validity computed by two independent validators (Lean definition run through a driver, Python)")
    ctx.extra["exhaustive"] = True
    ctx.rule = ("all vectors the testdata plugin generates for the committed lsp.json (generate() in process): file-name shape, hash, label vs strict validity, "
                ">=1 True vector per message class, True vectors accepted by the Python converter; distinct = distinct vector")
    ctx.trusted += ["translator x_meta.py", "definition of strict validity (Spec/StrictValid.lean and, independently, tools/mmvalid.py): envelope = declared members only, jsonrpc '2.0', id integer-or-string, method literal; "
                    "structures / literals without declared properties are extension points"]
    mod, err = tables.gen_meta(ctx)
    if mod is None:
        raise Broken("x_meta failed: " + err)
    problems = []
    common.write_module(ctx.work, "Inst", INST)
    main = common.write_module(ctx.work, "MainV", MAIN)
    res = common.lean_compile(ctx.work, [["Inst"]])
    failed = ctx.add_lean_results(res, theorems_expected={"Inst": ["C17_validity_composes_arrays", "C17_validity_of_unions"]})
    for r in failed:
        problems.append(f"{r.name}: {r.out[-800:]}")
    opsf = ctx.work / "ops.txt"
    o = common.run_py(common.VERIF / "tools/search/c17_oracle.py", ["--ops", str(opsf)], check=False, timeout=3600)
    if o.returncode != 0:
        problems.append("oracle crashed (the testdata plugin fails?): " + o.stderr[-800:])
    else:
        out = json.loads(o.stdout)
        ctx.extra["vectors"] = out["evaluations"]
        ctx.extra["message_classes"] = out["classes"]
        ctx.extra["true_vectors"] = out["true_vectors"]
        for s in out["samples"]:
            ctx.sample(s)
        for m in out["mismatches"]:
            ctx.violation(f"C17|{m['site']}|{m['aspect']}", f"{m['site']} {m['aspect']}: expected {m['expected'][:120]}, observed {m['observed'][:200]}",
                          {"input": m.get("input"), "expected": m["expected"], "observed": m["observed"], "how": "./check C17 --replay <this file>"})
        ops = opsf.read_text(encoding="utf-8").split("\n")[:-1]
        pyv = (ctx.work / "ops.txt.py").read_text().split("\n")[:-1]
        model_out = common.lean_run(ctx.work, main, "\n".join(ops) + "\n", timeout=3600).split("\n")[:-1]
        dis = common.diff_streams(ctx, ops, model_out, pyv)
        for op, m, i in dis[:5]:
            ctx.notes.append(f"Lean and Python strict validity disagree: {op[:300]}: lean={m} python={i}")
        if dis:
            problems.append(f"the two strict-validity definitions disagree on {len(dis)} vectors; first {dis[0][0][:200]}")
    # ---- the generation algorithm: Lean model == generate(), and the label-soundness theorems, for the committed and an evolved metamodel
    generator_model(ctx, "", None, "the committed metamodel", problems)
    import shutil
    import props.c07 as c07
    doc = json.load(open(common.REPO / "generator/lsp.json"))
    edoc, desc = c07.evolved_model(doc)
    d = common.scratch_dir("c17-evolved")
    try:
        mf = d / "model.json"
        mf.write_text(json.dumps(edoc))
        generator_model(ctx, "E", mf, "the composite evolved metamodel", problems)
        # a synthetic metamodel reaching the branches neither of the two reaches in a generated position (`and`, integer-keyed maps, diamond
        # inheritance with a re-declared property, the `visited` cut-off, ...): correspondence only — it is outside `modelOK` (`and`)
        import corner_model
        mfc = d / "corner.json"
        mfc.write_text(json.dumps(corner_model.doc()))
        sv = common.run_py(common.VERIF / "tools/search/schema_ok.py", [str(mfc)], check=False)
        if sv.stdout.strip() != "ok":
            raise Broken("the corner metamodel is not schema-valid (tools/corner_model.py): " + sv.stdout[:300] + sv.stderr[-300:])
        generator_model(ctx, "C", mfc, "the corner metamodel", problems, theorems=False)
        if ctx.thorough():
            # thorough tier: model == generate() and the theorem instances for further evolved metamodels (seeded edit sequences, VERIF_SEED)
            import random
            import evolve
            for i, (tag, sdesc, sdoc) in enumerate(evolve.seeded(doc, random.Random(ctx.seed * 7919 + 17), 2, length=(3, 6))):
                if evolve.discipline_problems(sdoc):
                    continue
                mfs = d / f"model-s{i}.json"
                mfs.write_text(json.dumps(sdoc))
                generator_model(ctx, f"S{i}", mfs, f"seeded evolved metamodel {i} [{sdesc[:200]} ...]", problems)
    finally:
        shutil.rmtree(d, ignore_errors=True)
    if problems and not [v for v in ctx.violations]:
        ctx.violation("C17|proof", "C17: validators disagree or the Lean part no longer checks; no mislabelled vector found", {"broken": problems}, no_input=True)


def replay(path):
    d = json.load(open(path))
    print(json.dumps(d, indent=1)[:3000])
    o = common.run_py(common.VERIF / "tools/search/c17_oracle.py", [], check=False, timeout=3600)
    out = json.loads(o.stdout)
    hit = [m for m in out["mismatches"] if f"C17|{m['site']}|{m['aspect']}" == d.get("site")]
    print("still failing:" if hit else "no longer failing", [h["observed"] for h in hit][:1])
    return 1 if hit else 0
