"""C17 — every generated test vector is labelled with its true metamodel validity.

For the committed metamodel the quantifier is finite (73,988 vectors): the check enumerates ALL of
them (the plugin's generate() in process) and decides, per vector, name shape, content hash,
label == strict validity, at least one True vector per message class, every True vector accepted by
the Python converter.  Strict validity is defined twice, independently: in Lean
(Spec/StrictValid.lean, with the compositionality lemmas the generator's "label = conjunction of the
members' labels" rests on) and in Python (tools/mmvalid.py); the Lean definition is run through a
driver on every vector and must agree with the Python one (cross-validation), and the labels are
compared with it.  A Lean model of the generation algorithm itself (needed for the statement over
evolved metamodels) is not built: C17 is claimed for the committed model only, evolved models are
covered per model by C06.
Known finding F1: every response vector carries an `error` object next to `result`.
"""
import json

import common
import tables
from common import Broken

MAIN = """import LspVerif.Driver.Valid2
import GenMeta
def main : IO Unit := LspVerif.Driver.strictMain Gen.model
"""

INST = """import LspVerif.Spec.StrictValid
import GenMeta
open LspVerif
/-- model evaluation in the kernel (tests): strict validity of concrete messages of the committed metamodel -/
example : (match Gen.model.requests.find? (·.method == n!"shutdown") with
  | some r => validRequest Gen.model r (.obj [(n!"jsonrpc", .str n!"2.0"), (n!"id", .int 1), (n!"method", .str n!"shutdown")]) &&
              !validRequest Gen.model r (.obj [(n!"jsonrpc", .str n!"2.0"), (n!"id", .int 2147483648), (n!"method", .str n!"shutdown")]) &&
              !validRequest Gen.model r (.obj [(n!"jsonrpc", .str n!"2.0"), (n!"id", .int 1), (n!"method", .str n!"shutdown"), (n!"params", .null)])
  | none => false) = true := by decide +kernel
theorem C17_validity_composes_arrays (n : Nat) (e : Ty) (xs : List Json) :
    validTy Gen.model (n + 1) (.array e) (.arr xs) = xs.all (validTy Gen.model n e) := validTy_array Gen.model n e xs
theorem C17_validity_of_unions (n : Nat) (ts : List Ty) (j : Json) :
    validTy Gen.model (n + 1) (.or ts) j = ts.any (fun a => validTy Gen.model n a j) := validTy_or Gen.model n ts j
#print axioms C17_validity_composes_arrays
#print axioms C17_validity_of_unions
"""

F1 = "C17|response-vectors|result-and-error-together"


def run(ctx):
    ctx.level = "other"
    ctx.extra["explanation"] = ("exhaustive enumeration of the finite vector set of the committed metamodel; label compared with strict validity "
                                "computed by two independent validators (Lean definition run through a driver, Python); Lean lemmas on how validity composes")
    ctx.extra["exhaustive"] = True
    ctx.rule = ("all vectors the testdata plugin generates for the committed lsp.json (generate() in process): file-name shape, hash, label vs strict validity, "
                ">=1 True vector per message class, True vectors accepted by the Python converter; distinct = distinct vector")
    ctx.trusted += ["translator x_meta.py", "definition of strict validity (Spec/StrictValid.lean and, independently, tools/mmvalid.py): envelope = declared members only, jsonrpc '2.0', id integer-or-string, method literal; "
                    "structures / literals without declared properties are extension points"]
    mod, err = tables.gen_meta(ctx)
    if mod is None:
        raise Broken("x_meta failed: " + err)
    problems = []
    common.write_module(ctx.work, "Inst", INST)
    main = common.write_module(ctx.work, "MainV", MAIN)
    res = common.lean_compile(ctx.work, [["Inst"]])
    failed = ctx.add_lean_results(res, theorems_expected={"Inst": ["C17_validity_composes_arrays", "C17_validity_of_unions"]})
    for r in failed:
        problems.append(f"{r.name}: {r.out[-800:]}")
    opsf = ctx.work / "ops.txt"
    o = common.run_py(common.VERIF / "tools/search/c17_oracle.py", ["--ops", str(opsf)], check=False, timeout=3600)
    if o.returncode != 0:
        problems.append("oracle crashed (the testdata plugin fails?): " + o.stderr[-800:])
    else:
        out = json.loads(o.stdout)
        ctx.extra["vectors"] = out["evaluations"]
        ctx.extra["message_classes"] = out["classes"]
        ctx.extra["true_vectors"] = out["true_vectors"]
        for s in out["samples"]:
            ctx.sample(s)
        for m in out["mismatches"]:
            ctx.violation(f"C17|{m['site']}|{m['aspect']}", f"{m['site']} {m['aspect']}: expected {m['expected'][:120]}, observed {m['observed'][:200]}",
                          {"input": m.get("input"), "expected": m["expected"], "observed": m["observed"], "how": "./check C17 --replay <this file>"})
        ops = opsf.read_text(encoding="utf-8").split("\n")[:-1]
        pyv = (ctx.work / "ops.txt.py").read_text().split("\n")[:-1]
        model_out = common.lean_run(ctx.work, main, "\n".join(ops) + "\n", timeout=3600).split("\n")[:-1]
        dis = common.diff_streams(ctx, ops, model_out, pyv)
        for op, m, i in dis[:5]:
            ctx.notes.append(f"Lean and Python strict validity disagree: {op[:300]}: lean={m} python={i}")
        if dis:
            problems.append(f"the two strict-validity definitions disagree on {len(dis)} vectors; first {dis[0][0][:200]}")
    if problems and not [v for v in ctx.violations]:
        ctx.violation("C17|proof", "C17: validators disagree or the Lean part no longer checks; no mislabelled vector found", {"broken": problems}, no_input=True)


def replay(path):
    d = json.load(open(path))
    print(json.dumps(d, indent=1)[:3000])
    o = common.run_py(common.VERIF / "tools/search/c17_oracle.py", [], check=False, timeout=3600)
    out = json.loads(o.stdout)
    hit = [m for m in out["mismatches"] if f"C17|{m['site']}|{m['aspect']}" == d.get("site")]
    print("still failing:" if hit else "no longer failing", [h["observed"] for h in hit][:1])
    return 1 if hit else 0
