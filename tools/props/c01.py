"""C01 — parsing then re-serialising any spec-valid LSP JSON value loses nothing.

Proved in Lean for ALL inputs (any size, any nesting, every union alternative), instantiated per run on the
regenerated environment: `C01_roundtrip` = T1 ∘ T2 (Props/Total.lean, Props/Unstruct.lean, Props/C01.lean):
every JSON value with a typed reading (`rep`) at a checked annotation is structured successfully into a typed
reading of it, which unstructures successfully (both calling conventions) to a value related to the input by
the documented null rule (`nrel`, Core/Norm.lean: nothing the input declares with a non-null value disappears
or changes).  Kernel obligations per run: every dispatch program passes the dispatch checker (`T1_progs`), the
class table facts of T1 and T2 (`T1_classes`, `T2_classes`), the theorems apply to every generated class
(`T1_roots`), the excluded annotations are exactly the open known findings.
Partial: that `rep` coincides with metamodel validity is checked on the generated validity stream (every
generated valid value must have a typed reading, and `nrel`/`rep` are evaluated on the model's output, which
the correspondence compares with the real converter's output), not proved.  Direct oracle: `convcheck.py`.
"""
import json

import convprop

INST = """import LspVerif.Props.ConvTables
import GenMeta
import GenEnv
open LspVerif

theorem C01_probes_declared : probesDeclared (customize Gen.model) Gen.env = true := by decide +kernel
theorem C01_no_forbid : noForbidExtra Gen.env.pkg = true := by decide +kernel

/-- Model evaluation in the kernel (a test, labelled as a test): round trip of a concrete value. -/
def C01_sample : Json := .obj [(n!"start", .obj [(n!"line", .int 1), (n!"character", .int 2)]), (n!"end", .obj [(n!"line", .int 3), (n!"character", .int 4)])]
example : (do let v ← structTy Gen.env 30 (.cls n!"Range") C01_sample
              unstruct Gen.env 30 (some (.cls n!"Range")) v).toOption.map (Json.beq C01_sample) = some true := by decide +kernel

#print axioms C01_probes_declared
#print axioms C01_no_forbid
"""


def ops_fn(S):
    return [f"rt {name} " + json.dumps(j, ensure_ascii=False, separators=(",", ":")) for name, tag, j in S.valid_stream()]


def run(ctx):
    ctx.level = "proof"
    ctx.extra["explanation"] = ("Lean proof of the round-trip theorem for all values with a typed reading (T1, T2; kernel-checked table obligations per run) "
                                "+ model-vs-implementation correspondence + direct oracle on the real converter; see level_note")
    ctx.rule = ("metamodel-valid values of every root type (387 structures, 22 aliases, 164 message classes): minimal, maximal, "
                "seeded random (optional subsets, union alternatives, custom enum values, LSPAny payloads, boundary integers, non-ASCII), "
                "every alternative of every union occurrence incl. nested, heterogeneous and sub-alternative-mixing arrays; "
                "round trip through Lean model and real converter compared; oracle = type-directed comparison up to the null rule; "
                "distinct = distinct (root, JSON text); non-trivial = all (each reaches at least one class function)")
    convprop.run(ctx, "C01", ops_fn=ops_fn, inst_fn=lambda: [[("Inst", INST)]],
                 theorems=["C01_probes_declared", "C01_no_forbid"], total=True,
                 assumptions=["an explicit JSON null for an optional property whose type is not null-admitting reads as unset and is left out (forced by C10); JSON numbers compare numerically (1 == 1.0)"])


def replay(path):
    return convprop.replay("C01", path)
