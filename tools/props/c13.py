"""C13 — enums carry exactly the metamodel's values; open ones accept custom values.

Theorems (all inputs): a closed enum position accepts a string / int iff it is a member value
(`structTy_enum_str`, `structTy_enum_int`); at a `Union[E, base]` position whose registered hook has
the pass-through shape, every string / int is accepted and comes back unchanged on unstructuring
(`open_enum_roundtrip_*`).  Kernel obligations on regenerated tables: every enumeration has exactly
the metamodel's values (order, duplicates, base); every use site (property, array element, map
value) is annotated with the enum itself when closed, and with `Union[E, base]` + a pass-through
hook when open (metamodel flag or the CompletionItemKind customisation).
"""
import json

import common
import convprop
import tableprop

HDR = "import LspVerif.Props.ConvTables\nimport LspVerif.Props.C04\nimport GenMeta\nimport GenEnv\nopen LspVerif\n"


def inst_fn(doc, nsites):
    M = "(customize Gen.model)"
    layer, lemma, imports = tableprop.sliced_all(HDR, "C13s", f"{M}.structures", f"enumSitesOK {M} Gen.env", 25, len(doc["structures"]), "C13_sites_chk")
    final = imports + HDR + lemma + f"""
theorem C13_values : conformsEnums {M} Gen.env.pkg = [] := by decide +kernel
theorem C13_site_count : enumSiteCount {M} = {nsites} := by decide +kernel
theorem C13_closed_chk : {M}.enumerations.all (fun e => e.custom || ((Gen.env.hookFor (.enum e.name)).isNone && (Gen.env.pkg.findEnum e.name).isSome)) = true := by decide +kernel

/-- Each enumeration exists with exactly the metamodel's values. -/
theorem C13_enumerations : ∀ e ∈ {M}.enumerations, EnumFaithful Gen.env.pkg e := conformsEnums_sound C13_values

/-- Closed enumerations: a string (int) is accepted iff it is one of the members — for all strings / ints. -/
theorem C13_closed : ∀ e ∈ {M}.enumerations, e.custom = false → ∃ pe, Gen.env.pkg.findEnum e.name = some pe ∧
    (∀ (n : Nat) (s : Name), (∃ v, structTy Gen.env (n + 1) (.enum e.name) (.str s) = .ok v) ↔ pe.members.any (·.2 == .s s) = true) ∧
    (∀ (n : Nat) (i : Int), (∃ v, structTy Gen.env (n + 1) (.enum e.name) (.int i) = .ok v) ↔ pe.members.any (·.2 == .i i) = true) := by
  intro e he hc
  have h := List.all_eq_true.mp C13_closed_chk e he
  simp only [hc, Bool.false_or, Bool.and_eq_true, Option.isNone_iff_eq_none, Option.isSome_iff_exists] at h
  obtain ⟨hh, pe, hp⟩ := h
  exact ⟨pe, hp, fun n s => structTy_enum_str Gen.env n e.name pe s hh hp, fun n i => structTy_enum_int Gen.env n e.name pe i hh hp⟩

/-- Every use site of every enumeration is annotated as the specification says. -/
theorem C13_use_sites : ∀ s ∈ {M}.structures, enumSitesOK {M} Gen.env s = true :=
  fun s hs => List.all_eq_true.mp C13_sites_chk s hs

#print axioms C13_enumerations
#print axioms C13_closed
#print axioms C13_use_sites
#print axioms C13_site_count
"""
    return [layer, [("Inst", final)]]


def ops_fn(S):
    ops = []
    m = S.m
    for s in m.doc["structures"]:
        props = m.flatten(s["name"])
        if not any(p["type"]["kind"] == "reference" and p["type"]["name"] in m.enums for p in props):
            continue
        base = S.vg.value({"kind": "reference", "name": s["name"]}, "min")
        for p in props:
            t = p["type"]
            if t["kind"] == "reference" and t["name"] in m.enums:
                e = m.enums[t["name"]]
                vals = [v["value"] for v in e["values"]]
                extra = ["x-custom", ""] if e["type"]["name"] == "string" else [max(vals) + 1, 2**31 - 1]
                for v in vals + extra:
                    j = dict(base)
                    j[p["name"]] = v
                    ops.append(f"rt {s['name']} " + json.dumps(j, ensure_ascii=False, separators=(",", ":")))
    return ops


def enum_site_count(doc):
    import valuegen
    m = valuegen.Meta(doc)
    n = 0
    for s in doc["structures"]:
        for p in m.flatten(s["name"]):
            t = p["type"]
            if t["kind"] == "reference" and t["name"] in m.enums:
                n += 1
            elif t["kind"] == "array" and t["element"]["kind"] == "reference" and t["element"]["name"] in m.enums:
                n += 1
            elif t["kind"] == "map" and t["value"]["kind"] == "reference" and t["value"]["name"] in m.enums:
                n += 1
    return n


def run(ctx):
    doc = json.load(open(common.REPO / "generator/lsp.json"))
    ctx.rule = ("obligations: kernel evaluation of enum value tables and of every enum use site per slice of structures; "
                "correspondence: every directly enum-typed property x every declared value + custom values through model and real converter; "
                "oracle: every use site (direct, array element, map value, union member) x declared values x custom values on the real converter")
    convprop.run(ctx, "C13", ops_fn=ops_fn, inst_fn=lambda: inst_fn(doc, enum_site_count(doc)),
                 theorems=["C13_enumerations", "C13_closed", "C13_use_sites", "C13_site_count"])


def replay(path):
    return convprop.replay("C13", path)
