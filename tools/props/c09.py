"""C09 — method catalogue and type registry agree with the metamodel.

The property is stated as Lean propositions over the tables (RequestCatalogued,
NotificationCatalogued, NothingElse, RegistryComplete in Spec/Messages.lean); executable checkers
are proved sound once; the instance obligations are the checkers evaluated by the kernel on tables
regenerated from lsp.json and from the imported package (committed and freshly generated).
Correspondence: message_direction / METHOD_TO_TYPES / default methods / registry membership of the
real module against the same lookups on the tables.  Oracle: the property in plain Python.
"""
import json

import common
import tableprop

ORACLE = common.VERIF / "tools/search/c09_oracle.py"


RSLICE = 12


def inst(ns, mod, sfx, nreq, nnot):
    hdr = f"import LspVerif.Spec.Messages\nimport LspVerif.Props.C04\nimport GenMeta\nimport {mod}\nopen LspVerif\n"
    nrs = (nreq + RSLICE - 1) // RSLICE
    nns = (nnot + RSLICE - 1) // RSLICE
    layer = []
    for k in range(nrs):
        layer.append((f"InstR{sfx}{k}", hdr + f"theorem C09{sfx}_req_{k} : (slice (customize Gen.model).requests {k} {RSLICE}).all (requestCatalogued (customize Gen.model) {ns}.pkg) = true := by decide +kernel\n"))
    for k in range(nns):
        layer.append((f"InstN{sfx}{k}", hdr + f"theorem C09{sfx}_not_{k} : (slice (customize Gen.model).notifications {k} {RSLICE}).all (notificationCatalogued (customize Gen.model) {ns}.pkg) = true := by decide +kernel\n"))
    layer.append((f"InstX{sfx}", hdr + f"""theorem C09{sfx}_nothing_else_chk : nothingElse (customize Gen.model) {ns}.pkg = true := by decide +kernel
theorem C09{sfx}_registry_chk : registryComplete {ns}.pkg = true := by decide +kernel
theorem C09{sfx}_counts : (customize Gen.model).requests.length = {nreq} ∧ (customize Gen.model).notifications.length = {nnot} := by decide +kernel
"""))
    imports = "".join(f"import {n}\n" for n, _ in layer)
    rcases = "\n".join(f"    | {k}, _, hk => exact requestCatalogued_sound (List.all_eq_true.mp C09{sfx}_req_{k} r hk)" for k in range(nrs))
    ncases = "\n".join(f"    | {k}, _, hk => exact notificationCatalogued_sound (List.all_eq_true.mp C09{sfx}_not_{k} n hk)" for k in range(nns))
    final = imports + hdr + f"""
/-- C09: for every request and notification of the metamodel, and for nothing else, the package maps
    the method to its classes / params / registration options, default method, direction and
    constant; every defined protocol type is registered and every annotation resolved. -/
theorem C09{sfx} :
    (∀ r ∈ (customize Gen.model).requests, RequestCatalogued (customize Gen.model) {ns}.pkg r) ∧
    (∀ n ∈ (customize Gen.model).notifications, NotificationCatalogued (customize Gen.model) {ns}.pkg n) ∧
    NothingElse (customize Gen.model) {ns}.pkg ∧ RegistryComplete {ns}.pkg := by
  refine ⟨?_, ?_, nothingElse_sound C09{sfx}_nothing_else_chk, registryComplete_sound C09{sfx}_registry_chk⟩
  · intro r hr
    obtain ⟨k, hk⟩ := mem_slice_of_mem _ {RSLICE} (by decide) r hr
    by_cases hlt : k < {nrs}
    · match k, hlt, hk with
{rcases}
      | n + {nrs}, h, _ => omega
    · have : slice (customize Gen.model).requests k {RSLICE} = [] := by
        apply slice_eq_nil
        rw [C09{sfx}_counts.1]
        have : {nrs} * {RSLICE} ≤ k * {RSLICE} := Nat.mul_le_mul_right _ (by omega)
        omega
      rw [this] at hk
      simp at hk
  · intro n hn
    obtain ⟨k, hk⟩ := mem_slice_of_mem _ {RSLICE} (by decide) n hn
    by_cases hlt : k < {nns}
    · match k, hlt, hk with
{ncases}
      | n + {nns}, h, _ => omega
    · have : slice (customize Gen.model).notifications k {RSLICE} = [] := by
        apply slice_eq_nil
        rw [C09{sfx}_counts.2]
        have : {nns} * {RSLICE} ≤ k * {RSLICE} := Nat.mul_le_mul_right _ (by omega)
        omega
      rw [this] at hk
      simp at hk

#print axioms C09{sfx}
#print axioms C09{sfx}_counts
"""
    return [layer, [(f"Inst{sfx}", final)]]


EVAL = """import LspVerif.Spec.Messages
import GenMeta
import {mod}
open LspVerif
#eval do
  let M := customize Gen.model
  for r in M.requests do
    if !requestCatalogued M {ns}.pkg r then IO.println ("FAIL request " ++ r.method.toString)
  for r in M.notifications do
    if !notificationCatalogued M {ns}.pkg r then IO.println ("FAIL notification " ++ r.method.toString)
  if !nothingElse M {ns}.pkg then IO.println "FAIL nothing-else"
  if !registryComplete {ns}.pkg then IO.println "FAIL registry"
"""

MAIN = """import LspVerif.Driver.Catalogue
import {mod}
def main : IO Unit := LspVerif.Driver.catMain {ns}.pkg
"""


def run(ctx):
    doc = json.load(open(common.REPO / "generator/lsp.json"))
    nreq, nnot = len(doc["requests"]), len(doc["notifications"])
    ctx.rule = ("obligations: kernel evaluation of the catalogue checkers over all requests and notifications x "
                "{request class, response class, params, registration options, default method, direction, constant}, "
                "'nothing else', registry completeness; ops: message_direction / METHOD_TO_TYPES / default method for every "
                "method and some unknown ones, registry membership for every defined name; distinct = distinct op")
    ctx.trusted += ["translators x_meta.py, x_pkg.py", "spec of message classes and catalogue in Spec/Messages.lean (from the property text and the package documentation)"]
    ops = []
    for r in doc["requests"] + doc["notifications"]:
        ops += [f"dir {r['method']}", f"m2t {r['method']}"]
        tn = r.get("typeName")
        if tn:
            ops.append(f"default-method {tn}")
    ops += ["dir no/such/method", "m2t no/such/method", "dir ", "default-method Position", "default-method Nope"]
    for s in doc["structures"][::7] + doc["enumerations"][::5] + doc["typeAliases"][::3]:
        ops.append(f"registered {s['name']}")
    ops.append("registered NoSuchType")
    ops = [o for o in ops if len(o.split(" ")) == 2 and o.split(" ")[1]]
    tableprop.run(ctx, "C09",
                  inst=lambda ns, mod, sfx: inst(ns, mod, sfx, nreq, nnot),
                  theorems=lambda sfx: [f"C09{sfx}", f"C09{sfx}_counts"],
                  oracle=ORACLE, eval_template=EVAL, driver_main=MAIN,
                  impl=common.VERIF / "tools/corr/catalogue_impl.py", ops=ops)
    ctx.dist = {"methods": nreq + nnot, "ops": len(ops)}
    for o in ops[::60]:
        ctx.sample(o)


def replay(path):
    return tableprop.replay("C09", path, ORACLE)
