"""C03 — structured results are well-typed instances of the declared classes.

What is proved in Lean (all inputs): the node-level facts the round trip rests on — the class
function reads exactly the declared wire names and fails on a missing required one
(Props/Conv.lean), the unstructure function writes exactly the non-omitted wire names
(`unstructFields_keys`), the null rule per attribute (C10), range validators (C12), enum handling
(C13) — plus kernel-checked side conditions on the regenerated environment: every reachable union
has parsing support, every hook probes declared keys only, each open known finding is reproduced by
the model on its witness.  What is NOT proved: the composition of these into the round-trip theorem
for arbitrary nesting and every hook decision (C03_partial in DESIGN.md).  That part is decided by
running the model's executable definitions and the real converter on the same generated valid
values (every root type: min, max, random; every alternative of every union occurrence, nested
unions, heterogeneous arrays) and by the direct round-trip oracle on the real converter.
"""
import json

import convprop

INST = """import LspVerif.Props.ConvTables
import GenMeta
import GenEnv
open LspVerif

theorem C03_probes_declared : probesDeclared (customize Gen.model) Gen.env = true := by decide +kernel
theorem C03_no_forbid : noForbidExtra Gen.env.pkg = true := by decide +kernel

/-- Model evaluation in the kernel (a test, labelled as a test): round trip of a concrete value. -/
def C03_sample : Json := .obj [(n!"start", .obj [(n!"line", .int 1), (n!"character", .int 2)]), (n!"end", .obj [(n!"line", .int 3), (n!"character", .int 4)])]
example : (do let v ← structTy Gen.env 30 (.cls n!"Range") C03_sample
              unstruct Gen.env 30 (some (.cls n!"Range")) v).toOption.map (Json.beq C03_sample) = some true := by decide +kernel

#print axioms C03_probes_declared
#print axioms C03_no_forbid
"""


def ops_fn(S):
    return [f"rt {name} " + json.dumps(j, ensure_ascii=False, separators=(",", ":")) for name, tag, j in S.valid_stream()]


def run(ctx):
    ctx.level = "proof"
    ctx.extra["explanation"] = ("partial Lean proof (node-level theorems + kernel-checked side conditions, counted under obligations) "
                                "+ model-vs-implementation correspondence + direct oracle on the real converter; see level_note")
    ctx.rule = ("metamodel-valid values of every root type (387 structures, 22 aliases, 164 message classes): minimal, maximal, "
                "seeded random (optional subsets, union alternatives, custom enum values, LSPAny payloads, boundary integers, non-ASCII), "
                "every alternative of every union occurrence incl. nested, heterogeneous and sub-alternative-mixing arrays; "
                "round trip through Lean model and real converter compared; oracle = type-directed comparison up to the null rule; "
                "distinct = distinct (root, JSON text); non-trivial = all (each reaches at least one class function)")
    convprop.run(ctx, "C03", ops_fn=ops_fn, inst_fn=lambda: [[("Inst", INST)]],
                 theorems=["C03_probes_declared", "C03_no_forbid"], total=True,
                 assumptions=["an explicit JSON null for an optional property whose type is not null-admitting reads as unset and is left out (forced by C10); JSON numbers compare numerically (1 == 1.0)"])


def replay(path):
    return convprop.replay("C03", path)
