"""C07 — the generated Rust crate declares the metamodel's wire schema.

The rust plugin of the current tree is run on every check, its output rustfmt-ed and parsed into
tables (x_rust.py, with a parser self-check); the documented metamodel -> Rust mapping and serde's
camelCase rule are specification functions in Lean (Spec/Wire.lean); the instance obligations are
the conformance checkers evaluated by the kernel: per structure the set of serde names equals the
flattened property names (both directions), each with the mapped Rust type, Option exactly when
optional or null-admitting, feature gate exactly when proposed; per enumeration the discriminants
(string renames, or int values consistent with both hand-generated serde impls); per `or` alias an
untagged enum with one variant per non-null alternative; method enums renamed to the exact method
strings; request / response / notification structs with their envelopes.  The committed lib.rs is
tied to the plugin output by C05.  Nothing is compiled (no crates offline): these are statements
about emitted text, as the property says.
"""
import json

import common
import tables
import tableprop
from common import Broken

def hdr(sfx):
    return f"import LspVerif.Spec.Wire\nimport LspVerif.Props.C04\nimport GenMeta{sfx}\nimport GenRust{sfx}\nopen LspVerif LspVerif.Wire\n"


EVAL = """#eval do
  let ms := rustStructsOK NS.model NS.rust NS.model.structures ++ rustRestOK NS.model NS.rust
  for m in ms do IO.println s!"MISMATCH\\t{m.site}\\t{m.aspect}\\t{m.expected.replace "\\n" " "}\\t{m.actual.replace "\\n" " "}"
  for s in NS.rust.structs do
    for f in s.fields do
      if f.wireHint != f.wire s then IO.println s!"MISMATCH\\t{s.name.toString}.{f.ident.toString}\\twire-hint\\t{(f.wire s).toString}\\t{f.wireHint.toString}"
"""


def evolved_model(doc):
    """One composite evolved metamodel of C06's family: every listed edit kind applied once, in order, deterministically (the
    property quantifies over the committed metamodel *and* the evolved ones; C06 explores many more of them with the mismatch
    list, here the obligations are *proved* for this one too)."""
    import copy
    import random
    import evolve
    d = copy.deepcopy(doc)
    rnd = random.Random(11)
    descs = []
    for e in evolve.EDITS:
        try:
            descs.append(e(d, rnd))
        except (StopIteration, IndexError):
            continue
    return d, "; ".join(descs)


def check_model(ctx, sfx, doc, model_path, what):
    """obligations for one metamodel: sfx "" = the committed one (namespace Gen), "E" = the evolved one (namespace GenE)"""
    import re
    import subprocess
    ns = "Gen" + sfx
    HDR = hdr(sfx)
    problems = []
    mod, err = tables.gen_meta(ctx, [model_path] if model_path else None, modname="GenMeta" + sfx, ns=ns)
    if mod is None:
        raise Broken(f"x_meta failed ({what}): " + err)
    p = common.run_py(common.VERIF / "tools/extract/x_rust.py", ["--model", str(model_path)] if model_path else [], check=False, timeout=900)
    if p.returncode == 4:
        ctx.violation(f"C07|plugin-fails{sfx}", f"the rust plugin (or rustfmt on its output) fails on {what}: " + p.stderr[-300:],
                      {"error": p.stderr[-1500:], "model": what, "how": "python -m generator --plugin rust --output-dir <scratch> [--model <evolved model>]"})
        return problems
    if p.returncode != 0:
        problems.append(f"x_rust ({what}): " + p.stderr[-800:])
        ctx.obligation("x_rust" + sfx, False, "translator", p.stderr)
        return problems
    text = p.stdout if not sfx else p.stdout.replace("namespace Gen", f"namespace {ns}").replace("end Gen", f"end {ns}").replace("import GenMeta", "import GenMeta" + sfx).replace("Gen.model", f"{ns}.model")
    r = tables.compile_cached(ctx, "GenRust" + sfx, text)
    if not r.ok:
        raise Broken(f"GenRust{sfx} does not elaborate: " + r.out[-2000:])
    layer, lemma, imports = tableprop.sliced_all(HDR, f"C07{sfx}s", f"{ns}.model.structures", f"fun s => (rustStructMismatches {ns}.model {ns}.rust s).isEmpty", 25, len(doc["structures"]), f"C07{sfx}_structs_chk")
    nrs = len(re.findall(r"^def rs\d+ : RStruct", p.stdout, re.M))
    layer2, lemma2, imports2 = tableprop.sliced_all(HDR, f"C07{sfx}w", f"{ns}.rust.structs", "fun s => s.fields.all (fun f => f.wireHint == f.wire s)", 40, nrs, f"C07{sfx}_wire_chk")
    layer.append((f"C07{sfx}rest", HDR + f"theorem C07{sfx}_rest_chk : rustRestOK {ns}.model {ns}.rust = [] := by decide +kernel\n"))
    thm = "C07" if not sfx else ("C07_evolved" if sfx == "E" else f"C07_evolved_{sfx}")
    final = imports + imports2 + f"import C07{sfx}rest\n" + HDR + lemma + lemma2 + f"""
/-- C07 ({what}): every structure's serde names / types / Option / feature gates, every enumeration's
    discriminants, every `or` alias, the method enums and the message structs conform. -/
theorem {thm} : (∀ s ∈ {ns}.model.structures, rustStructMismatches {ns}.model {ns}.rust s = []) ∧
    rustRestOK {ns}.model {ns}.rust = [] ∧ wireHintsOK {ns}.rust.structs = true := by
  refine ⟨fun s hs => ?_, C07{sfx}_rest_chk, C07{sfx}_wire_chk⟩
  have := List.all_eq_true.mp C07{sfx}_structs_chk s hs
  simpa using this
#print axioms {thm}
"""
    for mn, t in layer + layer2 + [("Inst" + sfx, final)]:
        common.write_module(ctx.work, mn, t)
    res = common.lean_compile(ctx.work, [[m for m, _ in layer + layer2], ["Inst" + sfx]])
    failed = ctx.add_lean_results(res, theorems_expected={"Inst" + sfx: [thm]})
    n_ev = sum(len(s["properties"]) for s in doc["structures"]) + len(doc["enumerations"]) + len(doc["typeAliases"]) + len(doc["requests"]) * 2 + len(doc["notifications"])
    ctx.corr["evaluations"] = ctx.corr.get("evaluations", 0) + n_ev
    ctx.corr["distinct_nontrivial"] = ctx.corr["evaluations"]
    ctx.sample({"obligation": f"rustStructMismatches {ns}.model {ns}.rust s = [] for s in slice 0", "model": what, "structs_parsed": nrs})
    if failed:
        f = common.write_module(ctx.work, "Eval" + sfx, HDR + EVAL.replace("NS.", ns + "."))
        q = subprocess.run(["lean", str(f)], capture_output=True, text=True, env=common.lean_env(ctx.work), cwd=str(ctx.work))
        mm = [(l.split("\t")[1:] + ["", "", "", ""])[:4] for l in q.stdout.splitlines() if l.startswith("MISMATCH\t")]
        for site, aspect, exp, act in mm[:40]:
            ctx.violation(f"C07|{site}|{aspect}" + ("|evolved" if sfx else ""), f"lib.rs as emitted by the rust plugin for {what}: {site} {aspect}: expected {exp[:160]}, found {act[:160]}",
                          {"item": site, "aspect": aspect, "expected": exp, "found": act, "model": what,
                           "how": "python -m generator --plugin rust --output-dir <scratch>" + (" --model <the evolved model: tools/props/c07.py evolved_model>" if sfx else "") + "; rustfmt; look at the named item"})
        if not mm:
            for r in failed:
                problems.append(f"{r.name}: {r.out[-1000:]}")
    return problems


def run(ctx):
    ctx.rule = ("obligations: kernel evaluation of the Rust conformance checkers per slice of structures + enumerations, aliases, method enums, "
                "message structs, for the committed metamodel and for one composite evolved metamodel (every edit kind of C06 applied once); "
                "the mismatch list of the same checkers (diagnosis) is the witness search: each mismatch quotes the item")
    ctx.trusted += ["translator x_rust.py (rustfmt + item/field/variant/type parser with self-check: every struct/enum/type declaration accounted for)",
                    "serde's rename_all=\"camelCase\" rule as modelled in Spec/Wire.lean (read from serde_derive's RenameRule)",
                    "the metamodel -> Rust mapping of Spec/Wire.lean (documented mapping: Url, Decimal, ORn, CustomStringEnum/CustomIntEnum, Box transparent)",
                    "tools/evolve.py (the evolved metamodel is schema-validated before use)"]
    doc = json.load(open(common.REPO / "generator/lsp.json"))
    problems = check_model(ctx, "", doc, None, "the committed metamodel")
    edoc, desc = evolved_model(doc)
    d = common.scratch_dir("c07-evolved")
    try:
        import shutil
        mf = d / "model.json"
        mf.write_text(json.dumps(edoc))
        sv = common.run_py(common.VERIF / "tools/search/schema_ok.py", [str(mf)], check=False)
        if sv.stdout.strip() != "ok":
            raise Broken("the evolved metamodel is not schema-valid (tools/evolve.py): " + sv.stdout[:300] + sv.stderr[-300:])
        problems += check_model(ctx, "E", edoc, mf, "the evolved metamodel [" + desc[:300] + " ...]")
        if ctx.thorough():
            # thorough tier: the obligations proved for further evolved metamodels, seeded edit sequences (VERIF_SEED)
            import random
            import evolve
            for i, (tag, sdesc, sdoc) in enumerate(evolve.seeded(doc, random.Random(ctx.seed * 7919 + 17), 3, length=(3, 6))):
                if evolve.discipline_problems(sdoc):
                    continue
                mfs = d / f"model-s{i}.json"
                mfs.write_text(json.dumps(sdoc))
                sv = common.run_py(common.VERIF / "tools/search/schema_ok.py", [str(mfs)], check=False)
                if sv.stdout.strip() != "ok":
                    raise Broken("a seeded evolved metamodel is not schema-valid (tools/evolve.py): " + sdesc[:200])
                problems += check_model(ctx, f"S{i}", sdoc, mfs, f"seeded evolved metamodel {i} [" + sdesc[:300] + " ...]")
    finally:
        shutil.rmtree(d, ignore_errors=True)
    if problems and not ctx.violations:
        ctx.violation("C07|proof", "C07 obligations no longer check and the checker lists no mismatch", {"broken": problems}, no_input=True)


def replay(path):
    d = json.load(open(path))
    print(json.dumps(d, indent=1)[:2500])
    return 1
