"""C07 — the generated Rust crate declares the metamodel's wire schema.

The rust plugin of the current tree is run on every check, its output rustfmt-ed and parsed into
tables (x_rust.py, with a parser self-check); the documented metamodel -> Rust mapping and serde's
camelCase rule are specification functions in Lean (Spec/Wire.lean); the instance obligations are
the conformance checkers evaluated by the kernel: per structure the set of serde names equals the
flattened property names (both directions), each with the mapped Rust type, Option exactly when
optional or null-admitting, feature gate exactly when proposed; per enumeration the discriminants
(string renames, or int values consistent with both hand-generated serde impls); per `or` alias an
untagged enum with one variant per non-null alternative; method enums renamed to the exact method
strings; request / response / notification structs with their envelopes.  The committed lib.rs is
tied to the plugin output by C05.  Nothing is compiled (no crates offline): these are statements
about emitted text, as the property says.
"""
import json

import common
import tables
import tableprop
from common import Broken

HDR = "import LspVerif.Spec.Wire\nimport LspVerif.Props.C04\nimport GenMeta\nimport GenRust\nopen LspVerif LspVerif.Wire\n"

EVAL = HDR + """#eval do
  let ms := rustStructsOK Gen.model Gen.rust Gen.model.structures ++ rustRestOK Gen.model Gen.rust
  for m in ms do IO.println s!"MISMATCH\\t{m.site}\\t{m.aspect}\\t{m.expected.replace "\\n" " "}\\t{m.actual.replace "\\n" " "}"
  for s in Gen.rust.structs do
    for f in s.fields do
      if f.wireHint != f.wire s then IO.println s!"MISMATCH\\t{s.name.toString}.{f.ident.toString}\\twire-hint\\t{(f.wire s).toString}\\t{f.wireHint.toString}"
"""


def run(ctx):
    ctx.rule = ("obligations: kernel evaluation of the Rust conformance checkers per slice of structures + enumerations, aliases, method enums, "
                "message structs; the mismatch list of the same checkers (diagnosis) is the witness search: each mismatch quotes the item")
    ctx.trusted += ["translator x_rust.py (rustfmt + item/field/variant/type parser with self-check: every struct/enum/type declaration accounted for)",
                    "serde's rename_all=\"camelCase\" rule as modelled in Spec/Wire.lean (read from serde_derive's RenameRule)",
                    "the metamodel -> Rust mapping of Spec/Wire.lean (documented mapping: Url, Decimal, ORn, CustomStringEnum/CustomIntEnum, Box transparent)"]
    mod, err = tables.gen_meta(ctx)
    if mod is None:
        raise Broken("x_meta failed: " + err)
    doc = json.load(open(common.REPO / "generator/lsp.json"))
    p = common.run_py(common.VERIF / "tools/extract/x_rust.py", check=False, timeout=900)
    problems = []
    if p.returncode == 4:
        ctx.violation("C07|plugin-fails", "the rust plugin (or rustfmt on its output) fails on the committed model: " + p.stderr[-300:],
                      {"error": p.stderr[-1500:], "how": "python -m generator --plugin rust --output-dir <scratch>"})
        return
    if p.returncode != 0:
        problems.append("x_rust: " + p.stderr[-800:])
        ctx.obligation("x_rust", False, "translator", p.stderr)
    else:
        r = tables.compile_cached(ctx, "GenRust", p.stdout)
        if not r.ok:
            raise Broken("GenRust does not elaborate: " + r.out[-2000:])
        layer, lemma, imports = tableprop.sliced_all(HDR, "C07s", "Gen.model.structures", "fun s => (rustStructMismatches Gen.model Gen.rust s).isEmpty", 25, len(doc["structures"]), "C07_structs_chk")
        import re
        nrs = len(re.findall(r"^def rs\d+ : RStruct", p.stdout, re.M))
        layer2, lemma2, imports2 = tableprop.sliced_all(HDR, "C07w", "Gen.rust.structs", "fun s => s.fields.all (fun f => f.wireHint == f.wire s)", 40, nrs, "C07_wire_chk")
        layer.append(("C07rest", HDR + "theorem C07_rest_chk : rustRestOK Gen.model Gen.rust = [] := by decide +kernel\n"))
        final = imports + imports2 + "import C07rest\n" + HDR + lemma + lemma2 + """
/-- C07: every structure's serde names / types / Option / feature gates, every enumeration's
    discriminants, every `or` alias, the method enums and the message structs conform. -/
theorem C07 : (∀ s ∈ Gen.model.structures, rustStructMismatches Gen.model Gen.rust s = []) ∧
    rustRestOK Gen.model Gen.rust = [] ∧ wireHintsOK Gen.rust.structs = true := by
  refine ⟨fun s hs => ?_, C07_rest_chk, C07_wire_chk⟩
  have := List.all_eq_true.mp C07_structs_chk s hs
  simpa using this
#print axioms C07
"""
        for mn, text in layer + layer2 + [("Inst", final)]:
            common.write_module(ctx.work, mn, text)
        res = common.lean_compile(ctx.work, [[m for m, _ in layer + layer2], ["Inst"]])
        failed = ctx.add_lean_results(res, theorems_expected={"Inst": ["C07"]})
        ctx.corr["evaluations"] = sum(len(s["properties"]) for s in doc["structures"]) + len(doc["enumerations"]) + len(doc["typeAliases"]) + len(doc["requests"]) * 2 + len(doc["notifications"])
        ctx.corr["distinct_nontrivial"] = ctx.corr["evaluations"]
        ctx.sample({"obligation": "rustStructMismatches Gen.model Gen.rust s = [] for s in slice 0", "structs_parsed": nrs})
        if failed:
            f = common.write_module(ctx.work, "Eval", EVAL)
            import subprocess
            q = subprocess.run(["lean", str(f)], capture_output=True, text=True, env=common.lean_env(ctx.work), cwd=str(ctx.work))
            mm = [(l.split("\t")[1:] + ["", "", "", ""])[:4] for l in q.stdout.splitlines() if l.startswith("MISMATCH\t")]
            for site, aspect, exp, act in mm[:40]:
                ctx.violation(f"C07|{site}|{aspect}", f"lib.rs as emitted by the rust plugin: {site} {aspect}: expected {exp[:160]}, found {act[:160]}",
                              {"item": site, "aspect": aspect, "expected": exp, "found": act,
                               "how": "python -m generator --plugin rust --output-dir <scratch>; rustfmt; look at the named item"})
            if not mm:
                for r in failed:
                    problems.append(f"{r.name}: {r.out[-1000:]}")
    if problems and not ctx.violations:
        ctx.violation("C07|proof", "C07 obligations no longer check and the checker lists no mismatch", {"broken": problems}, no_input=True)


def replay(path):
    d = json.load(open(path))
    print(json.dumps(d, indent=1)[:2500])
    return 1
