#!/bin/bash
# tools/seed_ingest.sh C03 b  : copy /tmp/seed2_C03/_seed into seeded/C03b, remove the worktree, confirm.
set -e
P=$1; S=${2:-b}; SRC=/tmp/seed2_$P/_seed; D=/verif/seeded/$P$S
mkdir -p $D
cp $SRC/patch.diff $D/patch.diff
cp $SRC/demo_*.py $D/
python3 - "$SRC/notes.json" "$D/meta.json" <<'PY'
import json,sys
n=json.load(open(sys.argv[1]))
json.dump({"description":n.get("description",""),"needs_to_manifest":n.get("needs_to_manifest",""),
 "author":"independent sub-agent (round 2) given only the property text and a scratch worktree"},open(sys.argv[2],"w"),indent=1)
PY
git -C /repo worktree remove --force /tmp/seed2_$P || true
rm -rf /tmp/seed2_$P
cd /verif && python3 tools/seed_confirm.py $P$S
