#!/bin/bash
# tools/seed_ingest.sh C03 b  : copy ${SEEDSRC:-/tmp/seed2_}C03/_seed into seeded/C03b, remove the worktree, confirm.
set -e
P=$1; S=${2:-b}; PFX=${SEEDSRC:-/tmp/seed2_}; SRC=$PFX$P/_seed; D=/verif/seeded/$P$S
mkdir -p $D
cp $SRC/patch.diff $D/patch.diff
cp $SRC/demo_*.py $D/
python3 - "$SRC/notes.json" "$D/meta.json" <<'PY'
import json,sys
n=json.load(open(sys.argv[1]))
json.dump({"description":n.get("description",""),"needs_to_manifest":n.get("needs_to_manifest",""),
 "author":"independent sub-agent (round " + __import__("os").environ.get("SEEDROUND","2") + ") given only the property text and a scratch worktree"},open(sys.argv[2],"w"),indent=1)
PY
git -C /repo worktree remove --force $PFX$P || true
rm -rf $PFX$P
cd /verif && python3 tools/seed_confirm.py $P$S
