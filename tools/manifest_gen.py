"""Regenerates MANIFEST.json from the table below (kept here so the manifest stays valid and uniform)."""
import json
import pathlib

HERE = pathlib.Path(__file__).resolve().parent.parent

CLAIMED = {
    # id: (category, text, design_ref, level_note, technique)
}

PENDING_REASON = "not claimed yet: the Lean model and tie for this property are still under construction (DESIGN.md section 10)"


def load_claims():
    f = HERE / "tools" / "claims.json"
    return json.loads(f.read_text())


def main():
    claims = load_claims()
    props = [json.loads(l)["id"] for l in (HERE / "properties.jsonl").read_text().splitlines() if l.strip()]
    checks = []
    na = []
    for pid in props:
        c = claims.get(pid)
        if c is None or c.get("not_applicable"):
            na.append({"property_id": pid, "reason": (c or {}).get("reason", PENDING_REASON)})
            continue
        checks.append({
            "property_id": pid,
            "quick_cmd": f"./check {pid} --tier quick",
            "thorough_cmd": f"./check {pid} --tier thorough",
            "evidence_file": f"/verif/evidence/{pid}.json",
            "replay_cmd_template": f"./check {pid} --replay {{path}}",
            "engine": "lean4-proof",
            "level_claimed": {"category": c["category"], "text": c["text"], "design_ref": c["design_ref"]},
            "level_note": c["level_note"],
            "technique": c["technique"],
        })
    m = {
        "version": 1,
        "setup_cmd": "cd lean && lake build",
        "hooks": {
            "guard": "LSPROTOCOL_VERIF",
            "enable": "no source hooks exist: checks import /repo's working tree by path (PYTHONPATH) and introspect it; LSPROTOCOL_VERIF=1 is exported for uniformity only",
            "baseline_off_cmd": "cd /repo && /venv/bin/python -m pytest -ra -q -p no:cacheprovider --timeout=900 --continue-on-collection-errors",
            "source_commits": [],
            "add_only": True,
        },
        "engines": [{
            "name": "lean4-proof",
            "path": "/verif/lean",
            "serves_properties": [c["property_id"] for c in checks],
            "kind_free_text": "Lean 4 library (models + generic theorems) + per-run regenerated tables/definitions with kernel-checked instance theorems + line-protocol correspondence against the real Python",
        }],
        "checks": checks,
        "not_applicable": na,
        "notes": "See DESIGN.md. ./check <ID> exits 0 / 1 (VIOLATION line) / 2 (machinery broken).",
    }
    (HERE / "MANIFEST.json").write_text(json.dumps(m, indent=1) + "\n")
    print(f"{len(checks)} claimed, {len(na)} not claimed")


if __name__ == "__main__":
    main()
