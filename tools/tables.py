"""Regenerated Lean tables shared by several checks: Gen.model (lsp.json), Gen.pkg (package +
converter).  The translators run on every check; only the Lean elaboration of byte-identical
translator output is reused from a content-addressed cache (key = sha of the text + sha of the
hand-written library sources), which cannot change a verdict."""
from __future__ import annotations

import hashlib
import pathlib
import shutil
import subprocess

import common
from common import Broken

CACHE = common.WORK / "cache"
_LIB_SHA = None


def lib_sha() -> str:
    global _LIB_SHA
    if _LIB_SHA is None:
        h = hashlib.sha256()
        for f in sorted((common.LEAN_DIR / "LspVerif").rglob("*.lean")):
            h.update(f.read_bytes())
        _LIB_SHA = h.hexdigest()[:16]
    return _LIB_SHA


def compile_cached(ctx, name: str, text: str) -> common.LeanResult:
    """Write module `name` with `text` into ctx.work and compile it (or reuse the cached .olean)."""
    src = common.write_module(ctx.work, name, text)
    key = hashlib.sha256((lib_sha() + "\0" + name + "\0" + text).encode()).hexdigest()[:24]
    slot = CACHE / key
    olean = src.with_suffix(".olean")
    if (slot / "m.olean").exists():
        shutil.copy(slot / "m.olean", olean)
        return common.LeanResult(name, True, "(cached elaboration of identical translator output)", 0.0)
    r = common.lean_compile_one(ctx.work, name)
    if r.ok:
        slot.mkdir(parents=True, exist_ok=True)
        tmp = slot / "m.olean.tmp"
        shutil.copy(olean, tmp)
        tmp.rename(slot / "m.olean")
    return r


def gen_meta(ctx, model_paths=None, modname="GenMeta", ns="Gen"):
    p = common.run_py(common.VERIF / "tools/extract/x_meta.py", [str(x) for x in (model_paths or [])], check=False)
    if p.returncode != 0:
        return None, p.stderr
    text = p.stdout
    if ns != "Gen":
        text = text.replace("namespace Gen", f"namespace {ns}").replace("end Gen", f"end {ns}")
    r = compile_cached(ctx, modname, text)
    if not r.ok:
        raise Broken(f"{modname} does not elaborate:\n{r.out[-3000:]}")
    return modname, ""


def gen_pkg(ctx, pkgdir=None, modname="GenPkg", ns="Gen", hashseed=0, skip_if_same_as=None):
    args = ["--pkgdir", str(pkgdir)] if pkgdir else []
    p = common.run_py(common.VERIF / "tools/extract/x_pkg.py", args, check=False, hashseed=hashseed)
    if p.returncode != 0:
        return None, p.stderr
    text = p.stdout
    if ns != "Gen":
        text = text.replace("namespace Gen", f"namespace {ns}").replace("end Gen", f"end {ns}")
    if skip_if_same_as is not None:
        a = strip_header(skip_if_same_as)
        b = strip_header(text).replace(f"namespace {ns}", "namespace Gen").replace(f"end {ns}", "end Gen")
        if a == b:
            common.write_module(ctx.work, modname, text)
            return "SAME", ""
    r = compile_cached(ctx, modname, text)
    if not r.ok:
        raise Broken(f"{modname} does not elaborate:\n{r.out[-3000:]}")
    return modname, ""


def fresh_python_package(model_paths=None) -> tuple[pathlib.Path | None, str]:
    """Run the *current* python plugin into a scratch dir and put the repo's hand-written runtime
    files next to the emitted types.py.  Caller removes the directory."""
    d = common.scratch_dir("freshpy")
    args = [common.PY, "-B", "-m", "generator", "--plugin", "python", "--output-dir", str(d)]
    if model_paths:
        args += ["--model", *[str(m) for m in model_paths]]
    p = subprocess.run(args, capture_output=True, text=True, env=common.repo_env(0), cwd=str(common.REPO), timeout=600)
    if p.returncode != 0 or not (d / "lsprotocol" / "types.py").exists():
        shutil.rmtree(d, ignore_errors=True)
        return None, (p.stdout + p.stderr)[-3000:]
    for f in ("__init__.py", "_hooks.py", "converters.py", "validators.py", "py.typed"):
        src = common.REPO / "packages/python/lsprotocol" / f
        if src.exists():
            shutil.copy(src, d / "lsprotocol" / f)
    return d, ""


def strip_header(t: str) -> str:
    return "\n".join(l for l in t.splitlines() if not l.startswith("-- generated"))


class Packages:
    """The committed package and the package freshly emitted by the current generator, as Lean
    tables.  `items` = list of dicts {label, ns, mod, pkgdir, same_as_committed}.  Use as a context
    manager so the scratch package directory is always removed."""

    def __init__(self, ctx, want_fresh=True):
        self.ctx, self.want_fresh = ctx, want_fresh
        self.items = []
        self.problems = []
        self.fresh_dir = None

    def __enter__(self):
        ctx = self.ctx
        pk, err = gen_pkg(ctx)
        if pk is None:
            self.problems.append(("committed", "x_pkg failed (package does not import?): " + err[-1500:]))
            ctx.obligation("x_pkg:committed", False, "translator", err)
        else:
            self.items.append({"label": "committed", "ns": "Gen", "mod": "GenPkg", "pkgdir": None, "suffix": "", "same": False})
        if self.want_fresh:
            fresh, err = fresh_python_package()
            self.fresh_dir = fresh
            if fresh is None:
                self.problems.append(("fresh", "the python plugin failed on the committed model: " + err[-1500:]))
                ctx.obligation("generator:python-plugin", False, "translator", err)
            else:
                pkf, err = gen_pkg(ctx, pkgdir=fresh, modname="GenPkgF", ns="GenF",
                                   skip_if_same_as=(ctx.work / "GenPkg.lean").read_text() if pk else None)
                if pkf is None:
                    self.problems.append(("fresh", "x_pkg failed on the freshly generated package: " + err[-1500:]))
                    ctx.obligation("x_pkg:fresh", False, "translator", err)
                else:
                    same = pkf == "SAME"
                    if same:
                        ctx.obligation("fresh-package-tables-identical-to-committed", True, "translator-output-equality",
                                       "tables extracted from the freshly generated package are byte-identical to the committed package's; the same theorems cover both")
                    self.items.append({"label": "fresh", "ns": "GenF", "mod": "GenPkgF", "pkgdir": fresh, "suffix": "F", "same": same})
        return self

    def __exit__(self, *a):
        if self.fresh_dir is not None:
            shutil.rmtree(self.fresh_dir, ignore_errors=True)
        return False
