"""Shared runner for the table properties (C09, C10, C13, ...): regenerated tables for the
committed and the freshly generated package, one instance module per package, a Python oracle
on the live package, optionally a line-protocol correspondence."""
import json
import subprocess

import common
import tables
from common import Broken


def run(ctx, pid, *, inst, theorems, oracle, evals_eval=None, driver_main=None, impl=None, ops=None,
        extra_modules=(), eval_template=None, want_fresh=True, oracle_args=()):
    """inst(ns, mod, suffix) -> Lean text; theorems(suffix) -> list of names."""
    mod, err = tables.gen_meta(ctx)
    if mod is None:
        raise Broken("x_meta failed on the committed lsp.json: " + err)
    problems = []
    with tables.Packages(ctx, want_fresh=want_fresh) as pk:
        problems += [(a, b) for a, b in pk.problems]
        for it in pk.items:
            if it["same"]:
                continue
            name = "Inst" + it["suffix"]
            spec = inst(it["ns"], it["mod"], it["suffix"])
            if isinstance(spec, str):
                spec = [[(name, spec)]]
            layers = []
            for layer in spec:
                for (mn, text) in layer:
                    common.write_module(ctx.work, mn, text)
                layers.append([mn for mn, _ in layer])
            res = common.lean_compile(ctx.work, layers)
            hits = common.audit_sources([ctx.work / (mn + ".lean") for l in layers for mn in l])
            if hits:
                raise Broken(f"forbidden constructs: {hits}")
            failed = ctx.add_lean_results(res, theorems_expected={name: theorems(it["suffix"])})
            for r in failed:
                detail = r.out[-1500:]
                if eval_template:
                    f = common.write_module(ctx.work, "Eval" + it["suffix"], eval_template.format(ns=it["ns"], mod=it["mod"]))
                    p = subprocess.run(["lean", str(f)], capture_output=True, text=True, env=common.lean_env(ctx.work), cwd=str(ctx.work))
                    lines = [l for l in p.stdout.splitlines() if l.startswith("FAIL")]
                    ctx.notes.append(f"{it['label']}: Lean checker localisation: {lines[:8]}")
                    detail = "\n".join(lines[:20]) + "\n" + detail
                problems.append((it["label"], f"{name}: {detail}"))
            # correspondence through the driver
            if driver_main and impl and ops:
                main = common.write_module(ctx.work, "Main" + it["suffix"], driver_main.format(ns=it["ns"], mod=it["mod"]))
                model_out = common.lean_run(ctx.work, main, "\n".join(ops) + "\n").split("\n")[:-1]
                extra = {"PYTHONPATH": f"{it['pkgdir']}:{common.REPO}:{common.VERIF}/tools"} if it["pkgdir"] else None
                impl_out = common.run_py(impl, stdin="\n".join(ops) + "\n", extra_env=extra).stdout.split("\n")[:-1]
                dis = common.diff_streams(ctx, ops, model_out, impl_out)
                for op, m, i in dis[:5]:
                    ctx.notes.append(f"{it['label']}: correspondence disagreement: {op}: model={m} impl={i}")
                if dis:
                    problems.append((it["label"], f"correspondence: {len(dis)} disagreements, first {dis[0]}"))
        # oracle on both packages
        for it in pk.items:
            args = (["--pkgdir", str(it["pkgdir"])] if it["pkgdir"] else []) + list(oracle_args)
            p = common.run_py(oracle, args, check=False)
            if p.returncode != 0:
                ctx.notes.append(f"oracle could not run on the {it['label']} package: {p.stderr[-300:]}")
                problems.append((it["label"], "oracle crashed: " + p.stderr[-500:]))
                continue
            out = json.loads(p.stdout)
            mism = out["mismatches"] if isinstance(out, dict) else out
            if isinstance(out, dict):
                ctx.corr["evaluations"] += out.get("evaluations", 0)
                ctx.corr["distinct_nontrivial"] += out.get("distinct", 0)
                for s in out.get("samples", [])[:3]:
                    ctx.sample(s)
            for m in mism:
                ctx.violation(f"{pid}|{m['site']}|{m['aspect']}",
                              f"{it['label']} package: {m['site']} {m['aspect']}: expected {m['expected']}, observed {m['observed']}",
                              {"package": it["label"], **m, "how": f"./check {pid} --replay <this file>"})
    if problems and not ctx.violations:
        ctx.violation(f"{pid}|proof", f"{pid} obligations / correspondence no longer check and the oracle found no failing case on the live package",
                      {"broken": problems, "theorems": theorems("")}, no_input=True)


def replay(pid, path, oracle):
    d = json.load(open(path))
    print(json.dumps(d, indent=1))
    fresh = None
    try:
        args = []
        if d.get("package") == "fresh":
            fresh, err = tables.fresh_python_package()
            if fresh:
                args = ["--pkgdir", str(fresh)]
        p = common.run_py(oracle, args, check=False)
        out = json.loads(p.stdout) if p.returncode == 0 else []
        mism = out["mismatches"] if isinstance(out, dict) else out
    finally:
        if fresh:
            import shutil
            shutil.rmtree(fresh, ignore_errors=True)
    hit = [m for m in mism if m["site"] == d.get("site") and m["aspect"] == d.get("aspect")]
    print("still failing on the real package:" if hit else "no longer failing", hit)
    return 1 if hit else 0


def sliced_all(hdr: str, prefix: str, xs: str, pred: str, n: int, total: int, final_name: str):
    """Lean modules proving `xs.all pred = true` by per-slice `decide +kernel` in parallel files.
    Returns (layer_modules [(name, text)], text_of_final_lemma, import_lines)."""
    N = max(1, (total + n - 1) // n)
    layer = []
    for k in range(N):
        layer.append((f"{prefix}{k}", hdr + f"theorem {prefix}_{k} : (slice ({xs}) {k} {n}).all ({pred}) = true := by decide +kernel\n"))
    cases = "\n".join(f"    | {k}, _ => exact {prefix}_{k}" for k in range(N))
    lemma = f"""theorem {prefix}_len : ({xs}).length = {total} := by decide +kernel
theorem {final_name} : ({xs}).all ({pred}) = true := by
  apply all_of_slices _ _ {n} {N} (by decide) (by rw [{prefix}_len]; decide)
  intro k hk
  match k, hk with
{cases}
    | j + {N}, h => omega
"""
    imports = "".join(f"import {m}\n" for m, _ in layer)
    return layer, lemma, imports
