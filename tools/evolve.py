"""Spec-evolution edits of the metamodel (C06): each edit keeps the document schema-valid and inside
the generator's documented input discipline.  `corpus(doc)` = one evolved model per edit kind plus
the awkward cases; `seeded(doc, rnd, k)` = random sequences of edits.  Pure stdlib (jsonschema
validation is done by the caller)."""
from __future__ import annotations

import copy
import random

B = lambda n: {"kind": "base", "name": n}  # noqa: E731
R = lambda n: {"kind": "reference", "name": n}  # noqa: E731


def _fresh(doc, stem):
    names = {s["name"] for s in doc["structures"]} | {e["name"] for e in doc["enumerations"]} | {a["name"] for a in doc["typeAliases"]}
    i = 0
    while f"{stem}{i or ''}" in names:
        i += 1
    return f"{stem}{i or ''}"


def _fresh_method(doc, stem):
    """(method, UpperCamel suffix) not yet used by any request / notification (method or typeName)"""
    used = {m["method"] for m in doc["requests"] + doc["notifications"]}
    i = 0
    while f"{stem}{i or ''}" in used:
        i += 1
    return f"{stem}{i or ''}", str(i or "")


def new_structure(doc, rnd):
    n = _fresh(doc, "EvolvedOptions")
    doc["structures"].append({"name": n, "properties": [
        {"name": "label", "type": B("string")},
        {"name": "count", "type": B("uinteger"), "optional": True},
        {"name": "offset", "type": B("integer")},
        {"name": "ratio", "type": B("decimal"), "optional": True},
        {"name": "enabled", "type": B("boolean"), "optional": True},
        {"name": "target", "type": B("DocumentUri"), "optional": True}], "documentation": "An evolved structure."})
    return f"new structure {n} with base-typed properties"


def keyword_properties(doc, rnd):
    n = _fresh(doc, "EvolvedKeywordHolder")
    doc["structures"].append({"name": n, "properties": [
        {"name": "class", "type": B("string")}, {"name": "from", "type": B("uinteger"), "optional": True},
        {"name": "global", "type": B("boolean"), "optional": True}, {"name": "import", "type": R("Range"), "optional": True},
        {"name": "return", "type": {"kind": "or", "items": [B("string"), B("null")]}},
        {"name": "lambda", "type": {"kind": "or", "items": [R("Range"), B("null")]}, "optional": True},
        {"name": "async", "type": {"kind": "stringLiteral", "value": "evolved"}}]})
    return f"structure {n} whose property names are Python keywords (plain, null-admitting and string-literal ones)"


def new_properties(doc, rnd):
    s = rnd.choice([s for s in doc["structures"] if s["name"] in ("FoldingRange", "DocumentLink", "Hover", "ShowMessageParams", "CodeLens")])
    if any(p["name"] == "evolvedRef" for p in s["properties"]):
        return f"(properties already added to {s['name']})"
    s["properties"] += [
        {"name": "evolvedRef", "type": R("Range"), "optional": True},
        {"name": "evolvedList", "type": {"kind": "array", "element": R("Position")}, "optional": True},
        {"name": "evolvedMap", "type": {"kind": "map", "key": B("string"), "value": B("uinteger")}, "optional": True},
        {"name": "evolvedPair", "type": {"kind": "tuple", "items": [B("uinteger"), B("uinteger")]}, "optional": True},
        {"name": "evolvedNullable", "type": {"kind": "or", "items": [B("string"), B("null")]}}]
    return f"reference / array / map / tuple / null-admitting properties added to {s['name']}"


def literal_property(doc, rnd):
    n = _fresh(doc, "EvolvedLiteralHolder")
    lit = {"kind": "literal", "value": {"properties": [{"name": "inner", "type": B("string")}, {"name": "depth", "type": B("uinteger"), "optional": True}]}}
    lit2 = {"kind": "literal", "value": {"properties": [{"name": "firstValue", "type": B("string")}, {"name": "secondItem", "type": B("uinteger")},
                                                       {"name": "thirdThing", "type": B("boolean"), "optional": True}]}}
    lit3 = {"kind": "literal", "value": {"properties": [{"name": "alphaBeta", "type": R("Range")}, {"name": "gammaDelta", "type": B("string")}]}}
    doc["structures"].append({"name": n, "properties": [
        # property names the rust plugin's literal naming ignores: the name falls back to the literal's own property names
        {"name": "options", "type": lit2, "optional": True},
        {"name": "result", "type": {"kind": "array", "element": lit3}, "optional": True},
        {"name": "detail", "type": lit},
        {"name": "details", "type": {"kind": "array", "element": copy.deepcopy(lit)}, "optional": True},
        {"name": "maybeDetail", "type": {"kind": "or", "items": [copy.deepcopy(lit), B("null")]}}]})
    return f"structure {n} using anonymous literal types (property, array element, union member)"


def extends_and_mixins(doc, rnd):
    base = _fresh(doc, "EvolvedBase")
    doc["structures"].append({"name": base, "properties": [{"name": "baseProp", "type": B("string")}], "mixins": [R("WorkDoneProgressOptions")]})
    n = _fresh(doc, "EvolvedDerived")
    doc["structures"].append({"name": n, "properties": [{"name": "own", "type": B("boolean"), "optional": True}],
                              "extends": [R(base)], "mixins": [R("StaticRegistrationOptions")]})
    # a mixin target that itself has bases: mixins-of-mixins and extends-under-a-mixin must be flattened transitively
    m1 = _fresh(doc, "EvolvedMixinMid")
    doc["structures"].append({"name": m1, "properties": [{"name": "midProp", "type": B("integer"), "optional": True}],
                              "mixins": [R("WorkDoneProgressOptions")], "extends": [R("TextDocumentRegistrationOptions")]})
    m2 = _fresh(doc, "EvolvedMixinUser")
    doc["structures"].append({"name": m2, "properties": [{"name": "label", "type": B("string")}], "mixins": [R(m1), R("RenameOptions")]})
    return (f"structure {n} extending {base} (which has a mixin) and mixing in StaticRegistrationOptions; "
            f"structure {m2} mixing in {m1} (which itself has a mixin and a base) and RenameOptions (which has a mixin)")


def closed_enum(doc, rnd):
    n = _fresh(doc, "EvolvedKind")
    doc["enumerations"].append({"name": n, "type": B("string"), "values": [
        {"name": "Alpha", "value": "alpha"}, {"name": "import", "value": "import"}, {"name": "Gamma", "value": "gamma", "proposed": True}]})
    m = _fresh(doc, "EvolvedLevel")
    doc["enumerations"].append({"name": m, "type": B("uinteger"), "values": [{"name": "Low", "value": 1}, {"name": "High", "value": 9}]})
    h = _fresh(doc, "EvolvedEnumHolder")
    doc["structures"].append({"name": h, "properties": [{"name": "kind", "type": R(n)}, {"name": "level", "type": R(m), "optional": True},
                                                        {"name": "kinds", "type": {"kind": "array", "element": R(n)}, "optional": True}]})
    return f"closed enumerations {n} (one member named like a Python keyword) and {m}, used by {h}"


def open_enums(doc, rnd):
    """NOT part of EDITS: the property lists *closed* enumerations among the evolution edits; a new enumeration with
    supportsCustomValues needs a hand-written `Union[Enum, base]` hook in _hooks.py and is outside the generator's input discipline
    (the package emitted for such a model cannot structure the new enum's use sites).  Kept for experiments only.
    Enumerations that support custom values, one per base type the metamodel allows (string, integer, uinteger), referenced by a
    plain property, an optional property and an array: every use site has to accept any value of the base type."""
    made = []
    for base, vals in (("string", [("Alpha", "alpha"), ("Beta", "beta")]), ("integer", [("Neg", -3), ("Pos", 4)]), ("uinteger", [("One", 1), ("Two", 2)])):
        n = _fresh(doc, "EvolvedOpen" + base.capitalize())
        doc["enumerations"].append({"name": n, "type": B(base), "supportsCustomValues": True,
                                    "values": [{"name": a, "value": b} for a, b in vals]})
        made.append(n)
    h = _fresh(doc, "EvolvedOpenEnumHolder")
    props = []
    for n in made:
        low = n[0].lower() + n[1:]
        props += [{"name": low, "type": R(n)}, {"name": low + "Maybe", "type": R(n), "optional": True},
                  {"name": low + "List", "type": {"kind": "array", "element": R(n)}, "optional": True}]
    doc["structures"].append({"name": h, "properties": props})
    return f"open enumerations {', '.join(made)} (supportsCustomValues) used by {h} as property, optional property and array element"


def enum_value(doc, rnd):
    e = next(e for e in doc["enumerations"] if e["name"] == "MarkupKind")
    if any(v["name"] == "Asciidoc" for v in e["values"]):
        return "(MarkupKind value already added)"
    e["values"].append({"name": "Asciidoc", "value": "asciidoc", "since": "9.9.9"})
    return "new value on the closed enumeration MarkupKind"


def request_with_typename(doc, rnd):
    p = _fresh(doc, "EvolvedQueryParams")
    doc["structures"].append({"name": p, "properties": [{"name": "query", "type": B("string")}]})
    m, k = _fresh_method(doc, "evolved/query")
    doc["requests"].append({"method": m, "typeName": f"EvolvedQuery{k}Request", "messageDirection": "clientToServer",
                            "params": R(p), "result": {"kind": "or", "items": [{"kind": "array", "element": R("Location")}, B("null")]}})
    m, k = _fresh_method(doc, "evolved/didQuery")
    doc["notifications"].append({"method": m, "typeName": f"EvolvedDidQuery{k}Notification", "messageDirection": "serverToClient", "params": R(p)})
    return "request and notification with typeName"


def request_without_typename(doc, rnd):
    p = _fresh(doc, "EvolvedPingParams")
    doc["structures"].append({"name": p, "properties": [{"name": "token", "type": B("string"), "optional": True}]})
    doc["requests"].append({"method": _fresh_method(doc, "evolved/pingPong")[0], "messageDirection": "both", "params": R(p), "result": B("null")})
    doc["notifications"].append({"method": _fresh_method(doc, "evolved/didPing")[0], "messageDirection": "clientToServer", "params": R(p)})
    doc["notifications"].append({"method": _fresh_method(doc, "$/evolvedTick")[0], "messageDirection": "both"})
    return "request and notifications without typeName (one without params)"


def marks(doc, rnd):
    s = rnd.choice([s for s in doc["structures"] if s["properties"] and not s.get("proposed")])
    s["properties"][0]["deprecated"] = "use something else"
    s["properties"][-1]["since"] = "9.9.9"
    n = _fresh(doc, "EvolvedProposed")
    doc["structures"].append({"name": n, "proposed": True, "since": "9.9.9", "properties": [{"name": "x", "type": B("string"), "proposed": True}]})
    m, k = _fresh_method(doc, "evolved/proposedThing")
    doc["requests"].append({"method": m, "typeName": f"EvolvedProposedThing{k}Request", "messageDirection": "clientToServer",
                            "params": R(n), "result": B("null"), "proposed": True})
    # the marks spelt out with their default: `"proposed": false` says the same as leaving the key out (lsp.schema.json: "If omitted,
    # the ... is final"), so such items must NOT be feature-gated / marked proposed
    finals = [x for x in doc["structures"] if not x.get("proposed") and x["properties"] and x is not s]
    for x in rnd.sample(finals, 3):
        x["proposed"] = False
        x["properties"][0].setdefault("proposed", False)
    e = rnd.choice([x for x in doc["enumerations"] if not x.get("proposed")])
    e["proposed"] = False
    e["values"][0].setdefault("proposed", False)
    a = rnd.choice([x for x in doc["typeAliases"] if not x.get("proposed")])
    a["proposed"] = False
    q = rnd.choice([x for x in doc["requests"] if not x.get("proposed")])
    q["proposed"] = False
    return f"proposed / deprecated / since marks ({s['name']}, new proposed structure {n} and request; explicit proposed=false on final items incl. {e['name']}, {a['name']}, {q['method']})"


def remove_optional(doc, rnd):
    cands = [(s, p) for s in doc["structures"] for p in s["properties"] if p.get("optional") and s["name"] in ("CompletionItem", "Diagnostic", "CodeAction", "DocumentSymbol", "InlayHint")]
    s, p = rnd.choice(cands)
    s["properties"].remove(p)
    return f"optional property {s['name']}.{p['name']} removed"


def remove_probed_optional(doc, rnd):
    s = next(s for s in doc["structures"] if s["name"] == "StaticRegistrationOptions")
    s["properties"] = [p for p in s["properties"] if p["name"] != "id"]
    return "optional property StaticRegistrationOptions.id (probed by the provider hooks) removed"


def reorder_properties(doc, rnd):
    """The `properties` arrays of a few structures listed in another order (no wire change: JSON objects are unordered).
    Position / Range / Location are among them: their hand-written comparison and repr must not depend on declaration order."""
    names = ["Position", "Range", "Location", "TextEdit", "Diagnostic", "WorkspaceFolder"]
    done = []
    for s in doc["structures"]:
        if s["name"] in names and len(s["properties"]) > 1:
            s["properties"] = list(reversed(s["properties"]))
            done.append(s["name"])
    return "properties of " + ", ".join(done) + " listed in reverse order"


def explicit_defaults(doc, rnd):
    """The same metamodel spelt differently: `"optional": false` written out on properties that leave the key out (lsp.schema.json:
    an omitted `optional` means mandatory), among them null-admitting ones and those of a few base structures.  Nothing the
    generators emit may depend on the spelling."""
    nullish = [(s, p) for s in doc["structures"] for p in s["properties"]
               if "optional" not in p and p["type"]["kind"] == "or" and any(i.get("kind") == "base" and i.get("name") == "null" for i in p["type"]["items"])]
    plain = [(s, p) for s in doc["structures"] for p in s["properties"] if "optional" not in p and (s, p) not in nullish]
    chosen = nullish + rnd.sample(plain, min(25, len(plain)))
    for _, p in chosen:
        p["optional"] = False
    return f'explicit "optional": false on {len(chosen)} mandatory properties ({len(nullish)} of them null-admitting, e.g. {nullish[0][0]["name"]}.{nullish[0][1]["name"]})'


EDITS = [explicit_defaults, new_structure, keyword_properties, new_properties, literal_property, extends_and_mixins, closed_enum, enum_value,
         request_with_typename, request_without_typename, marks, remove_optional, remove_probed_optional, reorder_properties]


def corpus(doc):
    """(tag, description, evolved doc): one per edit kind, deterministic"""
    out = []
    for e in EDITS:
        d = copy.deepcopy(doc)
        desc = e(d, random.Random(7))
        out.append((e.__name__, desc, d))
    return out


def seeded(doc, rnd, n, length=(2, 5)):
    out = []
    for i in range(n):
        d = copy.deepcopy(doc)
        descs = []
        for _ in range(rnd.randint(*length)):
            e = rnd.choice(EDITS)
            try:
                descs.append(e(d, rnd))
            except (StopIteration, IndexError):
                continue
        out.append((f"seq{i}", "; ".join(descs), d))
    return out


def discipline_problems(doc):
    """What makes a document fall outside the generator's input discipline even though the schema accepts it:
    duplicate type names, methods, typeNames, property names or enumeration members."""
    out = []

    def dups(xs, what):
        seen = set()
        for x in xs:
            if x in seen:
                out.append(f"duplicate {what} {x}")
            seen.add(x)
    dups([t["name"] for k in ("structures", "enumerations", "typeAliases") for t in doc[k]], "type name")
    dups([m["method"] for m in doc["requests"]] , "request method")
    dups([m["method"] for m in doc["notifications"]], "notification method")
    dups([m["typeName"] for m in doc["requests"] + doc["notifications"] if m.get("typeName")], "typeName")
    for st in doc["structures"]:
        dups([f"{st['name']}.{p['name']}" for p in st["properties"]], "property")
    for e in doc["enumerations"]:
        dups([f"{e['name']}.{v['name']}" for v in e["values"]], "enumeration member")
    return out
