"""Shared runner for the converter properties (C01-C03, C10, C11, C13-C15).

  1. regenerate the environment of the Lean converter model from /repo: package tables (x_pkg),
     validator bodies (x_valid), hook programs and disambiguator closures (x_hooks);
  2. property-specific instance theorems compiled against them (kernel obligations);
  3. correspondence: the model's executable definitions (Lean driver) and the real converter on the
     same generated inputs, canonicalised outputs diffed;
  4. the direct oracle on the real code (tools/search/convcheck.py) = the failing-input search.
"""
from __future__ import annotations

import json
import os

import common
import convops
import tables
import valuegen
from common import Broken

MAIN = """import LspVerif.Driver.Conv
import GenPkg
import GenHooks
import GenValid
def main : IO Unit := LspVerif.Driver.convMain { pkg := Gen.pkg, hooks := Gen.hooks, disamb := Gen.disamb, vld := Gen.vldEnv }
"""

ENV_DEF = """import LspVerif.Core.Cattrs
import GenPkg
import GenHooks
import GenValid
open LspVerif
namespace Gen
def env : Env := { pkg := Gen.pkg, hooks := Gen.hooks, disamb := Gen.disamb, vld := Gen.vldEnv }
end Gen
"""


def build_env(ctx, need_meta=True, pkgdir=None, model=None):
    """Returns list of problems (strings); on success the modules GenMeta, GenPkg, GenValid,
    GenHooks, GenEnv are compiled in ctx.work.  `pkgdir` / `model`: a package emitted by the current generator for another
    (evolved) metamodel, with the hand-written runtime files next to it, instead of the committed package and lsp.json."""
    problems = []
    extra = {"PYTHONPATH": f"{pkgdir}:{common.REPO}:{common.VERIF}/tools"} if pkgdir else None
    if need_meta:
        mod, err = tables.gen_meta(ctx, [model] if model else None)
        if mod is None:
            raise Broken("x_meta failed on the metamodel: " + err)
    pk, err = tables.gen_pkg(ctx, pkgdir=pkgdir)
    if pk is None:
        problems.append("x_pkg failed (package does not import?): " + err[-1200:])
        ctx.obligation("x_pkg", False, "translator", err)
    p = common.run_py(common.VERIF / "tools/extract/x_valid.py", check=False, extra_env=extra)
    if p.returncode != 0:
        problems.append("x_valid: " + p.stderr.strip()[-800:])
        ctx.obligation("x_valid", False, "translator", p.stderr)
    else:
        r = tables.compile_cached(ctx, "GenValid", p.stdout)
        if not r.ok:
            raise Broken("GenValid does not elaborate: " + r.out[-2000:])
    h = common.run_py(common.VERIF / "tools/extract/x_hooks.py", check=False, extra_env=extra)
    if h.returncode != 0:
        problems.append("x_hooks: " + h.stderr.strip()[-1200:])
        ctx.obligation("x_hooks", False, "translator", h.stderr)
    else:
        r = tables.compile_cached(ctx, "GenHooks", h.stdout)
        if not r.ok:
            raise Broken("GenHooks does not elaborate: " + r.out[-2000:])
    if not problems:
        r = tables.compile_cached(ctx, "GenEnv", ENV_DEF)
        if not r.ok:
            raise Broken("GenEnv does not elaborate: " + r.out[-2000:])
        common.write_module(ctx.work, "MainConv", MAIN)
    return problems


def correspondence(ctx, ops: list[str]) -> list[str]:
    """Run the ops through the Lean driver and the real converter; returns problems."""
    if not ops:
        return []
    text = "\n".join(ops) + "\n"
    impl = common.run_py(common.VERIF / "tools/corr/conv_impl.py", stdin=text).stdout.split("\n")[:-1]
    model = common.lean_run(ctx.work, ctx.work / "MainConv.lean", text).split("\n")[:-1]
    dis = common.diff_streams(ctx, ops, model, impl, nontrivial=lambda op, out: out != "err" or True)
    outs = {}
    for o in impl:
        k = "err" if o == "err" else ("ok" if o.startswith("ok") else o.split(":")[0])
        outs[k] = outs.get(k, 0) + 1
    ctx.dist.setdefault("impl_outcomes", {})
    for k, v in outs.items():
        ctx.dist["impl_outcomes"][k] = ctx.dist["impl_outcomes"].get(k, 0) + v
    for op, m, i in dis[:5]:
        ctx.notes.append(f"correspondence disagreement: {op[:300]}: model={m[:300]} impl={i[:300]}")
    if dis:
        return [f"correspondence: {len(dis)} disagreements between the Lean converter model and the real converter; first: {dis[0][0][:200]} model={dis[0][1][:200]} impl={dis[0][2][:200]}"]
    return []


def streams(ctx):
    meta = valuegen.Meta.load([common.REPO / "generator/lsp.json"])
    return convops.Streams(meta, ctx.seed, ctx.thorough())


def run_oracle(ctx, pid, extra_args=()):
    args = [pid, "--seed", str(ctx.seed)] + (["--thorough"] if ctx.thorough() else []) + list(extra_args)
    p = common.run_py(common.VERIF / "tools/search/convcheck.py", args, check=False, timeout=3600)
    if p.returncode != 0:
        return None, p.stderr[-1500:]
    return json.loads(p.stdout), ""


def report_oracle(ctx, pid, out):
    ctx.extra["oracle"] = {"evaluations": out["evaluations"], "distinct_inputs": out["distinct"],
                           "failing_inputs": out.get("total_failing_inputs", 0)}
    for s in out.get("samples", [])[:3]:
        ctx.sample(s)
    for m in out["mismatches"]:
        key = f"{pid}|{m['site']}|{m['aspect']}"
        ctx.violation(key, f"{m['site']} {m['aspect']}: expected {m['expected'][:160]}, observed {m['observed'][:160]}",
                      {"root": m.get("root"), "input": m.get("input"), "aspect": m["aspect"], "expected": m["expected"],
                       "observed": m["observed"], "how": f"./check {pid} --replay <this file>"})


# ---------------------------------------------------------------------------------------------
# T1: structuring every value that has a typed reading succeeds with a typed reading (Props/Total.lean)

TOTAL_HDR = "import LspVerif.Props.C01\nimport LspVerif.Props.C04\nimport GenEnv\nimport GenBad\nopen LspVerif\n"
LINK_HDR = "import LspVerif.Props.C01\nimport LspVerif.Props.C04\nimport GenLink\nopen LspVerif\n"

MAIN_REP = """import LspVerif.Driver.Rep
import GenMeta
import GenEnv
import GenBad
def main : IO Unit := LspVerif.Driver.repMain Gen.env Gen.bad (some (LspVerif.customize Gen.model))
"""

LOCALISE = """import LspVerif.Props.C01
import GenMeta
import GenEnv
import GenBad
open LspVerif
def showT (t : PyTy) : String := (repr t).pretty 100000
def main : IO Unit := do
  for t in progFailures Gen.env Gen.bad Gen.progTys do IO.println ("PROG " ++ showT t)
  for c in clsFailures Gen.env Gen.bad Gen.progTys do IO.println ("CLS " ++ c.toString)
  for c in clsFailuresU Gen.env do IO.println ("CLSU " ++ c.toString)
  for s in structFailures (customize Gen.model) Gen.env Gen.bad do IO.println ("STRUCT-NOT-COVERED " ++ s.toString)
  for m in messageFailures (customize Gen.model) Gen.env Gen.bad do IO.println ("MESSAGE-NOT-COVERED " ++ m.1.toString ++ " " ++ m.2.toString)
"""


_STALE = {}


def still_open(ctx, k) -> bool:
    """An open known finding whose recorded witness no longer fails on the real code is stale (the defect was repaired): its
    exclusions are dropped for this run — the theorems must then hold without them — and a note says so.  The file is never
    written at run time."""
    if k.get("status") != "open":
        return False
    w = k.get("witness")
    if not w or not k.get("excluded_annotation"):
        return True
    key = k.get("key", "")
    if key not in _STALE:
        p = common.run_py(common.VERIF / "tools/search/convcheck.py", [k.get("property", "C01"), "--one", w["root"], json.dumps(w["input"])], check=False)
        fails = p.returncode != 0 or bool(json.loads(p.stdout or "{}").get("mismatches"))
        _STALE[key] = not fails
        if not fails:
            ctx.notes.append(f"open known finding {key} no longer reproduces on the real code (stale entry): its exclusion is NOT applied in this run")
    return not _STALE[key]


def excluded_responses(ctx):
    """response classes outside the link theorem because their `result` annotation is excluded for an open known finding (method names)"""
    out = []
    for k in ctx.known:
        if still_open(ctx, k):
            for m in k.get("excluded_response_methods", []):
                if m not in out:
                    out.append(m)
    return out


def excluded_annotations(ctx):
    """annotations excluded from T1/T2 because of an open known finding (Lean terms)"""
    out = []
    for k in ctx.known:
        if still_open(ctx, k) and k.get("excluded_annotation") and k["excluded_annotation"] not in out:
            out.append(k["excluded_annotation"])
    return out


def total_layers(ctx, pid):
    """Modules instantiating T1 on the regenerated environment.  Returns (layers, theorem names)."""
    import re
    import tableprop
    bad = excluded_annotations(ctx)
    genbad = ("GenBad", "import LspVerif.Core.Rep\nimport LspVerif.Core.Name\nopen LspVerif\nnamespace Gen\n"
              f"def bad : List PyTy := {common.lean_list(bad)}\nend Gen\n")
    genlink = ("GenLink", "import LspVerif.Spec.Link\nimport GenMeta\nimport GenEnv\nimport GenBad\nopen LspVerif\nnamespace Gen\n"
               "/-- the metamodel with the documented customisation (CompletionItemKind accepts custom values) -/\ndef M : Model := customize Gen.model\n"
               f"def excludedResponses : List Name := {common.lean_list(common.lean_name(m) for m in excluded_responses(ctx))}\nend Gen\n")
    nstructs = len(re.findall(r"^def s\d+ : Struct", (ctx.work / "GenMeta.lean").read_text(), re.M))
    llayer, llemma, limports = tableprop.sliced_all(LINK_HDR, "ShLk", "Gen.M.structures", "structCovers Gen.M Gen.env Gen.bad", 20, nstructs, "Sh_link_structs_chk")
    linkmsgs = ("ShLkM", LINK_HDR + """
/-- every request and notification class covers its JSON-RPC envelope (jsonrpc, id, method, params as the metamodel declares them) … -/
theorem Sh_link_requests : Gen.M.requests.all (requestCovered Gen.M Gen.env Gen.bad) = true := by decide +kernel
theorem Sh_link_notifications : Gen.M.notifications.all (notificationCovered Gen.M Gen.env Gen.bad) = true := by decide +kernel
/-- … and so does every response class, except those whose `result` annotation is excluded for an open known finding — exactly those -/
theorem Sh_link_responses : Gen.M.requests.all (fun r => responseCovered Gen.M Gen.env Gen.bad r != Gen.excludedResponses.contains r.method) = true := by decide +kernel
/-- every type alias of the metamodel is exported by the package as an alias object whose annotation covers it and lies inside the checked universe -/
theorem Sh_link_aliases : Gen.M.aliases.all (aliasCovered Gen.M Gen.env Gen.bad Gen.progTys) = true := by decide +kernel
/-- the two range validators (bodies translated from validators.py on this run) accept their range -/
theorem Sh_link_int32 (i : Int) (h : inInt32 i = true) : (Gen.env.vld.int32 (.int i)).accepted = true := by
  simp only [inInt32, Bool.and_eq_true, decide_eq_true_eq] at h
  simp [Gen.env, Gen.vldEnv, Gen.integer_validator, VR.accepted, h.1, h.2]
theorem Sh_link_uint31 (i : Int) (h : inUInt31 i = true) : (Gen.env.vld.uint31 (.int i)).accepted = true := by
  simp only [inUInt31, Bool.and_eq_true, decide_eq_true_eq] at h
  simp [Gen.env, Gen.vldEnv, Gen.uinteger_validator, VR.accepted, h.1, h.2]
""")
    txt = (ctx.work / "GenPkg.lean").read_text()
    ncls = len(re.findall(r"^def c\d+ : Cls", txt, re.M))
    layer, lemma, imports = tableprop.sliced_all(TOTAL_HDR, "ShT1c", "Gen.env.pkg.classes", "clsOK Gen.env Gen.bad Gen.progTys", 24, ncls, "Sh_T1_classes_chk")
    progs = ("prog", TOTAL_HDR + """
/-- every program that dispatches a union (registered hook or the disambiguator cattrs built) passes the dispatch checker -/
theorem Sh_T1_progs : progsOK Gen.env Gen.bad Gen.progTys = true := by decide +kernel
/-- the excluded annotations (open known findings) are real dispatch points, and the checker does reject their programs -/
theorem Sh_T1_excluded_are_rejected : Gen.bad.all (fun t => inU Gen.progTys t && !(progOK Gen.env [] Gen.progTys t)) = true := by decide +kernel
""")
    progs = ("ShT1p", progs[1])
    final = imports + limports + "import ShT1p\nimport ShLkM\n" + LINK_HDR + lemma + llemma + f"""
theorem {pid}_T1_progs : progsOK Gen.env Gen.bad Gen.progTys = true := Sh_T1_progs
theorem {pid}_T1_excluded_are_rejected : Gen.bad.all (fun t => inU Gen.progTys t && !(progOK Gen.env [] Gen.progTys t)) = true := Sh_T1_excluded_are_rejected
theorem {pid}_T1_classes : clsesOK Gen.env Gen.bad Gen.progTys = true := Sh_T1_classes_chk

/-- **T1 on the regenerated package.**  For every annotation that passes the structural closure
    check and every JSON value with a typed reading at it (no bound on size or nesting; every union
    alternative), structuring succeeds and returns a typed reading of that value: an instance of the
    requested class, recursively, at a union an instance of an alternative the value is valid for. -/
theorem {pid}_structure_total (ty : PyTy) (k : Nat) (hty : lightOK Gen.env Gen.bad Gen.progTys k ty = true)
    (j : Json) (v : PyVal) (n : Nat) (h : rep Gen.env Gen.bad n ty v j = true) :
    ∃ v' m, structTy Gen.env m ty j = .ok v' ∧ ∃ k', rep Gen.env Gen.bad k' ty v' j = true :=
  T1 Gen.env Gen.bad Gen.progTys {pid}_T1_progs {pid}_T1_classes ty k hty j v n h

/-- the theorem applies to every generated class (request, response, notification, structure) ... -/
theorem {pid}_T1_roots : Gen.env.pkg.classes.all (fun c => lightOK Gen.env Gen.bad Gen.progTys 1 (.cls c.name)) = true := by decide +kernel
/-- ... and its hypothesis is satisfiable: a concrete nested value has a typed reading (kernel evaluation, a test) -/
example : (match structTy Gen.env 30 (.cls n!"Range") (.obj [(n!"start", .obj [(n!"line", .int 1), (n!"character", .int 2)]), (n!"end", .obj [(n!"line", .int 3), (n!"character", .int 4)])]) with
           | .ok v => rep Gen.env Gen.bad 30 (.cls n!"Range") v (.obj [(n!"start", .obj [(n!"line", .int 1), (n!"character", .int 2)]), (n!"end", .obj [(n!"line", .int 3), (n!"character", .int 4)])])
           | .error _ => false) = true := by decide +kernel

/-- the table fact T2 needs about every generated class: attribute names distinct, wire names distinct, the structure and
    the unstructure function use the same wire name, literal-defaulted attributes are always written -/
theorem {pid}_T2_classes : clsesOKU Gen.env = true := by decide +kernel

/-- **T2 on the regenerated package.**  A typed reading `v` of `j` unstructures (both calling conventions) to a `j'`
    related to `j` by the documented null rule, and `v` reads `j'` too. -/
theorem {pid}_unstructure_total (ty : PyTy) (j : Json) (v : PyVal) (n : Nat) (h : rep Gen.env Gen.bad n ty v j = true) :
    (∃ j' m, unstruct Gen.env m (some ty) v = .ok j' ∧ (∃ k, nrel Gen.env k ty j j' = true) ∧ ∃ k, rep Gen.env Gen.bad k ty v j' = true) ∧
    (∃ j' m, unstruct Gen.env m Option.none v = .ok j' ∧ (∃ k, nrel Gen.env k ty j j' = true) ∧ ∃ k, rep Gen.env Gen.bad k ty v j' = true) :=
  T2 Gen.env Gen.bad {pid}_T2_classes h

/-- **C01 / C03 on the regenerated package** (T1 ∘ T2): every JSON value with a typed reading at a checked annotation is
    structured successfully into a typed reading of it, which unstructures successfully to the value itself up to the null rule. -/
theorem {pid}_roundtrip (ty : PyTy) (k : Nat) (hty : lightOK Gen.env Gen.bad Gen.progTys k ty = true)
    (j : Json) (v : PyVal) (n : Nat) (h : rep Gen.env Gen.bad n ty v j = true) :
    ∃ v', (∃ m, structTy Gen.env m ty j = .ok v') ∧ (∃ k', rep Gen.env Gen.bad k' ty v' j = true) ∧
      (∃ j' m, unstruct Gen.env m (some ty) v' = .ok j' ∧ ∃ k, nrel Gen.env k ty j j' = true) ∧
      (∃ j' m, unstruct Gen.env m Option.none v' = .ok j' ∧ ∃ k, nrel Gen.env k ty j j' = true) :=
  roundtrip Gen.env Gen.bad Gen.progTys {pid}_T1_progs {pid}_T1_classes {pid}_T2_classes ty k hty j v n h

/-- **C02 on the regenerated package**: the constructor-built object (a typed reading `v` of `j`) serialises to `j'` with
    `nrel j j'`; `j'` structures successfully into a typed reading, whose serialisation `j''` satisfies `nrel j' j''`. -/
theorem {pid}_constructor_path (ty : PyTy) (k : Nat) (hty : lightOK Gen.env Gen.bad Gen.progTys k ty = true)
    (j : Json) (v : PyVal) (n : Nat) (h : rep Gen.env Gen.bad n ty v j = true) :
    ∃ j' m, unstruct Gen.env m Option.none v = .ok j' ∧ (∃ k, nrel Gen.env k ty j j' = true) ∧
      ∃ v'' m', structTy Gen.env m' ty j' = .ok v'' ∧ (∃ k, rep Gen.env Gen.bad k ty v'' j' = true) ∧
        ∃ j'' m'', unstruct Gen.env m'' Option.none v'' = .ok j'' ∧ ∃ k, nrel Gen.env k ty j' j'' = true :=
  constructor_path Gen.env Gen.bad Gen.progTys {pid}_T1_progs {pid}_T1_classes {pid}_T2_classes ty k hty j v n h

/-- non-vacuity (kernel evaluation, a test): the null rule at work on a concrete value — `version` absent comes back as explicit null -/
example : (match structTy Gen.env 30 (.cls n!"OptionalVersionedTextDocumentIdentifier") (.obj [(n!"uri", .str n!"file:///a")]) with
           | .ok v => (match unstruct Gen.env 30 Option.none v with
             | .ok o => (match o with | .obj kvs => (match Json.lookup kvs n!"version" with | some .null => true | _ => false) | _ => false) &&
                        nrel Gen.env 30 (.cls n!"OptionalVersionedTextDocumentIdentifier") (.obj [(n!"uri", .str n!"file:///a")]) o
             | .error _ => false)
           | .error _ => false) = true := by decide +kernel

/-- the kernel-checked facts of this run, bundled -/
theorem {pid}_checked : Checked Gen.M Gen.env Gen.bad Gen.progTys :=
  ⟨{pid}_T1_progs, {pid}_T1_classes, {pid}_T2_classes, {pid}_T1_roots, Sh_link_structs_chk, Sh_link_int32, Sh_link_uint31⟩

/-- **C01 / C03 / C14 for metamodel-valid values** (the property's own quantifier): a JSON value with distinct keys that is valid
    (strictly, closed) for a metamodel type `T` round-trips at every annotation `A` of the package that covers `T`. -/
theorem {pid}_metamodel_type (T : Ty) (A : PyTy) (n k m : Nat) (hann : annOK Gen.M Gen.env Gen.bad n T A = true)
    (hty : lightOK Gen.env Gen.bad Gen.progTys k A = true) (j : Json) (hv : validTyC Gen.M m T j = true) (hw : Wf j) :
    RoundTrips Gen.env Gen.bad A j := {pid}_checked.roundtrip_ty hann hty hv hw

/-- **C02 for metamodel-valid values**: a constructor-built object (typed reading) exists, and every one serialises to the normal form, which re-structures -/
theorem {pid}_metamodel_constructor (T : Ty) (A : PyTy) (n k m : Nat) (hann : annOK Gen.M Gen.env Gen.bad n T A = true)
    (hty : lightOK Gen.env Gen.bad Gen.progTys k A = true) (j : Json) (hv : validTyC Gen.M m T j = true) (hw : Wf j) :
    (∃ v r, rep Gen.env Gen.bad r A v j = true) ∧
    ∀ v r, rep Gen.env Gen.bad r A v j = true →
      ∃ j' m', unstruct Gen.env m' Option.none v = .ok j' ∧ (∃ k, nrel Gen.env k A j j' = true) ∧
        ∃ v'' m'', structTy Gen.env m'' A j' = .ok v'' ∧ (∃ k, rep Gen.env Gen.bad k A v'' j' = true) ∧
          ∃ j'' m3, unstruct Gen.env m3 Option.none v'' = .ok j'' ∧ ∃ k, nrel Gen.env k A j' j'' = true :=
  {pid}_checked.constructor_ty hann hty hv hw

/-- every structure of the metamodel -/
theorem {pid}_metamodel_structures (s : Struct) (hs : s ∈ Gen.M.structures) (j : Json) (hv : validStructC Gen.M s j = true) (hw : Wf j) :
    RoundTrips Gen.env Gen.bad (.cls s.name) j := {pid}_checked.roundtrip_struct hs hv hw

/-- **C01's last sentence**: nothing a valid structure value declares with a non-null value is lost — it is in the re-serialised object, under the
    same key, with a related value (equal, for scalars: `nrel_scalar_eq`) -/
theorem {pid}_no_property_lost (s : Struct) (hs : s ∈ Gen.M.structures) (kvs : List (Name × Json)) (hv : validStructC Gen.M s (.obj kvs) = true) (hw : Wf (.obj kvs)) :
    ∃ v' out, (∃ m, structTy Gen.env m (.cls s.name) (.obj kvs) = .ok v') ∧ (∃ m, unstruct Gen.env m Option.none v' = .ok (.obj out)) ∧
      ∀ key x, Json.lookup kvs key = some x → x.isNull = false →
        ∃ y, Json.lookup out key = some y ∧ ∃ (f : Field) (k' : Nat), f.wireS = key ∧ nrel Gen.env k' f.ty x y = true :=
  ({pid}_checked.roundtrip_struct hs hv hw).no_loss

/-- every request, every notification, and every response except the excluded ones: the message class is the one the catalogue names -/
theorem {pid}_metamodel_requests (r : Request) (hr : r ∈ Gen.M.requests) (j : Json) (hv : validRequestC Gen.M r j = true) (hw : Wf j) :
    ∃ e, entryOf Gen.env r.method = some e ∧ RoundTrips Gen.env Gen.bad (.cls e.req) j :=
  {pid}_checked.roundtrip_request (List.all_eq_true.mp Sh_link_requests r hr) hv hw
/-- every type alias as a root type -/
theorem {pid}_metamodel_aliases (a : Alias) (ha : a ∈ Gen.M.aliases) (m : Nat) (j : Json) (hv : validTyC Gen.M m (.ref a.name) j = true) (hw : Wf j) :
    ∃ A, Gen.env.pkg.aliases.find? (·.1 == a.name) = some (a.name, A) ∧ RoundTrips Gen.env Gen.bad A j :=
  {pid}_checked.roundtrip_alias (List.all_eq_true.mp Sh_link_aliases a ha) hv hw
/-- the hypotheses are satisfiable (kernel evaluation, a test): a concrete Range is closed-valid with distinct keys -/
example : ((Gen.M.findStruct n!"Range").map (fun s => validStructC Gen.M s (.obj [(n!"start", .obj [(n!"line", .int 1), (n!"character", .int 2)]), (n!"end", .obj [(n!"line", .int 3), (n!"character", .int 4)])])
            && Json.wfF 8 (.obj [(n!"start", .obj [(n!"line", .int 1), (n!"character", .int 2)]), (n!"end", .obj [(n!"line", .int 3), (n!"character", .int 4)])]))) = some true := by decide +kernel
theorem {pid}_metamodel_notifications (nt : Notification) (hn : nt ∈ Gen.M.notifications) (j : Json) (hv : validNotificationC Gen.M nt j = true) (hw : Wf j) :
    ∃ e, entryOf Gen.env nt.method = some e ∧ RoundTrips Gen.env Gen.bad (.cls e.req) j :=
  {pid}_checked.roundtrip_notification (List.all_eq_true.mp Sh_link_notifications nt hn) hv hw
theorem {pid}_metamodel_responses (r : Request) (hr : r ∈ Gen.M.requests) (hx : Gen.excludedResponses.contains r.method = false)
    (j : Json) (hv : validResponseC Gen.M r j = true) (hw : Wf j) :
    ∃ e rn, entryOf Gen.env r.method = some e ∧ e.resp = some rn ∧ RoundTrips Gen.env Gen.bad (.cls rn) j := by
  have h := List.all_eq_true.mp Sh_link_responses r hr
  rw [hx] at h
  exact {pid}_checked.roundtrip_response (by simpa using h) hv hw

#print axioms {pid}_checked
#print axioms {pid}_metamodel_type
#print axioms {pid}_metamodel_constructor
#print axioms {pid}_metamodel_structures
#print axioms {pid}_no_property_lost
#print axioms {pid}_metamodel_requests
#print axioms {pid}_metamodel_notifications
#print axioms {pid}_metamodel_aliases
#print axioms {pid}_metamodel_responses
#print axioms {pid}_T1_progs
#print axioms {pid}_T1_excluded_are_rejected
#print axioms {pid}_T1_classes
#print axioms {pid}_structure_total
#print axioms {pid}_T1_roots
#print axioms {pid}_T2_classes
#print axioms {pid}_unstructure_total
#print axioms {pid}_roundtrip
#print axioms {pid}_constructor_path
"""
    names = [f"{pid}_T1_progs", f"{pid}_T1_excluded_are_rejected", f"{pid}_T1_classes", f"{pid}_structure_total", f"{pid}_T1_roots",
             f"{pid}_T2_classes", f"{pid}_unstructure_total", f"{pid}_roundtrip", f"{pid}_constructor_path",
             f"{pid}_checked", f"{pid}_metamodel_type", f"{pid}_metamodel_constructor", f"{pid}_metamodel_structures", f"{pid}_no_property_lost", f"{pid}_metamodel_requests",
             f"{pid}_metamodel_notifications", f"{pid}_metamodel_responses", f"{pid}_metamodel_aliases"]
    return [[genbad], [genlink], layer + [progs] + llayer + [linkmsgs], [(f"{pid}T1", final)]], names


def stack_on(ctx, pid, pkgdir, model):
    """The whole theorem stack (T1, T2, link theorem, metamodel-level round trip) instantiated on a package the current generator emitted
    for another metamodel.  Returns (problems, localisation lines); ctx.work must be a directory of its own."""
    problems = build_env(ctx, pkgdir=pkgdir, model=model)
    if problems:
        return problems, []
    tl, tnames = total_layers(ctx, pid)
    for layer in tl:
        for (mn, text) in layer:
            common.write_module(ctx.work, mn, text)
    tlayers = [[mn for mn, _ in layer] for layer in tl]
    res = common.lean_compile(ctx.work, tlayers)
    hits = common.audit_sources([ctx.work / (mn + ".lean") for l in tlayers for mn in l])
    if hits:
        raise Broken(f"forbidden constructs: {hits}")
    failed = ctx.add_lean_results(res, theorems_expected={tlayers[-1][-1]: tnames})   # axioms audit included
    loc = localise_total(ctx) if failed else []
    return [f"{r.name}: {r.out[-600:]}" for r in failed], loc


def localise_total(ctx):
    """which program / class the dispatch checker rejects (names decoded), for the report"""
    import re
    import subprocess
    f = common.write_module(ctx.work, "LocaliseT1", LOCALISE)
    p = subprocess.run(["lean", "--run", str(f)], capture_output=True, text=True, env=common.lean_env(ctx.work), cwd=str(ctx.work), timeout=900)

    def dec(m):
        n = int(m.group(0))
        b = n.to_bytes((n.bit_length() + 7) // 8, "big")
        return '"' + b[1:].decode("utf8", "replace") + '"' if b[:1] == b"\x01" and n > 300 else m.group(0)
    return [re.sub(r"\b\d{5,}\b", dec, l).replace("LspVerif.PyTy.", "") for l in p.stdout.splitlines() if l.startswith(("PROG", "CLS", "STRUCT-NOT", "MESSAGE-NOT"))]


def validity_stream(ctx, S):
    """Every generated metamodel-valid value must have a typed reading (the hypothesis of T1/T2), unless it
    passes through an annotation excluded for an open known finding.  Ties `rep` to what the property calls valid."""
    vals = [(name, j) for name, tag, j in S.valid_stream()]
    text = "".join(f"{name} " + json.dumps(j, ensure_ascii=False, separators=(",", ":")) + "\n" for name, j in vals)
    main = common.write_module(ctx.work, "MainRep", MAIN_REP)
    out = common.lean_run(ctx.work, main, text).split("\n")[:-1]
    cnt = {}
    cnt_v = {}
    problems = []
    for (name, j), o in zip(vals, out):
        cnt[o.partition(" wf:")[0]] = cnt.get(o.partition(" wf:")[0], 0) + 1
        core, _, tag = o.partition(" wf:")
        # tag = "true valid:<true|false|na>": the hypothesis of the link theorem (distinct keys, closed metamodel validity) on this value
        cnt_v[tag] = cnt_v.get(tag, 0) + 1
        if core not in ("rep:true nrel:true outrep:true", "rep:excluded", "struct-err", "unspecified"):
            problems.append((name, j, o))
        elif tag not in ("true valid:true",):
            problems.append((name, j, "generated metamodel-valid value is not valid in the Lean reading (Spec/Link.lean validTyC): " + o))
    ctx.dist["typed_reading_of_generated_valid_values"] = cnt
    ctx.dist["closed_metamodel_validity_of_generated_valid_values"] = cnt_v
    bad_roots = {}
    for n_, j_, o_ in problems:
        bad_roots[n_] = bad_roots.get(n_, 0) + 1
    if bad_roots:
        ctx.notes.append("roots with generated values outside the hypothesis: " + json.dumps(dict(sorted(bad_roots.items(), key=lambda kv: -kv[1])[:25])))
    ctx.corr["evaluations"] += len(vals)
    return problems, cnt


def lean_json(j) -> str:
    if j is None:
        return ".null"
    if isinstance(j, bool):
        return f"(.bool {common.lean_bool(j)})"
    if isinstance(j, int):
        return f"(.int {common.lean_int(j)})"
    if isinstance(j, float):
        return f"(.dec {common.lean_name(repr(j))})"
    if isinstance(j, str):
        return f"(.str {common.lean_name(j)})"
    if isinstance(j, list):
        return "(.arr [" + ", ".join(lean_json(x) for x in j) + "])"
    return "(.obj [" + ", ".join(f"({common.lean_name(k)}, {lean_json(v)})" for k, v in j.items()) + "])"


def witness_module(ctx, pid):
    """Companion theorems for open known findings: the model itself fails on the recorded witness
    (kernel evaluation), so the exclusion stays demonstrably real; the harness also replays the
    witness on the real code."""
    kfs = [k for k in ctx.known if k.get("property") == pid and k.get("status") == "open" and k.get("witness")]
    if not kfs:
        return None, []
    lines = ["import LspVerif.Core.Cattrs", "import GenEnv", "open LspVerif", ""]
    names = []
    for i, k in enumerate(kfs):
        w = k["witness"]
        lines.append(f"/-- known finding: {k['what'][:200]} -/")
        lines.append(f"theorem {pid}_known_finding_{i} : (structTy Gen.env 60 (.cls {common.lean_name(w['root'])}) {lean_json(w['input'])}).toOption.isSome = false := by decide +kernel")
        lines.append(f"#print axioms {pid}_known_finding_{i}")
        names.append(f"{pid}_known_finding_{i}")
        p = common.run_py(common.VERIF / "tools/search/convcheck.py", [pid, "--one", w["root"], json.dumps(w["input"])], check=False)
        still = p.returncode == 0 and json.loads(p.stdout)["mismatches"]
        ctx.notes.append(f"known finding witness replayed on the real code: {'still fails' if still else 'NO LONGER FAILS (stale entry)'}: {k['key']}")
    return "\n".join(lines) + "\n", names


def run(ctx, pid, *, ops_fn, inst_fn=None, theorems=(), trusted=(), assumptions=(), total=False):
    ctx.trusted += [
        "translators x_meta.py, x_pkg.py, x_valid.py, x_hooks.py (live functions' source -> hook programs; default-disambiguator closures read from the functions cattrs built)",
        "hand-written model of the cattrs 24.1 / attrs 24.2 fragment the package uses (Core/Cattrs.lean), validated on every run by the correspondence stream",
    ] + list(trusted)
    ctx.assumptions += list(assumptions)
    import time as _t
    t0 = _t.time()
    timing = ctx.extra.setdefault("timing_s", {})
    problems = build_env(ctx)
    timing["translate+elaborate tables"] = round(_t.time() - t0, 1)
    if not problems:
        t0 = _t.time()
        if inst_fn is not None:
            spec = inst_fn()
            layers = []
            for layer in spec:
                for (mn, text) in layer:
                    common.write_module(ctx.work, mn, text)
                layers.append([mn for mn, _ in layer])
            res = common.lean_compile(ctx.work, layers)
            hits = common.audit_sources([ctx.work / (mn + ".lean") for l in layers for mn in l])
            if hits:
                raise Broken(f"forbidden constructs: {hits}")
            failed = ctx.add_lean_results(res, theorems_expected={layers[-1][-1]: list(theorems)})
            for r in failed:
                problems.append(f"{r.name}: {r.out[-1500:]}")
        if total:
            tl, tnames = total_layers(ctx, pid)
            for layer in tl:
                for (mn, text) in layer:
                    common.write_module(ctx.work, mn, text)
            tlayers = [[mn for mn, _ in layer] for layer in tl]
            res = common.lean_compile(ctx.work, tlayers)
            hits = common.audit_sources([ctx.work / (mn + ".lean") for l in tlayers for mn in l])
            if hits:
                raise Broken(f"forbidden constructs: {hits}")
            failed = ctx.add_lean_results(res, theorems_expected={tlayers[-1][-1]: tnames})
            if failed:
                loc = localise_total(ctx)
                ctx.notes.append("T1/T2: the table checkers reject: " + " | ".join(loc[:8]))
                problems.append(f"T1/T2 ({pid}_structure_total / {pid}_unstructure_total / {pid}_roundtrip) no longer check on the regenerated environment; the checkers reject: "
                                + " | ".join(l[:300] for l in loc[:6]) + " || " + failed[0].out[-600:])
        wtext, wnames = witness_module(ctx, pid)
        if wtext:
            common.write_module(ctx.work, "Witness", wtext)
            res = common.lean_compile(ctx.work, [["Witness"]])
            failed = ctx.add_lean_results(res, theorems_expected={"Witness": wnames})
            for r in failed:
                ctx.notes.append("known-finding witness theorem no longer holds in the model (finding repaired or model drifted): " + r.out[-400:])
        timing["kernel obligations"] = round(_t.time() - t0, 1)
        t0 = _t.time()
        S = streams(ctx)
        ops = ops_fn(S)
        problems += correspondence(ctx, ops)
        if total:
            vp, cnt = validity_stream(ctx, S)
            ctx.notes.append(f"generated valid values: typed reading in the model (hypothesis of T1/T2), and T2's conclusion evaluated on the model's output (nrel, outrep): {cnt}")
            for name, j, o in vp[:3]:
                problems.append(f"a generated metamodel-valid value of {name} has no typed reading in the model, or its output is not related to it by the null rule ({o}): {json.dumps(j)[:300]}")
        timing["correspondence"] = round(_t.time() - t0, 1)
        for o in ops[:: max(1, len(ops) // 3)][:3]:
            ctx.sample(o[:400])
    t0 = _t.time()
    out, err = run_oracle(ctx, pid)
    timing["oracle"] = round(_t.time() - t0, 1)
    if out is None:
        problems.append("oracle crashed: " + err)
    else:
        report_oracle(ctx, pid, out)
    if problems and not ctx.violations:
        ctx.violation(f"{pid}|proof", f"{pid}: theorems / obligations / correspondence no longer check and the search found no failing input on the real code",
                      {"broken": problems, "theorems": list(theorems)}, no_input=True)


def replay(pid, path):
    d = json.load(open(path))
    print(json.dumps(d, indent=1)[:3000])
    if d.get("root") is None or d.get("input") is None:
        return 1
    p = common.run_py(common.VERIF / "tools/search/convcheck.py", [pid, "--one", d["root"], json.dumps(d["input"])], check=False)
    if p.returncode != 0:
        print(p.stderr[-800:])
        return 1
    out = json.loads(p.stdout)
    print("on the real code now:", "still failing" if out["mismatches"] else "passes", out["mismatches"][:2])
    return 1 if out["mismatches"] else 0
