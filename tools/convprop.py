"""Shared runner for the converter properties (C01-C03, C10, C11, C13-C15).

  1. regenerate the environment of the Lean converter model from /repo: package tables (x_pkg),
     validator bodies (x_valid), hook programs and disambiguator closures (x_hooks);
  2. property-specific instance theorems compiled against them (kernel obligations);
  3. correspondence: the model's executable definitions (Lean driver) and the real converter on the
     same generated inputs, canonicalised outputs diffed;
  4. the direct oracle on the real code (tools/search/convcheck.py) = the failing-input search.
"""
from __future__ import annotations

import json
import os

import common
import convops
import tables
import valuegen
from common import Broken

MAIN = """import LspVerif.Driver.Conv
import GenPkg
import GenHooks
import GenValid
def main : IO Unit := LspVerif.Driver.convMain { pkg := Gen.pkg, hooks := Gen.hooks, disamb := Gen.disamb, vld := Gen.vldEnv }
"""

ENV_DEF = """import LspVerif.Core.Cattrs
import GenPkg
import GenHooks
import GenValid
open LspVerif
namespace Gen
def env : Env := { pkg := Gen.pkg, hooks := Gen.hooks, disamb := Gen.disamb, vld := Gen.vldEnv }
end Gen
"""


def build_env(ctx, need_meta=True):
    """Returns list of problems (strings); on success the modules GenMeta, GenPkg, GenValid,
    GenHooks, GenEnv are compiled in ctx.work."""
    problems = []
    if need_meta:
        mod, err = tables.gen_meta(ctx)
        if mod is None:
            raise Broken("x_meta failed on the committed lsp.json: " + err)
    pk, err = tables.gen_pkg(ctx)
    if pk is None:
        problems.append("x_pkg failed (package does not import?): " + err[-1200:])
        ctx.obligation("x_pkg", False, "translator", err)
    p = common.run_py(common.VERIF / "tools/extract/x_valid.py", check=False)
    if p.returncode != 0:
        problems.append("x_valid: " + p.stderr.strip()[-800:])
        ctx.obligation("x_valid", False, "translator", p.stderr)
    else:
        r = tables.compile_cached(ctx, "GenValid", p.stdout)
        if not r.ok:
            raise Broken("GenValid does not elaborate: " + r.out[-2000:])
    h = common.run_py(common.VERIF / "tools/extract/x_hooks.py", check=False)
    if h.returncode != 0:
        problems.append("x_hooks: " + h.stderr.strip()[-1200:])
        ctx.obligation("x_hooks", False, "translator", h.stderr)
    else:
        r = tables.compile_cached(ctx, "GenHooks", h.stdout)
        if not r.ok:
            raise Broken("GenHooks does not elaborate: " + r.out[-2000:])
    if not problems:
        r = tables.compile_cached(ctx, "GenEnv", ENV_DEF)
        if not r.ok:
            raise Broken("GenEnv does not elaborate: " + r.out[-2000:])
        common.write_module(ctx.work, "MainConv", MAIN)
    return problems


def correspondence(ctx, ops: list[str]) -> list[str]:
    """Run the ops through the Lean driver and the real converter; returns problems."""
    if not ops:
        return []
    text = "\n".join(ops) + "\n"
    impl = common.run_py(common.VERIF / "tools/corr/conv_impl.py", stdin=text).stdout.split("\n")[:-1]
    model = common.lean_run(ctx.work, ctx.work / "MainConv.lean", text).split("\n")[:-1]
    dis = common.diff_streams(ctx, ops, model, impl, nontrivial=lambda op, out: out != "err" or True)
    outs = {}
    for o in impl:
        k = "err" if o == "err" else ("ok" if o.startswith("ok") else o.split(":")[0])
        outs[k] = outs.get(k, 0) + 1
    ctx.dist.setdefault("impl_outcomes", {})
    for k, v in outs.items():
        ctx.dist["impl_outcomes"][k] = ctx.dist["impl_outcomes"].get(k, 0) + v
    for op, m, i in dis[:5]:
        ctx.notes.append(f"correspondence disagreement: {op[:300]}: model={m[:300]} impl={i[:300]}")
    if dis:
        return [f"correspondence: {len(dis)} disagreements between the Lean converter model and the real converter; first: {dis[0][0][:200]} model={dis[0][1][:200]} impl={dis[0][2][:200]}"]
    return []


def streams(ctx):
    meta = valuegen.Meta.load([common.REPO / "generator/lsp.json"])
    return convops.Streams(meta, ctx.seed, ctx.thorough())


def run_oracle(ctx, pid, extra_args=()):
    args = [pid, "--seed", str(ctx.seed)] + (["--thorough"] if ctx.thorough() else []) + list(extra_args)
    p = common.run_py(common.VERIF / "tools/search/convcheck.py", args, check=False, timeout=3600)
    if p.returncode != 0:
        return None, p.stderr[-1500:]
    return json.loads(p.stdout), ""


def report_oracle(ctx, pid, out):
    ctx.extra["oracle"] = {"evaluations": out["evaluations"], "distinct_inputs": out["distinct"],
                           "failing_inputs": out.get("total_failing_inputs", 0)}
    for s in out.get("samples", [])[:3]:
        ctx.sample(s)
    for m in out["mismatches"]:
        key = f"{pid}|{m['site']}|{m['aspect']}"
        ctx.violation(key, f"{m['site']} {m['aspect']}: expected {m['expected'][:160]}, observed {m['observed'][:160]}",
                      {"root": m.get("root"), "input": m.get("input"), "aspect": m["aspect"], "expected": m["expected"],
                       "observed": m["observed"], "how": f"./check {pid} --replay <this file>"})


def lean_json(j) -> str:
    if j is None:
        return ".null"
    if isinstance(j, bool):
        return f"(.bool {common.lean_bool(j)})"
    if isinstance(j, int):
        return f"(.int {common.lean_int(j)})"
    if isinstance(j, float):
        return f"(.dec {common.lean_name(repr(j))})"
    if isinstance(j, str):
        return f"(.str {common.lean_name(j)})"
    if isinstance(j, list):
        return "(.arr [" + ", ".join(lean_json(x) for x in j) + "])"
    return "(.obj [" + ", ".join(f"({common.lean_name(k)}, {lean_json(v)})" for k, v in j.items()) + "])"


def witness_module(ctx, pid):
    """Companion theorems for open known findings: the model itself fails on the recorded witness
    (kernel evaluation), so the exclusion stays demonstrably real; the harness also replays the
    witness on the real code."""
    kfs = [k for k in ctx.known if k.get("property") == pid and k.get("status") == "open" and k.get("witness")]
    if not kfs:
        return None, []
    lines = ["import LspVerif.Core.Cattrs", "import GenEnv", "open LspVerif", ""]
    names = []
    for i, k in enumerate(kfs):
        w = k["witness"]
        lines.append(f"/-- known finding: {k['what'][:200]} -/")
        lines.append(f"theorem {pid}_known_finding_{i} : (structTy Gen.env 60 (.cls {common.lean_name(w['root'])}) {lean_json(w['input'])}).toOption.isSome = false := by decide +kernel")
        lines.append(f"#print axioms {pid}_known_finding_{i}")
        names.append(f"{pid}_known_finding_{i}")
        p = common.run_py(common.VERIF / "tools/search/convcheck.py", [pid, "--one", w["root"], json.dumps(w["input"])], check=False)
        still = p.returncode == 0 and json.loads(p.stdout)["mismatches"]
        ctx.notes.append(f"known finding witness replayed on the real code: {'still fails' if still else 'NO LONGER FAILS (stale entry)'}: {k['key']}")
    return "\n".join(lines) + "\n", names


def run(ctx, pid, *, ops_fn, inst_fn=None, theorems=(), trusted=(), assumptions=()):
    ctx.trusted += [
        "translators x_meta.py, x_pkg.py, x_valid.py, x_hooks.py (live functions' source -> hook programs; default-disambiguator closures read from the functions cattrs built)",
        "hand-written model of the cattrs 24.1 / attrs 24.2 fragment the package uses (Core/Cattrs.lean), validated on every run by the correspondence stream",
    ] + list(trusted)
    ctx.assumptions += list(assumptions)
    import time as _t
    t0 = _t.time()
    timing = ctx.extra.setdefault("timing_s", {})
    problems = build_env(ctx)
    timing["translate+elaborate tables"] = round(_t.time() - t0, 1)
    if not problems:
        t0 = _t.time()
        if inst_fn is not None:
            spec = inst_fn()
            layers = []
            for layer in spec:
                for (mn, text) in layer:
                    common.write_module(ctx.work, mn, text)
                layers.append([mn for mn, _ in layer])
            res = common.lean_compile(ctx.work, layers)
            hits = common.audit_sources([ctx.work / (mn + ".lean") for l in layers for mn in l])
            if hits:
                raise Broken(f"forbidden constructs: {hits}")
            failed = ctx.add_lean_results(res, theorems_expected={layers[-1][-1]: list(theorems)})
            for r in failed:
                problems.append(f"{r.name}: {r.out[-1500:]}")
        wtext, wnames = witness_module(ctx, pid)
        if wtext:
            common.write_module(ctx.work, "Witness", wtext)
            res = common.lean_compile(ctx.work, [["Witness"]])
            failed = ctx.add_lean_results(res, theorems_expected={"Witness": wnames})
            for r in failed:
                ctx.notes.append("known-finding witness theorem no longer holds in the model (finding repaired or model drifted): " + r.out[-400:])
        timing["kernel obligations"] = round(_t.time() - t0, 1)
        t0 = _t.time()
        ops = ops_fn(streams(ctx))
        problems += correspondence(ctx, ops)
        timing["correspondence"] = round(_t.time() - t0, 1)
        for o in ops[:: max(1, len(ops) // 3)][:3]:
            ctx.sample(o[:400])
    t0 = _t.time()
    out, err = run_oracle(ctx, pid)
    timing["oracle"] = round(_t.time() - t0, 1)
    if out is None:
        problems.append("oracle crashed: " + err)
    else:
        report_oracle(ctx, pid, out)
    if problems and not ctx.violations:
        ctx.violation(f"{pid}|proof", f"{pid}: theorems / obligations / correspondence no longer check and the search found no failing input on the real code",
                      {"broken": problems, "theorems": list(theorems)}, no_input=True)


def replay(pid, path):
    d = json.load(open(path))
    print(json.dumps(d, indent=1)[:3000])
    if d.get("root") is None or d.get("input") is None:
        return 1
    p = common.run_py(common.VERIF / "tools/search/convcheck.py", [pid, "--one", d["root"], json.dumps(d["input"])], check=False)
    if p.returncode != 0:
        print(p.stderr[-800:])
        return 1
    out = json.loads(p.stdout)
    print("on the real code now:", "still failing" if out["mismatches"] else "passes", out["mismatches"][:2])
    return 1 if out["mismatches"] else 0
