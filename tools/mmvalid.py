"""Metamodel validity of a JSON value, read strictly (declared properties only, required ones
present, integer ranges, closed enumerations, literal values).  Independent plain-Python statement
used by the oracles (never by the Lean side).  Pure stdlib."""
from __future__ import annotations

INT_MIN, INT_MAX = -(2**31), 2**31 - 1


def is_int(j):
    return isinstance(j, int) and not isinstance(j, bool)


LENIENT = False   # set by valid_lenient: undeclared properties are ignored (the forward-compatibility reading, C15)


def valid(m, t, j, depth=0) -> bool:
    if depth > 200:
        return False
    k = t["kind"]
    if k == "base":
        n = t["name"]
        if n in ("string", "DocumentUri", "URI", "RegExp"):
            return isinstance(j, str)
        if n == "integer":
            return is_int(j) and INT_MIN <= j <= INT_MAX
        if n == "uinteger":
            return is_int(j) and 0 <= j <= INT_MAX
        if n == "decimal":
            return (is_int(j) or isinstance(j, float))
        if n == "boolean":
            return isinstance(j, bool)
        if n == "null":
            return j is None
        return False
    if k == "stringLiteral":
        return isinstance(j, str) and j == t["value"]
    if k == "integerLiteral":
        return is_int(j) and j == t["value"]
    if k == "booleanLiteral":
        return isinstance(j, bool) and j == t["value"]
    if k == "reference":
        n = t["name"]
        if n == "LSPAny":
            return True
        if n == "LSPObject":
            return isinstance(j, dict)
        if n == "LSPArray":
            return isinstance(j, list)
        if n in m.enums:
            e = m.enums[n]
            base = e["type"]["name"]
            if m.enum_custom(e):
                return valid(m, {"kind": "base", "name": base}, j)
            return any(type(v["value"]) is type(j) and v["value"] == j for v in e["values"])
        if n in m.structs:
            return valid_props(m, m.flatten(n), j, depth)
        if n in m.aliases:
            return valid(m, m.aliases[n]["type"], j, depth + 1)
        return False
    if k == "array":
        return isinstance(j, list) and all(valid(m, t["element"], x, depth + 1) for x in j)
    if k == "map":
        return isinstance(j, dict) and all(isinstance(kk, str) and valid(m, t["value"], v, depth + 1) for kk, v in j.items())
    if k == "tuple":
        return isinstance(j, list) and len(j) == len(t["items"]) and all(valid(m, i, x, depth + 1) for i, x in zip(t["items"], j))
    if k == "or":
        return any(valid(m, i, j, depth + 1) for i in t["items"])
    if k == "and":
        props = []
        for i in t["items"]:
            if i["kind"] == "reference" and i["name"] in m.structs:
                for p in m.flatten(i["name"]):
                    if p["name"] not in [q["name"] for q in props]:
                        props.append(p)
            else:
                return False
        return valid_props(m, props, j, depth)
    if k == "literal":
        return valid_props(m, t["value"]["properties"], j, depth)
    return False


def valid_props(m, props, j, depth) -> bool:
    if not isinstance(j, dict):
        return False
    if not props:
        return True   # a structure / literal without declared properties is an extension point
    names = {p["name"] for p in props}
    if not LENIENT and any(kk not in names for kk in j):
        return False
    for p in props:
        if p["name"] in j:
            if not valid(m, p["type"], j[p["name"]], depth + 1):
                return False
        elif not p.get("optional"):
            return False
    return True


def valid_alternatives(m, t, j):
    """indices of the alternatives of an `or` for which j is valid"""
    return [i for i, alt in enumerate(t["items"]) if valid(m, alt, j)]


def valid_lenient(m, t, j) -> bool:
    """validity when undeclared properties are ignored at every protocol-object node (what a forward-compatible reader accepts)"""
    global LENIENT
    old = LENIENT
    LENIENT = True
    try:
        return valid(m, t, j)
    finally:
        LENIENT = old

