"""x_hist: what a converter produced by get_converter() can depend on besides its own argument.
Scan of lsprotocol/converters.py and lsprotocol/_hooks.py (AST + symtable):
  * module-level bindings and their kind (constant / lock / alias / MUTABLE container / other call)
  * every `global` declaration (function, name)
  * cache-like decorators, mutable default arguments
  * writes through a module or class object (setattr, X.attr = ..., X[...] = ...) outside local names
  * for every function nested in a _register_* function: its free variables (captured from the enclosing call)
  * what get_converter / register_hooks do with their argument
-> Lean `Gen.hist : Hist.Scan` (module GenHist)."""
import ast
import os
import pathlib
import symtable
import sys

sys.path.insert(0, os.path.dirname(os.path.dirname(os.path.abspath(__file__))))
from common import lean_name, lean_list  # noqa: E402

REPO = pathlib.Path(os.environ.get("VERIF_REPO", "/repo"))
PKG = REPO / "packages/python/lsprotocol"
args = sys.argv[1:]
if "--pkgdir" in args:
    PKG = pathlib.Path(args[args.index("--pkgdir") + 1]) / "lsprotocol"
FILES = ["converters.py", "_hooks.py"]
CACHE_DECOS = ("cache", "lru_cache", "cached_property", "memoize", "singledispatch")


def kind_of(v):
    if isinstance(v, ast.Constant):
        return "constant"
    if isinstance(v, (ast.List, ast.Dict, ast.Set, ast.ListComp, ast.DictComp, ast.SetComp)):
        return "mutable-container"
    if isinstance(v, ast.Call):
        f = ast.unparse(v.func)
        if f in ("threading.Lock", "threading.RLock"):
            return "lock"
        if f.split(".")[-1] in ("dict", "list", "set", "defaultdict", "OrderedDict", "deque", "WeakKeyDictionary", "WeakValueDictionary", "Counter"):
            return "mutable-container"
        return "call:" + f[:40]
    if isinstance(v, (ast.Attribute, ast.Name, ast.Subscript)):
        return "alias"
    if isinstance(v, ast.Tuple):
        # an immutable tuple of constants / of names (each name is classified where it is bound)
        return "constant" if all(kind_of(e) in ("constant", "alias") for e in v.elts) else "tuple"
    return type(v).__name__


def main():
    bindings, globals_, decos, defaults, writes, captures, flow = [], [], [], [], [], [], []
    for fn in FILES:
        src = (PKG / fn).read_text(encoding="utf-8")
        tree = ast.parse(src)
        par = {}
        for n in ast.walk(tree):
            for c in ast.iter_child_nodes(n):
                par[c] = n
        modnames = set()
        for st in tree.body:
            if isinstance(st, ast.Assign):
                for t in st.targets:
                    if isinstance(t, ast.Name):
                        bindings.append((fn, t.id, kind_of(st.value)))
                        modnames.add(t.id)
            elif isinstance(st, ast.AnnAssign) and isinstance(st.target, ast.Name):
                bindings.append((fn, st.target.id, kind_of(st.value) if st.value else "annotation"))
                modnames.add(st.target.id)
            elif isinstance(st, (ast.FunctionDef, ast.ClassDef)):
                modnames.add(st.name)
            elif isinstance(st, (ast.Import, ast.ImportFrom)):
                for a in st.names:
                    modnames.add((a.asname or a.name).split(".")[0])

        def encl(n):
            while n in par:
                n = par[n]
                if isinstance(n, ast.FunctionDef):
                    return n.name
            return "<module>"

        def fresh_local(node, name):
            """`name` is, in the function enclosing `node`, a plain local (not a parameter, not global / nonlocal, not a module-level
            name) and every binding of it there is a freshly built container ({} [] set() dict() list() a comprehension ...)."""
            f = node
            while f in par and not isinstance(f, (ast.FunctionDef, ast.AsyncFunctionDef)):
                f = par[f]
            if not isinstance(f, (ast.FunctionDef, ast.AsyncFunctionDef)) or name in modnames:
                return False
            a = f.args
            if name in [x.arg for x in a.posonlyargs + a.args + a.kwonlyargs] or (a.vararg and a.vararg.arg == name) or (a.kwarg and a.kwarg.arg == name):
                return False
            binds = []
            for m in ast.walk(f):
                if isinstance(m, (ast.Global, ast.Nonlocal)) and name in m.names:
                    return False
                if isinstance(m, ast.Assign) and any(isinstance(t, ast.Name) and t.id == name for t in m.targets):
                    binds.append(m.value)
                elif isinstance(m, ast.AnnAssign) and isinstance(m.target, ast.Name) and m.target.id == name and m.value is not None:
                    binds.append(m.value)
                elif isinstance(m, (ast.For, ast.comprehension)) and any(isinstance(t, ast.Name) and t.id == name for t in ast.walk(m.target)):
                    return False
                elif isinstance(m, (ast.With, ast.AsyncWith)) and any(i.optional_vars is not None and any(isinstance(t, ast.Name) and t.id == name for t in ast.walk(i.optional_vars)) for i in m.items):
                    return False
                elif isinstance(m, ast.NamedExpr) and m.target.id == name:
                    return False
                elif isinstance(m, ast.AugAssign) and isinstance(m.target, ast.Name) and m.target.id == name:
                    return False

            def fresh(v):
                if isinstance(v, (ast.Dict, ast.List, ast.Set, ast.DictComp, ast.ListComp, ast.SetComp)):
                    return True
                return isinstance(v, ast.Call) and isinstance(v.func, ast.Name) and v.func.id in ("dict", "list", "set") and v.func.id not in modnames
            return bool(binds) and all(fresh(v) for v in binds)

        for n in ast.walk(tree):
            if isinstance(n, ast.Global):
                for g in n.names:
                    globals_.append((fn, encl(n), g))
            if isinstance(n, (ast.FunctionDef, ast.AsyncFunctionDef)):
                for d in n.decorator_list:
                    nm = ast.unparse(d.func if isinstance(d, ast.Call) else d).split(".")[-1]
                    if nm in CACHE_DECOS:
                        decos.append((fn, n.name, nm))
                for d in list(n.args.defaults) + [x for x in n.args.kw_defaults if x is not None]:
                    if kind_of(d) == "mutable-container":
                        defaults.append((fn, n.name, "mutable-default"))
            # writes through something that is not a plain local name
            tgt = []
            if isinstance(n, ast.Assign):
                tgt = n.targets
            elif isinstance(n, (ast.AugAssign, ast.AnnAssign)):
                tgt = [n.target]
            for t in tgt:
                if isinstance(t, (ast.Attribute, ast.Subscript)):
                    base = t
                    while isinstance(base, (ast.Attribute, ast.Subscript)):
                        base = base.value
                    root = base.id if isinstance(base, ast.Name) else type(base).__name__
                    if isinstance(base, ast.Name) and fresh_local(n, root):
                        continue        # a store into a container created in this very call: no state outlives it through this write
                    writes.append((fn, encl(n), "store:" + root))
            if isinstance(n, ast.Call):
                f = ast.unparse(n.func)
                if f in ("setattr", "delattr", "object.__setattr__") or f.endswith((".update", ".setdefault", ".append", ".add", ".pop", ".clear", ".extend", ".insert", ".remove")):
                    base = n.func
                    while isinstance(base, (ast.Attribute, ast.Subscript, ast.Call)):
                        base = base.value if not isinstance(base, ast.Call) else base.func
                    root = base.id if isinstance(base, ast.Name) else f.split("(")[0]
                    if root in modnames or f in ("setattr", "delattr", "object.__setattr__"):
                        writes.append((fn, encl(n), "mutate:" + (root if root in modnames else f)))
        # closures: free variables of functions nested in top-level functions
        st = symtable.symtable(src, fn, "exec")
        topdefs = {s_.name: s_ for s_ in tree.body if isinstance(s_, ast.FunctionDef)}

        def local_kind(topname, name):
            f = topdefs.get(topname)
            if f is None:
                return "unknown"
            if name in [a.arg for a in f.args.args + f.args.kwonlyargs]:
                return "param"
            kinds = set()
            for n in ast.walk(f):
                if isinstance(n, ast.FunctionDef) and n is not f and n.name == name:
                    kinds.add("function")
                if isinstance(n, ast.Assign):
                    for t in n.targets:
                        if isinstance(t, ast.Name) and t.id == name:
                            kinds.add("local:" + kind_of(n.value))
            return "+".join(sorted(kinds)) or "unknown"

        for top in st.get_children():
            if top.get_type() != "function":
                continue
            for inner in top.get_children():
                if inner.get_type() == "function":
                    for fv in sorted(inner.get_frees()):
                        captures.append((top.get_name(), fv, local_kind(top.get_name(), fv)))
        # data flow of the converter argument
        for st_ in tree.body:
            if isinstance(st_, ast.FunctionDef) and st_.name in ("get_converter", "register_hooks"):
                # a call through a loop variable that ranges over a local tuple / list literal of names is the calls of those
                # names, in order (registration driven by a table instead of repeated statements)
                local_seq = {}
                for n in ast.walk(st_):
                    if isinstance(n, ast.Assign) and len(n.targets) == 1 and isinstance(n.targets[0], ast.Name) \
                            and isinstance(n.value, (ast.Tuple, ast.List)) and all(isinstance(e, (ast.Name, ast.Attribute)) for e in n.value.elts):
                        local_seq[n.targets[0].id] = [ast.unparse(e) for e in n.value.elts]
                loop_vars = {}
                for n in ast.walk(st_):
                    if isinstance(n, ast.For) and isinstance(n.target, ast.Name):
                        it = n.iter
                        if isinstance(it, ast.Name) and it.id in local_seq:
                            loop_vars[n.target.id] = local_seq[it.id]
                        elif isinstance(it, (ast.Tuple, ast.List)) and all(isinstance(e, (ast.Name, ast.Attribute)) for e in it.elts):
                            loop_vars[n.target.id] = [ast.unparse(e) for e in it.elts]
                for n in ast.walk(st_):
                    if isinstance(n, ast.Call):
                        f_ = ast.unparse(n.func)[:60]
                        if isinstance(n.func, ast.Name) and n.func.id in loop_vars:
                            for callee in loop_vars[n.func.id]:
                                flow.append((fn, st_.name, callee[:60]))
                        else:
                            flow.append((fn, st_.name, f_))
    out = ["-- generated by tools/extract/x_hist.py", "import LspVerif.Core.Hist", "open LspVerif LspVerif.Hist", "namespace Gen"]
    t3 = lambda xs: lean_list(f"({lean_name(a)}, {lean_name(b)}, {lean_name(c)})" for a, b, c in xs)  # noqa: E731
    out.append(f"def hist : Scan := {{ bindings := {t3(bindings)}, globals := {t3(globals_)}, caches := {t3(decos + defaults)}, writes := {t3(sorted(set(writes)))}, captures := {t3(sorted(set(captures)))}, flow := {t3(flow)} }}")
    out.append("end Gen")
    print("\n".join(out))
    if "--show" in args:
        for k, v in (("bindings", bindings), ("globals", globals_), ("caches", decos + defaults), ("writes", sorted(set(writes))), ("captures", sorted(set(captures))), ("flow", flow)):
            print("--", k, v, file=sys.stderr)


main()
