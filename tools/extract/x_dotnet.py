"""x_dotnet: run the dotnet plugin of the current tree, parse the emitted subset of C# into tables
-> Lean `Gen.dotnet : Dotnet.Pkg` (module GenDotnet).  Line/brace parser of the emitted subset with
a self-check: every `public record|enum|class` declaration must be accounted for and every
`[DataMember` must belong to a parsed member; otherwise UNPARSED (exit 3)."""
import json
import os
import pathlib
import re
import shutil
import subprocess
import sys
import tempfile

sys.path.insert(0, os.path.dirname(os.path.dirname(os.path.abspath(__file__))))
sys.path.insert(0, os.path.dirname(os.path.abspath(__file__)))
from common import lean_name, lean_list, lean_bool, lean_int  # noqa: E402
from x_rust import parse_type, lean_ty, Unparsed  # noqa: E402

REPO = pathlib.Path(os.environ.get("VERIF_REPO", "/repo"))


def cs_type(s):
    """C# type text -> (tree, nullable)"""
    s = s.strip()
    nullable = s.endswith("?")
    if nullable:
        s = s[:-1]
    return parse_type(s.replace("?", "")), nullable


def parse_file(name, text):
    lines = text.split("\n")
    decls = [(i, l) for i, l in enumerate(lines) if re.match(r"\s*public (static )?(record|enum|class|struct|interface) ", l)]
    out = []
    for i, l in decls:
        m = re.match(r"\s*public (static )?(record|enum|class|struct|interface) (\w+)(<[^>]*>)?\s*(?::\s*(.*))?$", l.rstrip())
        if not m:
            raise Unparsed(f"{name}: declaration {l.strip()!r}")
        kind, dname, bases = m.group(2), m.group(3), m.group(5)
        # attributes directly above
        attrs = []
        j = i - 1
        while j >= 0 and lines[j].strip().startswith("["):
            attrs.append(lines[j].strip())
            j -= 1
        info = {"kind": kind, "name": dname, "bases": bases or "", "attrs": attrs}
        # body = until matching brace
        depth, k, started, body = 0, i, False, []
        while k < len(lines):
            depth += lines[k].count("{") - lines[k].count("}")
            if "{" in lines[k]:
                started = True
            if k > i:
                body.append(lines[k])
            if started and depth <= 0:
                break
            k += 1
        info["body"] = body
        out.append(info)
    return out


def parse_record(info, fname):
    body = info["body"]
    members, assigned, ctor_params = [], {}, []
    pend = []
    in_ctor = False
    for l in body:
        s = l.strip()
        if s.startswith("///") or not s:
            continue
        if s.startswith("[JsonConstructor]"):
            in_ctor = True
            pend = []
            continue
        if in_ctor:
            m = re.match(r"(\w+) = (\w+);$", s)
            if m:
                assigned[m.group(1)] = m.group(2)
            pm = re.match(r"([\w<>,\s\?\(\)]+?)\s+(\w+)(\s*=\s*[^,]+)?,?$", s)
            if pm and not m and not s.startswith(("public", "{", "}", ")")):
                ctor_params.append(pm.group(2))
            if s == "}":
                in_ctor = False
            continue
        continue
    # members: attributes, then `public <type> <Name> { get ...` - matched on the comment-free text of the body, so that the layout
    # (attributes on one line or several, in any order; the accessor block on the same line or below) does not matter
    text = "\n".join(l for l in body if not l.strip().startswith("///"))
    for m in re.finditer(r"((?:\[(?:[^\[\]\n]|\[[^\[\]\n]*\])*\]\s*)*)public\s+([\w<>,\s\?\(\)]+?)\s+(\w+)\s*\{\s*get\b", text):
        pend = re.findall(r"\[(?:[^\[\]\n]|\[[^\[\]\n]*\])*\]", m.group(1))
        dm = [a for a in pend if a.startswith("[DataMember")]
        if dm:
            wm = re.match(r'\[DataMember\(Name = "((?:[^"\\]|\\.)*)"\)\]', dm[0])
            if not wm:
                raise Unparsed(f"{fname}: {dm[0]}")
            ty, nullable = cs_type(m.group(2))
            members.append({"wire": wm.group(1), "prop": m.group(3), "ty": ty, "nullable": nullable,
                            "null_ignore": any("NullValueHandling.Ignore" in a for a in pend),
                            "proposed": any(a.startswith("[Proposed") for a in pend)})
    for mem in members:
        mem["assigned"] = mem["prop"] in assigned
    a = info["attrs"]
    req = next((re.match(r'\[LSPRequest\("((?:[^"\\]|\\.)*)", typeof\((\w+)\)(?:, typeof\(.*\))?\)\]$', x) for x in a if x.startswith("[LSPRequest(")), None)
    resp = next((re.match(r"\[LSPResponse\(typeof\((\w+)\)\)\]", x) for x in a if x.startswith("[LSPResponse(")), None)
    dire = next((re.match(r"\[Direction\(MessageDirection\.(\w+)\)\]", x) for x in a if x.startswith("[Direction(")), None)
    return {"name": info["name"], "members": members, "bases": info["bases"],
            "lsp_request": (req.group(1), req.group(2)) if req else None,
            "lsp_response": resp.group(1) if resp else None,
            "direction": dire.group(1) if dire else None,
            "proposed": any(x.startswith("[Proposed") for x in a)}


def parse_enum(info, fname):
    vals = []
    pend = []
    for l in info["body"]:
        s = l.strip()
        if s.startswith("///") or not s or s in ("{", "}"):
            continue
        inline = re.match(r'(\[EnumMember\(Value = "(?:[^"\\]|\\.)*"\)\])\s*(\w.*)$', s)
        if inline:
            pend.append(inline.group(1))
            s = inline.group(2)
        elif s.startswith("["):
            pend.append(s)
            continue
        m = re.match(r"(\w+)(?:\s*=\s*(-?\d+))?,?$", s)
        if not m:
            raise Unparsed(f"{fname}: enum member {s!r}")
        em = next((re.match(r'\[EnumMember\(Value = "((?:[^"\\]|\\.)*)"\)\]', a) for a in pend if a.startswith("[EnumMember")), None)
        if em:
            vals.append(("s", em.group(1), any(a.startswith("[Proposed") for a in pend)))
        elif m.group(2) is not None:
            vals.append(("i", int(m.group(2)), any(a.startswith("[Proposed") for a in pend)))
        else:
            vals.append(("n", m.group(1), False))
        pend = []
    return {"name": info["name"], "values": vals}


def main():
    d = pathlib.Path(tempfile.mkdtemp(prefix="lspverif-dotnet-"))
    try:
        args = [sys.executable, "-B", "-m", "generator", "--plugin", "dotnet", "--output-dir", str(d)]
        if "--model" in sys.argv:
            args += ["--model", *sys.argv[sys.argv.index("--model") + 1:]]
        p = subprocess.run(args, cwd=str(REPO), capture_output=True, text=True)
        if p.returncode != 0:
            print("PLUGIN-FAILED: " + (p.stdout + p.stderr)[-1500:], file=sys.stderr)
            sys.exit(4)
        custom = {f.name for f in (REPO / "generator/plugins/dotnet/custom").glob("*.cs")}
        records, enums, methods = [], [], []
        n_dm_text = n_dm_parsed = 0
        for f in sorted((d / "lsprotocol").glob("*.cs")):
            if f.name in custom:
                continue
            text = f.read_text(encoding="utf-8")
            n_dm_text += text.count("[DataMember(")
            for info in parse_file(f.name, text):
                if info["kind"] == "record":
                    r = parse_record(info, f.name)
                    n_dm_parsed += len(r["members"])
                    records.append(r)
                elif info["kind"] == "enum":
                    enums.append(parse_enum(info, f.name))
                elif info["kind"] == "class" and info["name"] == "LSPMethods":
                    for l in info["body"]:
                        m = re.match(r'\s*public static string (\w+) \{ get; \} = "((?:[^"\\]|\\.)*)";', l)
                        if m:
                            methods.append((m.group(1), m.group(2)))
                elif info["kind"] == "class":
                    # converters and other helper classes the plugin emits: no data members expected
                    if "[DataMember(" in "\n".join(info["body"]):
                        raise Unparsed(f"{f.name}: class {info['name']} has data members")
                else:
                    raise Unparsed(f"{f.name}: {info['kind']} {info['name']}")
        if n_dm_text != n_dm_parsed:
            raise Unparsed(f"{n_dm_text} [DataMember] attributes in the text but {n_dm_parsed} parsed members")
    finally:
        shutil.rmtree(d, ignore_errors=True)
    if "--json" in sys.argv:
        json.dump({"records": records, "enums": enums, "methods": methods}, sys.stdout)
        return
    out = ["-- generated by tools/extract/x_dotnet.py", "import LspVerif.Spec.Dotnet", "open LspVerif LspVerif.Wire LspVerif.Dotnet", "set_option maxRecDepth 1000000", "namespace Gen", ""]

    def on(x):
        return "none" if x is None else f"(some {lean_name(x)})"

    rn = []
    for i, r in enumerate(records):
        ms = [f"{{ wire := {lean_name(m['wire'])}, prop := {lean_name(m['prop'])}, ty := {lean_ty(m['ty'])}, nullable := {lean_bool(m['nullable'])}, nullIgnore := {lean_bool(m['null_ignore'])}, assigned := {lean_bool(m['assigned'])}, proposed := {lean_bool(m['proposed'])} }}" for m in r["members"]]
        req = "none" if r["lsp_request"] is None else f"(some ({lean_name(r['lsp_request'][0])}, {lean_name(r['lsp_request'][1])}))"
        out.append(f"def dr{i} : DRecord := {{ name := {lean_name(r['name'])}, members := {lean_list(ms)}, lspRequest := {req}, lspResponse := {on(r['lsp_response'])}, direction := {on(r['direction'])}, proposed := {lean_bool(r['proposed'])} }}")
        rn.append(f"dr{i}")
    en = []
    for e in enums:
        vs = []
        for k, v, prop in e["values"]:
            vs.append(f"(.s {lean_name(v)})" if k in ("s", "n") else f"(.i {lean_int(v)})")
        en.append(f"({lean_name(e['name'])}, {lean_list(vs)})")
    out.append(f"def dotnet : DPkg := {{ records := {lean_list(rn)}, enums := {lean_list(en)}, methods := {lean_list('(' + lean_name(a) + ', ' + lean_name(b) + ')' for a, b in methods)} }}")
    out.append("end Gen")
    sys.stdout.write("\n".join(out) + "\n")


if __name__ == "__main__":
    try:
        main()
    except Unparsed as e:
        print(f"UNPARSED: {e}", file=sys.stderr)
        sys.exit(3)
