"""x_pos: translate the hand-written dunder methods of Position / Range / Location in the
*current* lsprotocol/types.py into Lean definitions (shallow embedding over LspVerif.Cmp).

Run with the repo's interpreter:  python x_pos.py [types_dir]  -> Lean source on stdout.
A construct outside the supported subset makes the translator print `UNTRANSLATABLE: <why>` on
stderr and exit 3 (the check then goes to its failing-input search; it never guesses).
"""
import ast
import inspect
import sys
import textwrap

if len(sys.argv) > 1:
    sys.path.insert(0, sys.argv[1])

import attrs  # noqa: E402
from lsprotocol import types  # noqa: E402

CLASSES = ["Position", "Range", "Location"]
CTOR = {"Position": "pos", "Range": "rng", "Location": "loc"}
LTY = {"Position": "Pos", "Range": "Rng", "Location": "Loc"}
EXPECTED_FIELDS = {
    "Position": [("line", "int"), ("character", "int")],
    "Range": [("start", "Position"), ("end", "Position")],
    "Location": [("uri", "str"), ("range", "Range")],
}
OPS = ["eq", "ne", "lt", "le", "gt", "ge"]
DERIVED = {
    "_lt_from_gt": "ltFromGt", "_le_from_gt": "leFromGt", "_ge_from_gt": "geFromGt",
    "_gt_from_lt": "gtFromLt", "_le_from_lt": "leFromLt", "_ge_from_lt": "geFromLt",
}


class Untranslatable(Exception):
    pass


def lean_field(name):
    return "«end»" if name == "end" else name


def field_types(cls):
    out = []
    attrs.resolve_types(cls, types.ALL_TYPES_MAP, {})
    for f in attrs.fields(cls):
        t = f.type
        n = {int: "int", str: "str"}.get(t, getattr(t, "__name__", repr(t)))
        out.append((f.name, n))
    return out


class Tr:
    """Translate expressions of one method, for one dynamic kind of the second argument."""

    def __init__(self, cls, self_name, other_name, other_kind, env_name):
        self.cls, self.self_name, self.other_name = cls, self_name, other_name
        self.other_kind = other_kind  # class name or None (unrelated object)
        self.env = env_name

    def attr_type(self, owner_cls, attr):
        for n, t in EXPECTED_FIELDS[owner_cls]:
            if n == attr:
                return t
        raise Untranslatable(f"attribute {attr} is not a field of {owner_cls}")

    def expr(self, e):
        """-> (lean text, type) with type in int,str,bool,Position,Range,Location,('tup',n),NotImplemented"""
        if isinstance(e, ast.Constant):
            if e.value is NotImplemented or (isinstance(e.value, type(NotImplemented))):
                return ("NotImplemented", "NotImplemented")
            if isinstance(e.value, bool):
                return ("true" if e.value else "false", "bool")
            if isinstance(e.value, int):
                return (f"({e.value} : Int)", "int")
            if isinstance(e.value, str):
                return ('"' + e.value.replace("\\", "\\\\").replace('"', '\\"') + '"', "str")
            raise Untranslatable(f"constant {e.value!r}")
        if isinstance(e, ast.Name):
            if e.id == "NotImplemented":
                return ("NotImplemented", "NotImplemented")
            if e.id == self.self_name:
                return ("self", self.cls)
            if e.id == self.other_name:
                if self.other_kind is None:
                    raise Untranslatable("use of an unrelated second argument as a value")
                return ("o", self.other_kind)
            raise Untranslatable(f"name {e.id}")
        if isinstance(e, ast.Attribute):
            if isinstance(e.value, ast.Name) and e.value.id == self.other_name and self.other_kind is None:
                raise Untranslatable(f"attribute access .{e.attr} on an unrelated object (AttributeError at run time)")
            base, ty = self.expr(e.value)
            if ty not in EXPECTED_FIELDS:
                raise Untranslatable(f"attribute access on {ty}")
            t = self.attr_type(ty, e.attr)
            return (f"{base}.{lean_field(e.attr)}", t)
        if isinstance(e, ast.Tuple):
            parts = [self.expr(x) for x in e.elts]
            if all(t == "int" for _, t in parts):
                return ("[" + ", ".join(p for p, _ in parts) + "]", ("tup", len(parts)))
            return (parts, ("htup", len(parts)))
        if isinstance(e, ast.UnaryOp) and isinstance(e.op, ast.Not):
            b = self.boolean(e.operand)
            return (f"(!{b})", "bool")
        if isinstance(e, ast.BoolOp):
            parts = [self.boolean(v) for v in e.values]
            op = " && " if isinstance(e.op, ast.And) else " || "
            return ("(" + op.join(parts) + ")", "bool")
        if isinstance(e, ast.Compare):
            if len(e.ops) != 1:
                # a < b < c  ==  a < b and b < c
                parts = []
                left = e.left
                for op, right in zip(e.ops, e.comparators):
                    parts.append(self.compare(left, op, right))
                    left = right
                return ("(" + " && ".join(parts) + ")", "bool")
            return (self.compare(e.left, e.ops[0], e.comparators[0]), "bool")
        if isinstance(e, ast.Call) and isinstance(e.func, ast.Name) and e.func.id == "isinstance":
            return ("true" if self.isinstance_static(e) else "false", "bool")
        if isinstance(e, ast.IfExp):
            c = self.boolean(e.test)
            a, ta = self.expr(e.body)
            b, tb = self.expr(e.orelse)
            if ta != tb:
                raise Untranslatable("conditional expression with branches of different types")
            return (f"(if {c} then {a} else {b})", ta)
        raise Untranslatable(f"expression {ast.dump(e)[:80]}")

    def isinstance_static(self, call):
        obj, cl = call.args
        names = [cl] if not isinstance(cl, ast.Tuple) else list(cl.elts)
        cls_names = []
        for n in names:
            if not isinstance(n, ast.Name):
                raise Untranslatable("isinstance against a non-name")
            cls_names.append(n.id)
        if isinstance(obj, ast.Name) and obj.id == self.other_name:
            return self.other_kind in cls_names
        if isinstance(obj, ast.Name) and obj.id == self.self_name:
            return self.cls in cls_names
        raise Untranslatable("isinstance of something other than the two arguments")

    def boolean(self, e):
        t, ty = self.expr(e)
        if ty != "bool":
            raise Untranslatable(f"non-bool {ty} used as a truth value")
        return t

    def compare(self, l, op, r):
        a, ta = self.expr(l)
        b, tb = self.expr(r)
        opn = type(op).__name__
        if isinstance(ta, tuple) and ta[0] == "htup" and ta == tb and opn in ("Eq", "NotEq"):
            # tuple equality is element-wise equality (same length)
            parts = []
            for (x, tx), (y, ty) in zip(a, b):
                parts.append(self.cmp_scalar(x, tx, y, ty, "Eq"))
            conj = "(" + " && ".join(parts) + ")"
            return conj if opn == "Eq" else f"(!{conj})"
        if isinstance(ta, tuple) and ta[0] == "tup" and isinstance(tb, tuple) and tb[0] == "tup":
            fn = {"Eq": "pyTupEq", "Gt": "pyTupGt", "Lt": "pyTupLt", "GtE": "pyTupGe", "LtE": "pyTupLe"}.get(opn)
            if opn == "NotEq":
                return f"(!pyTupEq {a} {b})"
            if fn is None:
                raise Untranslatable(f"tuple operator {opn}")
            return f"({fn} {a} {b})"
        return self.cmp_scalar(a, ta, b, tb, opn)

    def cmp_scalar(self, a, ta, b, tb, opn):
        if ta == tb == "int":
            sym = {"Eq": "=", "NotEq": "≠", "Gt": ">", "Lt": "<", "GtE": "≥", "LtE": "≤"}[opn]
            return f"decide ({a} {sym} {b})"
        if ta == tb == "str" and opn in ("Eq", "NotEq"):
            return f"decide ({a} {'=' if opn == 'Eq' else '≠'} {b})"
        if ta == tb == "bool" and opn in ("Eq", "NotEq"):
            return f"decide ({a} {'=' if opn == 'Eq' else '≠'} {b})"
        if ta in CTOR and tb in CTOR and opn in ("Eq", "NotEq"):
            # the == operator between two protocol objects goes through the comparison protocol of
            # the classes translated so far (component identity is abstracted: same := false)
            fn = "opEq" if opn == "Eq" else "opNe"
            return f"({fn} {self.env} false (.{CTOR[ta]} {a}) (.{CTOR[tb]} {b}))"
        raise Untranslatable(f"comparison {opn} between {ta} and {tb}")

    # statements -> Lean term of type R
    def block(self, stmts):
        if not stmts:
            raise Untranslatable("method falls off the end (returns None)")
        s, rest = stmts[0], stmts[1:]
        if isinstance(s, ast.Expr) and isinstance(s.value, ast.Constant):
            return self.block(rest)  # docstring
        if isinstance(s, ast.Return):
            if s.value is None:
                raise Untranslatable("bare return")
            t, ty = self.expr(s.value)
            if ty == "NotImplemented":
                return ".notImpl"
            if ty != "bool":
                raise Untranslatable(f"method returns a {ty}")
            return f".bool {t}"
        if isinstance(s, ast.If):
            c = self.boolean(s.test)
            if c == "true":
                return self.block(s.body + ([] if self.always_returns(s.body) else rest))
            if c == "false":
                return self.block(s.orelse + rest)
            if c == "(!true)":
                return self.block(s.orelse + rest)
            if c == "(!false)":
                return self.block(s.body + ([] if self.always_returns(s.body) else rest))
            a = self.block(s.body + ([] if self.always_returns(s.body) else rest))
            b = self.block(s.orelse + rest)
            return f"(if {c} then {a} else {b})"
        if isinstance(s, ast.Assert):
            raise Untranslatable("assert")
        if isinstance(s, ast.AnnAssign) and isinstance(s.target, ast.Name) and s.value is not None:
            s = ast.Assign(targets=[s.target], value=s.value)
        if isinstance(s, ast.Assign) and len(s.targets) == 1 and isinstance(s.targets[0], ast.Name):
            # a local bound once to an effect-free expression of the operands (a tuple of attributes, a comparison): its uses are
            # replaced by the expression
            x = s.targets[0].id
            if x in (self.self_name, self.other_name) or any(isinstance(n, ast.Call) and not (isinstance(n.func, ast.Name) and n.func.id == "isinstance") for n in ast.walk(s.value)):
                raise Untranslatable(f"assignment {ast.unparse(s)[:60]}")
            if any(isinstance(n, ast.Name) and n.id == x and isinstance(n.ctx, ast.Store) for st in rest for n in ast.walk(st)):
                raise Untranslatable(f"local {x} is re-assigned")
            import copy

            class Sub(ast.NodeTransformer):
                def visit_Name(self_, node):
                    if isinstance(node.ctx, ast.Load) and node.id == x:
                        return copy.deepcopy(s.value)
                    return node
            return self.block([Sub().visit(copy.deepcopy(st)) for st in rest])
        raise Untranslatable(f"statement {type(s).__name__}")

    def always_returns(self, stmts):
        if not stmts:
            return False
        last = stmts[-1]
        if isinstance(last, ast.Return):
            return True
        if isinstance(last, ast.If):
            return self.always_returns(last.body) and self.always_returns(last.orelse)
        return False

    def fstring(self, e):
        """f-string -> Lean String expression."""
        if isinstance(e, ast.Constant) and isinstance(e.value, str):
            return self.expr(e)[0]
        if not isinstance(e, ast.JoinedStr):
            raise Untranslatable("__repr__ does not return an f-string")
        parts = []
        for v in e.values:
            if isinstance(v, ast.Constant):
                parts.append(self.expr(v)[0])
            elif isinstance(v, ast.FormattedValue):
                if v.format_spec is not None:
                    raise Untranslatable("format spec in f-string")
                t, ty = self.expr(v.value)
                conv = v.conversion  # -1 none, 114 !r, 115 !s
                if ty == "int":
                    parts.append(f"pyIntStr {t}")  # str(int) == repr(int)
                elif ty == "str" and conv in (-1, 115):
                    parts.append(t)
                elif ty in CTOR:
                    # repr(x) and str(x) both reach __repr__ (no __str__ is defined; checked below)
                    parts.append(f"{ty}.__repr__ {t}")
                else:
                    raise Untranslatable(f"f-string field of type {ty} with conversion {conv}")
            else:
                raise Untranslatable("f-string part")
        return "(" + " ++ ".join(parts) + ")" if parts else '""'


def method_source(cls, name):
    fn = cls.__dict__.get(name)
    if fn is None:
        return None
    return fn


def main():
    src_file = inspect.getsourcefile(types)
    tree = ast.parse(open(src_file).read())
    cls_nodes = {n.name: n for n in tree.body if isinstance(n, ast.ClassDef)}
    out = []
    out.append("-- generated by tools/extract/x_pos.py from " + src_file)
    out.append("import LspVerif.Core.Cmp\nopen LspVerif.Cmp\nnamespace Gen\n")
    out.append("def env0 : Env := { pos := {}, rng := {}, loc := {} }\n")
    env_prev = "env0"
    facts = []
    for i, cn in enumerate(CLASSES):
        cls = getattr(types, cn)
        ft = field_types(cls)
        if ft != EXPECTED_FIELDS[cn]:
            raise Untranslatable(f"fields of {cn} are {ft}, the Lean model has {EXPECTED_FIELDS[cn]}")
        if "__str__" in cls.__dict__:
            raise Untranslatable(f"{cn} defines __str__")
        node = cls_nodes[cn]
        fnodes = {n.name: n for n in node.body if isinstance(n, ast.FunctionDef)}
        impls = {}
        for op in OPS:
            dn = f"__{op}__"
            fn = cls.__dict__.get(dn)
            if fn is None:
                impls[op] = ".absent"
                continue
            fname = getattr(getattr(fn, "__code__", None), "co_name", "")
            if fname in DERIVED and getattr(fn, "__module__", "") == "functools":
                impls[op] = "." + DERIVED[fname]
                continue
            if dn in fnodes and getattr(fn, "__code__", None) is not None and fn.__code__.co_filename == src_file:
                f = fnodes[dn]
                args = [a.arg for a in f.args.args]
                if len(args) != 2:
                    raise Untranslatable(f"{cn}.{dn} takes {args}")
                branches = []
                for kind in CLASSES + [None]:
                    tr = Tr(cn, args[0], args[1], kind, env_prev)
                    body = tr.block(f.body)
                    pat = f".{CTOR[kind]} o" if kind else ".other _"
                    if "o" not in body.replace("opEq", "").replace("opNe", "").replace("notImpl", "").replace("bool", "").replace("other", "") and kind:
                        pat = f".{CTOR[kind]} _"
                    branches.append(f"  | {pat} => {body}")
                out.append(f"def {cn}.{dn} (self : {LTY[cn]}) (o : Obj) : R :=\n  match o with\n" + "\n".join(branches) + "\n")
                impls[op] = f".source {cn}.{dn}"
                continue
            if "attrs generated" in getattr(getattr(fn, "__code__", None), "co_filename", "") and op in ("eq", "ne"):
                # attrs' generated __eq__: NotImplemented unless other.__class__ is self.__class__,
                # else field-tuple equality; __ne__ inverts it.
                conj = []
                for fname2, fty in EXPECTED_FIELDS[cn]:
                    a, b = f"self.{lean_field(fname2)}", f"o.{lean_field(fname2)}"
                    if fty in ("int", "str"):
                        conj.append(f"decide ({a} = {b})")
                    else:
                        conj.append(f"(opEq {env_prev} false (.{CTOR[fty]} {a}) (.{CTOR[fty]} {b}))")
                body = "(" + " && ".join(conj) + ")"
                if op == "ne":
                    body = f"(!{body})"
                out.append(f"def {cn}.{dn} (self : {LTY[cn]}) (o : Obj) : R :=\n  match o with\n  | .{CTOR[cn]} o => .bool {body}\n  | _ => .notImpl\n")
                impls[op] = f".source {cn}.{dn}"
                continue
            raise Untranslatable(f"{cn}.{dn} has an origin the translator does not know: {fn!r}")
        # repr
        rf = cls.__dict__.get("__repr__")
        if rf is None or "__repr__" not in fnodes or rf.__code__.co_filename != src_file:
            raise Untranslatable(f"{cn}.__repr__ is not defined in types.py")
        f = fnodes["__repr__"]
        body = [s for s in f.body if not (isinstance(s, ast.Expr) and isinstance(s.value, ast.Constant))]
        if len(body) != 1 or not isinstance(body[0], ast.Return):
            raise Untranslatable(f"{cn}.__repr__ is not a single return")
        tr = Tr(cn, f.args.args[0].arg, "__none__", None, env_prev)
        out.append(f"def {cn}.__repr__ (self : {LTY[cn]}) : String := {tr.fstring(body[0].value)}\n")
        meths = ", ".join(f"{op} := {impls[op]}" for op in OPS)
        env_new = f"env{i + 1}"
        out.append(f"def {env_new} : Env := {{ {env_prev} with {CTOR[cn]} := {{ {meths} }} }}\n")
        env_prev = env_new
        facts.append((cn, impls))
    out.append(f"def env : Env := {env_prev}\n")
    out.append("end Gen")
    print("\n".join(out))


if __name__ == "__main__":
    try:
        main()
    except Untranslatable as e:
        print(f"UNTRANSLATABLE: {e}", file=sys.stderr)
        sys.exit(3)
