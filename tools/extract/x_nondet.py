"""x_nondet: syntactic scan of generator/ for every source of nondeterminism (hash-order
containers, directory listings, uuids, hash()/id(), randomness, clock, environment) with its
enclosing function and the way it is neutralised -> Lean `Gen.nondetSites` (module GenNondet).
Also the output discipline of each plugin's generate_from_spec (cleanup before write)."""
import ast
import os
import pathlib
import sys

sys.path.insert(0, os.path.dirname(os.path.dirname(os.path.abspath(__file__))))
from common import lean_name, lean_list  # noqa: E402

REPO = pathlib.Path(os.environ.get("VERIF_REPO", "/repo"))
GEN = REPO / "generator"


def parents(tree):
    par = {}
    for n in ast.walk(tree):
        for c in ast.iter_child_nodes(n):
            par[c] = n
    return par


def func_of(n, par):
    while n in par:
        n = par[n]
        if isinstance(n, (ast.FunctionDef, ast.Lambda, ast.ClassDef)):
            return getattr(n, "name", "<lambda>")
    return "<module>"


def neutraliser(n, par):
    """How the (possibly hash-ordered) value is consumed."""
    cur = n
    while cur in par:
        p = par[cur]
        if isinstance(p, ast.Call) and isinstance(p.func, ast.Name) and p.func.id == "sorted" and cur in p.args:
            return "sorted"
        if isinstance(p, ast.Call) and isinstance(p.func, ast.Name) and p.func.id in ("len", "any", "all", "bool", "min", "max", "sum") and cur in p.args:
            return "order-insensitive-" + p.func.id
        if isinstance(p, ast.Compare) and any(isinstance(o, (ast.In, ast.NotIn)) for o in p.ops):
            return "membership"
        if isinstance(p, ast.For) and p.iter is cur:
            body = " ".join(ast.unparse(s) for s in p.body)
            if ".unlink()" in body and len(p.body) == 1:
                return "loop-deletes-each"
            if "write_text" in body:
                return "loop-writes-distinct-file-each"
            return "loop-order-dependent"
        if isinstance(p, (ast.Call,)) and isinstance(p.func, ast.Name) and p.func.id in ("list", "tuple"):
            cur = p
            continue
        if isinstance(p, ast.Assign) and len(p.targets) == 1 and isinstance(p.targets[0], ast.Name) and membership_only(p.targets[0].id, p):
            return "membership-only-via-name"
        if isinstance(p, ast.Assign) and len(p.targets) == 1 and isinstance(p.targets[0], ast.Name) and locally_neutralised(p.targets[0].id, p, par):
            return "neutralised-at-every-use-via-local-name"
        if isinstance(p, (ast.Return, ast.Assign, ast.Expr, ast.keyword)):
            return "escapes-unsorted:" + type(p).__name__
        cur = p
    return "unknown"


SAFE_DIRECT = ("sorted", "membership", "order-insensitive-len", "order-insensitive-any", "order-insensitive-all", "order-insensitive-bool",
               "order-insensitive-min", "order-insensitive-max", "order-insensitive-sum")


def locally_neutralised(name, assign, par):
    """The container is bound exactly once, to the local `name` of the enclosing function, and every other occurrence of the
    identifier in that function (nested functions included) is a read that is itself consumed order-insensitively: the iterable of a
    comprehension directly inside sorted(...), an argument of sorted / len / any / ..., the right-hand side of `in`.  A parameter or
    global of that name, a second binding, a read that escapes (returned, passed on, stored, looped over) makes this False."""
    f = assign
    while f in par and not isinstance(f, (ast.FunctionDef, ast.AsyncFunctionDef)):
        f = par[f]
    if not isinstance(f, (ast.FunctionDef, ast.AsyncFunctionDef)):
        return False
    a = f.args
    if name in [x.arg for x in a.posonlyargs + a.args + a.kwonlyargs] or (a.vararg and a.vararg.arg == name) or (a.kwarg and a.kwarg.arg == name):
        return False
    reads = 0
    for n in ast.walk(f):
        if isinstance(n, (ast.Global, ast.Nonlocal)) and name in n.names:
            return False
        if isinstance(n, ast.arg) and n.arg == name and n is not None and par.get(n) is not f.args:
            return False
        if isinstance(n, ast.Name) and n.id == name:
            if isinstance(n.ctx, ast.Store):
                p = par.get(n)
                if not (p is assign):
                    return False
                continue
            if isinstance(n.ctx, ast.Del):
                return False
            reads += 1
            if neutraliser_direct(n, par) not in SAFE_DIRECT:
                return False
    return reads > 0


def neutraliser_direct(n, par):
    """neutraliser() without the via-name rules (no recursion): how this very expression is consumed"""
    cur = n
    while cur in par:
        p = par[cur]
        if isinstance(p, ast.Call) and isinstance(p.func, ast.Name) and p.func.id == "sorted" and cur in p.args:
            return "sorted"
        if isinstance(p, ast.Call) and isinstance(p.func, ast.Name) and p.func.id in ("len", "any", "all", "bool", "min", "max", "sum") and cur in p.args:
            return "order-insensitive-" + p.func.id
        if isinstance(p, ast.Compare) and any(isinstance(o, (ast.In, ast.NotIn)) for o in p.ops) and cur in p.comparators:
            return "membership"
        if isinstance(p, ast.comprehension) and p.iter is cur:
            cur = p
            continue
        if isinstance(p, (ast.ListComp, ast.GeneratorExp, ast.SetComp)) and cur in p.generators and len(p.generators) == 1:
            cur = p
            continue
        if isinstance(p, ast.Call) and isinstance(p.func, ast.Name) and p.func.id in ("list", "tuple") and cur in p.args:
            cur = p
            continue
        return "escapes"
    return "escapes"


_TREES = {}


def all_trees():
    if not _TREES:
        for f in sorted(GEN.rglob("*.py")):
            try:
                t = ast.parse(f.read_text(encoding="utf-8"))
            except SyntaxError:
                continue
            _TREES[f] = (t, parents(t))
    return _TREES


def membership_only(name, assign):
    """A container bound once to `name`: every other occurrence of the identifier anywhere under generator/ is the right-hand
    side of an `in` / `not in` test or an import of the name (then order cannot matter).  Any other use, a second binding or
    an attribute access `mod.name` that is not a membership test makes this False."""
    for f, (t, par) in all_trees().items():
        for n in ast.walk(t):
            if isinstance(n, ast.Name) and n.id == name:
                p = par.get(n)
                if isinstance(n.ctx, ast.Store):
                    if not (isinstance(p, ast.Assign) and (p.lineno, p.col_offset) == (assign.lineno, assign.col_offset)):
                        return False
                    continue
                if not (isinstance(p, ast.Compare) and all(isinstance(o, (ast.In, ast.NotIn)) for o in p.ops) and n in p.comparators):
                    return False
            elif isinstance(n, ast.Attribute) and n.attr == name:
                p = par.get(n)
                if not (isinstance(p, ast.Compare) and all(isinstance(o, (ast.In, ast.NotIn)) for o in p.ops) and n in p.comparators):
                    return False
            elif isinstance(n, ast.alias) and n.asname == name and n.name != name:
                return False
    return True


def scan():
    sites = []
    for f in sorted(GEN.rglob("*.py")):
        rel = str(f.relative_to(REPO))
        try:
            tree = ast.parse(f.read_text(encoding="utf-8"))
        except SyntaxError as e:
            sites.append((rel, "<module>", "syntax-error", str(e)[:40]))
            continue
        par = parents(tree)
        for n in ast.walk(tree):
            kind = None
            if isinstance(n, ast.Call):
                fn = ast.unparse(n.func)
                base = fn.split(".")[-1]
                if fn in ("set", "frozenset"):
                    kind = "set"
                elif base in ("glob", "rglob", "iterdir", "listdir", "scandir", "walk"):
                    kind = "dirlist"
                elif fn.startswith("uuid."):
                    kind = "uuid"
                elif fn in ("hash", "id"):
                    kind = fn
                elif fn.startswith("random.") or fn.startswith("secrets."):
                    kind = "random"
                elif fn.startswith("time.") or fn.startswith("datetime.") or base in ("now", "today", "utcnow"):
                    kind = "clock"
                elif fn in ("os.getenv",) or fn.startswith("os.environ"):
                    kind = "environ"
            elif isinstance(n, (ast.Set, ast.SetComp)):
                kind = "set"
            if kind is None:
                continue
            if kind in ("set", "dirlist"):
                neu = neutraliser(n, par)
            elif kind == "uuid":
                # model ids: only ever the default of an `id_` attribute
                p = par.get(n)
                chain = ast.unparse(par.get(par.get(p, p), p))[:200] if p else ""
                neu = "id-attribute-default" if "id_" in ast.unparse(_enclosing_stmt(n, par)) else "other-use"
                if neu == "other-use":
                    # inside a module-level helper every call of which is the value bound to an `id_` attribute
                    helper = _enclosing_def(n, par)
                    if helper is not None and par.get(helper) is tree and _only_id_values(helper.name):
                        neu = "id-attribute-default"
            else:
                neu = "unaccounted"
            sites.append((rel, func_of(n, par), kind, neu))
    return sites


def _enclosing_def(n, par):
    while n in par:
        n = par[n]
        if isinstance(n, (ast.FunctionDef, ast.AsyncFunctionDef)):
            return n
    return None


def _only_id_values(fname):
    """every occurrence of the name `fname` under generator/ is its definition or a call `fname()` that is the whole value of an
    assignment to a target named `id_`"""
    uses = 0
    for f, (t, par) in all_trees().items():
        for n in ast.walk(t):
            if isinstance(n, ast.Name) and n.id == fname:
                p = par.get(n)
                if not (isinstance(p, ast.Call) and p.func is n):
                    return False
                pp = par.get(p)
                tgt = pp.target if isinstance(pp, ast.AnnAssign) and pp.value is p else (pp.targets[0] if isinstance(pp, ast.Assign) and pp.value is p and len(pp.targets) == 1 else None)
                if not (isinstance(tgt, ast.Name) and tgt.id == "id_"):
                    return False
                uses += 1
            elif isinstance(n, ast.Attribute) and n.attr == fname:
                return False
    return uses > 0


def _enclosing_stmt(n, par):
    while n in par and not isinstance(n, ast.stmt):
        n = par[n]
    return n


def id_uses():
    """every read of an `id_` attribute outside model.py: (file, function, context)"""
    uses = []
    for f in sorted(GEN.rglob("*.py")):
        rel = str(f.relative_to(REPO))
        if rel.endswith("generator/model.py"):
            continue
        tree = ast.parse(f.read_text(encoding="utf-8"))
        par = parents(tree)
        for n in ast.walk(tree):
            if isinstance(n, ast.Attribute) and n.attr == "id_":
                p = par.get(n)
                ctx = "key" if isinstance(p, ast.Subscript) or (isinstance(p, ast.Compare)) or (isinstance(p, ast.Call) and ast.unparse(p.func).split(".")[-1] in ("get", "has_id", "add", "append")) else ("fstring" if isinstance(p, ast.FormattedValue) else type(p).__name__)
                uses.append((rel, func_of(n, par), "id_-read", ctx))
    return uses


MUTATORS = {"append", "add", "update", "setdefault", "pop", "clear", "extend", "insert", "remove", "discard", "popitem", "appendleft", "__setitem__"}
CONTAINER_CTORS = {"dict", "list", "set", "defaultdict", "collections.defaultdict", "OrderedDict", "collections.OrderedDict", "Counter",
                   "collections.Counter", "deque", "collections.deque", "bytearray"}
# constructors whose result carries no state a generation could leave behind for the next one
BENIGN_CTORS = {"re.compile", "logging.getLogger", "frozenset", "tuple", "str", "int", "float", "bool", "pathlib.Path", "Path", "os.path.join",
                "os.path.dirname", "os.path.abspath", "object", "TypeVar", "typing.TypeVar", "enum.auto",
                # declarations of per-instance attributes (attrs / dataclasses), not shared objects
                "attrs.field", "attr.ib", "attr.attrib", "dataclasses.field", "field"}


def state_sites():
    """State that outlives one generation inside an interpreter: module-level (and class-level) containers that some function mutates,
    rebinding of module names through `global`, memoising decorators, mutable default arguments, module-level objects of classes
    whose instances may carry state.  A plugin's output may depend on such state only if it is re-initialised per generation."""
    out = []
    for f in sorted(GEN.rglob("*.py")):
        rel = str(f.relative_to(REPO))
        try:
            tree = ast.parse(f.read_text(encoding="utf-8"))
        except SyntaxError:
            continue
        par = parents(tree)
        containers, objects = {}, {}

        modfuncs = {st.name: st for st in tree.body if isinstance(st, ast.FunctionDef)}

        def returns_benign(ctor, depth=0):
            """a helper function (of this module, or the one function of that name under generator/) whose body is a single
            `return <benign constructor>(...)` (e.g. a shared attrs.field declaration) or a single return of an immutable text
            (an f-string, a string constant, a concatenation / join of strings): the module-level name then holds an immutable value"""
            f = modfuncs.get(ctor.split(".")[-1]) if "." not in ctor else None
            if f is None:
                cands = [st for _, (t, _p) in all_trees().items() for st in t.body if isinstance(st, ast.FunctionDef) and st.name == ctor.split(".")[-1]]
                f = cands[0] if len(cands) == 1 else None
            if f is None or depth > 3:
                return False
            body = [st for st in f.body if not (isinstance(st, ast.Expr) and isinstance(st.value, ast.Constant))]
            if len(body) != 1 or not isinstance(body[0], ast.Return) or body[0].value is None:
                return False
            v = body[0].value

            def is_text(e):
                if isinstance(e, ast.JoinedStr) or (isinstance(e, ast.Constant) and isinstance(e.value, (str, int, float, bool, type(None)))):
                    return True
                if isinstance(e, ast.BinOp) and isinstance(e.op, (ast.Add, ast.Mod)):
                    return is_text(e.left)
                if isinstance(e, ast.Call) and isinstance(e.func, ast.Attribute) and e.func.attr in ("join", "format", "strip", "lower", "upper", "replace") and is_text(e.func.value):
                    return True
                return False
            if is_text(v):
                return True
            if isinstance(v, ast.Call):
                inner = ast.unparse(v.func)
                return inner in BENIGN_CTORS or returns_benign(inner, depth + 1)
            return False

        def classify(target, value, owner):
            if not isinstance(target, ast.Name) or value is None:
                return
            if isinstance(value, (ast.Dict, ast.List, ast.Set, ast.DictComp, ast.ListComp, ast.SetComp)):
                containers[target.id] = owner
            elif isinstance(value, ast.Call):
                ctor = ast.unparse(value.func)
                if ctor in CONTAINER_CTORS:
                    containers[target.id] = owner
                elif ctor not in BENIGN_CTORS and not returns_benign(ctor):
                    objects[target.id] = (owner, ctor)

        for st in tree.body:
            if isinstance(st, ast.Assign) and len(st.targets) == 1:
                classify(st.targets[0], st.value, "<module>")
            elif isinstance(st, ast.AnnAssign):
                classify(st.target, st.value, "<module>")
            elif isinstance(st, ast.ClassDef):
                for cst in st.body:
                    if isinstance(cst, ast.Assign) and len(cst.targets) == 1:
                        classify(cst.targets[0], cst.value, st.name)
                    elif isinstance(cst, ast.AnnAssign):
                        classify(cst.target, cst.value, st.name)
        for name, (owner, ctor) in sorted(objects.items()):
            out.append((rel, owner, "module-object", ctor))

        def base_name(e):
            """X, mod.X, cls.X, self.X, Class.X -> X"""
            if isinstance(e, ast.Name):
                return e.id
            if isinstance(e, ast.Attribute):
                return e.attr
            return None

        for fn in ast.walk(tree):
            if not isinstance(fn, (ast.FunctionDef, ast.AsyncFunctionDef)):
                continue
            for dec in fn.decorator_list:
                d = ast.unparse(dec)
                if any(k in d for k in ("lru_cache", "functools.cache", "cached_property", "memoize")) or d in ("cache",):
                    out.append((rel, fn.name, "memo-decorator", d[:60]))
            for dflt in list(fn.args.defaults) + [d for d in fn.args.kw_defaults if d is not None]:
                if isinstance(dflt, (ast.Dict, ast.List, ast.Set)) or (isinstance(dflt, ast.Call) and ast.unparse(dflt.func) in CONTAINER_CTORS):
                    out.append((rel, fn.name, "mutable-default", ast.unparse(dflt)[:40]))
            globs = set()
            local_stores = set()
            for n in ast.walk(fn):
                if isinstance(n, ast.Global):
                    globs |= set(n.names)
            for n in ast.walk(fn):
                if isinstance(n, ast.Name) and isinstance(n.ctx, ast.Store) and n.id not in globs:
                    local_stores.add(n.id)
            for a in fn.args.args + fn.args.kwonlyargs + ([fn.args.vararg] if fn.args.vararg else []) + ([fn.args.kwarg] if fn.args.kwarg else []):
                local_stores.add(a.arg)
            for n in ast.walk(fn):
                if isinstance(n, ast.Name) and isinstance(n.ctx, ast.Store) and n.id in globs:
                    out.append((rel, fn.name, "module-state", "global-rebind:" + n.id))
                tgt = None
                if isinstance(n, ast.Call) and isinstance(n.func, ast.Attribute) and n.func.attr in MUTATORS:
                    tgt = n.func.value
                elif isinstance(n, ast.Subscript) and isinstance(n.ctx, (ast.Store, ast.Del)):
                    tgt = n.value
                elif isinstance(n, ast.AugAssign):
                    tgt = n.target.value if isinstance(n.target, ast.Subscript) else n.target
                if tgt is None:
                    continue
                b = base_name(tgt)
                if b is None or b not in containers and b not in objects:
                    continue
                if isinstance(tgt, ast.Name) and b in local_stores:
                    continue          # a local of the same name shadows the module-level one
                if isinstance(tgt, ast.Attribute) and containers.get(b, objects.get(b, ("",))[0] if b in objects else "") == "<module>" \
                        and not (isinstance(tgt.value, ast.Name) and tgt.value.id not in ("self", "cls")):
                    continue          # self.X / cls.X where X is a module-level name: a different object
                out.append((rel, fn.name, "module-state", "mutated:" + b))
    return sorted(set(out))


def main():
    sites = scan() + id_uses() + state_sites()
    print("-- generated by tools/extract/x_nondet.py\nimport LspVerif.Core.Name\nopen LspVerif\nnamespace Gen")
    ents = [f"({lean_name(a)}, {lean_name(b)}, {lean_name(c)}, {lean_name(d)})" for a, b, c, d in sites]
    print(f"def nondetSites : List (Name × Name × Name × Name) := {lean_list(ents)}")
    print("end Gen")
    if "--show" in sys.argv:
        for s in sites:
            print("--", s, file=sys.stderr)


main()


def disciplines():
    """(plugin, fact, value) about how each plugin treats its output directory."""
    out = []
    for plugin, fname in (("python", "utils.py"), ("rust", "rust_utils.py"), ("dotnet", "dotnet_utils.py"), ("testdata", "testdata_utils.py")):
        f = GEN / "plugins" / plugin / fname
        tree = ast.parse(f.read_text(encoding="utf-8"))
        fns = {n.name: n for n in ast.walk(tree) if isinstance(n, ast.FunctionDef)}
        g = fns.get("generate_from_spec")
        if g is None:
            out.append((plugin, "generate_from_spec", "missing"))
            continue
        calls = []
        for n in ast.walk(g):
            if isinstance(n, ast.Call):
                calls.append((n.lineno, n.col_offset, ast.unparse(n.func)))
        calls.sort()
        names = [c[2] for c in calls]
        first_write = next((i for i, c in enumerate(names) if c.endswith("write_text")), None)
        first_cleanup = next((i for i, c in enumerate(names) if c == "cleanup"), None)
        if first_cleanup is not None:
            out.append((plugin, "cleanup-before-write", "yes" if first_write is None or first_cleanup < first_write else "no"))
            cl = fns.get("cleanup")
            pats = [n.args[0].value for n in ast.walk(cl) if isinstance(n, ast.Call) and ast.unparse(n.func).endswith("glob") and n.args and isinstance(n.args[0], ast.Constant)] if cl else []
            dels = any(isinstance(n, ast.Call) and ast.unparse(n.func).endswith("unlink") for n in ast.walk(cl)) if cl else False
            out.append((plugin, "cleanup-glob", ",".join(pats) if dels else "no-unlink"))
        else:
            out.append((plugin, "cleanup-before-write", "none"))
        # what is written
        src = f.read_text(encoding="utf-8")
        for n in ast.walk(tree):
            if isinstance(n, ast.JoinedStr):
                s = ast.unparse(n)
                if s.endswith(".cs'") or s.endswith('.cs"'):
                    out.append((plugin, "writes-suffix", ".cs"))
            if isinstance(n, ast.Dict):
                for k in n.keys:
                    if isinstance(k, ast.Constant) and isinstance(k.value, str) and k.value.endswith((".py", ".rs")):
                        out.append((plugin, "writes-fixed", k.value))
    tg = GEN / "plugins" / "testdata" / "testdata_generator.py"
    if ".json" in tg.read_text(encoding="utf-8"):
        out.append(("testdata", "writes-suffix", ".json"))
    return sorted(set(out))


if __name__ == "__main__":
    d = disciplines()
    print("namespace Gen")
    print(f"def disciplines : List (Name × Name × Name) := {lean_list('(' + lean_name(a) + ', ' + lean_name(b) + ', ' + lean_name(c) + ')' for a, b, c in d)}")
    print("end Gen")
    if "--show" in sys.argv:
        for x in d:
            print("--", x, file=sys.stderr)
