"""x_loader: generator/model.py, generator/__main__.py, generator/lsp.schema.json
-> Lean `Gen.spec : Loader.LoaderSpec`, `Gen.schemaDefs`, `Gen.schemaKinds` (module GenLoader).

Node classes by introspection of the imported module (attrs.fields), the attributes each
hand-written __eq__ reads / the kind table / the merged lists / the order of events in main() by
`ast`.  Run with the repo's interpreter."""
import ast
import inspect
import json
import os
import pathlib
import sys

REPO = pathlib.Path(os.environ.get("VERIF_REPO", "/repo"))
sys.path.insert(0, str(REPO))
sys.path.insert(0, os.path.dirname(os.path.dirname(os.path.abspath(__file__))))
import attrs  # noqa: E402
from common import lean_name, lean_list  # noqa: E402
from generator import model  # noqa: E402

SCHEMA_TO_CLASS = {
    "Enumeration": "Enum", "EnumerationEntry": "EnumItem", "EnumerationType": "EnumValueType",
    "StructureLiteral": "LiteralValue", "StructureLiteralType": "LiteralType", "MetaModel": "LSPModel",
}


class Untranslatable(Exception):
    pass


def eq_reads(cls, tree_classes):
    fn = cls.__dict__.get("__eq__")
    if fn is None or "attrs generated" in getattr(getattr(fn, "__code__", None), "co_filename", ""):
        # attrs-generated __eq__ compares every field, the uuid included
        return [f.name for f in attrs.fields(cls)]
    node = tree_classes[cls.__name__]
    f = next((n for n in node.body if isinstance(n, ast.FunctionDef) and n.name == "__eq__"), None)
    if f is None:
        raise Untranslatable(f"{cls.__name__}.__eq__ source not found")
    self_name = f.args.args[0].arg
    other_name = f.args.args[1].arg
    methods = {n.name: n for n in node.body if isinstance(n, ast.FunctionDef)}

    def attr_of(e, who):
        return e.attr if isinstance(e, ast.Attribute) and isinstance(e.value, ast.Name) and e.value.id == who else None

    def key_attrs(call, who):
        """self._key() where _key returns a tuple of attributes of self -> those attributes"""
        if not (isinstance(call, ast.Call) and isinstance(call.func, ast.Attribute) and isinstance(call.func.value, ast.Name)
                and call.func.value.id == who and not call.args and not call.keywords):
            return None
        m = methods.get(call.func.attr)
        if m is None or len(m.args.args) != 1:
            return None
        body = [st for st in m.body if not (isinstance(st, ast.Expr) and isinstance(st.value, ast.Constant))]
        if len(body) != 1 or not isinstance(body[0], ast.Return) or not isinstance(body[0].value, ast.Tuple):
            return None
        me = m.args.args[0].arg
        out = [attr_of(e, me) for e in body[0].value.elts]
        return out if all(out) else None

    reads, len_ok, zipped, accepted = [], set(), set(), []

    def conjunct(e):
        """one conjunct of the equality: which attributes it compares (pairwise, self.a against other.a), or Untranslatable"""
        if isinstance(e, ast.BoolOp) and isinstance(e.op, ast.And):
            for v in e.values:
                conjunct(v)
            return
        if isinstance(e, ast.Constant) and isinstance(e.value, bool):
            return
        if isinstance(e, ast.Call) and isinstance(e.func, ast.Name) and e.func.id == "isinstance":
            return
        if isinstance(e, ast.Compare) and len(e.ops) == 1 and isinstance(e.ops[0], ast.Eq):
            l, r = e.left, e.comparators[0]
            la, ra = attr_of(l, self_name), attr_of(r, other_name)
            if la and la == ra:                                            # self.a == other.a
                reads.append(la); accepted.append(e); return
            if isinstance(l, ast.Tuple) and isinstance(r, ast.Tuple) and len(l.elts) == len(r.elts):   # (self.a, self.b) == (other.a, other.b)
                ls, rs = [attr_of(x, self_name) for x in l.elts], [attr_of(x, other_name) for x in r.elts]
                if all(ls) and ls == rs:
                    reads.extend(ls); accepted.append(e); return
            ka, kb = key_attrs(l, self_name), key_attrs(r, other_name)   # self._key() == other._key()
            if ka and ka == kb and isinstance(l, ast.Call) and isinstance(r, ast.Call) and l.func.attr == r.func.attr:
                reads.extend(ka); accepted.append(e); return
            if (isinstance(l, ast.Call) and isinstance(r, ast.Call) and ast.unparse(l.func) == "len" and ast.unparse(r.func) == "len"
                    and len(l.args) == 1 and len(r.args) == 1 and attr_of(l.args[0], self_name) and attr_of(l.args[0], self_name) == attr_of(r.args[0], other_name)):
                len_ok.add(attr_of(l.args[0], self_name)); accepted.append(e); return           # len(self.xs) == len(other.xs)
        if (isinstance(e, ast.Call) and isinstance(e.func, ast.Name) and e.func.id == "all" and len(e.args) == 1 and isinstance(e.args[0], ast.GeneratorExp)
                and len(e.args[0].generators) == 1 and not e.args[0].generators[0].ifs):
            g = e.args[0].generators[0]
            z = g.iter
            if (isinstance(z, ast.Call) and ast.unparse(z.func) == "zip" and len(z.args) == 2 and isinstance(g.target, ast.Tuple) and len(g.target.elts) == 2
                    and all(isinstance(t, ast.Name) for t in g.target.elts)):
                xa, xb = attr_of(z.args[0], self_name), attr_of(z.args[1], other_name)
                m, t = g.target.elts[0].id, g.target.elts[1].id
                elt = ast.unparse(e.args[0].elt)
                if xa and xa == xb and elt in (f"{m} == {t}", f"{m} is {t} or {m} == {t}"):
                    zipped.add(xa); reads.append(xa); accepted.append(e); return       # element-wise equality (needs the length check too)
        raise Untranslatable(f"{cls.__name__}.__eq__: conjunct `{ast.unparse(e)[:70]}` is not a pairwise comparison of the same attribute of self and other")

    def walk_body(stmts):
        for st in stmts:
            if isinstance(st, ast.Expr) and isinstance(st.value, ast.Constant):
                continue
            if isinstance(st, ast.Return):
                if st.value is not None:
                    conjunct(st.value)
                continue
            if isinstance(st, ast.If):
                t = st.test
                if isinstance(t, ast.UnaryOp) and isinstance(t.op, ast.Not):
                    t = t.operand
                if not (isinstance(t, ast.Call) and isinstance(t.func, ast.Name) and t.func.id == "isinstance"):
                    raise Untranslatable(f"{cls.__name__}.__eq__: `if` on something other than isinstance(other, ...)")
                walk_body(st.body)
                walk_body(st.orelse)
                continue
            raise Untranslatable(f"{cls.__name__}.__eq__: statement {type(st).__name__}")

    walk_body(f.body)
    if zipped - len_ok:
        raise Untranslatable(f"{cls.__name__}.__eq__ compares {sorted(zipped - len_ok)} element-wise over zip() without comparing the lengths")
    # every attribute read on self must sit inside one of the accepted comparisons
    inside = set()
    for e in accepted:
        for n in ast.walk(e):
            inside.add(id(n))
    for n in ast.walk(f):
        if isinstance(n, ast.Attribute) and isinstance(n.value, ast.Name) and n.value.id == self_name and id(n) not in inside:
            raise Untranslatable(f"{cls.__name__}.__eq__ uses self.{n.attr} outside a pairwise comparison with other.{n.attr}")
    out = []
    for a_ in reads:
        if a_ not in out:
            out.append(a_)
    return out


def main():
    src = inspect.getsource(model)
    tree = ast.parse(src)
    tree_classes = {n.name: n for n in tree.body if isinstance(n, ast.ClassDef)}
    funcs = {n.name: n for n in tree.body if isinstance(n, ast.FunctionDef)}
    out = ["-- generated by tools/extract/x_loader.py", "import LspVerif.Core.Loader", "open LspVerif LspVerif.Loader", "namespace Gen", ""]
    cls_entries = []
    for name, cls in vars(model).items():
        if isinstance(cls, type) and attrs.has(cls) and cls.__module__ == model.__name__:
            fields = [f.name for f in attrs.fields(cls) if f.name != "id_"]
            required = [f.name for f in attrs.fields(cls) if f.default is attrs.NOTHING and f.name != "id_"]
            reads = eq_reads(cls, tree_classes)
            cls_entries.append(f"{{ name := {lean_name(name)}, fields := {lean_list(lean_name(x) for x in fields)}, "
                               f"required := {lean_list(lean_name(x) for x in required)}, eqReads := {lean_list(lean_name(x) for x in reads)} }}")

    def with_callees(f, table, seen=None):
        """the function node and, transitively, the module-level helper functions it calls (extracting shared code into helpers
        must not hide what the loader does)"""
        seen = seen if seen is not None else []
        if f is None or f in seen:
            return seen
        seen.append(f)
        for n in ast.walk(f):
            if isinstance(n, ast.Call) and isinstance(n.func, ast.Name) and n.func.id in table:
                with_callees(table[n.func.id], table, seen)
        return seen

    def lut_of(fn_name):
        f = funcs.get(fn_name)
        pairs = []
        if f is None:
            return pairs
        for n in [x for g in with_callees(f, funcs) for x in ast.walk(g)]:
            if isinstance(n, ast.Dict):
                for k, v in zip(n.keys, n.values):
                    if isinstance(k, ast.Constant) and isinstance(k.value, str) and isinstance(v, ast.Name):
                        pairs.append((k.value, v.id))
        return pairs

    kinds = lut_of("convert_to_lsp_type")
    mk = funcs.get("convert_map_key")
    mapkinds = []
    if mk is not None:
        for n in ast.walk(mk):
            if isinstance(n, ast.Compare) and isinstance(n.comparators[0], ast.Constant) and isinstance(n.comparators[0].value, str):
                mapkinds.append(n.comparators[0].value)
    merge = []
    cm = funcs.get("create_lsp_model")
    if cm is None:
        raise Untranslatable("create_lsp_model not found")
    order = 0
    for g in with_callees(cm, funcs):
        for n in ast.walk(g):
            if (isinstance(n, ast.Call) and isinstance(n.func, ast.Attribute) and n.func.attr == "extend"
                    and isinstance(n.func.value, ast.Attribute) and isinstance(n.args[0], ast.Attribute)):
                if n.func.value.attr != n.args[0].attr:
                    raise Untranslatable("create_lsp_model extends a list with a different list")
                merge.append((order, n.lineno, n.func.value.attr))
            # for section in SECTIONS: getattr(a, section).extend(getattr(b, section))   with SECTIONS a constant tuple of names
            if isinstance(n, ast.For) and isinstance(n.target, ast.Name):
                it = n.iter
                names = None
                if isinstance(it, ast.Name) and isinstance(getattr(model, it.id, None), (tuple, list)) and all(isinstance(x, str) for x in getattr(model, it.id)):
                    names = list(getattr(model, it.id))
                elif isinstance(it, (ast.Tuple, ast.List)) and all(isinstance(e, ast.Constant) and isinstance(e.value, str) for e in it.elts):
                    names = [e.value for e in it.elts]
                if names is None:
                    continue
                for c in ast.walk(n):
                    if (isinstance(c, ast.Call) and isinstance(c.func, ast.Attribute) and c.func.attr == "extend" and isinstance(c.func.value, ast.Call)
                            and ast.unparse(c.func.value.func) == "getattr" and len(c.args) == 1 and isinstance(c.args[0], ast.Call)
                            and ast.unparse(c.args[0].func) == "getattr"):
                        va, vb = c.func.value.args[1], c.args[0].args[1]
                        if not (isinstance(va, ast.Name) and isinstance(vb, ast.Name) and va.id == vb.id == n.target.id):
                            raise Untranslatable("create_lsp_model extends a list with a different list")
                        for k, nm in enumerate(names):
                            merge.append((order, n.lineno * 1000 + k, nm))
        order += 1
    merge = [a for _, _, a in sorted(merge)]
    # order of events in __main__.main
    msrc = (REPO / "generator/__main__.py").read_text()
    mtree = ast.parse(msrc)
    mainf = next(n for n in mtree.body if isinstance(n, ast.FunctionDef) and n.name == "main")
    mfuncs = {n.name: n for n in mtree.body if isinstance(n, ast.FunctionDef)}
    events = []
    expanding = []

    def visit(stmts, in_loop):
        for s in stmts:
            for n in ast.walk(s) if not isinstance(s, (ast.For, ast.While, ast.Try, ast.If, ast.With)) else []:
                if isinstance(n, ast.Call):
                    txt = ast.unparse(n.func)
                    if isinstance(n.func, ast.Name) and n.func.id in mfuncs and n.func.id != "main" and n.func.id not in expanding:
                        # a helper of __main__: what it does happens here (arguments are evaluated first: ast.walk order is
                        # outer-before-inner, so nested helper calls in the arguments are expanded right after; the three events
                        # of interest never occur in argument position of one another in practice, and the obligation only needs
                        # validate < create < generate)
                        expanding.append(n.func.id)
                        inner_args = [a for a in n.args if any(isinstance(x, ast.Call) and isinstance(x.func, ast.Name) and x.func.id in mfuncs for x in ast.walk(a))]
                        for a in inner_args:
                            visit([ast.Expr(a)], in_loop)
                        visit(mfuncs[n.func.id].body, in_loop)
                        expanding.pop()
                        continue
                    if txt.endswith("jsonschema.validate") or txt == "validate":
                        events.append("validate-each-file" if in_loop else "validate-once")
                    elif txt.endswith("create_lsp_model"):
                        events.append("create")
                    elif txt.endswith(".generate"):
                        events.append("generate")
            if isinstance(s, (ast.For, ast.While)):
                visit(s.body, True)
            elif isinstance(s, ast.Try):
                visit(s.body, in_loop)
                for h in s.handlers:
                    visit(h.body, in_loop)
            elif isinstance(s, (ast.If, ast.With)):
                visit(s.body, in_loop)
                visit(getattr(s, "orelse", []), in_loop)

    visit(mainf.body, False)
    out.append(f"def spec : LoaderSpec := {{")
    out.append(f"  classes := {lean_list(cls_entries)},")
    out.append(f"  kinds := {lean_list('(' + lean_name(k) + ', ' + lean_name(v) + ')' for k, v in kinds)},")
    out.append(f"  mapKeyKinds := {lean_list('(' + lean_name(k) + ', ' + lean_name(k) + ')' for k in mapkinds)},")
    out.append(f"  mergeLists := {lean_list(lean_name(x) for x in merge)},")
    out.append(f"  mainOrder := {lean_list(lean_name(x) for x in events)} }}")
    # the schema: object definitions and the kind constants
    schema = json.load(open(REPO / "generator/lsp.schema.json"))
    defs = []
    for n, d in schema["definitions"].items():
        if d.get("type") == "object":
            cn = SCHEMA_TO_CLASS.get(n, n)
            defs.append(f"({lean_name(n)}, {lean_name(cn)}, {lean_list(lean_name(p) for p in d.get('properties', {}))}, {lean_list(lean_name(p) for p in d.get('required', []))})")
    out.append(f"def schemaDefs : List (Name × Name × List Name × List Name) := {lean_list(defs)}")
    out.append(f"def schemaKinds : List Name := {lean_list(lean_name(k) for k in schema['definitions']['TypeKind']['enum'])}")
    out.append("end Gen")
    print("\n".join(out))


if __name__ == "__main__":
    try:
        main()
    except Untranslatable as e:
        print(f"UNTRANSLATABLE: {e}", file=sys.stderr)
        sys.exit(3)
