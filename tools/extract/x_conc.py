"""x_conc: the once-only section `_resolve_forward_references` of lsprotocol/_hooks.py
-> Lean `Gen.shape : Conc.Shape` (module GenConc).  Pattern translation of a 15-line function;
anything outside the recognised shape prints UNTRANSLATABLE and exits 3."""
import ast
import inspect
import sys
import threading

args = sys.argv[1:]
if "--pkgdir" in args:
    sys.path.insert(0, args[args.index("--pkgdir") + 1])
from lsprotocol import _hooks  # noqa: E402


class Untranslatable(Exception):
    pass


def is_flag(e, flag):
    return isinstance(e, ast.Name) and e.id == flag


def main():
    fn = getattr(_hooks, "_resolve_forward_references", None)
    if fn is None:
        raise Untranslatable("_resolve_forward_references not found")
    # register_hooks must call it before registering anything
    rh = ast.parse(inspect.getsource(_hooks.register_hooks)).body[0]
    first = next((s for s in rh.body if not (isinstance(s, ast.Expr) and isinstance(s.value, ast.Constant))), None)
    if not (isinstance(first, ast.Expr) and isinstance(first.value, ast.Call) and ast.unparse(first.value.func) == "_resolve_forward_references"):
        raise Untranslatable("register_hooks does not start with _resolve_forward_references()")
    f = ast.parse(inspect.getsource(fn)).body[0]
    body = [s for s in f.body if not (isinstance(s, ast.Expr) and isinstance(s.value, ast.Constant))]
    flag = None
    if body and isinstance(body[0], ast.Global):
        if len(body[0].names) != 1:
            raise Untranslatable("several globals")
        flag = body[0].names[0]
        body = body[1:]
    if flag is None:
        raise Untranslatable("no global flag")
    fast = False
    if body and isinstance(body[0], ast.If) and is_flag(body[0].test, flag) and len(body[0].body) == 1 and isinstance(body[0].body[0], ast.Return) and not body[0].orelse:
        fast = True
        body = body[1:]
    locked = False
    if len(body) == 1 and isinstance(body[0], ast.With):
        w = body[0]
        if len(w.items) != 1 or not isinstance(w.items[0].context_expr, ast.Name):
            raise Untranslatable("with-item is not a plain name")
        lk = getattr(_hooks, w.items[0].context_expr.id, None)
        if not isinstance(lk, (type(threading.Lock()), type(threading.RLock()))):
            raise Untranslatable("with-item is not a threading lock")
        locked = True
        body = w.body
    # the once-only block: either `if not flag: <block>` or `if flag: return` followed by <block> (same meaning)
    if len(body) == 1 and isinstance(body[0], ast.If) and not body[0].orelse and isinstance(body[0].test, ast.UnaryOp) \
            and isinstance(body[0].test.op, ast.Not) and is_flag(body[0].test.operand, flag):
        inner = body[0].body
        recheck = locked
    elif body and isinstance(body[0], ast.If) and is_flag(body[0].test, flag) and not body[0].orelse \
            and len(body[0].body) == 1 and isinstance(body[0].body[0], ast.Return) and body[0].body[0].value is None:
        inner = body[1:]
        recheck = locked
    elif not locked and not fast:
        raise Untranslatable("section is not guarded by the flag")
    else:
        # no re-check of the flag inside the section
        inner = body
        recheck = False
        if not locked:
            recheck = False
    inner = [s for s in inner if not isinstance(s, ast.FunctionDef) and not (isinstance(s, ast.Expr) and isinstance(s.value, ast.Constant))]
    if len(inner) < 2:
        raise Untranslatable("guarded block is too short (expected [snapshot,] resolve loop, flag assignment)")
    setf = inner[-1]
    if not (isinstance(setf, ast.Assign) and len(setf.targets) == 1 and is_flag(setf.targets[0], flag) and isinstance(setf.value, ast.Constant) and setf.value.value is True):
        raise Untranslatable("the last statement of the section does not set the flag")
    loops = [s for s in inner[:-1] if isinstance(s, ast.For)]
    if len(loops) != 1 or "resolve_types" not in ast.unparse(loops[0]):
        raise Untranslatable("the section does not consist of one resolve loop before the flag assignment")
    loop = loops[0]
    pre = inner[: inner.index(loop)]
    if inner.index(loop) != len(inner) - 2:
        raise Untranslatable("statements between the resolve loop and the flag assignment")
    for st in ast.walk(loop):
        if isinstance(st, ast.Assign) and any(is_flag(t, flag) for t in st.targets):
            raise Untranslatable("the flag is assigned inside the resolve loop")
    locals_ = {}
    for st in pre:
        if isinstance(st, ast.Assign) and len(st.targets) == 1 and isinstance(st.targets[0], ast.Name):
            locals_[st.targets[0].id] = st.value
        else:
            raise Untranslatable(f"statement before the resolve loop: {ast.unparse(st)[:60]}")

    def materialised_expr(e, depth=0):
        """is the iterated value a concrete list / tuple built BEFORE the loop starts (so that resolve_types, which adds keys to
        the registry, cannot disturb the iteration)?"""
        if depth > 4:
            raise Untranslatable("iterable defined through too many helpers")
        if isinstance(e, ast.Name) and e.id in locals_:
            return materialised_expr(locals_[e.id], depth + 1)
        if isinstance(e, (ast.ListComp, ast.List, ast.Tuple)):
            return True
        if isinstance(e, ast.Call) and isinstance(e.func, ast.Name) and e.func.id in ("list", "tuple", "sorted"):
            return True
        if isinstance(e, ast.Call) and isinstance(e.func, ast.Name) and inspect.isfunction(getattr(_hooks, e.func.id, None)) and not e.args and not e.keywords:
            h = ast.parse(inspect.getsource(getattr(_hooks, e.func.id))).body[0]
            hb = [s for s in h.body if not (isinstance(s, ast.Expr) and isinstance(s.value, ast.Constant))]
            if len(hb) == 1 and isinstance(hb[0], ast.Return) and hb[0].value is not None:
                return materialised_expr(hb[0].value, depth + 1)
            raise Untranslatable(f"helper {e.func.id} is not a single return")
        if isinstance(e, (ast.GeneratorExp,)) or (isinstance(e, ast.Call) and ast.unparse(e.func).split(".")[-1] in ("filter", "map", "items", "values", "keys", "iter")):
            return False
        if isinstance(e, ast.Attribute) or isinstance(e, ast.Name):
            return False   # the registry itself / an alias of it: iterated live
        raise Untranslatable(f"iterable {ast.unparse(e)[:60]}")

    def registry_src(e, depth=0):
        src = ast.unparse(e)
        if isinstance(e, ast.Name) and e.id in locals_:
            return registry_src(locals_[e.id], depth + 1)
        if isinstance(e, ast.Call) and isinstance(e.func, ast.Name) and inspect.isfunction(getattr(_hooks, e.func.id, None)) and depth < 4:
            return inspect.getsource(getattr(_hooks, e.func.id))
        return src
    if "ALL_TYPES_MAP" not in registry_src(loop.iter):
        raise Untranslatable("the resolve loop does not range over the registry ALL_TYPES_MAP")
    materialised = materialised_expr(loop.iter)
    b = lambda x: "true" if x else "false"  # noqa: E731
    print("-- generated by tools/extract/x_conc.py\nimport LspVerif.Core.Conc\nopen LspVerif.Conc\nnamespace Gen")
    print(f"def shape : Shape := {{ fastPath := {b(fast)}, locked := {b(locked)}, recheck := {b(recheck)}, materialised := {b(materialised)} }}")
    print("end Gen")


if __name__ == "__main__":
    try:
        main()
    except Untranslatable as e:
        print(f"UNTRANSLATABLE: {e}", file=sys.stderr)
        sys.exit(3)
