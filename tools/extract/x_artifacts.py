"""x_artifacts (C05): run the python and rust plugins of the *current* tree into a scratch
directory, normalise the emitted and the committed files the way the build does, split both into
top-level items and print JSON {py:{committed:[...],fresh:[...]}, rust:{...}} of normalised item
texts.  Run with the repo's interpreter; scratch is removed before returning.

Python normalisation: ast of each top-level statement, docstring whitespace collapsed (the
formatter ruff re-wraps nothing else that survives `ast`).  Rust: `rustfmt --edition 2021`, the
formatter the build applies, then items = brace-balanced top-level chunks with their attributes.
"""
import ast
import json
import os
import pathlib
import re
import shutil
import subprocess
import sys
import tempfile

REPO = pathlib.Path(os.environ.get("VERIF_REPO", "/repo"))


class Norm(ast.NodeTransformer):
    def visit_Constant(self, node):
        if isinstance(node.value, str):
            return ast.copy_location(ast.Constant(" ".join(node.value.split())), node)
        return node


def py_items(text):
    tree = ast.parse(text)
    out = []
    for st in tree.body:
        st = Norm().visit(st)
        out.append(ast.dump(st, include_attributes=False))
    return out


def rust_items(text):
    items, cur, depth = [], [], 0
    for line in text.splitlines():
        if not line.strip() and depth == 0:
            continue
        cur.append(line.rstrip())
        code = re.sub(r'"(\\.|[^"\\])*"', '""', line)
        code = code.split("//")[0]
        depth += code.count("{") - code.count("}")
        s = line.strip()
        if depth == 0 and (s.endswith(";") or s.endswith("}")) and not s.startswith(("#", "//")):
            items.append("\n".join(cur))
            cur = []
    if cur:
        items.append("\n".join(cur))
    return items


def run_plugin(plugin, out, hashseed=None):
    env = dict(os.environ)
    if hashseed is not None:
        env["PYTHONHASHSEED"] = str(hashseed)
    p = subprocess.run([sys.executable, "-B", "-m", "generator", "--plugin", plugin, "--output-dir", str(out), "--test-dir", str(out / "_tests")],
                       cwd=str(REPO), capture_output=True, text=True, env=env)
    return p.returncode, (p.stdout + p.stderr)[-2000:]


def hashseed_variants(d, seeds, primary):
    """The committed file must be what the generator emits under every hash seed: run both plugins under
    each extra seed and report the first item where the emitted text differs from the primary run."""
    from concurrent.futures import ThreadPoolExecutor
    rel = {"python": "lsprotocol/types.py", "rust": "lsprotocol/src/lib.rs"}

    def one(job):
        plugin, seed = job
        out = d / f"hs-{plugin}-{seed}"
        rc, log = run_plugin(plugin, out, seed)
        if rc != 0:
            return {"plugin": plugin, "seed": seed, "error": log[-600:]}
        txt = (out / rel[plugin]).read_text(encoding="utf-8")
        shutil.rmtree(out, ignore_errors=True)
        if txt == primary[plugin]:
            return None
        a = py_items(primary[plugin]) if plugin == "python" else rust_items(primary[plugin])
        b = py_items(txt) if plugin == "python" else rust_items(txt)
        i = next((k for k, (x, y) in enumerate(zip(a, b)) if x != y), min(len(a), len(b)))
        return {"plugin": plugin, "seed": seed, "index": i, "primary_item": a[i][:1500] if i < len(a) else None,
                "variant_item": b[i][:1500] if i < len(b) else None}

    jobs = [(pl, s) for s in seeds for pl in ("python", "rust") if pl in primary]
    with ThreadPoolExecutor(max_workers=8) as ex:
        return [r for r in ex.map(one, jobs) if r]


def rustfmt(path):
    p = subprocess.run(["rustfmt", "--edition", "2021", "--emit", "stdout", str(path)], capture_output=True, text=True)
    if p.returncode != 0:
        return None, p.stderr[-1500:]
    txt = p.stdout
    # `--emit stdout` prefixes the file name line
    lines = txt.split("\n")
    if lines and lines[0].strip().endswith(":") and str(path) in lines[0]:
        lines = lines[2:] if len(lines) > 1 and not lines[1].strip() else lines[1:]
    return "\n".join(lines), ""


def main():
    d = pathlib.Path(tempfile.mkdtemp(prefix="lspverif-c05-"))
    res = {"errors": []}
    primary = {}
    seeds = [int(x) for x in os.environ.get("VERIF_HASHSEEDS", "").split(",") if x.strip()]
    try:
        rc, log = run_plugin("python", d / "py")
        committed_py = (REPO / "packages/python/lsprotocol/types.py").read_text(encoding="utf-8")
        if rc != 0:
            res["errors"].append("python plugin failed: " + log)
        else:
            fresh_py = (d / "py/lsprotocol/types.py").read_text(encoding="utf-8")
            primary["python"] = fresh_py
            res["py"] = {"committed": py_items(committed_py), "fresh": py_items(fresh_py)}
        rc, log = run_plugin("rust", d / "rs")
        committed_rs_path = REPO / "packages/rust/lsprotocol/src/lib.rs"
        if rc != 0:
            res["errors"].append("rust plugin failed: " + log)
        else:
            primary["rust"] = (d / "rs/lsprotocol/src/lib.rs").read_text(encoding="utf-8")
            fresh, err = rustfmt(d / "rs/lsprotocol/src/lib.rs")
            tmp = d / "committed_lib.rs"
            shutil.copy(committed_rs_path, tmp)
            comm_fmt, err2 = rustfmt(tmp)
            comm_raw = committed_rs_path.read_text(encoding="utf-8")
            if fresh is None or comm_fmt is None:
                res["errors"].append("rustfmt failed: " + (err or err2))
            else:
                res["rust"] = {"committed": rust_items(comm_raw), "fresh": rust_items(fresh),
                               "committed_is_formatted": comm_fmt.strip() == comm_raw.strip(),
                               "bytes_identical": fresh.strip() == comm_raw.strip()}
        res["hashseeds"] = seeds
        res["hashseed_variants"] = hashseed_variants(d, seeds, primary) if seeds else []
    finally:
        shutil.rmtree(d, ignore_errors=True)
    json.dump(res, sys.stdout)


if __name__ == "__main__":
    main()
