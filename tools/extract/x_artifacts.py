"""x_artifacts (C05): run the python and rust plugins of the *current* tree into a scratch
directory, normalise the emitted and the committed files the way the build does, split both into
top-level items and print JSON {py:{committed:[...],fresh:[...]}, rust:{...}} of normalised item
texts.  Run with the repo's interpreter; scratch is removed before returning.

Python normalisation: ast of each top-level statement, docstring whitespace collapsed (the
formatter ruff re-wraps nothing else that survives `ast`).  Rust: `rustfmt --edition 2021`, the
formatter the build applies, then items = brace-balanced top-level chunks with their attributes.
"""
import ast
import json
import os
import pathlib
import re
import shutil
import subprocess
import sys
import tempfile

REPO = pathlib.Path(os.environ.get("VERIF_REPO", "/repo"))


class Norm(ast.NodeTransformer):
    def visit_Constant(self, node):
        if isinstance(node.value, str):
            return ast.copy_location(ast.Constant(" ".join(node.value.split())), node)
        return node


def py_items(text):
    tree = ast.parse(text)
    out = []
    for st in tree.body:
        st = Norm().visit(st)
        out.append(ast.dump(st, include_attributes=False))
    return out


def rust_items(text):
    items, cur, depth = [], [], 0
    for line in text.splitlines():
        if not line.strip() and depth == 0:
            continue
        cur.append(line.rstrip())
        code = re.sub(r'"(\\.|[^"\\])*"', '""', line)
        code = code.split("//")[0]
        depth += code.count("{") - code.count("}")
        s = line.strip()
        if depth == 0 and (s.endswith(";") or s.endswith("}")) and not s.startswith(("#", "//")):
            items.append("\n".join(cur))
            cur = []
    if cur:
        items.append("\n".join(cur))
    return items


def run_plugin(plugin, out):
    p = subprocess.run([sys.executable, "-B", "-m", "generator", "--plugin", plugin, "--output-dir", str(out), "--test-dir", str(out / "_tests")],
                       cwd=str(REPO), capture_output=True, text=True)
    return p.returncode, (p.stdout + p.stderr)[-2000:]


def rustfmt(path):
    p = subprocess.run(["rustfmt", "--edition", "2021", "--emit", "stdout", str(path)], capture_output=True, text=True)
    if p.returncode != 0:
        return None, p.stderr[-1500:]
    txt = p.stdout
    # `--emit stdout` prefixes the file name line
    lines = txt.split("\n")
    if lines and lines[0].strip().endswith(":") and str(path) in lines[0]:
        lines = lines[2:] if len(lines) > 1 and not lines[1].strip() else lines[1:]
    return "\n".join(lines), ""


def main():
    d = pathlib.Path(tempfile.mkdtemp(prefix="lspverif-c05-"))
    res = {"errors": []}
    try:
        rc, log = run_plugin("python", d / "py")
        committed_py = (REPO / "packages/python/lsprotocol/types.py").read_text(encoding="utf-8")
        if rc != 0:
            res["errors"].append("python plugin failed: " + log)
        else:
            fresh_py = (d / "py/lsprotocol/types.py").read_text(encoding="utf-8")
            res["py"] = {"committed": py_items(committed_py), "fresh": py_items(fresh_py)}
        rc, log = run_plugin("rust", d / "rs")
        committed_rs_path = REPO / "packages/rust/lsprotocol/src/lib.rs"
        if rc != 0:
            res["errors"].append("rust plugin failed: " + log)
        else:
            fresh, err = rustfmt(d / "rs/lsprotocol/src/lib.rs")
            tmp = d / "committed_lib.rs"
            shutil.copy(committed_rs_path, tmp)
            comm_fmt, err2 = rustfmt(tmp)
            comm_raw = committed_rs_path.read_text(encoding="utf-8")
            if fresh is None or comm_fmt is None:
                res["errors"].append("rustfmt failed: " + (err or err2))
            else:
                res["rust"] = {"committed": rust_items(comm_raw), "fresh": rust_items(fresh),
                               "committed_is_formatted": comm_fmt.strip() == comm_raw.strip(),
                               "bytes_identical": fresh.strip() == comm_raw.strip()}
    finally:
        shutil.rmtree(d, ignore_errors=True)
    json.dump(res, sys.stdout)


if __name__ == "__main__":
    main()
